//! Verification-only struct definitions (property C16): one struct that instantiates every field shape the derive
//! macros FromDeb822 / ToDeb822 distinguish - mandatory / optional, default (= Rust identifier) / configured key,
//! FromStr+Display / custom deserialiser+serialiser, on String, number, flag, enumeration and list types.
//! The shipped structs do not combine all of these (no String field has a custom deserialiser, no field uses its
//! Rust identifier as the key together with a custom function, ...). The macros are expanded by rustc on this crate
//! exactly as on the shipped crates (tools/expand.sh) and the expansion is verified against the contract generated
//! from the definitions below (tools/gen_derive.py); the bounded stand-in (vwit C16) runs the same struct.
use deb822_lossless::{FromDeb822, ToDeb822};

fn ser_tag(s: &String) -> String {
    format!("<{}>", s)
}
fn de_tag(s: &str) -> Result<String, String> {
    s.strip_prefix('<')
        .and_then(|t| t.strip_suffix('>'))
        .map(|t| t.to_string())
        .ok_or_else(|| format!("not tagged: {}", s))
}
fn ser_words(l: &Vec<String>) -> String {
    l.join(" ")
}
fn de_words(s: &str) -> Result<Vec<String>, String> {
    Ok(s.split_whitespace().map(|x| x.to_string()).collect())
}
fn ser_flag(b: &bool) -> String {
    if *b { "yes".to_string() } else { "no".to_string() }
}
fn de_flag(s: &str) -> Result<bool, String> {
    match s {
        "yes" => Ok(true),
        "no" => Ok(false),
        _ => Err(format!("neither yes nor no: {}", s)),
    }
}
fn ser_hex(n: &u32) -> String {
    format!("0x{:x}", n)
}
fn de_hex(s: &str) -> Result<u32, String> {
    let t = s.strip_prefix("0x").ok_or_else(|| format!("no 0x: {}", s))?;
    u32::from_str_radix(t, 16).map_err(|e| e.to_string())
}

/// an enumeration with hand-written FromStr / Display
#[derive(Debug, Clone, Copy, PartialEq, Eq)]
pub enum Level {
    /// low
    Low,
    /// high
    High,
}
impl std::str::FromStr for Level {
    type Err = String;
    fn from_str(s: &str) -> Result<Self, String> {
        match s {
            "low" => Ok(Level::Low),
            "high" => Ok(Level::High),
            _ => Err(format!("unknown level: {}", s)),
        }
    }
}
impl std::fmt::Display for Level {
    fn fmt(&self, f: &mut std::fmt::Formatter<'_>) -> std::fmt::Result {
        f.write_str(match self {
            Level::Low => "low",
            Level::High => "high",
        })
    }
}

/// every field shape once
#[derive(Debug, Clone, PartialEq, Eq, FromDeb822, ToDeb822)]
pub struct Shapes {
    /// mandatory, key = identifier, String
    pub plain: String,
    /// mandatory, configured key, String
    #[deb822(field = "Renamed")]
    pub renamed: String,
    /// optional, key = identifier, String
    pub opt_plain: Option<String>,
    /// optional, configured key, String
    #[deb822(field = "Opt-Renamed")]
    pub opt_renamed: Option<String>,
    /// mandatory number through FromStr / Display
    #[deb822(field = "Num")]
    pub num: u32,
    /// optional number through FromStr / Display
    #[deb822(field = "Opt-Num")]
    pub opt_num: Option<u32>,
    /// mandatory enumeration through FromStr / Display
    #[deb822(field = "Level")]
    pub level: Level,
    /// optional enumeration, key = identifier
    pub opt_level: Option<Level>,
    /// mandatory String with custom functions
    #[deb822(field = "Tag", serialize_with = ser_tag, deserialize_with = de_tag)]
    pub tag: String,
    /// optional String with custom functions
    #[deb822(field = "Opt-Tag", serialize_with = ser_tag, deserialize_with = de_tag)]
    pub opt_tag: Option<String>,
    /// mandatory String with custom functions, key = identifier
    #[deb822(serialize_with = ser_tag, deserialize_with = de_tag)]
    pub idtag: String,
    /// mandatory list with custom functions
    #[deb822(field = "Words", serialize_with = ser_words, deserialize_with = de_words)]
    pub words: Vec<String>,
    /// optional list with custom functions
    #[deb822(field = "Opt-Words", serialize_with = ser_words, deserialize_with = de_words)]
    pub opt_words: Option<Vec<String>>,
    /// mandatory flag with custom functions
    #[deb822(field = "Flag", serialize_with = ser_flag, deserialize_with = de_flag)]
    pub flag: bool,
    /// optional flag with custom functions
    #[deb822(field = "Opt-Flag", serialize_with = ser_flag, deserialize_with = de_flag)]
    pub opt_flag: Option<bool>,
    /// optional flag through FromStr / Display (true / false)
    #[deb822(field = "Opt-Bool")]
    pub opt_bool: Option<bool>,
    /// mandatory number with custom functions
    #[deb822(field = "Hex", serialize_with = ser_hex, deserialize_with = de_hex)]
    pub hex: u32,
    /// optional number with only a custom deserialiser (written through Display)
    #[deb822(field = "Opt-Dec", deserialize_with = de_dec)]
    pub opt_dec: Option<u32>,
    /// mandatory String with only a custom serialiser (read through FromStr)
    #[deb822(field = "Upper", serialize_with = ser_same)]
    pub upper: String,
}
fn de_dec(s: &str) -> Result<u32, String> {
    s.parse::<u32>().map_err(|e| e.to_string())
}
fn ser_same(s: &String) -> String {
    s.clone()
}
