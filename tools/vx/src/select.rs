//! Item selection (by selector string) and emission.

use crate::printer::{Markers, Printer};
use crate::rules::{self, Config, Fired};
use crate::vspec::{Anchor, Block as VBlock, Contracts, ItemContract};
use crate::die;
use proc_macro2::Span;
use quote::{quote, ToTokens};
use serde_json::{json, Value};
use syn::spanned::Spanned;
use syn::visit_mut::VisitMut;
use syn::{ImplItem, Item, Stmt};

thread_local! {
    static KEEP_TRAIT: std::cell::Cell<bool> = std::cell::Cell::new(false);
    static STUB: std::cell::Cell<bool> = std::cell::Cell::new(false);
}

pub enum Group {
    Free { selector: String, item: Item },
    Impl {
        header: syn::ItemImpl, // items emptied
        assoc_types: Vec<syn::ImplItemType>,
        methods: Vec<(String, syn::ImplItemFn)>,
    },
}

fn type_last_ident(t: &syn::Type) -> Option<String> {
    match t {
        syn::Type::Path(p) => p.path.segments.last().map(|s| s.ident.to_string()),
        syn::Type::Reference(r) => type_last_ident(&r.elem),
        syn::Type::Tuple(_) => Some(rules::norm(&t.to_token_stream().to_string())),
        syn::Type::Paren(p) => type_last_ident(&p.elem),
        _ => None,
    }
}

fn item_ident(i: &Item) -> Option<String> {
    match i {
        Item::Fn(f) => Some(f.sig.ident.to_string()),
        Item::Struct(s) => Some(s.ident.to_string()),
        Item::Enum(s) => Some(s.ident.to_string()),
        Item::Type(s) => Some(s.ident.to_string()),
        Item::Const(s) => Some(s.ident.to_string()),
        Item::Static(s) => Some(s.ident.to_string()),
        Item::Trait(s) => Some(s.ident.to_string()),
        Item::Mod(s) => Some(s.ident.to_string()),
        _ => None,
    }
}

fn item_attrs(i: &Item) -> &[syn::Attribute] {
    match i {
        Item::Fn(f) => &f.attrs,
        Item::Struct(s) => &s.attrs,
        Item::Enum(s) => &s.attrs,
        Item::Type(s) => &s.attrs,
        Item::Const(s) => &s.attrs,
        Item::Static(s) => &s.attrs,
        Item::Trait(s) => &s.attrs,
        Item::Impl(s) => &s.attrs,
        Item::Mod(s) => &s.attrs,
        _ => &[],
    }
}

/// the items directly inside a container fn / mod
fn children(i: &Item) -> Vec<Item> {
    match i {
        Item::Fn(f) => f
            .block
            .stmts
            .iter()
            .filter_map(|s| if let Stmt::Item(it) = s { Some(it.clone()) } else { None })
            .collect(),
        Item::Mod(m) => m.content.as_ref().map(|c| c.1.clone()).unwrap_or_default(),
        _ => Vec::new(),
    }
}

struct ImplSel {
    trait_: Option<String>, // normalized trait text or last ident
    ty: String,
    method: Option<String>, // None = whole impl / all methods
}

fn parse_last(seg: &str) -> (Option<ImplSel>, Option<String>) {
    let s = seg.trim();
    if let Some(rest) = s.strip_prefix("impl ") {
        // impl Trait for Type[::method]
        let (tr, ty) = match rest.find(" for ") {
            Some(p) => (rest[..p].trim().to_string(), rest[p + 5..].trim().to_string()),
            None => die(&format!("bad selector `{}`", seg)),
        };
        let (ty, method) = match ty.rfind("::") {
            Some(p) if !ty[p + 2..].contains('>') && !ty[p + 2..].contains(')') => {
                (ty[..p].to_string(), Some(ty[p + 2..].to_string()))
            }
            _ => (ty, None),
        };
        return (
            Some(ImplSel { trait_: Some(rules::norm(&tr)), ty: rules::norm(&ty), method }),
            None,
        );
    }
    if let Some(p) = s.rfind("::") {
        let ty = s[..p].to_string();
        let m = s[p + 2..].to_string();
        let method = if m == "*" { None } else { Some(m) };
        return (Some(ImplSel { trait_: None, ty: rules::norm(&ty), method }), None);
    }
    (None, Some(s.to_string()))
}

fn impl_matches(im: &syn::ItemImpl, sel: &ImplSel) -> bool {
    let ty_full = rules::norm(&im.self_ty.to_token_stream().to_string());
    let ty_last = type_last_ident(&im.self_ty).unwrap_or_default();
    if !(ty_full == sel.ty || ty_last == sel.ty) {
        return false;
    }
    match (&im.trait_, &sel.trait_) {
        (None, None) => true,
        (Some((_, path, _)), Some(want)) => {
            let full = rules::norm(&path.to_token_stream().to_string());
            let last = path.segments.last().map(|s| s.ident.to_string()).unwrap_or_default();
            let last_with_args = path
                .segments
                .last()
                .map(|s| rules::norm(&s.to_token_stream().to_string()))
                .unwrap_or_default();
            &full == want || &last == want || &last_with_args == want
        }
        _ => false,
    }
}

pub fn extract(file: &syn::File, sels: &[String], rel: &str, soft: bool) -> Vec<Group> {
    let mut groups: Vec<Group> = Vec::new();
    // impl groups are merged by (container path, impl index)
    let mut impl_index: Vec<(String, usize)> = Vec::new(); // parallel to groups that are Impl: key

    for sel in sels {
        let parts: Vec<&str> = sel.split('/').collect();
        let mut scope: Vec<Item> = file.items.clone();
        let mut prefix = String::new();
        for c in &parts[..parts.len() - 1] {
            // a container may also be a method: `Type::method` or `impl Trait for Type::method`
            if c.contains("::") || c.starts_with("impl ") {
                let (isel, _) = parse_last(c);
                let mut inner: Option<Vec<Item>> = None;
                if let Some(isel) = isel {
                    for it in scope.iter() {
                        if let Item::Impl(im) = it {
                            if rules::has_cfg_test_or_feature(&im.attrs) || !impl_matches(im, &isel) {
                                continue;
                            }
                            for ii in im.items.iter() {
                                if let ImplItem::Fn(f) = ii {
                                    if isel.method.as_deref() == Some(f.sig.ident.to_string().as_str()) {
                                        inner = Some(
                                            f.block
                                                .stmts
                                                .iter()
                                                .filter_map(|s| if let Stmt::Item(it) = s { Some(it.clone()) } else { None })
                                                .collect(),
                                        );
                                    }
                                }
                            }
                        }
                    }
                }
                match inner {
                    Some(ch) => {
                        scope = ch;
                        prefix.push_str(c);
                        prefix.push('/');
                        continue;
                    }
                    None => {
                        if soft {
                            return Vec::new();
                        }
                        die(&format!("{}: container `{}` of selector `{}` not found (lost anchor)", rel, c, sel))
                    }
                }
            }
            let found = scope
                .iter()
                .find(|i| item_ident(i).as_deref() == Some(*c) && !rules::has_cfg_test_or_feature(item_attrs(i)));
            match found {
                Some(i) => {
                    let ch = children(i);
                    scope = ch;
                    prefix.push_str(c);
                    prefix.push('/');
                }
                None => {
                    if soft {
                        return Vec::new();
                    }
                    die(&format!("{}: container `{}` of selector `{}` not found (lost anchor)", rel, c, sel))
                }
            }
        }
        let (isel, name) = parse_last(parts[parts.len() - 1]);
        if let Some(name) = name {
            let found: Vec<&Item> = scope
                .iter()
                .filter(|i| item_ident(i).as_deref() == Some(name.as_str()) && !rules::has_cfg_test_or_feature(item_attrs(i)))
                .collect();
            if found.len() != 1 {
                if soft {
                    continue;
                }
                die(&format!("{}: selector `{}` matches {} items (lost anchor)", rel, sel, found.len()));
            }
            groups.push(Group::Free { selector: sel.clone(), item: found[0].clone() });
            impl_index.push((String::new(), usize::MAX));
        } else if let Some(isel) = isel {
            let mut hit = false;
            for (idx, it) in scope.iter().enumerate() {
                if let Item::Impl(im) = it {
                    if rules::has_cfg_test_or_feature(&im.attrs) || !impl_matches(im, &isel) {
                        continue;
                    }
                    let mut methods: Vec<(String, syn::ImplItemFn)> = Vec::new();
                    let mut assoc: Vec<syn::ImplItemType> = Vec::new();
                    for ii in im.items.iter() {
                        match ii {
                            ImplItem::Fn(f) => {
                                if rules::has_cfg_test_or_feature(&f.attrs) {
                                    continue;
                                }
                                let n = f.sig.ident.to_string();
                                if isel.method.as_deref().map(|m| m == n).unwrap_or(true) {
                                    let base = match (&isel.trait_, &im.trait_) {
                                        (Some(_), Some((_, p, _))) => format!(
                                            "{}impl {} for {}::{}",
                                            prefix,
                                            rules::norm(&p.segments.last().unwrap().to_token_stream().to_string()),
                                            type_last_ident(&im.self_ty).unwrap_or_default(),
                                            n
                                        ),
                                        _ => format!("{}{}::{}", prefix, type_last_ident(&im.self_ty).unwrap_or_default(), n),
                                    };
                                    methods.push((base, f.clone()));
                                }
                            }
                            ImplItem::Type(t) => assoc.push(t.clone()),
                            _ => {}
                        }
                    }
                    if methods.is_empty() {
                        continue;
                    }
                    hit = true;
                    let key = (prefix.clone(), idx);
                    if let Some(pos) = impl_index.iter().position(|k| *k == key) {
                        if let Group::Impl { methods: ms, .. } = &mut groups[pos] {
                            for m in methods {
                                if !ms.iter().any(|(s, _)| *s == m.0) {
                                    ms.push(m);
                                }
                            }
                        }
                    } else {
                        let mut header = im.clone();
                        header.items.clear();
                        groups.push(Group::Impl { header, assoc_types: assoc, methods });
                        impl_index.push(key);
                    }
                    if isel.method.is_some() {
                        break;
                    }
                }
            }
            if !hit {
                if soft {
                    continue;
                }
                die(&format!("{}: selector `{}` matches nothing (lost anchor)", rel, sel));
            }
        }
    }
    groups
}

// ------------------------------------------------------------------------------------------

fn line_span<T: Spanned>(t: &T) -> (usize, usize) {
    let s = t.span();
    (s.start().line, s.end().line)
}

fn split_spec(b: &VBlock) -> (Vec<String>, Vec<String>) {
    // (requires-part incl. recommends, decreases-part) — used to build canaries
    let mut req = Vec::new();
    let mut dec = Vec::new();
    let mut mode = 0; // 0 none 1 requires 2 ensures 3 decreases
    for l in &b.lines {
        let t = l.trim_start();
        if t.starts_with("requires") || t.starts_with("recommends") {
            mode = 1;
        } else if t.starts_with("ensures") || t.starts_with("returns") {
            mode = 2;
        } else if t.starts_with("decreases") {
            mode = 3;
        }
        match mode {
            1 => req.push(l.clone()),
            3 => dec.push(l.clone()),
            _ => {}
        }
    }
    (req, dec)
}

#[allow(clippy::too_many_arguments)]
fn emit_fn(
    selector: &str,
    attrs: &[syn::Attribute],
    vis: &syn::Visibility,
    sig: &syn::Signature,
    block: &syn::Block,
    self_err: Option<Vec<(String, syn::Type)>>,
    rel: &str,
    cfg: &Config,
    contract: Option<&ItemContract>,
    pr: &mut Printer,
    fired: &mut Fired,
    canary: bool,
    external_body: bool,
) {
    let in_trait_impl = matches!(vis, syn::Visibility::Inherited) && selector.contains("impl ") && KEEP_TRAIT.with(|k| k.get());
    let mut sig = sig.clone();
    let mut block = block.clone();
    if STUB.with(|k| k.get()) || external_body {
        // auto-stub / the original next to its canary copy: signature (and contract) only. An external_body body is
        // still compiled by rustc, and Verus-only syntax in it (`for x in it: e`, proof blocks) does not compile there.
        block = syn::parse_quote!({ unimplemented!() });
    }
    // a stubbed body keeps the contract's @spec / @attr / @result, not its body-level sections
    let stub_contract: Option<ItemContract> = if STUB.with(|k| k.get()) || external_body {
        contract.map(|c| ItemContract { result: c.result.clone(), attrs: c.attrs.clone(), spec: c.spec.clone(), nocanary: c.nocanary, line: c.line, ..Default::default() })
    } else { None };
    let contract: Option<&ItemContract> = if stub_contract.is_some() { stub_contract.as_ref() } else { contract };
    let mut attrs: Vec<syn::Attribute> = attrs.to_vec();
    rules::filter_attrs(&mut attrs, cfg, false, fired);

    // nested items are hoisted (extracted separately) — drop them from the body
    let before = block.stmts.len();
    block.stmts.retain(|s| !matches!(s, Stmt::Item(_)));
    if block.stmts.len() != before {
        *fired.entry("R-hoist".into()).or_insert(0) += 1;
    }

    // statement-ordinal anchors count the top-level statements of the repository's own text
    {
        let empty0 = ItemContract::default();
        let c0 = contract.unwrap_or(&empty0);
        let mut sa: Vec<(usize, usize)> = c0.inserts.iter().enumerate().filter_map(|(i, (a, _))| if let Anchor::StmtAfter(k) = a { Some((*k, i)) } else { None }).collect();
        sa.sort();
        sa.reverse();
        for (k, i) in sa {
            if k >= block.stmts.len() {
                die(&format!("{}: @insert stmt {} after: the body has {} statements (lost anchor)", selector, k, block.stmts.len()));
            }
            // a tail expression has no statement position after it
            if k == block.stmts.len() - 1 && matches!(block.stmts[k], Stmt::Expr(_, None)) && !matches!(sig.output, syn::ReturnType::Default) {
                die(&format!("{}: @insert stmt {} after: statement {} is the tail expression (lost anchor)", selector, k, k));
            }
            if let Stmt::Expr(_, semi @ None) = &mut block.stmts[k] {
                if !matches!(sig.output, syn::ReturnType::Default) || k + 1 < 1 { } else { *semi = None; }
            }
            block.stmts.insert(k + 1, rules::quote_marker(i));
        }
    }
    // snippet anchors are matched against the repository's own text (before any rewrite rule)
    {
        let empty0 = ItemContract::default();
        let c0 = contract.unwrap_or(&empty0);
        for (i, (anchor, _)) in c0.inserts.iter().enumerate() {
            if let Anchor::After(sn, nth) | Anchor::Before(sn, nth) = anchor {
                let mut si = rules::SnippetInserter {
                    snippet: rules::norm(sn),
                    after: matches!(anchor, Anchor::After(_, _)),
                    marker: i,
                    hits: 0,
                    done: false,
                    nth: *nth,
                };
                let mut sc = rules::SnippetCounter { snippet: rules::norm(sn), count: 0 };
                {
                    use syn::visit::Visit;
                    sc.visit_block(&block);
                }
                match nth {
                    None => {
                        if sc.count != 1 {
                            die(&format!("{}: @insert anchor `{}` matches {} statements (lost anchor)", selector, sn, sc.count));
                        }
                    }
                    Some(n) => {
                        if sc.count <= *n {
                            die(&format!("{}: @insert anchor `{}` #{}: only {} matches (lost anchor)", selector, sn, n, sc.count));
                        }
                    }
                }
                si.visit_block_mut(&mut block);
                if (nth.is_none() && si.hits != 1) || (nth.is_some() && !si.done) {
                    die(&format!("{}: @insert anchor `{}` matched {} statements (lost anchor)", selector, sn, si.hits));
                }
            }
        }
    }
    {
        let mut rw = rules::Rewriter { cfg, fired, tmp: 0, self_err };
        rw.visit_signature_mut(&mut sig);
        rw.visit_block_mut(&mut block);
    }
    rules::self_mut(selector, cfg, &mut sig, fired);
    rules::mut_self(&mut sig, &mut block, fired);
    rules::unshadow_params(&sig, &mut block, fired);
    // R-chainlet (let form): `let P = f(a.m1(x).m2(y));` as top-level statement K => `let __lK_0 = a.m1(x); let __lK_1 = __lK_0.m2(y); let P = f(__lK_1);`
    if let Some(c) = contract {
        let mut ks = c.chainlet_lets.clone();
        ks.sort();
        ks.reverse();      // from the back, so that earlier ordinals stay valid
        for k in ks {
            // K counts the statements of the repository's own text: insertion markers (`__vx_insert!(..)`) do not count
            let is_marker = |s: &Stmt| matches!(s, Stmt::Macro(m) if m.mac.path.is_ident("__vx_insert"));
            let mut pos = None;
            let mut seen = 0usize;
            for (i, s) in block.stmts.iter().enumerate() {
                if is_marker(s) { continue; }
                if seen == k { pos = Some(i); break; }
                seen += 1;
            }
            let orig_k = k;
            let k = match pos { Some(p) => p, None => die(&format!("{}: @chainlet let {}: the body has {} statements (lost anchor)", selector, orig_k, seen)) };
            let st = block.stmts[k].clone();
            let mut local = match st { Stmt::Local(l) => l, _ => die(&format!("{}: @chainlet let {}: statement {} is not a `let` (lost anchor)", selector, k, k)) };
            let init = match local.init.as_mut() { Some(i) => i, None => die(&format!("{}: @chainlet let {}: no initialiser (lost anchor)", selector, k)) };
            // peel one-argument wrapper calls, then the method chain
            fn innermost_chain(e: &mut syn::Expr) -> Option<&mut syn::Expr> {
                let kind = match e {
                    syn::Expr::Call(c) if c.args.len() == 1 => 1,
                    syn::Expr::Reference(_) => 2,
                    syn::Expr::MethodCall(_) => 3,
                    _ => 0,
                };
                match kind {
                    1 => if let syn::Expr::Call(c) = e { innermost_chain(c.args.first_mut().unwrap()) } else { None },
                    2 => if let syn::Expr::Reference(r) = e { innermost_chain(&mut r.expr) } else { None },
                    3 => Some(e),
                    _ => None,
                }
            }
            let slot = match innermost_chain(&mut init.expr) { Some(s) => s, None => die(&format!("{}: @chainlet let {}: the initialiser holds no method chain (lost anchor)", selector, k)) };
            let mut calls: Vec<syn::ExprMethodCall> = Vec::new();
            let mut cur = slot.clone();
            loop {
                match cur {
                    syn::Expr::MethodCall(mc) => { let recv = (*mc.receiver).clone(); calls.push(mc); cur = recv; }
                    other => { cur = other; break; }
                }
            }
            calls.reverse();
            let mut pre: Vec<Stmt> = Vec::new();
            let mut prev: syn::Expr = cur;
            for (j, mut mc) in calls.into_iter().enumerate() {
                let id = syn::Ident::new(&format!("__l{}_{}", orig_k, j), Span::call_site());
                mc.receiver = Box::new(prev);
                let e = syn::Expr::MethodCall(mc);
                pre.push(syn::parse_quote!(let #id = #e;));
                prev = syn::parse_quote!(#id);
            }
            *slot = prev;
            // the split statements take the place of statement K as ONE block-less sequence: keep ordinals by wrapping nothing,
            // later `@insert stmt K after` anchors refer to the original ordinals (markers are placed before this rewrite)
            let mut seq = pre;
            seq.push(Stmt::Local(local));
            block.stmts.splice(k..k + 1, seq);
            *fired.entry("R-chainlet-let".into()).or_insert(0) += 1;
        }
    }
    // R-chainlet: `a.m1(x).m2(y)` in tail position => `let __c0 = a.m1(x); let __c1 = __c0.m2(y); __c1`
    if contract.map(|c| c.chainlet).unwrap_or(false) {
        if let Some(Stmt::Expr(tail, None)) = block.stmts.pop() {
            let mut calls: Vec<syn::ExprMethodCall> = Vec::new();
            let mut cur = tail.clone();
            // `f(a.m1().m2())` (a chain wrapped by R-chain / R-method-map): peel the one-argument calls
            let mut wrappers: Vec<(syn::ExprCall, bool)> = Vec::new();
            loop {
                match cur {
                    syn::Expr::Call(c) if c.args.len() == 1 && matches!(c.args[0], syn::Expr::MethodCall(_)) => {
                        let inner = c.args[0].clone();
                        wrappers.push((c, false));
                        cur = inner;
                    }
                    syn::Expr::Call(c) if c.args.len() == 1 && matches!(&c.args[0], syn::Expr::Reference(r) if r.mutability.is_none() && matches!(&*r.expr, syn::Expr::MethodCall(_))) => {
                        let inner = match &c.args[0] { syn::Expr::Reference(r) => (*r.expr).clone(), _ => unreachable!() };
                        wrappers.push((c, true));
                        cur = inner;
                    }
                    other => { cur = other; break; }
                }
            }
            loop {
                match cur {
                    syn::Expr::MethodCall(mc) => {
                        let recv = (*mc.receiver).clone();
                        calls.push(mc);
                        cur = recv;
                    }
                    other => {
                        cur = other;
                        break;
                    }
                }
            }
            if calls.is_empty() {
                block.stmts.push(Stmt::Expr(tail, None));
            } else {
                calls.reverse();
                let mut nsteps = 0usize;
                let mut prev: syn::Expr = cur;
                for (k, mut mc) in calls.into_iter().enumerate() {
                    let id = syn::Ident::new(&format!("__c{}", k), Span::call_site());
                    mc.receiver = Box::new(prev);
                    let e = syn::Expr::MethodCall(mc);
                    block.stmts.push(syn::parse_quote!(let mut #id = #e;));
                    if let Some(c) = contract {
                        for (i, (anchor, _)) in c.inserts.iter().enumerate() {
                            if let Anchor::Chain(n) = anchor {
                                if *n == k {
                                    block.stmts.push(rules::quote_marker(i));
                                }
                            }
                        }
                    }
                    prev = syn::parse_quote!(#id);
                    nsteps = k + 1;
                }
                wrappers.reverse();
                for (j, (mut w, by_ref)) in wrappers.into_iter().enumerate() {
                    let k = nsteps + j;
                    let id = syn::Ident::new(&format!("__c{}", k), Span::call_site());
                    w.args[0] = if by_ref { syn::parse_quote!(& #prev) } else { prev };
                    let e = syn::Expr::Call(w);
                    block.stmts.push(syn::parse_quote!(let mut #id = #e;));
                    if let Some(c) = contract {
                        for (i, (anchor, _)) in c.inserts.iter().enumerate() {
                            if let Anchor::Chain(n) = anchor {
                                if *n == k {
                                    block.stmts.push(rules::quote_marker(i));
                                }
                            }
                        }
                    }
                    prev = syn::parse_quote!(#id);
                }
                block.stmts.push(Stmt::Expr(prev, None));
                *fired.entry("R-chainlet".into()).or_insert(0) += 1;
            }
        }
    }
    let mut markers = Markers::default();
    // loops
    let empty = ItemContract::default();
    let c = contract.unwrap_or(&empty);
    let mut iter_names = std::collections::BTreeMap::new();
    for (k, b) in c.loops.iter() {
        if let Some(first) = b.lines.iter().find(|l| !l.trim().is_empty()) {
            if let Some(n) = first.trim().strip_prefix("iter ") {
                iter_names.insert(*k, n.trim().to_string());
            }
        }
    }
    let mut ln = rules::LoopNumberer { next: 0, iter_names };
    ln.visit_block_mut(&mut block);
    let nloops = ln.next;
    for (k, b) in c.loops.iter() {
        if *k >= nloops {
            die(&format!("{}: @loop {} but the item has {} loops (lost anchor)", selector, k, nloops));
        }
        let mut b2 = b.clone();
        // the `iter NAME` line is consumed by the numberer; blank it (keeps line numbers)
        for l in b2.lines.iter_mut() {
            if l.trim().starts_with("iter ") {
                *l = String::new();
                break;
            } else if !l.trim().is_empty() {
                break;
            }
        }
        markers.loops.insert(*k, b2);
    }
    // closures
    let mut cn = rules::ClosureNumberer { next: 0, specs: &c.closures };
    cn.visit_block_mut(&mut block);
    for (k, cc) in c.closures.iter() {
        if *k >= cn.next {
            die(&format!("{}: @closure {} but the item has {} closures (lost anchor)", selector, k, cn.next));
        }
        markers.closures.insert(*k, cc.clauses.clone());
        if let Some(r) = &cc.result {
            markers.rets.insert(*k, r.clone());
        }
    }
    // inserts
    for (i, (anchor, b)) in c.inserts.iter().enumerate() {
        markers.inserts.insert(i, b.clone());
        match anchor {
            Anchor::Begin => block.stmts.insert(0, rules::quote_marker(i)),
            Anchor::End => {
                let unit_fn = matches!(sig.output, syn::ReturnType::Default);
                if unit_fn {
                    // the body has type (): a tail expression can be turned into a statement
                    if let Some(Stmt::Expr(_, semi @ None)) = block.stmts.last_mut() {
                        *semi = Some(Default::default());
                    }
                    block.stmts.push(rules::quote_marker(i));
                } else if let Some(Stmt::Expr(_, None)) = block.stmts.last() {
                    let n = block.stmts.len();
                    block.stmts.insert(n - 1, rules::quote_marker(i));
                } else {
                    block.stmts.push(rules::quote_marker(i));
                }
            }
            Anchor::Result => {
                // R-bindtail: `{ ..; tail }` => `{ ..; let r = tail; <insert>; r }`
                let rname = syn::Ident::new(&c.result.clone().unwrap_or_else(|| "r".to_string()), Span::call_site());
                match block.stmts.pop() {
                    Some(Stmt::Expr(e, None)) => {
                        block.stmts.push(syn::parse_quote!(let #rname = #e;));
                        block.stmts.push(rules::quote_marker(i));
                        block.stmts.push(Stmt::Expr(syn::parse_quote!(#rname), None));
                        *fired.entry("R-bindtail".into()).or_insert(0) += 1;
                    }
                    _ => die(&format!("{}: @insert result: the body has no tail expression (lost anchor)", selector)),
                }
            }
            Anchor::LoopBegin(k) | Anchor::LoopEnd(k) => {
                let mut li = rules::LoopBodyInserter {
                    target: *k,
                    at_end: matches!(anchor, Anchor::LoopEnd(_)),
                    marker: i,
                    done: false,
                };
                li.visit_block_mut(&mut block);
                if !li.done {
                    die(&format!("{}: @insert loop {}: no such loop (lost anchor)", selector, k));
                }
            }
            Anchor::LoopBefore(k) | Anchor::LoopAfter(k) => {
                let mut li = rules::LoopStmtInserter {
                    target: *k,
                    after: matches!(anchor, Anchor::LoopAfter(_)),
                    marker: i,
                    done: false,
                };
                li.visit_block_mut(&mut block);
                if !li.done {
                    die(&format!("{}: @insert loop {} before/after: no such loop statement (lost anchor)", selector, k));
                }
            }
            Anchor::After(_, _) | Anchor::Before(_, _) | Anchor::Chain(_) | Anchor::StmtAfter(_) => {}
        }
    }

    // ---- print ----
    pr.item = Some(if canary { format!("{}#canary", selector) } else { selector.to_string() });
    pr.src_file = Some(rel.to_string());
    for a in &c.attrs {
        pr.raw_line(a, "contract");
    }
    if external_body {
        pr.raw_line("#[verifier::external_body]", "glue");
    }
    for a in &attrs {
        pr.stream(a.to_token_stream(), &markers, false);
        pr.newline();
    }
    if canary {
        sig.ident = syn::Ident::new(&format!("{}__canary", sig.ident), Span::call_site());
    }
    let ident = &sig.ident;
    let generics = &sig.generics;
    let inputs = &sig.inputs;
    let constness = &sig.constness;
    let unsafety = &sig.unsafety;
    let vis: syn::Visibility = if in_trait_impl { syn::Visibility::Inherited } else { syn::parse_quote!(pub) };
    let head = quote!(#vis #constness #unsafety fn #ident #generics (#inputs));
    pr.stream(head, &markers, false);
    if let syn::ReturnType::Type(_, ty) = &sig.output {
        let rname = c.result.clone().unwrap_or_else(|| "r".to_string());
        pr.word(&format!("-> ({}: ", rname), false);
        pr.stream(ty.to_token_stream(), &markers, false);
        pr.word(")", true);
    }
    if let Some(w) = &sig.generics.where_clause {
        pr.stream(w.to_token_stream(), &markers, false);
    }
    pr.newline();
    if let Some(spec) = &c.spec {
        if canary {
            let (req, dec) = split_spec(spec);
            let mut lines = req;
            lines.push("ensures false, // canary: must FAIL (vacuity guard)".to_string());
            lines.extend(dec);
            pr.contract_block(&VBlock { lines, file: spec.file.clone(), first_line: spec.first_line });
        } else {
            pr.contract_block(spec);
        }
    } else if canary {
        pr.contract_block(&VBlock {
            lines: vec!["ensures false, // canary: must FAIL (vacuity guard)".to_string()],
            file: String::new(),
            first_line: 0,
        });
    }
    let body = block.to_token_stream();
    pr.stream(body, &markers, true);
    pr.newline();
    pr.item = None;
    pr.src_file = None;
}

#[allow(clippy::too_many_arguments)]
pub fn emit_group(
    group: Group,
    rel: &str,
    text: &str,
    module: Option<&str>,
    cfg: &Config,
    contracts: &Contracts,
    pr: &mut Printer,
    items_map: &mut Vec<Value>,
    fired: &mut Fired,
    used: &mut Vec<String>,
    canaries: bool,
    stub: bool,
) {
    let canaries = canaries && !stub;
    STUB.with(|k| k.set(stub));
    let modpfx: String = match module {
        Some(m) => format!("{}/", m),
        None => String::new(),
    };
    let lines: Vec<&str> = text.lines().collect();
    let src_of = |a: usize, b: usize| -> String {
        let a = a.max(1);
        let b = b.min(lines.len());
        lines[a - 1..b].join("\n")
    };
    let lookup = |sel: &str, used: &mut Vec<String>| -> Option<&ItemContract> {
        let key = format!("{}{}", modpfx, sel);
        let c = contracts.items.get(&key);
        if c.is_some() {
            used.push(key);
        }
        c
    };
    match group {
        Group::Free { selector, item } => {
            let (a, b) = line_span(&item);
            items_map.push(json!({"selector": selector, "file": rel, "line_start": a, "line_end": b, "source": src_of(a, b)}));
            match item {
                Item::Fn(f) => {
                    if cfg.fromfn.contains(&f.sig.ident.to_string()) {
                        let ff = rules::from_fn(&f, cfg, fired);
                        pr.item = Some(selector.clone());
                        pr.src_file = Some(rel.to_string());
                        pr.stream(ff.struct_item.to_token_stream(), &Markers::default(), false);
                        pr.newline();
                        pr.item = None;
                        let c = lookup(&selector, used);
                        let vis: syn::Visibility = syn::parse_quote!(pub);
                        emit_fn(&selector, &f.attrs, &vis, &ff.init_sig, &ff.init_block, None, rel, cfg, c, pr, fired, false, canaries || stub);
                        let nsel = format!("{}::next", selector);
                        let nc = lookup(&nsel, used);
                        let g = &ff.impl_generics;
                        let st = &ff.self_ty;
                        pr.src_file = Some(rel.to_string());
                        pr.stream(quote!(impl #g #st), &Markers::default(), false);
                        pr.word("{", false);
                        pr.newline();
                        emit_fn(&nsel, &[], &vis, &ff.next_sig, &ff.next_block, None, rel, cfg, nc, pr, fired, false, canaries || stub);
                        if canaries && !nc.map(|c| c.nocanary).unwrap_or(false) {
                            emit_fn(&nsel, &[], &vis, &ff.next_sig, &ff.next_block, None, rel, cfg, nc, pr, fired, true, false);
                        }
                        pr.raw_line("}", "code");
                        return;
                    }
                    let c = lookup(&selector, used);
                    emit_fn(&selector, &f.attrs, &f.vis, &f.sig, &f.block, None, rel, cfg, c, pr, fired, false, canaries || stub);
                    if canaries && !c.map(|c| c.nocanary).unwrap_or(false) {
                        emit_fn(&selector, &f.attrs, &f.vis, &f.sig, &f.block, None, rel, cfg, c, pr, fired, true, false);
                    }
                }
                Item::Struct(mut s) => {
                    rules::filter_attrs(&mut s.attrs, cfg, false, fired);
                    // R-vis: everything extracted is `pub` (one crate; visibility does not affect bodies)
                    s.vis = syn::parse_quote!(pub);
                    for fld in s.fields.iter_mut() {
                        fld.vis = syn::parse_quote!(pub);
                    }
                    for fld in s.fields.iter_mut() {
                        fld.attrs.retain(|a| !a.path().is_ident("doc") && !a.path().is_ident("serde") && !a.path().is_ident("cfg_attr") && !a.path().is_ident("deb822"));
                    }
                    {
                        let mut rw = rules::Rewriter { cfg, fired, tmp: 0, self_err: None };
                        rw.visit_item_struct_mut(&mut s);
                    }
                    pr.item = Some(selector.clone());
                    pr.src_file = Some(rel.to_string());
                    pr.stream(s.to_token_stream(), &Markers::default(), false);
                    pr.newline();
                    pr.item = None;
                }
                Item::Enum(mut e) => {
                    let fieldless = e.variants.iter().all(|v| matches!(v.fields, syn::Fields::Unit));
                    rules::filter_attrs(&mut e.attrs, cfg, fieldless, fired);
                    for v in e.variants.iter_mut() {
                        v.attrs.retain(|a| !a.path().is_ident("doc") && !a.path().is_ident("serde") && !a.path().is_ident("cfg_attr") && !a.path().is_ident("default"));
                        for fld in v.fields.iter_mut() {
                            fld.attrs.retain(|a| !a.path().is_ident("doc"));
                        }
                    }
                    {
                        let mut rw = rules::Rewriter { cfg, fired, tmp: 0, self_err: None };
                        rw.visit_item_enum_mut(&mut e);
                    }
                    pr.item = Some(selector.clone());
                    pr.src_file = Some(rel.to_string());
                    pr.stream(e.to_token_stream(), &Markers::default(), false);
                    pr.newline();
                    pr.item = None;
                }
                Item::Type(mut t) => {
                    rules::filter_attrs(&mut t.attrs, cfg, false, fired);
                    pr.item = Some(selector.clone());
                    pr.src_file = Some(rel.to_string());
                    pr.stream(t.to_token_stream(), &Markers::default(), false);
                    pr.newline();
                    pr.item = None;
                }
                Item::Const(mut t) => {
                    rules::filter_attrs(&mut t.attrs, cfg, false, fired);
                    pr.item = Some(selector.clone());
                    pr.src_file = Some(rel.to_string());
                    pr.stream(t.to_token_stream(), &Markers::default(), false);
                    pr.newline();
                    pr.item = None;
                }
                Item::Trait(mut t) => {
                    rules::filter_attrs(&mut t.attrs, cfg, false, fired);
                    // trait declarations: methods get their contracts from `<selector>::<method>`
                    pr.item = Some(selector.clone());
                    pr.src_file = Some(rel.to_string());
                    let vis = &t.vis;
                    let ident = &t.ident;
                    let generics = &t.generics;
                    pr.stream(quote!(#vis trait #ident #generics), &Markers::default(), false);
                    pr.word("{", false);
                    pr.newline();
                    if let Some(c) = lookup(&selector, used) {
                        if let Some(spec) = &c.spec {
                            // raw spec-fn declarations of the trait
                            pr.contract_block(spec);
                        }
                    }
                    for ti in t.items.iter() {
                        if let syn::TraitItem::Fn(tf) = ti {
                            let msel = format!("{}::{}", selector, tf.sig.ident);
                            let mc = lookup(&msel, used);
                            let mut sig2 = tf.sig.clone();
                            {
                                let mut rw = rules::Rewriter { cfg, fired, tmp: 0, self_err: None };
                                rw.visit_signature_mut(&mut sig2);
                            }
                            let sig = &sig2;
                            let ident = &sig.ident;
                            let generics = &sig.generics;
                            let inputs = &sig.inputs;
                            pr.item = Some(msel.clone());
                            pr.stream(quote!(fn #ident #generics (#inputs)), &Markers::default(), false);
                            if let syn::ReturnType::Type(_, ty) = &sig.output {
                                let rname = mc.and_then(|c| c.result.clone()).unwrap_or_else(|| "r".to_string());
                                pr.word(&format!("-> ({}: ", rname), false);
                                pr.stream(ty.to_token_stream(), &Markers::default(), false);
                                pr.word(")", true);
                            }
                            pr.newline();
                            if let Some(mc) = mc {
                                if let Some(spec) = &mc.spec {
                                    pr.contract_block(spec);
                                }
                            }
                            if let Some(b) = &tf.default {
                                pr.stream(b.to_token_stream(), &Markers::default(), true);
                            } else {
                                pr.word(";", true);
                            }
                            pr.newline();
                        }
                    }
                    pr.item = Some(selector.clone());
                    pr.raw_line("}", "code");
                    pr.item = None;
                }
                _ => die(&format!("selector `{}`: unsupported item kind", selector)),
            }
        }
        Group::Impl { header, assoc_types, methods } => {
            let keep_trait = match &header.trait_ {
                Some((_, p, _)) => {
                    let last = p.segments.last().unwrap().ident.to_string();
                    cfg.keep_traits.contains(&last)
                }
                None => false,
            };
            KEEP_TRAIT.with(|k| k.set(keep_trait));
            // R-freefn: a trait impl on a foreign type becomes free functions (Self := the impl's type)
            if let Some((_, tp, _)) = &header.trait_ {
                let key = rules::norm(&format!(
                    "impl {} for {}",
                    tp.to_token_stream(),
                    header.self_ty.to_token_stream()
                ));
                if let Some(fname) = cfg.free_fn_impls.get(&key) {
                    *fired.entry("R-freefn".into()).or_insert(0) += 1;
                    let self_ty = (*header.self_ty).clone();
                    for (sel, m) in methods {
                        let (a, b) = line_span(&m);
                        items_map.push(json!({"selector": sel, "file": rel, "line_start": a, "line_end": b, "source": src_of(a, b)}));
                        let c = lookup(&sel, used);
                        let mut sig = m.sig.clone();
                        sig.ident = syn::Ident::new(fname, Span::call_site());
                        let assoc = Some(vec![("__SelfType".to_string(), self_ty.clone())]);
                        // replace `Self` by the impl's type in the signature
                        struct SelfTy(syn::Type);
                        impl VisitMut for SelfTy {
                            fn visit_type_mut(&mut self, t: &mut syn::Type) {
                                if let syn::Type::Path(tp) = t {
                                    if tp.qself.is_none() && tp.path.is_ident("Self") {
                                        *t = self.0.clone();
                                        return;
                                    }
                                }
                                syn::visit_mut::visit_type_mut(self, t);
                            }
                        }
                        let mut st = SelfTy(self_ty.clone());
                        st.visit_signature_mut(&mut sig);
                        let mut blk = m.block.clone();
                        st.visit_block_mut(&mut blk);
                        let vis: syn::Visibility = syn::parse_quote!(pub);
                        emit_fn(&sel, &m.attrs, &vis, &sig, &blk, assoc, rel, cfg, c, pr, fired, false, canaries || stub);
                    }
                    return;
                }
            }
            let generics = &header.generics;
            let self_ty = &header.self_ty;
            let where_c = &header.generics.where_clause;
            let mut hdr_ty = self_ty.clone();
            {
                let mut fired2 = Fired::new();
                let mut rw = rules::Rewriter { cfg, fired: &mut fired2, tmp: 0, self_err: None };
                rw.visit_type_mut(&mut hdr_ty);
            }
            // R-inherent with generics that only the trait mentions (`impl<P: Bound> Trait<P> for T`): an inherent
            // `impl<P> T` would leave P unconstrained, so the parameters move onto every method
            let mut moved_generics: Option<syn::Generics> = None;
            let head = match (&header.trait_, keep_trait) {
                (Some((_, p, _)), true) => quote!(impl #generics #p for #hdr_ty #where_c),
                (Some(_), false) => {
                    *fired.entry("R-inherent".into()).or_insert(0) += 1;
                    let ty_txt = hdr_ty.to_token_stream().to_string();
                    let unconstrained = !header.generics.params.is_empty()
                        && header.generics.params.iter().all(|gp| match gp {
                            syn::GenericParam::Type(tp) => !ty_txt.split(|c: char| !c.is_alphanumeric() && c != '_').any(|w| tp.ident == w),
                            _ => false,
                        });
                    if unconstrained {
                        moved_generics = Some(header.generics.clone());
                        *fired.entry("R-inherent-generics".into()).or_insert(0) += 1;
                        quote!(impl #hdr_ty)
                    } else {
                        quote!(impl #generics #hdr_ty #where_c)
                    }
                }
                (None, _) => quote!(impl #generics #hdr_ty #where_c),
            };
            pr.src_file = Some(rel.to_string());
            pr.stream(head, &Markers::default(), false);
            pr.word("{", false);
            pr.newline();
            // impl-level spec items (e.g. the spec fns of a kept trait impl)
            {
                let ty_last = type_last_ident(&header.self_ty).unwrap_or_default();
                let key = match &header.trait_ {
                    Some((_, p, _)) => format!("impl {} for {}", rules::norm(&p.segments.last().unwrap().to_token_stream().to_string()), ty_last),
                    None => format!("impl {}", ty_last),
                };
                if let Some(c) = lookup(&key, used) {
                    if let Some(spec) = &c.spec {
                        pr.contract_block(spec);
                    }
                }
            }
            let mut self_err: Option<Vec<(String, syn::Type)>> = None;
            for t in &assoc_types {
                if keep_trait {
                    pr.stream(t.to_token_stream(), &Markers::default(), true);
                    pr.newline();
                } else {
                    self_err.get_or_insert_with(Vec::new).push((t.ident.to_string(), t.ty.clone()));
                }
            }
            for (sel, m) in methods {
                let (a, b) = line_span(&m);
                items_map.push(json!({"selector": sel, "file": rel, "line_start": a, "line_end": b, "source": src_of(a, b)}));
                let c = lookup(&sel, used);
                let vis = if header.trait_.is_some() && !keep_trait {
                    syn::parse_quote!(pub)
                } else {
                    m.vis.clone()
                };
                let mut msig = m.sig.clone();
                if let Some(g) = &moved_generics {
                    let mut params = g.params.clone();
                    for gp in msig.generics.params.iter() { params.push(gp.clone()); }
                    msig.generics.params = params;
                    if msig.generics.lt_token.is_none() { msig.generics.lt_token = Some(Default::default()); msig.generics.gt_token = Some(Default::default()); }
                    if let Some(w) = &g.where_clause {
                        let mw = msig.generics.make_where_clause();
                        for pr_ in w.predicates.iter() { mw.predicates.push(pr_.clone()); }
                    }
                }
                emit_fn(&sel, &m.attrs, &vis, &msig, &m.block, self_err.clone(), rel, cfg, c, pr, fired, false, canaries || stub);
                // (a kept trait impl cannot hold an extra method: no canary copy there)
                if canaries && !keep_trait && !c.map(|c| c.nocanary).unwrap_or(false) {
                    emit_fn(&sel, &m.attrs, &vis, &msig, &m.block, self_err.clone(), rel, cfg, c, pr, fired, true, false);
                }
            }
            pr.raw_line("}", "code");
        }
    }
}


/// `macro_rules! name { (pattern) => { BODY } }` : substitute `$x` by args[x] in BODY and parse it as a file.
/// Token spans are kept, so extracted lines still map to the macro body in the repository file.
pub fn instantiate_macro(file: &syn::File, name: &str, args: &Value, rel: &str) -> syn::File {
    use proc_macro2::{TokenStream, TokenTree, Delimiter, Group};
    for it in file.items.iter() {
        if let Item::Macro(m) = it {
            if m.ident.as_ref().map(|i| i == name).unwrap_or(false) {
                // tokens: (pattern) => { body } ;?
                let toks: Vec<TokenTree> = m.mac.tokens.clone().into_iter().collect();
                let mut body: Option<TokenStream> = None;
                for (i, t) in toks.iter().enumerate() {
                    if let TokenTree::Group(g) = t {
                        if g.delimiter() == Delimiter::Brace && i >= 3 {
                            body = Some(g.stream());
                            break;
                        }
                    }
                }
                let body = body.unwrap_or_else(|| die(&format!("{}: macro `{}` has no body", rel, name)));
                fn subst(ts: TokenStream, args: &Value) -> TokenStream {
                    let v: Vec<TokenTree> = ts.into_iter().collect();
                    let mut out: Vec<TokenTree> = Vec::new();
                    let mut i = 0;
                    while i < v.len() {
                        match &v[i] {
                            TokenTree::Punct(p) if p.as_char() == '$' && i + 1 < v.len() => {
                                if let TokenTree::Ident(id) = &v[i + 1] {
                                    if let Some(rep) = args[id.to_string()].as_str() {
                                        let mut nid = proc_macro2::Ident::new(rep, id.span());
                                        nid.set_span(id.span());
                                        out.push(TokenTree::Ident(nid));
                                        i += 2;
                                        continue;
                                    }
                                }
                                out.push(v[i].clone());
                            }
                            TokenTree::Group(g) => {
                                let mut ng = Group::new(g.delimiter(), subst(g.stream(), args));
                                ng.set_span(g.span());
                                out.push(TokenTree::Group(ng));
                            }
                            t => out.push(t.clone()),
                        }
                        i += 1;
                    }
                    out.into_iter().collect()
                }
                let inst = subst(body, args);
                return syn::parse2::<syn::File>(inst)
                    .unwrap_or_else(|e| die(&format!("{}: macro `{}` body does not parse as items: {}", rel, name, e)));
            }
        }
    }
    die(&format!("{}: macro_rules! {} not found (lost anchor)", rel, name))
}
