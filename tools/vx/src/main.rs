//! vx — mechanical extractor: /repo Rust items -> one Verus file.
//!
//! usage: vx <repo-root> <unit-dir> <prelude-dir> <out.rs> <out.map.json> [--canaries]
//!
//! Reads <unit-dir>/unit.json, <unit-dir>/contracts.vspec, <unit-dir>/spec.rs.
//! Exit 0 = file written; exit 2 = extraction failed (lost anchor / unsupported construct).
//! The executable text of every extracted item is the repository's text modulo the rewrite
//! rules in rules.rs; every rule that fires is recorded in the map.

mod printer;
mod rules;
mod select;
mod vspec;

use printer::{Line, Printer};
use serde_json::{json, Value};
use std::collections::BTreeMap;
use std::fs;
use std::process::exit;

pub fn die(msg: &str) -> ! {
    eprintln!("vx: EXTRACT-FAIL: {}", msg);
    exit(2)
}

fn read(p: &str) -> String {
    fs::read_to_string(p).unwrap_or_else(|e| die(&format!("cannot read {}: {}", p, e)))
}

fn main() {
    let args: Vec<String> = std::env::args().collect();
    if args.len() < 6 {
        eprintln!("usage: vx <repo> <unit-dir> <prelude-dir> <out.rs> <out.map.json> [--canaries]");
        exit(2);
    }
    let repo = &args[1];
    let unit_dir = &args[2];
    let prelude_dir = &args[3];
    let out_rs = &args[4];
    let out_map = &args[5];
    let canaries = args.iter().any(|a| a == "--canaries");
    let stubs: Vec<String> = match args.iter().position(|a| a == "--stub") {
        Some(i) if i + 1 < args.len() => args[i + 1].split(',').map(|s| s.trim().to_string()).filter(|s| !s.is_empty()).collect(),
        _ => Vec::new(),
    };
    let mut stubbed: Vec<String> = Vec::new();
    let mut stub_items: Vec<Value> = Vec::new();
    let mut assumed_items: Vec<Value> = Vec::new();

    let unit: Value = serde_json::from_str(&read(&format!("{}/unit.json", unit_dir)))
        .unwrap_or_else(|e| die(&format!("unit.json: {}", e)));
    let mut contracts = vspec::Contracts::default();
    // entries: "file" or {"file": .., "optional": true} (sections of an optional file may stay unused:
    // the file is shared with another unit)
    let cfiles: Vec<(String, bool)> = match unit["contracts"].as_array() {
        Some(a) => a
            .iter()
            .map(|v| match v.as_str() {
                Some(s) => (s.to_string(), false),
                None => (v["file"].as_str().unwrap().to_string(), v["optional"].as_bool().unwrap_or(false)),
            })
            .collect(),
        None => vec![("contracts.vspec".to_string(), false)],
    };
    let mut optional_keys: Vec<String> = Vec::new();
    for (cf, optional) in cfiles {
        let vspec_path = format!("{}/{}", unit_dir, cf);
        let part = vspec::parse(&read(&vspec_path), &vspec_path);
        for (k, v) in part.items {
            if optional {
                optional_keys.push(k.clone());
            }
            if contracts.items.contains_key(&k) {
                die(&format!("duplicate @item {} across contract files", k));
            }
            contracts.items.insert(k, v);
        }
    }

    let mut pr = Printer::new();
    let mut items_map: Vec<Value> = Vec::new();
    let mut rules_fired: BTreeMap<String, usize> = BTreeMap::new();
    let mut used_contracts: Vec<String> = Vec::new();

    // ---- header (outside verus!) ----
    let header = read(&format!("{}/header.rs", prelude_dir));
    pr.raw_block(&header, "header", &format!("{}/header.rs", prelude_dir), None);
    pr.raw_line("verus! {", "glue");

    // ---- prelude ----
    for p in unit["prelude"].as_array().map(|a| a.clone()).unwrap_or_default() {
        let name = p.as_str().unwrap();
        let path = format!("{}/{}", prelude_dir, name);
        pr.raw_block(&read(&path), "prelude", &path, None);
    }
    // ---- spec files of the unit ----
    for p in unit["spec"].as_array().map(|a| a.clone()).unwrap_or_else(|| vec![json!("spec.rs")]) {
        let name = p.as_str().unwrap();
        let path = format!("{}/{}", unit_dir, name);
        pr.raw_block(&read(&path), "spec", &path, None);
    }

    if let Some(pre) = unit["preamble"].as_array() {
        for l in pre {
            pr.raw_line(l.as_str().unwrap(), "glue");
        }
    }
    let cfg = rules::Config::from_unit(&unit);

    // ---- extracted sources ----
    for src in unit["sources"].as_array().unwrap_or_else(|| die("unit.json: no sources")) {
        let rel = src["file"].as_str().unwrap_or_else(|| die("source without file"));
        // an absolute path names a file derived from the repository on this run (macro-expanded source, build/expanded)
        let path = if rel.starts_with('/') { rel.to_string() } else { format!("{}/{}", repo, rel) };
        let text = read(&path);
        let mut file = syn::parse_file(&text)
            .unwrap_or_else(|e| die(&format!("{}: rust parse error: {}", rel, e)));
        // R-macro: instantiate one macro_rules! body with the given arguments and select from it
        if let Some(mname) = src["macro"].as_str() {
            file = select::instantiate_macro(&file, mname, &src["args"], rel);
            *rules_fired.entry("R-macro-inst".to_string()).or_insert(0) += 1;
        }
        let module = src["mod"].as_str();
        if let Some(m) = module {
            pr.raw_line(&format!("pub mod {} {{", m), "glue");
            pr.raw_line("use super::*;", "glue");
            if let Some(uses) = src["uses"].as_array() {
                for u in uses {
                    pr.raw_line(u.as_str().unwrap(), "glue");
                }
            }
        }
        let sels: Vec<String> = src["items"]
            .as_array()
            .unwrap_or_else(|| die("source without items"))
            .iter()
            .map(|v| v.as_str().unwrap().to_string())
            .collect();
        let extracted = select::extract(&file, &sels, rel, false);
        // per-source overrides of the name-based maps (a method name can mean different things in different files)
        let cfg = {
            let mut c = cfg.clone();
            if let Some(m) = src["method_map"].as_object() {
                for (k, v) in m {
                    match v.as_str() {
                        Some(f) if !f.is_empty() => { c.method_map.insert(k.clone(), f.to_string()); }
                        _ => { c.method_map.remove(k); }
                    }
                }
            }
            // Structural inside a nested `mod` trips a Verus internal error: units can switch it off there only
            if module.is_some() && unit["structural_mods"].as_bool() == Some(false) {
                c.structural = false;
            }
            if let Some(a) = src["chain_map"].as_array() {
                for e in a {
                    c.chain_map.push((rules::norm(e["chain"].as_str().unwrap()), e["fn"].as_str().unwrap().to_string()));
                }
            }
            c
        };
        for group in extracted {
            // group = either a free item or an impl block with chosen methods
            select::emit_group(
                group,
                rel,
                &text,
                module,
                &cfg,
                &contracts,
                &mut pr,
                &mut items_map,
                &mut rules_fired,
                &mut used_contracts,
                canaries,
                false,
            );
        }
        // "assumed": items of this source emitted as `external_body` signatures WITH their contract from the .vspec files
        // (a contract proved in another unit, or an uninterpreted result named by a spec function). Listed in the map
        // under `assumed` so that the evidence reports them as assumptions.
        if let Some(a) = src["assumed"].as_array() {
            let asels: Vec<String> = a.iter().map(|v| v.as_str().unwrap().to_string()).collect();
            for g in select::extract(&file, &asels, rel, false) {
                select::emit_group(g, rel, &text, module, &cfg, &contracts, &mut pr, &mut assumed_items, &mut rules_fired, &mut used_contracts, false, true);
            }
        }
        // auto-stubs (second pass of the driver): items the extracted code refers to but that are not
        // part of the unit are emitted as `external_body` signatures without any contract
        if !stubs.is_empty() && src["macro"].as_str().is_none() {
            let already: Vec<String> = items_map.iter().map(|v| v["selector"].as_str().unwrap_or("").to_string()).collect();
            let want: Vec<String> = stubs.iter().filter(|s| !already.contains(s) && !stubbed.contains(*s)).cloned().collect();
            for w in want {
                let gs = select::extract(&file, &[w.clone()], rel, true);
                if gs.is_empty() {
                    continue;
                }
                stubbed.push(w.clone());
                for g in gs {
                    select::emit_group(g, rel, &text, module, &cfg, &contracts, &mut pr, &mut stub_items, &mut rules_fired, &mut used_contracts, false, true);
                }
            }
        }
        if module.is_some() {
            pr.raw_line("}", "glue");
        }
    }
    pr.raw_line("} // verus!", "glue");
    pr.raw_line("fn main() {}", "glue");

    // every contract section must have been consumed (otherwise: lost anchor)
    for (k, _) in contracts.items.iter() {
        if !used_contracts.contains(k) && !optional_keys.contains(k) {
            die(&format!(
                "contracts.vspec has a section for item `{}` but no such item was extracted (lost anchor)",
                k
            ));
        }
    }

    let lines: Vec<Line> = pr.finish();
    let mut text = String::new();
    let mut line_map: Vec<Value> = Vec::new();
    for (i, l) in lines.iter().enumerate() {
        text.push_str(&l.text);
        text.push('\n');
        line_map.push(json!({
            "n": i + 1,
            "kind": l.kind,
            "item": l.item,
            "src_file": l.src_file,
            "src_line": l.src_line,
        }));
    }
    fs::write(out_rs, text).unwrap_or_else(|e| die(&format!("write {}: {}", out_rs, e)));
    let map = json!({
        "unit": unit["name"],
        "items": items_map,
        "rules_fired": rules_fired,
        "stubbed": stub_items,
        "assumed": assumed_items,
        "lines": line_map,
    });
    fs::write(out_map, serde_json::to_string(&map).unwrap())
        .unwrap_or_else(|e| die(&format!("write {}: {}", out_map, e)));
}
