//! Token-level pretty printer that (a) lays the extracted code out one statement per line,
//! (b) replaces marker macros by raw contract text, and (c) records for every output line
//! where it came from.

use crate::vspec::Block;
use proc_macro2::{Delimiter, Spacing, TokenStream, TokenTree};
use std::collections::BTreeMap;

#[derive(Clone, Debug)]
pub struct Line {
    pub text: String,
    pub kind: String,             // header | prelude | spec | glue | code | contract
    pub item: Option<String>,     // selector of the extracted item this line belongs to
    pub src_file: Option<String>, // repo-relative file (code) or vspec/prelude path (others)
    pub src_line: Option<usize>,
}

/// marker id -> text to splice
#[derive(Default, Clone)]
pub struct Markers {
    pub loops: BTreeMap<usize, Block>,    // __vx_loop!(k);   first stmt of a loop body
    pub inserts: BTreeMap<usize, Block>,  // __vx_insert!(k); statement
    pub closures: BTreeMap<usize, Block>, // __vx_closure!(k); first stmt of a closure body
    pub rets: BTreeMap<usize, String>,    // ident __VxRet<k> in closure return position
}

pub struct Printer {
    lines: Vec<Line>,
    cur: String,
    cur_src_line: Option<usize>,
    indent: usize,
    pub item: Option<String>,
    pub src_file: Option<String>,
}

fn is_real(span: proc_macro2::Span) -> bool {
    let r = span.byte_range();
    r.end > r.start
}

impl Printer {
    pub fn new() -> Self {
        Printer {
            lines: Vec::new(),
            cur: String::new(),
            cur_src_line: None,
            indent: 0,
            item: None,
            src_file: None,
        }
    }
    pub fn finish(mut self) -> Vec<Line> {
        self.newline();
        self.lines
    }
    pub fn raw_line(&mut self, s: &str, kind: &str) {
        self.newline();
        self.lines.push(Line {
            text: s.to_string(),
            kind: kind.to_string(),
            item: self.item.clone(),
            src_file: None,
            src_line: None,
        });
    }
    pub fn raw_block(&mut self, text: &str, kind: &str, path: &str, first_line: Option<usize>) {
        self.newline();
        let base = first_line.unwrap_or(1);
        for (i, l) in text.lines().enumerate() {
            self.lines.push(Line {
                text: l.to_string(),
                kind: kind.to_string(),
                item: self.item.clone(),
                src_file: Some(path.to_string()),
                src_line: Some(base + i),
            });
        }
    }
    pub fn contract_block(&mut self, b: &Block) {
        self.newline();
        let pad = "    ".repeat(self.indent + 1);
        for (i, l) in b.lines.iter().enumerate() {
            if l.trim().is_empty() {
                continue;
            }
            self.lines.push(Line {
                text: format!("{}{}", pad, l.trim_end()),
                kind: "contract".to_string(),
                item: self.item.clone(),
                src_file: Some(b.file.clone()),
                src_line: Some(b.first_line + i),
            });
        }
    }
    pub fn newline(&mut self) {
        if !self.cur.trim().is_empty() {
            let text = format!("{}{}", "    ".repeat(self.indent), self.cur.trim());
            self.lines.push(Line {
                text,
                kind: "code".to_string(),
                item: self.item.clone(),
                src_file: self.src_file.clone(),
                src_line: self.cur_src_line,
            });
        }
        self.cur.clear();
        self.cur_src_line = None;
    }
    fn note_span(&mut self, span: proc_macro2::Span) {
        if self.cur_src_line.is_none() && is_real(span) {
            self.cur_src_line = Some(span.start().line);
        }
    }
    /// append a piece of inline text with a separating space if needed
    pub fn word(&mut self, s: &str, tight_before: bool) {
        if !self.cur.is_empty() && !tight_before && !self.cur.ends_with(' ') && !self.cur.ends_with('(') && !self.cur.ends_with('[') {
            self.cur.push(' ');
        }
        self.cur.push_str(s);
    }

    fn marker_at(trees: &[TokenTree], i: usize, name: &str) -> Option<usize> {
        // IDENT ! ( LIT ) ;
        if i + 3 < trees.len() + 0 {
            if let (TokenTree::Ident(id), TokenTree::Punct(p), TokenTree::Group(g)) =
                (&trees[i], &trees[i + 1], &trees[i + 2])
            {
                if id == name && p.as_char() == '!' && g.delimiter() == Delimiter::Parenthesis {
                    let s = g.stream().to_string();
                    if let Ok(k) = s.trim().parse::<usize>() {
                        return Some(k);
                    }
                }
            }
        }
        None
    }

    pub fn stream(&mut self, ts: TokenStream, m: &Markers, in_braces: bool) {
        let trees: Vec<TokenTree> = ts.into_iter().collect();
        let mut i = 0;
        let mut prev_joint = false;
        let mut prev_tight_after = false; // previous token wants no space after it
        while i < trees.len() {
            // statement-level insert marker
            if let Some(k) = Self::marker_at(&trees, i, "__vx_insert") {
                self.newline();
                if let Some(b) = m.inserts.get(&k) {
                    let save = self.indent;
                    if self.indent > 0 {
                        self.indent -= 1;
                    }
                    self.contract_block(b);
                    self.indent = save;
                }
                i += 3;
                if i < trees.len() {
                    if let TokenTree::Punct(p) = &trees[i] {
                        if p.as_char() == ';' {
                            i += 1;
                        }
                    }
                }
                prev_joint = false;
                prev_tight_after = false;
                continue;
            }
            // `__vx_iter!(name, EXPR)` => `name: EXPR` (Verus ghost iterator name of a for loop)
            if let (Some(TokenTree::Ident(id)), Some(TokenTree::Punct(p)), Some(TokenTree::Group(g))) =
                (trees.get(i), trees.get(i + 1), trees.get(i + 2))
            {
                if id == "__vx_iter" && p.as_char() == '!' && g.delimiter() == Delimiter::Parenthesis {
                    let inner: Vec<TokenTree> = g.stream().into_iter().collect();
                    if let Some(TokenTree::Ident(name)) = inner.get(0) {
                        self.word(&format!("{}:", name), false);
                        let rest: TokenStream = inner.into_iter().skip(2).collect();
                        self.stream(rest, m, false);
                        i += 3;
                        prev_joint = false;
                        prev_tight_after = false;
                        continue;
                    }
                }
            }
            let t = &trees[i];
            match t {
                TokenTree::Group(g) => {
                    let inner: Vec<TokenTree> = g.stream().into_iter().collect();
                    match g.delimiter() {
                        Delimiter::Brace => {
                            // loop / closure clause markers come first in the group
                            let mut skip = 0;
                            if let Some(k) = Self::marker_at(&inner, 0, "__vx_loop") {
                                if let Some(b) = m.loops.get(&k) {
                                    self.contract_block(b);
                                }
                                skip = 4;
                            } else if let Some(k) = Self::marker_at(&inner, 0, "__vx_closure") {
                                if let Some(b) = m.closures.get(&k) {
                                    self.contract_block(b);
                                }
                                skip = 4;
                            }
                            self.note_span(g.span_open());
                            self.word("{", false);
                            self.newline();
                            self.indent += 1;
                            let rest: TokenStream = inner.into_iter().skip(skip).collect();
                            self.stream(rest, m, true);
                            self.newline();
                            self.indent -= 1;
                            self.word("}", false);
                            // decide whether to break after the closing brace
                            let next = trees.get(i + 1);
                            let stay = match next {
                                Some(TokenTree::Ident(id)) => id == "else",
                                Some(TokenTree::Punct(p)) => {
                                    matches!(p.as_char(), ',' | ';' | '.' | '?' | ')' | '=')
                                }
                                None => !in_braces,
                                _ => false,
                            };
                            if !stay {
                                self.newline();
                            }
                            prev_tight_after = false;
                        }
                        Delimiter::Parenthesis | Delimiter::Bracket => {
                            let (o, c) = if g.delimiter() == Delimiter::Parenthesis {
                                ("(", ")")
                            } else {
                                ("[", "]")
                            };
                            // call / index: no space between callee and '('
                            let tight = match trees.get(i.wrapping_sub(1)) {
                                Some(TokenTree::Ident(id)) if i > 0 => {
                                    let s = id.to_string();
                                    !matches!(
                                        s.as_str(),
                                        "if" | "while" | "match" | "return" | "in" | "let" | "for"
                                            | "else" | "mut" | "as" | "move" | "break"
                                    )
                                }
                                Some(TokenTree::Group(_)) if i > 0 => true,
                                Some(TokenTree::Punct(p)) if i > 0 => {
                                    matches!(p.as_char(), '!' | '.' | '#' | '>') && prev_joint == false
                                        && p.as_char() != '>'
                                        || p.as_char() == '!'
                                        || p.as_char() == '#'
                                }
                                _ => false,
                            };
                            self.note_span(g.span_open());
                            self.word(o, tight || prev_tight_after);
                            let save = self.indent;
                            self.stream_inline(g.stream(), m);
                            self.indent = save;
                            self.word(c, true);
                            prev_tight_after = false;
                        }
                        Delimiter::None => {
                            self.stream(g.stream(), m, in_braces);
                        }
                    }
                    prev_joint = false;
                }
                TokenTree::Ident(id) => {
                    self.note_span(id.span());
                    let s = id.to_string();
                    if s.starts_with("__VxRet") {
                        if let Ok(k) = s["__VxRet".len()..].parse::<usize>() {
                            if let Some(r) = m.rets.get(&k) {
                                self.word(r, false);
                                i += 1;
                                prev_joint = false;
                                prev_tight_after = false;
                                continue;
                            }
                        }
                    }
                    self.word(&s, prev_joint || prev_tight_after);
                    prev_joint = false;
                    prev_tight_after = false;
                }
                TokenTree::Literal(l) => {
                    self.note_span(l.span());
                    self.word(&l.to_string(), prev_joint || prev_tight_after);
                    prev_joint = false;
                    prev_tight_after = false;
                }
                TokenTree::Punct(p) => {
                    self.note_span(p.span());
                    let ch = p.as_char();
                    let tight_before =
                        prev_joint || prev_tight_after || matches!(ch, ',' | ';' | '.' | '?')
                            || (ch == ':' && p.spacing() == Spacing::Joint);
                    // `::` second colon
                    self.word(&ch.to_string(), tight_before);
                    prev_joint = p.spacing() == Spacing::Joint;
                    // no space after '.', after the 2nd ':' of '::', after lifetime quote
                    prev_tight_after = ch == '.'
                        || (ch == ':' && !prev_joint && self.cur.ends_with("::"))
                        || ch == '\'';
                    if in_braces && p.spacing() == Spacing::Alone && (ch == ';' || ch == ',') {
                        self.newline();
                        prev_tight_after = false;
                    }
                }
            }
            i += 1;
        }
    }

    /// inside (...) or [...]: same as stream but never breaks lines on ';' or ','
    fn stream_inline(&mut self, ts: TokenStream, m: &Markers) {
        self.stream(ts, m, false)
    }
}
