//! The closed set of rewrite rules applied to extracted items (DESIGN.md section 3).
//! Every rule is local, syntactic and recorded in `fired` when it changes something.

use crate::die;
use proc_macro2::{Span, TokenStream, TokenTree};
use quote::{quote, ToTokens};
use serde_json::Value;
use std::collections::BTreeMap;
use syn::visit_mut::{self, VisitMut};
use syn::{parse_quote, Block, Expr, Pat, Stmt};

#[derive(Default, Clone)]
pub struct Config {
    /// recv.m(args) => f(recv, args)
    pub method_map: BTreeMap<String, String>,
    /// R-call-map: a call through a path (`ToString::to_string(x)`) => `f(x)`
    pub call_map: BTreeMap<String, String>,
    /// identifier (in type or expression paths) => replacement path text
    pub ident_map: BTreeMap<String, String>,
    /// traits whose impls are kept as trait impls (default: emitted as inherent impls)
    pub keep_traits: Vec<String>,
    /// fns of the shape `fn f(..) -> impl Iterator { lets; from_fn(move || BODY) }`
    pub fromfn: Vec<String>,
    /// macros whose expansion keeps the value (format! in value paths)
    pub format_value: bool,
    /// derives kept on extracted field-less enums
    pub keep_derives: Vec<String>,
    /// derives kept on every other extracted type (default: none)
    pub keep_derives_struct: Vec<String>,
    /// normalized type text => replacement type text
    pub type_map: BTreeMap<String, String>,
    /// types of the captured `let` variables of R-fromfn functions: fn name -> var -> type
    pub fromfn_types: BTreeMap<String, BTreeMap<String, String>>,
    /// method-chain suffix (normalized) => function applied to the receiver
    pub chain_map: Vec<(String, String)>,
    /// R-strslice: `&X[a..]` => vx_str_from(X, a)  (only in units where every such X is a str)
    pub str_slice: bool,
    /// R-iter: `X.iter().all(f)` / `.any(f)` => vx_slice_all(X.as_slice(), f) / vx_slice_any(..)
    pub iter_rules: bool,
    /// add `Structural` to derives of field-less enums (default true)
    pub structural: bool,
    /// R-freefn: trait impls on foreign types emitted as free functions: impl selector => fn name
    pub free_fn_impls: BTreeMap<String, String>,
    /// R-fornext: `for PAT in X.m(..) BODY` with m listed here (m returns an iterator modelled by its `next`)
    pub for_next: Vec<String>,
    /// R-forvec: `for PAT in V BODY` with V one of these Vec variables (consumed by value)
    pub for_vec: Vec<String>,
    /// R-derive-from: the three error-plumbing shapes of the FromDeb822 expansion (see visit_expr_mut)
    pub derive_from: bool,
    /// R-selfmut: methods (selectors) whose `&self` receiver mutates the rowan tree through interior mutability
    pub self_mut: Vec<String>,
}

impl Config {
    pub fn from_unit(u: &Value) -> Config {
        let mut c = Config::default();
        if let Some(m) = u["method_map"].as_object() {
            for (k, v) in m {
                c.method_map.insert(k.clone(), v.as_str().unwrap().to_string());
            }
        }
        if let Some(m) = u["call_map"].as_object() {
            for (k, v) in m {
                c.call_map.insert(norm(k), v.as_str().unwrap().to_string());
            }
        }
        if let Some(m) = u["ident_map"].as_object() {
            for (k, v) in m {
                c.ident_map.insert(k.clone(), v.as_str().unwrap().to_string());
            }
        }
        if let Some(a) = u["self_mut"].as_array() {
            c.self_mut = a.iter().map(|v| v.as_str().unwrap().to_string()).collect();
        }
        c.derive_from = u["derive_from"].as_bool().unwrap_or(false);
        if let Some(a) = u["for_vec"].as_array() {
            c.for_vec = a.iter().map(|v| v.as_str().unwrap().to_string()).collect();
        }
        if let Some(a) = u["for_next"].as_array() {
            c.for_next = a.iter().map(|v| v.as_str().unwrap().to_string()).collect();
        }
        if let Some(a) = u["keep_traits"].as_array() {
            c.keep_traits = a.iter().map(|v| v.as_str().unwrap().to_string()).collect();
        }
        if let Some(m) = u["fromfn"].as_object() {
            for (k, v) in m {
                c.fromfn.push(k.clone());
                let mut tm = BTreeMap::new();
                if let Some(t) = v["types"].as_object() {
                    for (a, b) in t {
                        tm.insert(a.clone(), b.as_str().unwrap().to_string());
                    }
                }
                c.fromfn_types.insert(k.clone(), tm);
            }
        }
        if let Some(m) = u["type_map"].as_object() {
            for (k, v) in m {
                c.type_map.insert(norm(k), v.as_str().unwrap().to_string());
            }
        }
        if let Some(a) = u["chain_map"].as_array() {
            for e in a {
                c.chain_map.push((norm(e["chain"].as_str().unwrap()), e["fn"].as_str().unwrap().to_string()));
            }
        }
        c.format_value = u["format_value"].as_bool().unwrap_or(false);
        if let Some(a) = u["keep_derives_struct"].as_array() {
            c.keep_derives_struct = a.iter().map(|v| v.as_str().unwrap().to_string()).collect();
        }
        c.str_slice = u["str_slice"].as_bool().unwrap_or(false);
        c.iter_rules = u["iter_rules"].as_bool().unwrap_or(false);
        c.structural = u["structural"].as_bool().unwrap_or(true);
        if let Some(m) = u["free_fn_impls"].as_object() {
            for (k, v) in m {
                c.free_fn_impls.insert(norm(k), v.as_str().unwrap().to_string());
            }
        }
        c.keep_derives = match u["keep_derives"].as_array() {
            Some(a) => a.iter().map(|v| v.as_str().unwrap().to_string()).collect(),
            None => vec!["Clone".into(), "Copy".into(), "PartialEq".into(), "Eq".into()],
        };
        c
    }
}

pub type Fired = BTreeMap<String, usize>;

/// the two leading string literals of the (single) `format_args!(..)` inside `e`, if that is its shape
fn format_args_lits(e: &Expr) -> Option<(syn::LitStr, syn::LitStr)> {
    struct F(Vec<syn::Macro>);
    impl<'ast> syn::visit::Visit<'ast> for F {
        fn visit_macro(&mut self, m: &'ast syn::Macro) {
            if m.path.segments.last().map(|s| s.ident == "format_args").unwrap_or(false) { self.0.push(m.clone()); }
        }
    }
    let mut f = F(Vec::new());
    syn::visit::Visit::visit_expr(&mut f, e);
    if f.0.len() != 1 { return None; }
    let args = f.0[0].parse_body_with(syn::punctuated::Punctuated::<Expr, syn::Token![,]>::parse_terminated).ok()?;
    let mut it = args.iter();
    let lit = |x: Option<&Expr>| match x { Some(Expr::Lit(syn::ExprLit { lit: syn::Lit::Str(s), .. })) => Some(s.clone()), _ => None };
    let a = lit(it.next())?;
    let b = lit(it.next())?;
    Some((a, b))
}
fn fire(f: &mut Fired, r: &str) {
    *f.entry(r.to_string()).or_insert(0) += 1;
}

/// set every span to call_site so synthesized tokens are never attributed to a repo line
pub fn respan(ts: TokenStream) -> TokenStream {
    ts.into_iter()
        .map(|t| match t {
            TokenTree::Group(g) => {
                let mut ng = proc_macro2::Group::new(g.delimiter(), respan(g.stream()));
                ng.set_span(Span::call_site());
                TokenTree::Group(ng)
            }
            mut o => {
                o.set_span(Span::call_site());
                o
            }
        })
        .collect()
}

pub fn parse_expr_str(s: &str) -> Expr {
    let ts: TokenStream = s.parse().unwrap_or_else(|e| die(&format!("bad expr `{}`: {}", s, e)));
    syn::parse2(respan(ts)).unwrap_or_else(|e| die(&format!("bad expr `{}`: {}", s, e)))
}

// ------------------------------------------------------------------------------------------
// attribute filtering
// ------------------------------------------------------------------------------------------

pub fn filter_attrs(attrs: &mut Vec<syn::Attribute>, cfg: &Config, fieldless_enum: bool, fired: &mut Fired) {
    let mut out = Vec::new();
    for a in attrs.drain(..) {
        let name = a.path().to_token_stream().to_string();
        match name.as_str() {
            "doc" | "inline" | "must_use" | "cfg_attr" | "serde" | "deprecated" | "test" | "non_exhaustive" => {
                if name != "doc" {
                    fire(fired, "R-drop-attr");
                }
            }
            "derive" => {
                let mut keep: Vec<String> = Vec::new();
                let _ = a.parse_nested_meta(|m| {
                    let n = m.path.to_token_stream().to_string().replace(' ', "");
                    let last = n.rsplit("::").next().unwrap().to_string();
                    if (fieldless_enum && cfg.keep_derives.contains(&last)) || cfg.keep_derives_struct.contains(&last) {
                        keep.push(last);
                    }
                    Ok(())
                });
                if cfg.structural && fieldless_enum && keep.iter().any(|k| k == "PartialEq") && keep.iter().any(|k| k == "Eq") {
                    keep.push("Structural".to_string());
                    fire(fired, "R-derive-structural");
                }
                if !keep.is_empty() {
                    let idents: Vec<syn::Ident> =
                        keep.iter().map(|k| syn::Ident::new(k, Span::call_site())).collect();
                    out.push(parse_quote!(#[derive(#(#idents),*)]));
                }
                fire(fired, "R-derive");
            }
            _ => out.push(a),
        }
    }
    *attrs = out;
}

pub fn has_cfg_test_or_feature(attrs: &[syn::Attribute]) -> bool {
    for a in attrs {
        if a.path().is_ident("cfg") {
            let s = a.meta.to_token_stream().to_string();
            if s.contains("test") || s.contains("python-debian") {
                return true;
            }
        }
    }
    false
}

// ------------------------------------------------------------------------------------------
// the expression/statement rewriter
// ------------------------------------------------------------------------------------------

pub struct Rewriter<'a> {
    pub cfg: &'a Config,
    pub fired: &'a mut Fired,
    pub tmp: usize,
    pub self_err: Option<Vec<(String, syn::Type)>>, // Self::X => type, when a trait impl is made inherent
}

/// `Some("lit")` (possibly or-ed): the literals
fn some_lit_str_of_pat(p: &Pat) -> Option<Vec<syn::LitStr>> {
    match p {
        Pat::TupleStruct(ts) if ts.path.is_ident("Some") && ts.elems.len() == 1 => lit_str_of_pat(&ts.elems[0]),
        Pat::Or(o) => {
            let mut v = Vec::new();
            for c in o.cases.iter() {
                v.extend(some_lit_str_of_pat(c)?);
            }
            Some(v)
        }
        _ => None,
    }
}

/// patterns that, as the LAST arm of a match on Option<&str>, catch everything: `_`, `None | Some(_)`
fn is_option_catch_all(p: &Pat) -> bool {
    match p {
        Pat::Wild(_) => true,
        Pat::Or(o) => {
            let mut none = false;
            let mut some_wild = false;
            for c in o.cases.iter() {
                match c {
                    Pat::Ident(pi) if pi.ident == "None" => none = true,
                    Pat::Path(pp) if pp.path.is_ident("None") => none = true,
                    Pat::TupleStruct(ts) if ts.path.is_ident("Some") && ts.elems.len() == 1 && matches!(ts.elems[0], Pat::Wild(_)) => some_wild = true,
                    _ => return false,
                }
            }
            none && some_wild
        }
        _ => false,
    }
}

fn lit_str_of_pat(p: &Pat) -> Option<Vec<syn::LitStr>> {
    match p {
        Pat::Lit(l) => match &l.lit {
            syn::Lit::Str(s) => Some(vec![s.clone()]),
            _ => None,
        },
        Pat::Or(o) => {
            let mut v = Vec::new();
            for c in o.cases.iter() {
                v.extend(lit_str_of_pat(c)?);
            }
            Some(v)
        }
        Pat::Paren(pp) => lit_str_of_pat(&pp.pat),
        _ => None,
    }
}

/// split a format string into literal pieces and placeholders
pub enum Piece {
    Lit(String),
    Display(Option<String>), // None = next positional, Some(name) = inline named
    Debug(Option<String>),
}

pub fn parse_fmt(s: &str) -> Option<Vec<Piece>> {
    let mut out = Vec::new();
    let mut lit = String::new();
    let cs: Vec<char> = s.chars().collect();
    let mut i = 0;
    while i < cs.len() {
        let c = cs[i];
        if c == '{' {
            if i + 1 < cs.len() && cs[i + 1] == '{' {
                lit.push('{');
                i += 2;
                continue;
            }
            let mut j = i + 1;
            let mut inner = String::new();
            while j < cs.len() && cs[j] != '}' {
                inner.push(cs[j]);
                j += 1;
            }
            if j >= cs.len() {
                return None;
            }
            if !lit.is_empty() {
                out.push(Piece::Lit(std::mem::take(&mut lit)));
            }
            let (name, spec) = match inner.find(':') {
                Some(p) => (inner[..p].to_string(), inner[p + 1..].to_string()),
                None => (inner.clone(), String::new()),
            };
            let name = if name.is_empty() { None } else { Some(name) };
            if let Some(n) = &name {
                if n.chars().next().unwrap().is_ascii_digit() {
                    return None;
                }
            }
            match spec.as_str() {
                "" => out.push(Piece::Display(name)),
                "?" => out.push(Piece::Debug(name)),
                _ => return None,
            }
            i = j + 1;
        } else if c == '}' {
            if i + 1 < cs.len() && cs[i + 1] == '}' {
                lit.push('}');
                i += 2;
                continue;
            }
            return None;
        } else {
            lit.push(c);
            i += 1;
        }
    }
    if !lit.is_empty() {
        out.push(Piece::Lit(lit));
    }
    Some(out)
}

impl<'a> Rewriter<'a> {
    fn fresh(&mut self, base: &str) -> syn::Ident {
        self.tmp += 1;
        syn::Ident::new(&format!("__{}{}", base, self.tmp), Span::call_site())
    }

    /// write!(f, "..{}..", a, b)  =>  { f.write_str("..")?; vx_display(&a, f)?; ...; last }
    fn expand_write(&mut self, mac: &syn::Macro, newline: bool) -> Option<Expr> {
        let args: syn::punctuated::Punctuated<Expr, syn::Token![,]> =
            mac.parse_body_with(syn::punctuated::Punctuated::parse_terminated).ok()?;
        let mut it = args.into_iter();
        let f = it.next()?;
        let fmt = match it.next() {
            Some(Expr::Lit(syn::ExprLit { lit: syn::Lit::Str(s), .. })) => s.value(),
            None if newline => String::new(),
            _ => return None,
        };
        let rest: Vec<Expr> = it.collect();
        let mut pieces = parse_fmt(&fmt)?;
        if newline {
            match pieces.last_mut() {
                Some(Piece::Lit(l)) => l.push('\n'),
                _ => pieces.push(Piece::Lit("\n".to_string())),
            }
        }
        let mut calls: Vec<Expr> = Vec::new();
        let mut pos = 0;
        for p in pieces {
            match p {
                Piece::Lit(l) => {
                    let ls = syn::LitStr::new(&l, Span::call_site());
                    calls.push(parse_quote!(#f.write_str(#ls)));
                }
                Piece::Display(n) | Piece::Debug(n) => {
                    let arg: Expr = match n {
                        Some(name) => {
                            let id = syn::Ident::new(&name, Span::call_site());
                            parse_quote!(#id)
                        }
                        None => {
                            let a = rest.get(pos)?.clone();
                            pos += 1;
                            a
                        }
                    };
                    calls.push(parse_quote!(vx_display(&#arg, #f)));
                }
            }
        }
        if pos != rest.len() {
            return None;
        }
        if calls.is_empty() {
            return Some(parse_quote!(Ok(())));
        }
        let last = calls.pop().unwrap();
        fire(self.fired, "R-fmt-write");
        Some(parse_quote!({ #(#calls?;)* #last }))
    }

    /// format!("a{}b", x) in a value position => { let mut s = String::new(); s.push_str("a"); s.push_str(vx_to_string(&x).as_str()); ..; s }
    fn expand_format_value(&mut self, mac: &syn::Macro) -> Option<Expr> {
        let args: syn::punctuated::Punctuated<Expr, syn::Token![,]> =
            mac.parse_body_with(syn::punctuated::Punctuated::parse_terminated).ok()?;
        let mut it = args.into_iter();
        let fmt = match it.next() {
            Some(Expr::Lit(syn::ExprLit { lit: syn::Lit::Str(s), .. })) => s.value(),
            _ => return None,
        };
        let rest: Vec<Expr> = it.collect();
        let pieces = parse_fmt(&fmt)?;
        let mut stmts: Vec<Stmt> = Vec::new();
        let mut pos = 0;
        for p in pieces {
            match p {
                Piece::Lit(l) => {
                    let ls = syn::LitStr::new(&l, Span::call_site());
                    stmts.push(parse_quote!(__s.push_str(#ls);));
                }
                Piece::Display(n) => {
                    let arg: Expr = match n {
                        Some(name) => {
                            let id = syn::Ident::new(&name, Span::call_site());
                            parse_quote!(#id)
                        }
                        None => {
                            let a = rest.get(pos)?.clone();
                            pos += 1;
                            a
                        }
                    };
                    stmts.push(parse_quote!(__s.push_str(vx_to_string(&#arg).as_str());));
                }
                Piece::Debug(_) => return None,
            }
        }
        if pos != rest.len() {
            return None;
        }
        fire(self.fired, "R-fmt-value");
        Some(parse_quote!({ let mut __s = String::new(); #(#stmts)* __s }))
    }

    fn rewrite_macro_expr(&mut self, mac: &syn::Macro) -> Option<Expr> {
        let name = mac.path.segments.last().map(|s| s.ident.to_string()).unwrap_or_default();
        match name.as_str() {
            "format" => {
                if self.cfg.format_value {
                    if let Some(e) = self.expand_format_value(mac) {
                        return Some(e);
                    }
                }
                fire(self.fired, "R-fmt-opaque");
                Some(parse_quote!(vx_opaque_string()))
            }
            "write" => self.expand_write(mac, false),
            "writeln" => self.expand_write(mac, true),
            "vec" => {
                // R-vec: `vec![a, b]` => `{ let mut __v = Vec::new(); __v.push(a); __v.push(b); __v }`
                // (the list form only; the elements are then rewritten as ordinary expressions)
                let args: syn::punctuated::Punctuated<Expr, syn::Token![,]> =
                    mac.parse_body_with(syn::punctuated::Punctuated::parse_terminated).ok()?;
                if args.is_empty() {
                    return None;
                }
                let items: Vec<Expr> = args.into_iter().collect();
                fire(self.fired, "R-vec");
                Some(parse_quote!({ let mut __v = Vec::new(); #( __v.push(#items); )* __v }))
            }
            "panic" | "todo" | "unimplemented" => {
                fire(self.fired, "R-panic");
                Some(parse_quote!(vx_panic()))
            }
            "unreachable" => {
                fire(self.fired, "R-panic");
                Some(parse_quote!(vx_unreachable()))
            }
            "assert" | "debug_assert" => {
                let args: syn::punctuated::Punctuated<Expr, syn::Token![,]> =
                    mac.parse_body_with(syn::punctuated::Punctuated::parse_terminated).ok()?;
                let c = args.first()?.clone();
                fire(self.fired, "R-assert");
                Some(parse_quote!(vx_assert(#c)))
            }
            "assert_eq" | "debug_assert_eq" => {
                let args: syn::punctuated::Punctuated<Expr, syn::Token![,]> =
                    mac.parse_body_with(syn::punctuated::Punctuated::parse_terminated).ok()?;
                let mut it = args.into_iter();
                let a = it.next()?;
                let b = it.next()?;
                fire(self.fired, "R-assert");
                Some(parse_quote!(vx_assert(#a == #b)))
            }
            "assert_ne" => {
                let args: syn::punctuated::Punctuated<Expr, syn::Token![,]> =
                    mac.parse_body_with(syn::punctuated::Punctuated::parse_terminated).ok()?;
                let mut it = args.into_iter();
                let a = it.next()?;
                let b = it.next()?;
                fire(self.fired, "R-assert");
                Some(parse_quote!(vx_assert(#a != #b)))
            }
            _ => None,
        }
    }

    /// R-strmatch on `Option<&str>`: arms `Some("lit") => X` ... last arm `_` or `None | Some(_)`
    fn rewrite_opt_str_match(&mut self, m: &syn::ExprMatch) -> Option<Expr> {
        let n = m.arms.len();
        if n < 2 || !is_option_catch_all(&m.arms[n - 1].pat) || m.arms[n - 1].guard.is_some() {
            return None;
        }
        let scrut = &m.expr;
        let tmp = self.fresh("m");
        let last = &m.arms[n - 1].body;
        let mut acc: Expr = parse_quote!({ #last });
        for arm in m.arms[..n - 1].iter().rev() {
            let lits = some_lit_str_of_pat(&arm.pat)?;
            if arm.guard.is_some() {
                return None;
            }
            let body = &arm.body;
            let l0 = &lits[0];
            let mut cond: Expr = parse_quote!(#tmp == Some(#l0));
            for l in lits.iter().skip(1) {
                cond = parse_quote!(#cond || #tmp == Some(#l));
            }
            acc = parse_quote!(if #cond { #body } else #acc);
        }
        fire(self.fired, "R-strmatch-option");
        Some(parse_quote!(match #scrut { #tmp => #acc }))
    }

    /// R-strmatch
    fn rewrite_str_match(&mut self, m: &syn::ExprMatch) -> Option<Expr> {
        if m.arms.iter().any(|a| some_lit_str_of_pat(&a.pat).is_some()) {
            return self.rewrite_opt_str_match(m);
        }
        if !m.arms.iter().any(|a| lit_str_of_pat(&a.pat).is_some()) {
            return None;
        }
        let scrut = &m.expr;
        let tmp = self.fresh("m");
        // build from the last arm backwards
        let mut acc: Option<Expr> = None;
        for arm in m.arms.iter().rev() {
            let body = &arm.body;
            let guard = arm.guard.as_ref().map(|(_, g)| g.clone());
            if let Some(lits) = lit_str_of_pat(&arm.pat) {
                let mut cond: Expr = {
                    let l = &lits[0];
                    parse_quote!(#tmp == #l)
                };
                for l in lits.iter().skip(1) {
                    cond = parse_quote!(#cond || #tmp == #l);
                }
                if let Some(g) = guard {
                    cond = parse_quote!((#cond) && #g);
                }
                let els: Expr = acc.take().unwrap_or_else(|| parse_quote!({ vx_unreachable() }));
                acc = Some(parse_quote!(if #cond { #body } else #els));
            } else {
                // binding or wildcard arm
                let bind: Option<syn::Ident> = match &arm.pat {
                    Pat::Wild(_) => None,
                    Pat::Ident(pi) if pi.subpat.is_none() && pi.by_ref.is_none() => Some(pi.ident.clone()),
                    _ => return None,
                };
                let inner: Expr = match bind {
                    Some(id) => parse_quote!({ let #id = #tmp; #body }),
                    None => parse_quote!({ #body }),
                };
                match guard {
                    Some(g) => {
                        // `v if g => body` : needs the binding inside the guard; only wildcard supported
                        if !matches!(arm.pat, Pat::Wild(_)) {
                            return None;
                        }
                        let els: Expr = acc.take().unwrap_or_else(|| parse_quote!({ vx_unreachable() }));
                        acc = Some(parse_quote!(if #g #inner else #els));
                    }
                    None => {
                        acc = Some(inner);
                    }
                }
            }
        }
        let chain = acc?;
        fire(self.fired, "R-strmatch");
        // a single-arm match (not a `let`) keeps temporaries of the scrutinee alive, as the original match does
        Some(parse_quote!(match #scrut { #tmp => #chain }))
    }
}

fn pat_is_simple_ident(p: &Pat) -> bool {
    match p {
        Pat::Ident(pi) => pi.subpat.is_none() && pi.by_ref.is_none(),
        Pat::Type(pt) => pat_is_simple_ident(&pt.pat),
        _ => false,
    }
}

impl<'a> VisitMut for Rewriter<'a> {
    fn visit_expr_mut(&mut self, e: &mut Expr) {
        // rewrite macros first (their arguments are then visited as ordinary expressions)
        if let Expr::Macro(em) = e {
            if let Some(n) = self.rewrite_macro_expr(&em.mac) {
                *e = n;
            }
        }
        if let Expr::Match(m) = e {
            if let Some(n) = self.rewrite_str_match(m) {
                *e = n;
            }
        }
        // R-emptyarray: `[]` (an empty `impl IntoIterator` argument) => `Vec::new()`
        if let Expr::Array(a) = e {
            if a.elems.is_empty() {
                fire(self.fired, "R-emptyarray");
                *e = parse_quote!(Vec::new());
            }
        }
        // R-splitchar: `X.split(C).map(|x| x.to_string()).collect()` => vx_split_char_strings(X, C)
        if let Expr::MethodCall(mc) = e {
            if mc.method == "collect" && mc.args.is_empty() {
                if let Expr::MethodCall(mp) = &*mc.receiver {
                    if mp.method == "map" && mp.args.len() == 1 {
                        let cl = norm(&mp.args[0].to_token_stream().to_string());
                        if cl == "|x|x.to_string()" || cl == "|v|v.to_string()" {
                            if let Expr::MethodCall(sp) = &*mp.receiver {
                                if sp.method == "split" && sp.args.len() == 1 {
                                    if let Expr::Lit(syn::ExprLit { lit: syn::Lit::Char(_), .. }) = &sp.args[0] {
                                        let x = &sp.receiver;
                                        let c = &sp.args[0];
                                        let n: Expr = parse_quote!(vx_split_char_strings(#x, #c));
                                        fire(self.fired, "R-splitchar");
                                        *e = n;
                                    }
                                }
                            }
                        }
                    }
                }
            }
        }
        // R-chain: RECV<chain> => f(RECV)
        if let Expr::MethodCall(_) = e {
            let full = norm(&e.to_token_stream().to_string());
            let mut hit: Option<Expr> = None;
            for (chain, f) in self.cfg.chain_map.iter() {
                if full.ends_with(chain.as_str()) {
                    // find the receiver whose text is the prefix
                    let mut cur: &Expr = e;
                    while let Expr::MethodCall(mc) = cur {
                        let r = norm(&mc.receiver.to_token_stream().to_string());
                        if format!("{}{}", r, chain) == full {
                            let (fname, mode) = match f.split_once(':') {
                                Some((a, b)) => (a.to_string(), b.to_string()),
                                None => (f.clone(), String::new()),
                            };
                            let fpath = parse_expr_str(&fname);
                            let recv = &mc.receiver;
                            hit = Some(match mode.as_str() {
                                "&" => parse_quote!(#fpath(&#recv)),
                                "&mut" => parse_quote!(#fpath(&mut #recv)),
                                _ => parse_quote!(#fpath(#recv)),
                            });
                            break;
                        }
                        cur = &mc.receiver;
                    }
                }
                if hit.is_some() {
                    fire(self.fired, "R-chain");
                    break;
                }
            }
            if let Some(h) = hit {
                *e = h;
            }
        }
        visit_mut::visit_expr_mut(self, e);
        // R-strslice
        if self.cfg.str_slice {
            let mut rep: Option<Expr> = None;
            if let Expr::Reference(r) = e {
                if r.mutability.is_none() {
                    if let Expr::Index(ix) = &*r.expr {
                        if let Expr::Range(rg) = &*ix.index {
                            if let (Some(a), None, syn::RangeLimits::HalfOpen(_)) = (&rg.start, &rg.end, &rg.limits) {
                                let x = &ix.expr;
                                rep = Some(parse_quote!(vx_str_from(#x, #a)));
                            }
                        }
                    }
                }
            }
            if let Some(n) = rep {
                fire(self.fired, "R-strslice");
                *e = n;
            }
        }
        // R-iter
        if self.cfg.iter_rules {
            let mut rep: Option<Expr> = None;
            if let Expr::MethodCall(mc) = e {
                let m = mc.method.to_string();
                if (m == "all" || m == "any") && mc.args.len() == 1 {
                    if let Expr::MethodCall(inner) = &*mc.receiver {
                        if inner.method == "iter" && inner.args.is_empty() {
                            let x = &inner.receiver;
                            let f = &mc.args[0];
                            let target = syn::Ident::new(&format!("vx_slice_{}", m), Span::call_site());
                            rep = Some(parse_quote!(#target((#x).as_slice(), #f)));
                        }
                    }
                }
            }
            // X.iter().filter(F).last()  /  X.iter().find(F)
            if rep.is_none() {
                if let Expr::MethodCall(mc) = e {
                    let m = mc.method.to_string();
                    if m == "last" && mc.args.is_empty() {
                        if let Expr::MethodCall(fl) = &*mc.receiver {
                            if fl.method == "filter" && fl.args.len() == 1 {
                                if let Expr::MethodCall(it) = &*fl.receiver {
                                    if it.method == "iter" && it.args.is_empty() {
                                        let x = &it.receiver;
                                        let f = &fl.args[0];
                                        rep = Some(parse_quote!(vx_slice_filter_last((#x).as_slice(), #f)));
                                    }
                                }
                            }
                        }
                    } else if m == "find" && mc.args.len() == 1 {
                        if let Expr::MethodCall(it) = &*mc.receiver {
                            if it.method == "iter" && it.args.is_empty() {
                                let x = &it.receiver;
                                let f = &mc.args[0];
                                rep = Some(parse_quote!(vx_slice_find((#x).as_slice(), #f)));
                            }
                        }
                    }
                }
            }
            if let Some(n) = rep {
                fire(self.fired, "R-iter");
                *e = n;
            }
        }
        // R-ctorfn: a tuple-struct constructor passed as a function value, `.map(Ctor)`, is eta-expanded to
        // `.map(|__x| Ctor(__x))` (Verus: "datatype constructor as a function value" unsupported)
        if let Expr::MethodCall(mc) = e {
            let m = mc.method.to_string();
            if (m == "map" || m == "filter_map" || m == "and_then") && mc.args.len() == 1 {
                let mut rep: Option<Expr> = None;
                if let Expr::Path(p) = &mc.args[0] {
                    if p.qself.is_none() && p.path.segments.len() >= 1 {
                        // `Ctor` or `Enum::Variant` (every segment capitalised: a type path, not a function path)
                        let all_caps = p.path.segments.iter().all(|sg| sg.ident.to_string().chars().next().map(|c| c.is_ascii_uppercase()).unwrap_or(false));
                        let n = p.path.segments.last().unwrap().ident.to_string();
                        if all_caps && n != "Some" && n != "Ok" && n != "Err" {
                            let path = &p.path;
                            rep = Some(parse_quote!(|__x| #path(__x)));
                        }
                    }
                }
                if let Some(r) = rep {
                    mc.args[0] = r;
                    fire(self.fired, "R-ctorfn");
                }
            }
        }
        // R-stradd: `E + "lit"` => vx_string_add(E, "lit")  (only String + &str type-checks with a literal on the right;
        // Verus 0.2026.09 has an internal error on the Add impl)
        {
            let mut rep: Option<Expr> = None;
            if let Expr::Binary(b) = e {
                if matches!(b.op, syn::BinOp::Add(_)) {
                    if let Expr::Lit(syn::ExprLit { lit: syn::Lit::Str(_), .. }) = &*b.right {
                        let l = &b.left;
                        let r = &b.right;
                        rep = Some(parse_quote!(vx_string_add(#l, #r)));
                    }
                }
            }
            if let Some(n) = rep {
                fire(self.fired, "R-stradd");
                *e = n;
            }
        }
        // R-fornext: `for PAT in X.m(..) BODY` (m in unit.json for_next) =>
        //   `{ let mut __it = X.m(..); while let Some(PAT) = __it.next() BODY }`
        {
            let mut rep: Option<Expr> = None;
            if let Expr::ForLoop(fl) = e {
                if let Expr::MethodCall(mc) = &*fl.expr {
                    if self.cfg.for_next.iter().any(|m| mc.method == m) && fl.label.is_none() {
                        let it = &fl.expr;
                        let pat = &fl.pat;
                        let body = &fl.body;
                        rep = Some(parse_quote!({ let mut __it = #it; while let Some(#pat) = __it.next() #body }));
                    }
                }
            }
            if let Some(n) = rep {
                fire(self.fired, "R-fornext");
                *e = n;
            }
        }
        // R-forvec: `for PAT in V BODY` (V a Vec variable listed in unit.json for_vec, consumed by value) =>
        //   `{ let mut __it = vx_vec_into_iter(V); while let Some(PAT) = __it.next() BODY }`
        {
            let mut rep: Option<Expr> = None;
            if let Expr::ForLoop(fl) = e {
                if let Expr::Path(p) = &*fl.expr {
                    if fl.label.is_none() && p.path.get_ident().map(|i| self.cfg.for_vec.iter().any(|v| i == v)).unwrap_or(false) {
                        let v = &fl.expr;
                        let pat = &fl.pat;
                        let body = &fl.body;
                        rep = Some(parse_quote!({ let mut __it = vx_vec_into_iter(#v); while let Some(#pat) = __it.next() #body }));
                    }
                }
            }
            if let Some(n) = rep {
                fire(self.fired, "R-forvec");
                *e = n;
            }
        }
        // R-forby: `for PAT in E.by_ref() BODY` => `while let Some(PAT) = E.next() BODY`
        {
            let mut rep: Option<Expr> = None;
            if let Expr::ForLoop(fl) = e {
                if let Expr::MethodCall(mc) = &*fl.expr {
                    if mc.method == "by_ref" && mc.args.is_empty() && fl.label.is_none() {
                        let recv = &mc.receiver;
                        let pat = &fl.pat;
                        let body = &fl.body;
                        rep = Some(parse_quote!(while let Some(#pat) = #recv.next() #body));
                    }
                }
            }
            if let Some(n) = rep {
                fire(self.fired, "R-forby");
                *e = n;
            }
        }
        // R-itermut: `for X in &mut V BODY` => { let mut __i: usize = 0; while __i < V.len() { let X = &mut V[__i]; __i += 1; BODY } }
        // (vstd has no usable model of slice::IterMut; elements are visited once each, in order)
        {
            let mut rep: Option<Expr> = None;
            if let Expr::ForLoop(fl) = e {
                if let Expr::Reference(r) = &*fl.expr {
                    if r.mutability.is_some() && fl.label.is_none() && pat_is_simple_ident(&fl.pat) {
                        let v = &r.expr;
                        let px = &fl.pat;
                        let stmts = &fl.body.stmts;
                        rep = Some(parse_quote!({
                            let mut __i: usize = 0;
                            while __i < #v.len() {
                                let #px = &mut #v[__i];
                                __i += 1;
                                #(#stmts)*
                            }
                        }));
                    }
                }
            }
            if let Some(n) = rep {
                fire(self.fired, "R-itermut");
                *e = n;
            }
        }
        // R-enumerate: `for (I, X) in V.iter().enumerate() BODY` =>
        //   { let mut __i: usize = 0; while __i < V.len() { let I = __i; let X = &V[__i]; __i += 1; BODY } }
        {
            let mut rep: Option<Expr> = None;
            if let Expr::ForLoop(fl) = e {
                if let (Expr::MethodCall(en), Pat::Tuple(pt)) = (&*fl.expr, &*fl.pat) {
                    if en.method == "enumerate" && en.args.is_empty() && pt.elems.len() == 2 && fl.label.is_none() {
                        let is_slice_iter = matches!(&*en.receiver, Expr::MethodCall(it) if it.method == "iter" && it.args.is_empty());
                        if !is_slice_iter {
                            // R-enumerate (iterator form): `for (I, X) in E.enumerate() BODY` =>
                            //   { let mut __it = E; let mut __i: usize = 0;
                            //     while let Some(__x) = __it.next() { let I = __i; let X = __x; __i += 1; BODY } }
                            // (the counter's `+= 1` keeps its overflow obligation)
                            let it = &en.receiver;
                            let pi = &pt.elems[0];
                            let px = &pt.elems[1];
                            let stmts = &fl.body.stmts;
                            rep = Some(parse_quote!({
                                let mut __it = #it;
                                let mut __i: usize = 0;
                                while let Some(__x) = __it.next() {
                                    let #pi = __i;
                                    let #px = __x;
                                    __i += 1;
                                    #(#stmts)*
                                }
                            }));
                        }
                        if let Expr::MethodCall(it) = &*en.receiver {
                            if it.method == "iter" && it.args.is_empty() {
                                let v = &it.receiver;
                                let pi = &pt.elems[0];
                                let px = &pt.elems[1];
                                let stmts = &fl.body.stmts;
                                rep = Some(parse_quote!({
                                    let mut __i: usize = 0;
                                    while __i < #v.len() {
                                        let #pi = __i;
                                        let #px = &#v[__i];
                                        __i += 1;
                                        #(#stmts)*
                                    }
                                }));
                            }
                        }
                    }
                }
            }
            if let Some(n) = rep {
                fire(self.fired, "R-enumerate");
                *e = n;
            }
        }
        // R-derive-from (unit.json "derive_from": true): the error plumbing of `#[derive(FromDeb822)]`'s expansion.
        //   `O.map(|v| BODY).transpose()?`          => `match O { Some(v) => Some((BODY)?), None => None }`   (beta-reduction)
        //   `O.ok_or_else(|| ..format_args!(F, K)..)` => `vx_ok_or_fmt(O, F, K)`     (F, K: the two leading string literals
        //   `R.map_err(|e| ..format_args!(F, K, e)..)` => `vx_map_err_fmt(R, F, K)`    of the closure's format_args!)
        if self.cfg.derive_from {
            let mut rep: Option<Expr> = None;
            if let Expr::Try(t) = e {
                if let Expr::MethodCall(tr) = &*t.expr {
                    if tr.method == "transpose" && tr.args.is_empty() {
                        if let Expr::MethodCall(mp) = &*tr.receiver {
                            if mp.method == "map" && mp.args.len() == 1 {
                                if let Expr::Closure(cl) = &mp.args[0] {
                                    if cl.inputs.len() == 1 {
                                        let recv = &mp.receiver;
                                        let pat = &cl.inputs[0];
                                        let body = &cl.body;
                                        rep = Some(parse_quote!(match #recv { Some(#pat) => Some((#body)?), None => None }));
                                        fire(self.fired, "R-derive-from:transpose");
                                    }
                                }
                            }
                        }
                    }
                }
            }
            if let Expr::MethodCall(mc) = e {
                if mc.args.len() == 1 && (mc.method == "ok_or_else" || mc.method == "map_err") {
                    if let Expr::Closure(cl) = &mc.args[0] {
                        let recv = &mc.receiver;
                        let (f, k) = match format_args_lits(&cl.body) {
                            Some(x) => x,
                            None => die(&format!("R-derive-from: `.{}(..)` whose closure is not a format_args! of two leading string literals (unsupported construct)", mc.method)),
                        };
                        if mc.method == "ok_or_else" {
                            rep = Some(parse_quote!(vx_ok_or_fmt(#recv, #f, #k)));
                            fire(self.fired, "R-derive-from:ok_or_else");
                        } else {
                            rep = Some(parse_quote!(vx_map_err_fmt(#recv, #f, #k)));
                            fire(self.fired, "R-derive-from:map_err");
                        }
                    }
                }
            }
            if let Some(n) = rep { *e = n; }
        }
        // R-call-map: `Path::to::f(args)` => `g(args)`
        if let Expr::Call(c) = e {
            if let Expr::Path(p) = &*c.func {
                let key = norm(&p.to_token_stream().to_string());
                if let Some(g) = self.cfg.call_map.get(&key) {
                    let gp = parse_expr_str(g);
                    c.func = Box::new(gp);
                    fire(self.fired, &format!("R-call-map:{}", key));
                }
            }
        }
        match e {
            // R-method-map: recv.m(args) => f(recv, args)
            Expr::MethodCall(mc) => {
                let name = mc.method.to_string();
                // R-std-rename (default, type-directed through the VxStrExt extension trait)
                if !self.cfg.method_map.contains_key(&name)
                    && matches!(
                        name.as_str(),
                        "trim" | "trim_start" | "trim_end" | "ends_with" | "starts_with" | "strip_suffix" | "eq_ignore_ascii_case"
                    )
                {
                    mc.method = syn::Ident::new(&format!("vx_{}", name), Span::call_site());
                    fire(self.fired, &format!("R-std-rename:{}", name));
                }
                if let Some(f0) = self.cfg.method_map.get(&name) {
                    // "f:&mut" => f(&mut recv, args); "f:&" => f(&recv, args)
                    let (f, mode) = match f0.split_once(':') {
                        Some((a, b)) => (a.to_string(), b.to_string()),
                        None => (f0.clone(), String::new()),
                    };
                    let fpath: Expr = parse_expr_str(&f);
                    let r0 = &mc.receiver;
                    let recv_e: Expr = match mode.as_str() {
                        "&mut" => parse_quote!(&mut #r0),
                        "&" => parse_quote!(&#r0),
                        _ => (**r0).clone(),
                    };
                    let recv = &recv_e;
                    let args = &mc.args;
                    let turbofish = &mc.turbofish;
                    let call: Expr = if args.is_empty() {
                        parse_quote!(#fpath #turbofish (#recv))
                    } else {
                        parse_quote!(#fpath #turbofish (#recv, #args))
                    };
                    fire(self.fired, &format!("R-method-map:{}", name));
                    *e = call;
                }
            }
            // R-closurepat
            Expr::Closure(c) => {
                let mut lets: Vec<Stmt> = Vec::new();
                let mut changed = false;
                for (i, inp) in c.inputs.iter_mut().enumerate() {
                    if !pat_is_simple_ident(inp) {
                        let id = syn::Ident::new(&format!("__p{}", i), Span::call_site());
                        let old = inp.clone();
                        match old {
                            Pat::Reference(r) if pat_is_simple_ident(&r.pat) => {
                                let inner = &r.pat;
                                lets.push(parse_quote!(let #inner = *#id;));
                            }
                            Pat::Wild(_) => {}
                            other => {
                                lets.push(parse_quote!(let #other = #id;));
                            }
                        }
                        *inp = parse_quote!(#id);
                        changed = true;
                    }
                }
                if changed {
                    let body = &c.body;
                    let nb: Expr = parse_quote!({ #(#lets)* #body });
                    c.body = Box::new(nb);
                    fire(self.fired, "R-closurepat");
                }
            }
            _ => {}
        }
    }

    fn visit_stmt_mut(&mut self, s: &mut Stmt) {
        if let Stmt::Macro(sm) = s {
            if let Some(n) = self.rewrite_macro_expr(&sm.mac) {
                *s = Stmt::Expr(n, sm.semi_token);
            }
        }
        visit_mut::visit_stmt_mut(self, s);
    }

    // R-refpat for `while let` / `if let`
    fn visit_expr_while_mut(&mut self, w: &mut syn::ExprWhile) {
        if let Expr::Let(l) = &mut *w.cond {
            if let Some((id, inner)) = split_ref_pat(&mut l.pat, &mut self.tmp) {
                w.body.stmts.insert(0, parse_quote!(let #inner = *#id;));
                fire(self.fired, "R-refpat");
            }
        }
        visit_mut::visit_expr_while_mut(self, w);
    }
    fn visit_expr_if_mut(&mut self, w: &mut syn::ExprIf) {
        if let Expr::Let(l) = &mut *w.cond {
            if let Some((id, inner)) = split_ref_pat(&mut l.pat, &mut self.tmp) {
                w.then_branch.stmts.insert(0, parse_quote!(let #inner = *#id;));
                fire(self.fired, "R-refpat");
            }
        }
        visit_mut::visit_expr_if_mut(self, w);
    }

    fn visit_type_mut(&mut self, t: &mut syn::Type) {
        let key = norm(&t.to_token_stream().to_string());
        if let Some(rep) = self.cfg.type_map.get(&key) {
            let ts: TokenStream = rep.parse().unwrap();
            if let Ok(nt) = syn::parse2::<syn::Type>(respan(ts)) {
                *t = nt;
                fire(self.fired, "R-type-map");
                return;
            }
        }
        // Self::X => the impl's associated type X (R-inherent)
        if let (Some(assoc), syn::Type::Path(tp)) = (&self.self_err, &*t) {
            if tp.qself.is_none() && tp.path.segments.len() == 2 && tp.path.segments[0].ident == "Self" {
                let b = tp.path.segments[1].ident.to_string();
                if let Some((_, ty)) = assoc.iter().find(|(n, _)| *n == b) {
                    *t = ty.clone();
                    return;
                }
            }
        }
        visit_mut::visit_type_mut(self, t);
    }

    fn visit_type_path_mut(&mut self, t: &mut syn::TypePath) {
        // Self::X => the impl's associated type X (R-inherent)
        if let Some(assoc) = &self.self_err {
            if t.qself.is_none() && t.path.segments.len() == 2 {
                let a = t.path.segments[0].ident.to_string();
                let b = t.path.segments[1].ident.to_string();
                if a == "Self" {
                    for (n, ty) in assoc.iter() {
                        if *n == b {
                            if let syn::Type::Path(tp) = ty {
                                *t = tp.clone();
                                return;
                            }
                        }
                    }
                }
            }
        }
        visit_mut::visit_type_path_mut(self, t);
    }

    fn visit_path_mut(&mut self, p: &mut syn::Path) {
        // R-ident-map on single-segment or fully-written paths
        let key = p.to_token_stream().to_string().replace(' ', "");
        if let Some(rep) = self.cfg.ident_map.get(&key) {
            let ts: TokenStream = rep.parse().unwrap();
            if let Ok(np) = syn::parse2::<syn::Path>(respan(ts)) {
                *p = np;
                fire(self.fired, &format!("R-ident-map:{}", key));
                return;
            }
        }
        visit_mut::visit_path_mut(self, p);
    }
}

/// `Some(&c)` => `Some(__r)`, returns (__r, c)
fn split_ref_pat(p: &mut Pat, tmp: &mut usize) -> Option<(syn::Ident, Pat)> {
    if let Pat::TupleStruct(ts) = p {
        if ts.elems.len() == 1 {
            if let Pat::Reference(r) = &ts.elems[0] {
                let inner = (*r.pat).clone();
                *tmp += 1;
                let id = syn::Ident::new(&format!("__r{}", tmp), Span::call_site());
                ts.elems[0] = parse_quote!(#id);
                return Some((id, inner));
            }
        }
    }
    None
}

// ------------------------------------------------------------------------------------------
// numbering passes: loops, closures, insert anchors
// ------------------------------------------------------------------------------------------

pub struct LoopNumberer {
    pub next: usize,
    /// loop ordinal -> ghost iterator name (`for x in NAME: expr`, Verus syntax)
    pub iter_names: BTreeMap<usize, String>,
}
impl VisitMut for LoopNumberer {
    fn visit_expr_mut(&mut self, e: &mut Expr) {
        let k = self.next;
        let marker: Stmt = {
            let lit = proc_macro2::Literal::usize_unsuffixed(k);
            parse_quote!(__vx_loop!(#lit);)
        };
        match e {
            Expr::While(w) => {
                self.next += 1;
                w.body.stmts.insert(0, marker);
            }
            Expr::Loop(l) => {
                self.next += 1;
                l.body.stmts.insert(0, marker);
            }
            Expr::ForLoop(f) => {
                self.next += 1;
                f.body.stmts.insert(0, marker);
                if let Some(n) = self.iter_names.get(&k) {
                    let id = syn::Ident::new(n, Span::call_site());
                    let ex = &f.expr;
                    let ne: Expr = parse_quote!(__vx_iter!(#id, #ex));
                    f.expr = Box::new(ne);
                }
            }
            _ => {}
        }
        visit_mut::visit_expr_mut(self, e);
    }
}

pub struct ClosureNumberer<'a> {
    pub next: usize,
    pub specs: &'a BTreeMap<usize, crate::vspec::ClosureC>,
}
impl<'a> VisitMut for ClosureNumberer<'a> {
    fn visit_expr_mut(&mut self, e: &mut Expr) {
        if let Expr::Closure(c) = e {
            let k = self.next;
            self.next += 1;
            if let Some(spec) = self.specs.get(&k) {
                if let Some(params) = &spec.params {
                    let src = format!("|{}| ()", params);
                    let pe = parse_expr_str(&src);
                    if let Expr::Closure(pc) = pe {
                        if pc.inputs.len() != c.inputs.len() {
                            die(&format!("closure {}: params arity mismatch (lost anchor)", k));
                        }
                        c.inputs = pc.inputs;
                    } else {
                        die("closure params did not parse");
                    }
                }
                let lit = proc_macro2::Literal::usize_unsuffixed(k);
                let body = &c.body;
                let nb: Expr = match &**body {
                    Expr::Block(b) if b.label.is_none() && b.attrs.is_empty() => {
                        let stmts = &b.block.stmts;
                        parse_quote!({ __vx_closure!(#lit); #(#stmts)* })
                    }
                    other => parse_quote!({ __vx_closure!(#lit); #other }),
                };
                c.body = Box::new(nb);
                if spec.result.is_some() {
                    let rid = syn::Ident::new(&format!("__VxRet{}", k), Span::call_site());
                    c.output = parse_quote!(-> #rid);
                }
            }
        }
        visit_mut::visit_expr_mut(self, e);
    }
}

pub fn norm(s: &str) -> String {
    s.chars().filter(|c| !c.is_whitespace()).collect()
}

pub struct SnippetInserter {
    pub snippet: String, // normalized
    pub after: bool,
    pub marker: usize,
    pub hits: usize,
    pub done: bool,
    /// which innermost match (source order) receives the marker; None = the only one
    pub nth: Option<usize>,
}
impl SnippetInserter {
    fn nested_has(&self, s: &Stmt) -> bool {
        struct Inner<'a> { snip: &'a str, found: bool }
        impl<'a, 'ast> syn::visit::Visit<'ast> for Inner<'a> {
            fn visit_block(&mut self, b: &'ast Block) {
                if b.stmts.iter().any(|s| norm(&s.to_token_stream().to_string()).contains(self.snip)) { self.found = true; }
                syn::visit::visit_block(self, b);
            }
        }
        let mut inner = Inner { snip: &self.snippet, found: false };
        syn::visit::visit_stmt(&mut inner, s);
        inner.found
    }
}
impl VisitMut for SnippetInserter {
    fn visit_block_mut(&mut self, b: &mut Block) {
        let mut at: Option<usize> = None;
        for i in 0..b.stmts.len() {
            if self.done {
                break;
            }
            let txt = norm(&b.stmts[i].to_token_stream().to_string());
            if !txt.contains(&self.snippet) {
                continue;
            }
            if self.nested_has(&b.stmts[i]) {
                let mut st = b.stmts[i].clone();
                visit_mut::visit_stmt_mut(self, &mut st);
                b.stmts[i] = st;
            } else {
                let k = self.hits;
                self.hits += 1;
                if self.nth.map(|n| n == k).unwrap_or(true) && at.is_none() && !self.done {
                    at = Some(i);
                    if self.nth.is_some() {
                        self.done = true;
                    }
                }
            }
        }
        if let Some(i) = at {
            let lit = proc_macro2::Literal::usize_unsuffixed(self.marker);
            let m: Stmt = parse_quote!(__vx_insert!(#lit););
            if self.after {
                // an `if` without `else` and the loop forms have type (): a `;` can be added safely
                if let Stmt::Expr(e, semi @ None) = &mut b.stmts[i] {
                    let unit = match e {
                        Expr::If(ei) => ei.else_branch.is_none(),
                        Expr::While(_) | Expr::ForLoop(_) => true,
                        _ => false,
                    };
                    if unit {
                        *semi = Some(Default::default());
                    }
                }
                if let Stmt::Expr(_, None) = &b.stmts[i] {
                    die(&format!(
                        "insert anchor `{}` is a tail expression; use `before` (unsupported)",
                        self.snippet
                    ));
                }
            }
            b.stmts.insert(if self.after { i + 1 } else { i }, m);
        }
    }
}

/// counts the innermost statements whose text contains the snippet (ambiguity check for anchors)
pub struct SnippetCounter {
    pub snippet: String,
    pub count: usize,
}
impl SnippetCounter {
    fn block_has(&self, b: &Block) -> bool {
        b.stmts.iter().any(|s| norm(&s.to_token_stream().to_string()).contains(&self.snippet))
    }
}
impl<'ast> syn::visit::Visit<'ast> for SnippetCounter {
    fn visit_block(&mut self, b: &'ast Block) {
        for s in b.stmts.iter() {
            let txt = norm(&s.to_token_stream().to_string());
            if txt.contains(&self.snippet) {
                // innermost? look for a nested block that also has it
                struct Inner<'a> { c: &'a SnippetCounter, found: bool }
                impl<'a, 'ast> syn::visit::Visit<'ast> for Inner<'a> {
                    fn visit_block(&mut self, b: &'ast Block) {
                        if self.c.block_has(b) { self.found = true; }
                        syn::visit::visit_block(self, b);
                    }
                }
                let mut inner = Inner { c: self, found: false };
                syn::visit::visit_stmt(&mut inner, s);
                if !inner.found {
                    self.count += 1;
                }
            }
        }
        syn::visit::visit_block(self, b);
    }
}

pub struct LoopBodyInserter {
    pub target: usize,
    pub at_end: bool,
    pub marker: usize,
    pub done: bool,
}
impl VisitMut for LoopBodyInserter {
    fn visit_block_mut(&mut self, b: &mut Block) {
        // a loop body starts with __vx_loop!(k);
        if let Some(Stmt::Macro(sm)) = b.stmts.first() {
            if sm.mac.path.is_ident("__vx_loop") {
                let k: usize = sm.mac.tokens.to_string().trim().parse().unwrap_or(usize::MAX);
                if k == self.target && !self.done {
                    let lit = proc_macro2::Literal::usize_unsuffixed(self.marker);
                    let m: Stmt = parse_quote!(__vx_insert!(#lit););
                    if self.at_end {
                        // a loop body has type (): a tail expression can be turned into a statement
                        if let Some(Stmt::Expr(_, semi @ None)) = b.stmts.last_mut() {
                            *semi = Some(Default::default());
                        }
                        b.stmts.push(m);
                    } else {
                        b.stmts.insert(1, m);
                    }
                    self.done = true;
                }
            }
        }
        visit_mut::visit_block_mut(self, b);
    }
}

/// inserts a marker immediately before / after the statement that is the k-th loop
pub struct LoopStmtInserter {
    pub target: usize,
    pub after: bool,
    pub marker: usize,
    pub done: bool,
}
fn loop_ordinal(e: &Expr) -> Option<usize> {
    let body = match e {
        Expr::While(w) => &w.body,
        Expr::ForLoop(f) => &f.body,
        Expr::Loop(l) => &l.body,
        _ => return None,
    };
    if let Some(Stmt::Macro(sm)) = body.stmts.first() {
        if sm.mac.path.is_ident("__vx_loop") {
            return sm.mac.tokens.to_string().trim().parse().ok();
        }
    }
    None
}
impl VisitMut for LoopStmtInserter {
    fn visit_block_mut(&mut self, b: &mut Block) {
        if !self.done {
            let mut at: Option<usize> = None;
            for (i, s) in b.stmts.iter().enumerate() {
                if let Stmt::Expr(e, _) = s {
                    if loop_ordinal(e) == Some(self.target) {
                        at = Some(i);
                    }
                }
            }
            if let Some(i) = at {
                if self.after {
                    if let Stmt::Expr(e, semi @ None) = &mut b.stmts[i] {
                        if matches!(e, Expr::While(_) | Expr::ForLoop(_)) {
                            *semi = Some(Default::default());
                        } else {
                            die("@insert loop <k> after: the loop is a tail `loop` expression (unsupported)");
                        }
                    }
                }
                let lit = proc_macro2::Literal::usize_unsuffixed(self.marker);
                let m: Stmt = parse_quote!(__vx_insert!(#lit););
                b.stmts.insert(if self.after { i + 1 } else { i }, m);
                self.done = true;
                return;
            }
        }
        visit_mut::visit_block_mut(self, b);
    }
}

pub fn quote_marker(k: usize) -> Stmt {
    let lit = proc_macro2::Literal::usize_unsuffixed(k);
    let ts = quote!(__vx_insert!(#lit););
    syn::parse2(ts).unwrap()
}


// ------------------------------------------------------------------------------------------
// R-fromfn
// ------------------------------------------------------------------------------------------

pub struct FromFn {
    pub struct_item: syn::ItemStruct,
    pub init_sig: syn::Signature,
    pub init_block: Block,
    pub next_sig: syn::Signature,
    pub next_block: Block,
    pub impl_generics: syn::Generics,
    pub self_ty: syn::Type,
}

struct AddLifetime;
impl VisitMut for AddLifetime {
    fn visit_type_reference_mut(&mut self, r: &mut syn::TypeReference) {
        if r.lifetime.is_none() {
            r.lifetime = Some(syn::Lifetime::new("'a", Span::call_site()));
        }
        visit_mut::visit_type_reference_mut(self, r);
    }
}

struct SelfField<'a> {
    names: &'a [String],
    bad: Option<String>,
}
impl<'a> VisitMut for SelfField<'a> {
    fn visit_expr_mut(&mut self, e: &mut Expr) {
        if let Expr::Path(p) = e {
            if p.qself.is_none() && p.path.segments.len() == 1 {
                let n = p.path.segments[0].ident.to_string();
                if self.names.contains(&n) {
                    let id = &p.path.segments[0].ident;
                    *e = parse_quote!(self.#id);
                    return;
                }
            }
        }
        visit_mut::visit_expr_mut(self, e);
    }
    fn visit_pat_ident_mut(&mut self, p: &mut syn::PatIdent) {
        let n = p.ident.to_string();
        if self.names.contains(&n) {
            self.bad = Some(n);
        }
    }
}

/// fn f(params) -> impl Iterator<Item = T> { lets; std::iter::from_fn(move || BODY) }
pub fn from_fn(f: &syn::ItemFn, cfg: &Config, fired: &mut Fired) -> FromFn {
    let name = f.sig.ident.to_string();
    let types = cfg.fromfn_types.get(&name).cloned().unwrap_or_default();
    let n = f.block.stmts.len();
    if n == 0 {
        die("R-fromfn: empty body");
    }
    // last statement: from_fn(move || BODY)
    let closure: syn::ExprClosure = match &f.block.stmts[n - 1] {
        Stmt::Expr(Expr::Call(c), None) => {
            let callee = norm(&c.func.to_token_stream().to_string());
            if !(callee.ends_with("iter::from_fn") || callee == "from_fn") || c.args.len() != 1 {
                die("R-fromfn: tail is not from_fn(closure)");
            }
            match &c.args[0] {
                Expr::Closure(cl) if cl.inputs.is_empty() && cl.capture.is_some() => cl.clone(),
                _ => die("R-fromfn: argument is not `move || ..`"),
            }
        }
        _ => die("R-fromfn: tail is not from_fn(closure)"),
    };
    // captured: params + leading lets
    let mut fields: Vec<(syn::Ident, syn::Type)> = Vec::new();
    for a in f.sig.inputs.iter() {
        match a {
            syn::FnArg::Typed(pt) => match &*pt.pat {
                Pat::Ident(pi) => {
                    let mut ty = (*pt.ty).clone();
                    AddLifetime.visit_type_mut(&mut ty);
                    fields.push((pi.ident.clone(), ty));
                }
                _ => die("R-fromfn: unsupported parameter pattern"),
            },
            _ => die("R-fromfn: receiver not supported"),
        }
    }
    let mut lets: Vec<Stmt> = Vec::new();
    for s in f.block.stmts[..n - 1].iter() {
        match s {
            Stmt::Local(l) => {
                let id = match &l.pat {
                    Pat::Ident(pi) => pi.ident.clone(),
                    Pat::Type(pt) => match &*pt.pat {
                        Pat::Ident(pi) => pi.ident.clone(),
                        _ => die("R-fromfn: unsupported let pattern"),
                    },
                    _ => die("R-fromfn: unsupported let pattern"),
                };
                let ty = match types.get(&id.to_string()) {
                    Some(t) => syn::parse_str::<syn::Type>(t).unwrap_or_else(|_| die("R-fromfn: bad type in config")),
                    None => die(&format!("R-fromfn: no declared type for captured `{}` (unit.json fromfn.types)", id)),
                };
                // annotate the let with the declared type so that inference cannot differ
                let mut l2 = l.clone();
                if let Pat::Ident(pi) = &l.pat {
                    let pi2 = pi.clone();
                    l2.pat = Pat::Type(syn::PatType {
                        attrs: Vec::new(),
                        pat: Box::new(Pat::Ident(pi2)),
                        colon_token: Default::default(),
                        ty: Box::new(ty.clone()),
                    });
                }
                lets.push(Stmt::Local(l2));
                fields.push((id, ty));
            }
            _ => die("R-fromfn: only `let` statements may precede from_fn"),
        }
    }
    let names: Vec<String> = fields.iter().map(|(i, _)| i.to_string()).collect();
    let st_ident = syn::Ident::new(&format!("{}__Iter", name), Span::call_site());
    let fnames: Vec<&syn::Ident> = fields.iter().map(|(i, _)| i).collect();
    let ftys: Vec<&syn::Type> = fields.iter().map(|(_, t)| t).collect();
    let struct_item: syn::ItemStruct = parse_quote!(pub struct #st_ident<'a> { #(pub #fnames: #ftys),* });
    // item type
    let item_ty: syn::Type = match &f.sig.output {
        syn::ReturnType::Type(_, t) => {
            let s = t.to_token_stream().to_string();
            let p = s.find("Item =").unwrap_or_else(|| die("R-fromfn: return type is not impl Iterator<Item = ..>"));
            let rest = s[p + 6..].trim();
            let inner = rest.strip_suffix('>').unwrap_or_else(|| die("R-fromfn: bad return type")).trim();
            let mut ty: syn::Type = syn::parse_str(inner).unwrap_or_else(|_| die("R-fromfn: bad item type"));
            AddLifetime.visit_type_mut(&mut ty);
            ty
        }
        _ => die("R-fromfn: no return type"),
    };
    // init fn
    let mut init_sig = f.sig.clone();
    init_sig.generics = parse_quote!(<'a>);
    for a in init_sig.inputs.iter_mut() {
        if let syn::FnArg::Typed(pt) = a {
            AddLifetime.visit_type_mut(&mut pt.ty);
        }
    }
    init_sig.output = parse_quote!(-> #st_ident<'a>);
    let init_block: Block = parse_quote!({ #(#lets)* #st_ident { #(#fnames),* } });
    // next fn
    let next_sig: syn::Signature = parse_quote!(fn next(&mut self) -> Option<#item_ty>);
    let mut body: Expr = (*closure.body).clone();
    let mut sf = SelfField { names: &names, bad: None };
    sf.visit_expr_mut(&mut body);
    if let Some(b) = sf.bad {
        die(&format!("R-fromfn: captured variable `{}` is re-bound inside the closure (unsupported)", b));
    }
    let next_block: Block = match body {
        Expr::Block(b) if b.label.is_none() => b.block,
        other => parse_quote!({ #other }),
    };
    fire(fired, "R-fromfn");
    FromFn {
        struct_item,
        init_sig,
        init_block,
        next_sig,
        next_block,
        impl_generics: parse_quote!(<'a>),
        self_ty: parse_quote!(#st_ident<'a>),
    }
}


// ------------------------------------------------------------------------------------------
// R-mutself: `fn f(mut self, ..) { B }`  =>  `fn f(self, ..) { let mut __self = self; B[self := __self] }`
// (Verus: "mut self" unsupported). Pure renaming of a by-value binding.
// ------------------------------------------------------------------------------------------
struct RenameSelf;
impl VisitMut for RenameSelf {
    fn visit_expr_mut(&mut self, e: &mut Expr) {
        if let Expr::Path(p) = e {
            if p.qself.is_none() && p.path.is_ident("self") {
                *e = parse_quote!(__self);
                return;
            }
        }
        visit_mut::visit_expr_mut(self, e);
    }
    fn visit_expr_closure_mut(&mut self, c: &mut syn::ExprClosure) {
        visit_mut::visit_expr_closure_mut(self, c);
    }
}

/// R-unshadow: a pattern variable of a `while let` / `if let` / `match` arm that has the name of a function
/// parameter is renamed (`s` => `s__p`) together with its uses in the scope of the pattern. Pure alpha-renaming;
/// needed because contract text must be able to name the parameter inside such a scope.
pub fn unshadow_params(sig: &syn::Signature, block: &mut Block, fired: &mut Fired) {
    let mut params: Vec<String> = Vec::new();
    for a in sig.inputs.iter() {
        if let syn::FnArg::Typed(pt) = a {
            if let Pat::Ident(pi) = &*pt.pat {
                params.push(pi.ident.to_string());
            }
        }
    }
    if params.is_empty() {
        return;
    }
    struct Collect<'a> { params: &'a [String], hit: Vec<String> }
    impl<'a, 'ast> syn::visit::Visit<'ast> for Collect<'a> {
        fn visit_pat_ident(&mut self, p: &'ast syn::PatIdent) {
            let n = p.ident.to_string();
            if self.params.contains(&n) && !self.hit.contains(&n) { self.hit.push(n); }
        }
    }
    struct Ren { from: String, to: String }
    impl VisitMut for Ren {
        fn visit_pat_ident_mut(&mut self, p: &mut syn::PatIdent) {
            if p.ident == self.from { p.ident = syn::Ident::new(&self.to, p.ident.span()); }
            visit_mut::visit_pat_ident_mut(self, p);
        }
        fn visit_expr_path_mut(&mut self, e: &mut syn::ExprPath) {
            if e.qself.is_none() && e.path.segments.len() == 1 && e.path.segments[0].ident == self.from && e.path.segments[0].arguments.is_none() {
                e.path.segments[0].ident = syn::Ident::new(&self.to, e.path.segments[0].ident.span());
            }
        }
    }
    struct Un<'a> { params: &'a [String], n: usize }
    impl<'a> Un<'a> {
        fn names(&self, p: &Pat) -> Vec<String> {
            use syn::visit::Visit;
            let mut c = Collect { params: self.params, hit: Vec::new() };
            c.visit_pat(p);
            c.hit
        }
    }
    impl<'a> VisitMut for Un<'a> {
        fn visit_expr_while_mut(&mut self, w: &mut syn::ExprWhile) {
            if let Expr::Let(l) = &mut *w.cond {
                for n in self.names(&l.pat) {
                    let mut r = Ren { from: n.clone(), to: format!("{}__p", n) };
                    r.visit_pat_mut(&mut l.pat);
                    r.visit_block_mut(&mut w.body);
                    self.n += 1;
                }
            }
            visit_mut::visit_expr_while_mut(self, w);
        }
        fn visit_expr_if_mut(&mut self, i: &mut syn::ExprIf) {
            if let Expr::Let(l) = &mut *i.cond {
                for n in self.names(&l.pat) {
                    let mut r = Ren { from: n.clone(), to: format!("{}__p", n) };
                    r.visit_pat_mut(&mut l.pat);
                    r.visit_block_mut(&mut i.then_branch);
                    self.n += 1;
                }
            }
            visit_mut::visit_expr_if_mut(self, i);
        }
        fn visit_arm_mut(&mut self, a: &mut syn::Arm) {
            for n in self.names(&a.pat) {
                let mut r = Ren { from: n.clone(), to: format!("{}__p", n) };
                r.visit_pat_mut(&mut a.pat);
                if let Some((_, g)) = &mut a.guard { r.visit_expr_mut(g); }
                r.visit_expr_mut(&mut a.body);
                self.n += 1;
            }
            visit_mut::visit_arm_mut(self, a);
        }
    }
    let mut u = Un { params: &params, n: 0 };
    u.visit_block_mut(block);
    for _ in 0..u.n { fire(fired, "R-unshadow"); }
}

/// R-selfmut: `fn m(&self, ..)` => `fn m(&mut self, ..)` for the methods listed in unit.json `self_mut`.
/// rowan's mutable trees are edited through `&self` (interior mutability); the tree model edits through `&mut self`.
pub fn self_mut(selector: &str, cfg: &Config, sig: &mut syn::Signature, fired: &mut Fired) {
    if !cfg.self_mut.iter().any(|s| s == selector) { return; }
    if let Some(syn::FnArg::Receiver(r)) = sig.inputs.first_mut() {
        if r.reference.is_some() && r.mutability.is_none() {
            r.mutability = Some(Default::default());
            if let syn::Type::Reference(tr) = &mut *r.ty { tr.mutability = Some(Default::default()); }
            fire(fired, "R-selfmut");
        }
    }
}

pub fn mut_self(sig: &mut syn::Signature, block: &mut Block, fired: &mut Fired) {
    if let Some(syn::FnArg::Receiver(r)) = sig.inputs.first_mut() {
        if r.reference.is_none() && r.mutability.is_some() {
            r.mutability = None;
            RenameSelf.visit_block_mut(block);
            block.stmts.insert(0, parse_quote!(let mut __self = self;));
            fire(fired, "R-mutself");
        }
    }
}
