//! Parser for contracts.vspec: contract text keyed by item selector and loop/closure ordinal.
//!
//!   @item <selector>
//!   @result <name>                 name given to the return value (default r)
//!   @attr <text>                   extra attribute line, e.g. #[verifier::rlimit(50)]
//!   @spec                          requires/ensures/decreases clauses of the fn (raw Verus text)
//!   @loop <k>                      invariant/decreases clauses of the k-th loop (pre-order)
//!   @closure <k>                   first line `params <..>`, second `result <..>`, then clauses
//!   @insert begin|end|loop <k> begin|loop <k> end|after "<snippet>"|before "<snippet>"
//!   @nocanary                      do not generate the vacuity canary for this item
//!
//! Everything up to the next line starting with '@' is the payload of the directive.

use crate::die;
use std::collections::BTreeMap;

#[derive(Clone, Debug)]
pub struct Block {
    pub lines: Vec<String>,
    pub file: String,
    pub first_line: usize,
}

#[derive(Clone, Debug)]
pub enum Anchor {
    Begin,
    End,
    /// bind the body's tail expression to the result name, then insert (R-bindtail)
    Result,
    /// after the k-th `let __ck = ..` introduced by R-chainlet
    Chain(usize),
    LoopBegin(usize),
    LoopEnd(usize),
    /// immediately before / after the k-th loop statement
    LoopBefore(usize),
    LoopAfter(usize),
    /// after the k-th top-level statement of the body (counted in the repository's text, before any rewrite)
    StmtAfter(usize),
    /// snippet, and which innermost match in source order (None: it must be the only one)
    After(String, Option<usize>),
    Before(String, Option<usize>),
}

#[derive(Clone, Debug)]
pub struct ClosureC {
    pub params: Option<String>,
    pub result: Option<String>,
    pub clauses: Block,
}

#[derive(Clone, Debug, Default)]
pub struct ItemContract {
    pub result: Option<String>,
    pub attrs: Vec<String>,
    pub spec: Option<Block>,
    pub loops: BTreeMap<usize, Block>,
    pub closures: BTreeMap<usize, ClosureC>,
    pub inserts: Vec<(Anchor, Block)>,
    pub nocanary: bool,
    /// R-chainlet: name the intermediate values of the tail method chain __c0, __c1, ..
    pub chainlet: bool,
    /// `@chainlet let K`: the same for the method chain in the initialiser of top-level statement K (a `let`): `__lK_0`, `__lK_1`, ..
    pub chainlet_lets: Vec<usize>,
    pub line: usize,
}

#[derive(Default)]
pub struct Contracts {
    pub items: BTreeMap<String, ItemContract>,
}

fn unquote(s: &str, path: &str, ln: usize) -> String {
    let s = s.trim();
    if s.len() >= 2 && s.starts_with('"') && s.ends_with('"') {
        s[1..s.len() - 1].replace("\\\"", "\"")
    } else {
        die(&format!("{}:{}: expected a quoted snippet", path, ln))
    }
}

/// `"snippet" #k` => ("snippet", Some(k))
fn split_nth<'a>(s: &'a str, path: &str, ln: usize) -> (&'a str, Option<usize>) {
    let t = s.trim();
    if let Some(p) = t.rfind("\" #") {
        let n: usize = t[p + 3..].trim().parse().unwrap_or_else(|_| die(&format!("{}:{}: bad match ordinal", path, ln)));
        (&t[..p + 1], Some(n))
    } else {
        (t, None)
    }
}

pub fn parse(text: &str, path: &str) -> Contracts {
    let mut c = Contracts::default();
    let mut cur_item: Option<String> = None;
    // current directive: (kind, arg, start line, lines)
    let mut cur_dir: Option<(String, String, usize, Vec<String>)> = None;

    fn flush(
        c: &mut Contracts,
        cur_item: &Option<String>,
        dir: Option<(String, String, usize, Vec<String>)>,
        path: &str,
    ) {
        let (kind, arg, ln, lines) = match dir {
            Some(d) => d,
            None => return,
        };
        let item = match cur_item {
            Some(i) => c.items.get_mut(i).unwrap(),
            None => die(&format!("{}:{}: directive before any @item", path, ln)),
        };
        let block = Block {
            lines,
            file: path.to_string(),
            first_line: ln + 1,
        };
        match kind.as_str() {
            "spec" => item.spec = Some(block),
            "loop" => {
                let k: usize = arg
                    .trim()
                    .parse()
                    .unwrap_or_else(|_| die(&format!("{}:{}: @loop needs an ordinal", path, ln)));
                item.loops.insert(k, block);
            }
            "closure" => {
                let k: usize = arg
                    .trim()
                    .parse()
                    .unwrap_or_else(|_| die(&format!("{}:{}: @closure needs an ordinal", path, ln)));
                let mut params = None;
                let mut result = None;
                let mut rest = Vec::new();
                let mut first = block.first_line;
                let mut seen_clause = false;
                for l in block.lines.iter() {
                    let t = l.trim();
                    if !seen_clause && t.starts_with("params ") {
                        params = Some(t["params ".len()..].to_string());
                        first += 1;
                    } else if !seen_clause && t.starts_with("result ") {
                        result = Some(t["result ".len()..].to_string());
                        first += 1;
                    } else {
                        seen_clause = true;
                        rest.push(l.clone());
                    }
                }
                item.closures.insert(
                    k,
                    ClosureC {
                        params,
                        result,
                        clauses: Block {
                            lines: rest,
                            file: path.to_string(),
                            first_line: first,
                        },
                    },
                );
            }
            "insert" => {
                let a = arg.trim();
                let anchor = if a == "begin" {
                    Anchor::Begin
                } else if a == "end" {
                    Anchor::End
                } else if a == "result" {
                    Anchor::Result
                } else if a.starts_with("chain ") {
                    let k: usize = a["chain ".len()..].trim().parse().unwrap_or_else(|_| die(&format!("{}:{}: bad chain ordinal", path, ln)));
                    Anchor::Chain(k)
                } else if a.starts_with("loop ") {
                    let parts: Vec<&str> = a.split_whitespace().collect();
                    if parts.len() != 3 {
                        die(&format!("{}:{}: @insert loop <k> begin|end", path, ln));
                    }
                    let k: usize = parts[1]
                        .parse()
                        .unwrap_or_else(|_| die(&format!("{}:{}: bad loop ordinal", path, ln)));
                    match parts[2] {
                        "begin" => Anchor::LoopBegin(k),
                        "end" => Anchor::LoopEnd(k),
                        "before" => Anchor::LoopBefore(k),
                        "after" => Anchor::LoopAfter(k),
                        _ => die(&format!("{}:{}: @insert loop <k> begin|end|before|after", path, ln)),
                    }
                } else if a.starts_with("stmt ") {
                    let parts: Vec<&str> = a.split_whitespace().collect();
                    if parts.len() != 3 || parts[2] != "after" {
                        die(&format!("{}:{}: @insert stmt <k> after", path, ln));
                    }
                    let k: usize = parts[1].parse().unwrap_or_else(|_| die(&format!("{}:{}: bad statement ordinal", path, ln)));
                    Anchor::StmtAfter(k)
                } else if a.starts_with("after ") {
                    let (q, n) = split_nth(&a["after ".len()..], path, ln);
                    Anchor::After(unquote(q, path, ln), n)
                } else if a.starts_with("before ") {
                    let (q, n) = split_nth(&a["before ".len()..], path, ln);
                    Anchor::Before(unquote(q, path, ln), n)
                } else {
                    die(&format!("{}:{}: unknown @insert anchor `{}`", path, ln, a))
                };
                item.inserts.push((anchor, block));
            }
            _ => die(&format!("{}:{}: unknown directive @{}", path, ln, kind)),
        }
    }

    for (i, raw) in text.lines().enumerate() {
        let ln = i + 1;
        if raw.starts_with('@') {
            let d = cur_dir.take();
            flush(&mut c, &cur_item, d, path);
            let rest = &raw[1..];
            let (kind, arg) = match rest.find(char::is_whitespace) {
                Some(p) => (&rest[..p], rest[p..].trim()),
                None => (rest, ""),
            };
            match kind {
                "item" => {
                    if c.items.contains_key(arg) {
                        die(&format!("{}:{}: duplicate @item {}", path, ln, arg));
                    }
                    let mut ic = ItemContract::default();
                    ic.line = ln;
                    c.items.insert(arg.to_string(), ic);
                    cur_item = Some(arg.to_string());
                }
                "result" => {
                    let it = cur_item
                        .as_ref()
                        .unwrap_or_else(|| die(&format!("{}:{}: @result before @item", path, ln)));
                    c.items.get_mut(it).unwrap().result = Some(arg.to_string());
                }
                "attr" => {
                    let it = cur_item
                        .as_ref()
                        .unwrap_or_else(|| die(&format!("{}:{}: @attr before @item", path, ln)));
                    c.items.get_mut(it).unwrap().attrs.push(arg.to_string());
                }
                "chainlet" => {
                    let it = cur_item
                        .as_ref()
                        .unwrap_or_else(|| die(&format!("{}:{}: @chainlet before @item", path, ln)));
                    let a = arg.trim();
                    if let Some(k) = a.strip_prefix("let ") {
                        let k: usize = k.trim().parse().unwrap_or_else(|_| die(&format!("{}:{}: @chainlet let <statement ordinal>", path, ln)));
                        c.items.get_mut(it).unwrap().chainlet_lets.push(k);
                    } else {
                        c.items.get_mut(it).unwrap().chainlet = true;
                    }
                }
                "nocanary" => {
                    let it = cur_item
                        .as_ref()
                        .unwrap_or_else(|| die(&format!("{}:{}: @nocanary before @item", path, ln)));
                    c.items.get_mut(it).unwrap().nocanary = true;
                }
                _ => {
                    cur_dir = Some((kind.to_string(), arg.to_string(), ln, Vec::new()));
                }
            }
        } else if let Some(d) = cur_dir.as_mut() {
            d.3.push(raw.to_string());
        } else if !raw.trim().is_empty() && !raw.trim_start().starts_with("//") {
            die(&format!("{}:{}: text outside any directive", path, ln));
        }
    }
    let d = cur_dir.take();
    flush(&mut c, &cur_item, d, path);
    c
}
