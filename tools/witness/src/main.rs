//! vwit — bounded falsifier / witness finder (a *stand-in*, never counted as proof).
//!
//! When a deductive check reports a failed obligation (VIOLATION) or cannot decide (UNDECIDED), the driver runs
//! this program against the real crates built from /repo's working tree. It enumerates a fixed, seeded set of
//! small inputs from the property's domain, runs the real code and compares with the property's own model
//! (the same definitions as the Verus spec files: doc_text / doc_content of units/deb822tree/grammar.rs, the
//! canonical lossy documents of units/lossyread/roundtrip.rs). The first failing input is printed as JSON.
//! Exit code: 0 = no failing input within the bound, 1 = failing input printed, 3 = usage.
//!
//! Bounds (stated in the evidence as `bounded`): N_DOCS pseudo-random documents (fixed seed) of at most 3
//! paragraphs x 3 fields x 2 continuation lines over the atom pools below, plus all single-field documents
//! over the pools.
use std::str::FromStr;

// ---------------------------------------------------------------------------------------------------------
// deterministic PRNG (xorshift), no dependency
struct Rng(u64);
/// VWIT_SEED (default 0) varies every enumeration; VWIT_SCALE (default 1) multiplies the number of random inputs
fn seed_mix(c: u64) -> u64 { let k: u64 = std::env::var("VWIT_SEED").ok().and_then(|v| v.parse().ok()).unwrap_or(0); let x = c ^ k.wrapping_mul(0x9E3779B97F4A7C15); if x == 0 { c } else { x } }
fn scale() -> usize { std::env::var("VWIT_SCALE").ok().and_then(|v| v.parse().ok()).unwrap_or(1) }
impl Rng {
    fn next(&mut self) -> u64 { let mut x = self.0; x ^= x << 13; x ^= x >> 7; x ^= x << 17; self.0 = x; x }
    fn below(&mut self, n: usize) -> usize { (self.next() % (n as u64)) as usize }
    fn pick<'a, T>(&mut self, v: &'a [T]) -> &'a T { &v[self.below(v.len())] }
}

// ---------------------------------------------------------------------------------------------------------
// the document model of C03 (grammar.rs: DocM)
#[derive(Clone, Debug)]
struct Cont { indent: String, text: String }
#[derive(Clone, Debug)]
struct Field { comments: Vec<String>, name: String, ws: String, first: String, conts: Vec<Cont> }
#[derive(Clone, Debug)]
struct Para { fields: Vec<Field>, trailing: Vec<String>, gap: Vec<Option<String>> }
#[derive(Clone, Debug)]
struct Doc { lead: Vec<Option<String>>, paras: Vec<Para> }

const NAMES: &[&str] = &["A", "Bb", "X-Y", "a~b", "~", "!x", "{|}", "0", "Source", "A"];
const WS: &[&str] = &["", " ", "\t", "  \t "];
const FIRST: &[&str] = &["", "v", "v w  ", ":x", "#y", "\u{e9}t\u{e9}", "a:b", "x\t", "1.0-1~rc1"];
const CONT: &[&str] = &["c", ":d", "e  ", "\u{e9}#", ".", "x: y", "z\t"];
const INDENT: &[&str] = &[" ", "\t", "   "];
const COMMENTS: &[&str] = &["#", "# c", "#:x", "# a: b"];

fn gen_field(r: &mut Rng, first_of_para: bool) -> Field {
    let ncom = if first_of_para { 0 } else { [0, 0, 0, 1, 2][r.below(5)] };
    let nconts = [0, 0, 1, 2][r.below(4)];
    Field {
        comments: (0..ncom).map(|_| r.pick(COMMENTS).to_string()).collect(),
        name: r.pick(NAMES).to_string(),
        ws: r.pick(WS).to_string(),
        first: r.pick(FIRST).to_string(),
        conts: (0..nconts).map(|_| Cont { indent: r.pick(INDENT).to_string(), text: r.pick(CONT).to_string() }).collect(),
    }
}
fn gen_gap(r: &mut Rng, must_start_blank: bool, may_be_empty: bool) -> Vec<Option<String>> {
    let n = if may_be_empty { r.below(4) } else { 1 + r.below(3) };
    (0..n).map(|i| if (i == 0 && must_start_blank) || r.below(3) > 0 { None } else { Some(r.pick(COMMENTS).to_string()) }).collect()
}
fn gen_doc(r: &mut Rng) -> Doc {
    let np = r.below(4);
    let lead = gen_gap(r, false, true);
    let mut paras = Vec::new();
    for i in 0..np {
        let nf = 1 + r.below(3);
        let fields = (0..nf).map(|j| gen_field(r, j == 0)).collect();
        let ntr = [0, 0, 1, 2][r.below(4)];
        let trailing = (0..ntr).map(|_| r.pick(COMMENTS).to_string()).collect();
        let last = i + 1 == np;
        paras.push(Para { fields, trailing, gap: gen_gap(r, true, last) });
    }
    Doc { lead, paras }
}
fn gap_text(g: &[Option<String>]) -> String { g.iter().map(|l| match l { None => "\n".to_string(), Some(c) => format!("{}\n", c) }).collect() }
fn doc_text(d: &Doc) -> String {
    let mut s = gap_text(&d.lead);
    for p in &d.paras {
        for f in &p.fields {
            for c in &f.comments { s.push_str(c); s.push('\n'); }
            s.push_str(&f.name); s.push(':'); s.push_str(&f.ws); s.push_str(&f.first); s.push('\n');
            for k in &f.conts { s.push_str(&k.indent); s.push_str(&k.text); s.push('\n'); }
        }
        for c in &p.trailing { s.push_str(c); s.push('\n'); }
        s.push_str(&gap_text(&p.gap));
    }
    s
}
/// lossless value: the non-empty lines joined by newlines
fn field_value(f: &Field) -> String {
    let mut ls: Vec<&str> = Vec::new();
    if !f.first.is_empty() { ls.push(&f.first); }
    for k in &f.conts { ls.push(&k.text); }
    ls.join("\n")
}
/// lossy value: all lines (the first may be empty) joined by newlines
fn lossy_value(f: &Field) -> String {
    let mut ls: Vec<&str> = vec![&f.first];
    for k in &f.conts { ls.push(&k.text); }
    ls.join("\n")
}
fn doc_content(d: &Doc) -> Vec<Vec<(String, String)>> {
    d.paras.iter().map(|p| p.fields.iter().map(|f| (f.name.clone(), field_value(f))).collect()).collect()
}

/// a JSON string literal (Rust's Debug form is not JSON: it writes control and invisible characters as \u{..})
fn esc(s: &str) -> String {
    let mut o = String::from("\"");
    for c in s.chars() {
        match c {
            '"' => o.push_str("\\\""),
            '\\' => o.push_str("\\\\"),
            '\n' => o.push_str("\\n"),
            '\r' => o.push_str("\\r"),
            '\t' => o.push_str("\\t"),
            c if (c as u32) < 0x20 || c == '\u{7f}' || c == '\u{feff}' || ('\u{200b}'..='\u{200f}').contains(&c) || c == '\u{2028}' || c == '\u{2029}' => {
                let mut buf = [0u16; 2];
                for u in c.encode_utf16(&mut buf) { o.push_str(&format!("\\u{:04x}", u)); }
            }
            c => o.push(c),
        }
    }
    o.push('"');
    o
}
#[derive(Debug, Clone)]
struct Fail { prop: String, input: String, what: String, expected: String, got: String }
impl Fail {
    fn print_and_exit(&self) -> ! {
        println!("{{\"property\":{},\"input\":{},\"what\":{},\"expected\":{},\"got\":{}}}", esc(&self.prop), esc(&self.input), esc(&self.what), esc(&self.expected), esc(&self.got));
        std::process::exit(1)
    }
}
macro_rules! report {
    ($p:expr, $i:expr, $w:expr, $e:expr, $g:expr) => { return Err(Fail { prop: $p.to_string(), input: $i.to_string(), what: $w.to_string(), expected: $e, got: $g }) };
}

// ---------------------------------------------------------------------------------------------------------
fn check_c03(d: &Doc) -> Result<(), Fail> {
    let text = doc_text(d);
    let want = doc_content(d);
    let doc = match deb822_lossless::Deb822::from_str(&text) {
        Ok(doc) => doc,
        Err(e) => report!("C03", &text, "strict reader rejects a well-formed document", "Ok".into(), format!("{:?}", e)),
    };
    if doc.to_string() != text { report!("C03", &text, "printed text differs", text.clone(), doc.to_string()); }
    let got: Vec<Vec<(String, String)>> = doc.paragraphs().map(|p| p.items().collect()).collect();
    if got != want { report!("C03", &text, "paragraphs / names / values differ", format!("{:?}", want), format!("{:?}", got)); }
    for (p, wp) in doc.paragraphs().zip(want.iter()) {
        let keys: Vec<String> = p.keys().collect();
        let wkeys: Vec<String> = wp.iter().map(|x| x.0.clone()).collect();
        if keys != wkeys { report!("C03", &text, "keys() differ", format!("{:?}", wkeys), format!("{:?}", keys)); }
        for (k, _) in wp {
            let first = wp.iter().find(|x| &x.0 == k).map(|x| x.1.clone());
            if p.get(k) != first { report!("C03", &text, &format!("get({:?}) is not the first field of that name", k), format!("{:?}", first), format!("{:?}", p.get(k))); }
            let all: Vec<String> = wp.iter().filter(|x| &x.0 == k).map(|x| x.1.clone()).collect();
            let ga: Vec<String> = p.get_all(k).collect();
            if ga != all { report!("C03", &text, &format!("get_all({:?}) differs", k), format!("{:?}", all), format!("{:?}", ga)); }
            if !p.contains_key(k) { report!("C03", &text, &format!("contains_key({:?}) is false", k), "true".into(), "false".into()); }
        }
        if p.get("No-Such-Field").is_some() || p.contains_key("No-Such-Field") { report!("C03", &text, "lookup of an absent name", "None".into(), "Some".into()); }
    }
    Ok(())
}
fn check_c06(d: &Doc) -> Result<(), Fail> {
    let text = doc_text(d);
    let lossy = match deb822_lossless::lossy::Deb822::from_str(&text) {
        Ok(x) => x,
        Err(e) => report!("C06", &text, "lossy reader rejects a well-formed document", "Ok".into(), format!("{:?}", e)),
    };
    let got: Vec<Vec<(String, String)>> = lossy.iter().map(|p| p.fields.iter().map(|f| (f.name.clone(), f.value.clone())).collect()).collect();
    let want: Vec<Vec<(String, String)>> = d.paras.iter().map(|p| p.fields.iter().map(|f| (f.name.clone(), lossy_value(f))).collect()).collect();
    if got != want { report!("C06", &text, "lossy content differs from the document", format!("{:?}", want), format!("{:?}", got)); }
    // same non-blank lines as the lossless reader
    if let Ok(ll) = deb822_lossless::Deb822::from_str(&text) {
        let lv: Vec<Vec<(String, Vec<String>)>> = ll.paragraphs().map(|p| p.items().map(|(k, v)| (k, v.split('\n').filter(|l| !l.is_empty()).map(|l| l.to_string()).collect())).collect()).collect();
        let yv: Vec<Vec<(String, Vec<String>)>> = got.iter().map(|p| p.iter().map(|(k, v)| (k.clone(), v.split('\n').filter(|l| !l.is_empty()).map(|l| l.to_string()).collect())).collect()).collect();
        if lv != yv { report!("C06", &text, "lossy and lossless readers disagree on the non-blank value lines", format!("{:?}", lv), format!("{:?}", yv)); }
    }
    Ok(())
}
// canonical lossy documents of C08 (roundtrip.rs: canon_doc): valid names, values = lines without leading
// whitespace, no empty line except the first, continuation lines not beginning with '#'
fn check_c08(d: &Doc) -> Result<(), Fail> {
    use deb822_lossless::lossy;
    let paras: Vec<lossy::Paragraph> = d.paras.iter().map(|p| lossy::Paragraph { fields: p.fields.iter().map(|f| lossy::Field { name: f.name.clone(), value: lossy_value(f) }).collect() }).collect();
    if paras.is_empty() { return Ok(()); }
    let text: String = paras.iter().map(|p| p.to_string()).collect::<Vec<_>>().join("\n");
    let back = match lossy::Deb822::from_str(&text) {
        Ok(x) => x,
        Err(e) => report!("C08", &text, "lossy reader rejects printed text", "Ok".into(), format!("{:?}", e)),
    };
    let got: Vec<Vec<(String, String)>> = back.iter().map(|p| p.fields.iter().map(|f| (f.name.clone(), f.value.clone())).collect()).collect();
    let want: Vec<Vec<(String, String)>> = paras.iter().map(|p| p.fields.iter().map(|f| (f.name.clone(), f.value.clone())).collect()).collect();
    if got != want { report!("C08", &text, "printed lossy document does not read back equal", format!("{:?}", want), format!("{:?}", got)); }
    // list edits on the first paragraph
    let mut p = paras[0].clone();
    let model0: Vec<(String, String)> = want[0].clone();
    let k = model0[0].0.clone();
    if p.get(&k).map(|s| s.to_string()) != model0.iter().find(|x| x.0 == k).map(|x| x.1.clone()) { report!("C08", &text, "get is not the first field of that name", "first".into(), format!("{:?}", p.get(&k))); }
    p.set(&k, "new");
    let mut m = model0.clone();
    let i = m.iter().position(|x| x.0 == k).unwrap(); m[i].1 = "new".into();
    let pv: Vec<(String, String)> = p.fields.iter().map(|f| (f.name.clone(), f.value.clone())).collect();
    if pv != m { report!("C08", &text, &format!("set({:?}) is not an in-place update of the first such field", k), format!("{:?}", m), format!("{:?}", pv)); }
    p.insert(&k, "ins"); m.push((k.clone(), "ins".into()));
    let pv: Vec<(String, String)> = p.fields.iter().map(|f| (f.name.clone(), f.value.clone())).collect();
    if pv != m { report!("C08", &text, "insert does not append", format!("{:?}", m), format!("{:?}", pv)); }
    p.remove(&k); m.retain(|x| x.0 != k);
    let pv: Vec<(String, String)> = p.fields.iter().map(|f| (f.name.clone(), f.value.clone())).collect();
    if pv != m { report!("C08", &text, "remove does not delete exactly the fields of that name", format!("{:?}", m), format!("{:?}", pv)); }
    Ok(())
}
fn check_c04(d: &Doc) -> Result<(), Fail> {
    let full = doc_text(d);
    let mut variants = vec![full.clone()];
    // the same document without its final newline (when the last line is a field line)
    if full.ends_with('\n') && !full.ends_with("\n\n") && !d.paras.is_empty() && d.paras.last().unwrap().gap.is_empty() && d.paras.last().unwrap().trailing.is_empty() { variants.push(full[..full.len() - 1].to_string()); }
    let want = doc_content(d);
    for text in &variants {
        if deb822_lossless::Deb822::from_str(text).is_err() { continue; }
        for (pi, wp) in want.iter().enumerate() {
            for (op, key, val) in [("set", wp[0].0.clone(), "n1\nn2".to_string()), ("set", "Zz-New".to_string(), "v".to_string()), ("insert", wp[0].0.clone(), "i".to_string()),
                                   ("rename", wp[wp.len() - 1].0.clone(), "Renamed".to_string()), ("remove", wp[0].0.clone(), String::new()), ("remove", wp[wp.len() - 1].0.clone(), String::new()), ("remove", "Zz-None".to_string(), String::new())] {
                let doc = deb822_lossless::Deb822::from_str(text).unwrap();
                let before_other: Vec<String> = doc.paragraphs().enumerate().filter(|(j, _)| *j != pi).map(|(_, q)| q.to_string()).collect();
                let mut p = doc.paragraphs().nth(pi).unwrap();
                let mut m = wp.clone();
                let shown = format!("{:?} then paragraph {}: {}({:?}, {:?})", text, pi, op, key, val);
                match op {
                    "set" => { p.set(&key, &val); match m.iter().position(|x| x.0 == key) { Some(i) => m[i].1 = val.clone(), None => m.push((key.clone(), val.clone())) } }
                    "insert" => { p.insert(&key, &val); m.push((key.clone(), val.clone())); }
                    "remove" => { p.remove(&key); m.retain(|x| x.0 != key); }
                    _ => { let r = p.rename(&key, &val); let i = m.iter().position(|x| x.0 == key); if r != i.is_some() { report!("C04", &shown, "rename result", format!("{}", i.is_some()), format!("{}", r)); } if let Some(i) = i { m[i].0 = val.clone(); } }
                }
                let got: Vec<(String, String)> = p.items().collect();
                if got != m { report!("C04", &shown, "the paragraph is not what the list operation gives", format!("{:?}", m), format!("{:?}", got)); }
                // handles obtained earlier see the edit; the other paragraphs are untouched
                let via_doc: Vec<(String, String)> = doc.paragraphs().nth(pi).map(|q| q.items().collect()).unwrap_or_default();
                if via_doc != m { report!("C04", &shown, "the document handle does not see the edit", format!("{:?}", m), format!("{:?}", via_doc)); }
                let after_other: Vec<String> = doc.paragraphs().enumerate().filter(|(j, _)| *j != pi).map(|(_, q)| q.to_string()).collect();
                if after_other != before_other { report!("C04", &shown, "another paragraph changed", format!("{:?}", before_other), format!("{:?}", after_other)); }
                // the printed document re-reads, without error, to the same content
                let out = doc.to_string();
                let mut model_doc = want.clone(); model_doc[pi] = m.clone();
                let model_doc: Vec<Vec<(String, String)>> = model_doc.into_iter().filter(|x| !x.is_empty()).collect();
                match deb822_lossless::Deb822::from_str(&out) {
                    Err(e) => report!("C04", &shown, "the printed document does not parse", "Ok".to_string(), format!("{:?} for {:?}", e, out)),
                    Ok(d2) => {
                        let again: Vec<Vec<(String, String)>> = d2.paragraphs().map(|q| q.items().collect()).collect();
                        if again != model_doc { report!("C04", &shown, "printing and reading again gives different content", format!("{:?}", model_doc), format!("{:?} from {:?}", again, out)); }
                    }
                }
            }
        }
    }
    Ok(())
}

// ---------------------------------------------------------------------------------------------------------
// C05: add / insert / remove paragraph against Vec push / insert(i) / remove(i) (histories of up to 3 operations,
// each followed by the checks; new paragraphs get one field so that the text can be read back)
#[derive(Clone, Debug, PartialEq)]
enum POp { Add, Insert(usize), Remove(usize) }
fn comment_lines(text: &str) -> Vec<String> { text.lines().filter(|l| l.starts_with('#')).map(|l| l.to_string()).collect() }
fn run_c05(text: &str, ops: &[POp], wrapped: bool) -> Result<(), Fail> {
    let mut doc = match deb822_lossless::Deb822::from_str(text) { Ok(x) => x, Err(_) => return Ok(()) };
    // the same document as rebuilt by wrap_and_sort (comments become children of the root)
    if wrapped { doc = doc.wrap_and_sort(None, None); }
    let mut model: Vec<Vec<(String, String)>> = doc.paragraphs().map(|p| p.items().collect()).collect();
    let mut texts: Vec<String> = doc.paragraphs().map(|p| p.to_string()).collect();
    let mut fresh = 0;
    for (k, op) in ops.iter().enumerate() {
        let shown = format!("{:?}{} then {:?}", text, if wrapped { " rebuilt by wrap_and_sort(None, None)" } else { "" }, &ops[..=k]);
        let mut comments = comment_lines(&doc.to_string());
        let res = std::panic::catch_unwind(std::panic::AssertUnwindSafe(|| {
            match op {
                POp::Add => { let mut p = doc.add_paragraph(); p.set(&format!("New{}", fresh), "v"); }
                POp::Insert(i) => { let mut p = doc.insert_paragraph(*i); p.set(&format!("New{}", fresh), "v"); }
                POp::Remove(i) => { doc.remove_paragraph(*i); }
            }
        }));
        if res.is_err() { report!("C05", shown, "the operation panics", "no panic".to_string(), "panic".to_string()); }
        let newp = vec![(format!("New{}", fresh), "v".to_string())];
        let newt = format!("New{}: v\n", fresh);
        match op {
            POp::Add => { model.push(newp); texts.push(newt); fresh += 1; }
            POp::Insert(i) => { let j = (*i).min(model.len()); model.insert(j, newp); texts.insert(j, newt); fresh += 1; }
            POp::Remove(i) => { if *i < model.len() { model.remove(*i); let t = texts.remove(*i); for c in comment_lines(&t) { if let Some(q) = comments.iter().position(|x| *x == c) { comments.remove(q); } } } }
        }
        let got: Vec<Vec<(String, String)>> = doc.paragraphs().map(|p| p.items().collect()).collect();
        if got != model { report!("C05", shown, "the paragraph list is not what push / insert(i) / remove(i) give", format!("{:?}", model), format!("{:?}", got)); }
        let gt: Vec<String> = doc.paragraphs().map(|p| p.to_string()).collect();
        if gt != texts { report!("C05", shown, "the text of another paragraph changed", format!("{:?}", texts), format!("{:?}", gt)); }
        let out = doc.to_string();
        let mut c2 = comment_lines(&out); let mut c1 = comments.clone(); c1.sort(); c2.sort();
        if c1 != c2 { report!("C05", shown, "a comment was lost or changed", format!("{:?}", c1), format!("{:?}", c2)); }
        match deb822_lossless::Deb822::from_str(&out) {
            Err(e) => report!("C05", shown, "the printed document does not parse", "Ok".to_string(), format!("{:?} for {:?}", e, out)),
            Ok(d2) => {
                let again: Vec<Vec<(String, String)>> = d2.paragraphs().map(|p| p.items().collect()).collect();
                if again != model { report!("C05", shown, "printing and reading again gives different paragraphs", format!("{:?}", model), format!("{:?} from {:?}", again, out)); }
            }
        }
    }
    Ok(())
}
fn c05_ops(np: usize) -> Vec<POp> {
    let mut v = vec![POp::Add];
    for i in 0..=np + 1 { v.push(POp::Insert(i)); v.push(POp::Remove(i)); }
    v
}
fn check_c05(d: &Doc) -> Result<(), Fail> {
    let full = doc_text(d);
    let mut variants = vec![full.clone()];
    if std::env::var("VWIT_NOEOF").is_err() && full.ends_with('\n') && !full.ends_with("\n\n") && !d.paras.is_empty() && d.paras.last().unwrap().gap.is_empty() && d.paras.last().unwrap().trailing.is_empty() { variants.push(full[..full.len() - 1].to_string()); }
    // ... and a document that ends in a comment without a line break (rebuilt by wrap_and_sort the comment is a token of the root)
    if std::env::var("VWIT_NOEOF").is_err() && full.ends_with('\n') && !d.paras.is_empty() { variants.push(format!("{}\n# closing remark", full)); }
    for text in &variants {
        let np = d.paras.len();
        for a in c05_ops(np) {
            for wrapped in [false, true] {
                run_c05(text, &[a.clone()], wrapped)?;
                for b in c05_ops(np + 1) { run_c05(text, &[a.clone(), b.clone()], wrapped)?; }
            }
        }
    }
    Ok(())
}


// ---------------------------------------------------------------------------------------------------------
// C07, texts the document model does not generate: comments inside values (indented '#' lines), also as the first thing of a
// value, and the control-file wrappers on fields with substitution variables or that are no relationship fields at all
fn extra_c07() -> Result<(), Fail> {
    use deb822_lossless::{Deb822, Indentation};
    let lines_of = |v: &str| -> Vec<String> { v.lines().map(|l| l.trim().to_string()).filter(|l| !l.is_empty()).collect() };
    let content = |x: &Deb822| -> Vec<Vec<(String, Vec<String>)>> { x.paragraphs().map(|p| p.items().map(|(k, v)| (k, lines_of(&v))).collect()).collect() };
    // comments: whole lines whose first non-blank character is '#'
    let comments = |t: &str| -> Vec<String> { t.lines().filter(|l| l.trim_start().starts_with('#')).map(|l| l.trim().to_string()).collect() };
    let texts = ["Depends:\n # c\n foo,\n bar\n", "Depends: a,\n # c\n foo\n", "Depends:\n # only\n", "A: 1\nDepends:\n # c1\n # c2\n x\n\nB:\n # d\n y\n",
                 "Build-Depends: zlib1g-dev,\n # only needed for the test suite\n check,\n bison\n"];
    for text in texts {
        let doc = match Deb822::from_str(text) { Ok(d) => d, Err(_) => continue };
        for ind in [Indentation::Spaces(1), Indentation::Spaces(3), Indentation::FieldNameLength] { for iel in [false, true] { for mll in [None, Some(30usize)] { for fmt in [0, 1, 2] {
            let shown = format!("{:?} with indentation {:?}, immediate_empty_line {}, max_line_length_one_liner {:?}, formatter {}", text, ind, iel, mll, ["none", "identity", "sorting the comma-separated items"][fmt]);
            let ident = |_k: &str, v: &str| v.to_string();
            let sorting = |_k: &str, v: &str| { let mut items: Vec<String> = v.split(',').map(|x| x.trim().to_string()).filter(|x| !x.is_empty()).collect(); items.sort(); items.join(",\n") };
            let f: Option<&dyn Fn(&str, &str) -> String> = match fmt { 0 => None, 1 => Some(&ident), _ => Some(&sorting) };
            let run = |x: &Deb822| -> Deb822 { let ws = |p: &deb822_lossless::Paragraph| p.wrap_and_sort(ind, iel, mll, None, f); x.wrap_and_sort(None, Some(&ws)) };
            let out = match std::panic::catch_unwind(std::panic::AssertUnwindSafe(|| run(&doc))) { Ok(o) => o, Err(_) => report!("C07", shown, "wrap_and_sort panics", "a document".to_string(), "panic".to_string()) };
            let t2 = out.to_string();
            let back = match Deb822::from_str(&t2) { Ok(b) => b, Err(e) => report!("C07", shown, "the reformatted document does not parse strictly", "Ok".to_string(), format!("{:?} for {:?}", e, t2)) };
            // (a sorting formatter may reorder the items of a value it is shown; a value with a comment inside is not shown to it)
            let norm = |c: Vec<Vec<(String, Vec<String>)>>| -> Vec<Vec<(String, Vec<String>)>> { c.into_iter().map(|p| p.into_iter().map(|(k, mut ls)| { if fmt == 2 { ls = ls.iter().map(|l| l.trim_end_matches(',').to_string()).collect(); ls.sort(); } (k, ls) }).collect()).collect() };
            if norm(content(&back)) != norm(content(&doc)) { report!("C07", shown, "the reformatted document does not keep every field with its non-blank value lines", format!("{:?}", content(&doc)), format!("{:?} from {:?}", content(&back), t2)); }
            if content(&out) != content(&back) { report!("C07", shown, "the returned object reports other content than its printed text", format!("{:?}", content(&back)), format!("{:?}", content(&out))); }
            if comments(&t2) != comments(text) { report!("C07", shown, "a comment inside a value is lost, changed or no longer on a line of its own", format!("{:?}", comments(text)), format!("{:?} in {:?}", comments(&t2), t2)); }
            let again = run(&back).to_string();
            if again != t2 { report!("C07", shown, "reformatting the result again with the same settings changes it", format!("{:?}", t2), format!("{:?}", again)); }
        } } } }
    }
    // control-file wrappers
    let controls = ["Source: x\nBuild-Depends: foo (\n", "Source: x\nBuild-Depends: b, a\n\nPackage: y\nDepends: ${misc:Depends}, foo,\n bar (>= 1)\n# about z\n\nPackage: z\nDepends: ${shlibs:Depends}\n",
                    "Source: s\nUploaders: B <b@x>, A <a@x>\n\n# c\nPackage: p\nRecommends: q | r, ${x:Y}\n",
                    "Source: mango\n\nPackage: b\n\nSource: apple\n\nPackage: a\n"];
    for text in controls {
        for iel in [false, true] { for mll in [None, Some(40usize)] {
            let shown = format!("Control::wrap_and_sort of {:?} with immediate_empty_line {}, max_line_length_one_liner {:?}", text, iel, mll);
            let run = |t: &str| -> Option<String> { let mut c: debian_control::lossless::control::Control = t.parse().ok()?; c.wrap_and_sort(Indentation::Spaces(1), iel, mll); Some(c.to_string()) };
            let t2 = match std::panic::catch_unwind(std::panic::AssertUnwindSafe(|| run(text))) { Ok(Some(o)) => o, Ok(None) => continue, Err(_) => report!("C07", shown, "Control::wrap_and_sort panics", "a document".to_string(), "panic".to_string()) };
            let (a, b) = match (Deb822::from_str(text), Deb822::from_str(&t2)) { (Ok(a), Ok(b)) => (a, b), _ => report!("C07", shown, "the reformatted control file does not parse strictly", "Ok".to_string(), format!("{:?}", t2)) };
            let names = |x: &Deb822| -> Vec<Vec<String>> { let mut v: Vec<Vec<String>> = x.paragraphs().map(|p| { let mut k: Vec<String> = p.keys().collect(); k.sort(); k }).collect(); v.sort(); v };
            if names(&a) != names(&b) { report!("C07", shown, "the reformatted control file does not keep every paragraph and field", format!("{:?}", names(&a)), format!("{:?} from {:?}", names(&b), t2)); }
            if comments(&t2) != comments(text) { report!("C07", shown, "a comment is lost or changed", format!("{:?}", comments(text)), format!("{:?} in {:?}", comments(&t2), t2)); }
            for v in ["${misc:Depends}", "${shlibs:Depends}", "${x:Y}"] { if text.contains(v) && !t2.contains(v) { report!("C07", shown, "a substitution variable of a relationship field is lost", v.to_string(), format!("{:?}", t2)); } }
            // the wrapper asks for a sorted order (sources first, then packages, each by name): the result is a function of the
            // paragraphs, not of the order they came in
            let paras: Vec<&str> = text.trim_end_matches('\n').split("\n\n").collect();
            if paras.len() > 1 {
                let rev: String = paras.iter().rev().map(|p| format!("{}\n", p)).collect::<Vec<_>>().join("\n");
                match std::panic::catch_unwind(std::panic::AssertUnwindSafe(|| run(&rev))) {
                    Ok(Some(t3)) => if t3 != t2 { report!("C07", shown, "the order of the paragraphs in the result depends on the order they came in", format!("{:?}", t2), format!("{:?} for the paragraphs in reverse", t3)); },
                    _ => report!("C07", shown, "reformatting the same paragraphs in reverse order fails", "a document".to_string(), "panic or parse error".to_string()),
                }
            }
            match std::panic::catch_unwind(std::panic::AssertUnwindSafe(|| run(&t2))) { Ok(Some(again)) => if again != t2 { report!("C07", shown, "reformatting the result again with the same settings changes it", format!("{:?}", t2), format!("{:?}", again)); }, _ => report!("C07", shown, "reformatting the result again fails", "a document".to_string(), "panic or parse error".to_string()) }
        } }
    }
    Ok(())
}
// C07: wrap-and-sort of deb822 documents under a grid of settings
fn check_c07(d: &Doc) -> Result<(), Fail> {
    use deb822_lossless::{Deb822, Indentation, Paragraph};
    let text = doc_text(d);
    let doc = match Deb822::from_str(&text) { Ok(x) => x, Err(_) => return Ok(()) };
    let want: Vec<Vec<(String, Vec<String>)>> = d.paras.iter().map(|p| p.fields.iter().map(|f| {
        let mut ls: Vec<String> = Vec::new();
        if !f.first.trim().is_empty() { ls.push(f.first.trim().to_string()); }
        for k in &f.conts { if !k.text.trim().is_empty() { ls.push(k.text.trim().to_string()); } }
        (f.name.clone(), ls) }).collect()).collect();
    let lines_of = |v: &str| -> Vec<String> { v.lines().map(|l| l.trim().to_string()).filter(|l| !l.is_empty()).collect() };
    let content = |x: &Deb822| -> Vec<Vec<(String, Vec<String>)>> { x.paragraphs().map(|p| p.items().map(|(k, v)| (k, lines_of(&v))).collect()).collect() };
    let comments = |t: &str| -> Vec<String> { let mut c: Vec<String> = t.lines().filter(|l| l.starts_with('#')).map(|l| l.to_string()).collect(); c.sort(); c };
    for (ind, width) in [(Indentation::Spaces(1), Some(1usize)), (Indentation::Spaces(4), Some(4)), (Indentation::FieldNameLength, None)] {
        for iel in [false, true] { for mll in [None, Some(12usize), Some(200)] { for sort in [false, true] {
            let shown = format!("{:?} with indentation {:?}, immediate_empty_line {}, max_line_length_one_liner {:?}, sorted {}", text, width, iel, mll, sort);
            let by_key = |a: &deb822_lossless::lossless::Entry, b: &deb822_lossless::lossless::Entry| a.key().cmp(&b.key());
            let ident = |_k: &str, v: &str| v.to_string();
            let sorted_items = |p: &Paragraph| { let mut v: Vec<(String, String)> = p.items().collect(); v.sort(); v };
            // (a comparator that depends on field names and values only, not on their order)
            let by_first = |a: &Paragraph, b: &Paragraph| sorted_items(a).cmp(&sorted_items(b));
            let run = |x: &Deb822| -> Deb822 {
                // the sorted runs also sort the paragraphs (by their first field) and pass the identity formatter
                let ws = |p: &Paragraph| -> Paragraph { p.wrap_and_sort(ind, iel, mll, if sort { Some(&by_key) } else { None }, if sort { Some(&ident) } else { None }) };
                x.wrap_and_sort(if sort { Some(&by_first) } else { None }, Some(&ws))
            };
            let out = match std::panic::catch_unwind(std::panic::AssertUnwindSafe(|| run(&doc))) { Ok(o) => o, Err(_) => report!("C07", shown, "wrap_and_sort panics", "a document".to_string(), "panic".to_string()) };
            let t2 = out.to_string();
            let back = match Deb822::from_str(&t2) { Ok(b) => b, Err(e) => report!("C07", shown, "the reformatted document does not parse strictly", "Ok".to_string(), format!("{:?} for {:?}", e, t2)) };
            let mut expect = want.clone();
            if sort {
                // paragraphs by their first field (name, value as the reader shows it), stable; then the fields by name, stable
                let firsts: Vec<Vec<(String, String)>> = doc.paragraphs().map(|p| { let mut v: Vec<(String, String)> = p.items().collect(); v.sort(); v }).collect();
                let mut idx: Vec<usize> = (0..expect.len()).collect();
                idx.sort_by(|a, b| firsts[*a].cmp(&firsts[*b]));
                expect = idx.into_iter().map(|i| expect[i].clone()).collect();
                for p in expect.iter_mut() { p.sort_by(|a, b| a.0.cmp(&b.0)); }
            }
            if content(&back) != expect { report!("C07", shown, "the reformatted document does not keep every paragraph and field with its non-blank value lines", format!("{:?}", expect), format!("{:?} from {:?}", content(&back), t2)); }
            if content(&out) != content(&back) { report!("C07", shown, "the returned object reports other content than its printed text", format!("{:?}", content(&back)), format!("{:?}", content(&out))); }
            if comments(&t2) != comments(&text) { report!("C07", shown, "a comment is lost, changed or no longer on a line of its own", format!("{:?}", comments(&text)), format!("{:?} in {:?}", comments(&t2), t2)); }
            {
                // continuation lines are indented by exactly the requested width (FieldNameLength: the length of the field's name)
                let mut cur_name_len = 0usize;
                for l in t2.lines() {
                    if l.starts_with(' ') || l.starts_with('\t') {
                        let lead = l.len() - l.trim_start().len();
                        let w = width.unwrap_or(cur_name_len);
                        if lead != w { report!("C07", shown, "a continuation line is not indented by exactly the requested width", format!("{} columns", w), format!("{} columns in {:?}", lead, t2)); }
                    } else if !l.starts_with('#') { if let Some(i) = l.find(':') { cur_name_len = l[..i].len(); } }
                }
            }
            {
                // a comment between two fields stays in front of the same field
                let mut expect_pairs: Vec<(String, String)> = Vec::new();
                for p in &d.paras { for f in &p.fields { for c in &f.comments { expect_pairs.push((c.clone(), f.name.clone())); } } }
                let mut got_pairs: Vec<(String, String)> = Vec::new();
                let ls: Vec<&str> = t2.lines().collect();
                for (i, l) in ls.iter().enumerate() { if l.starts_with('#') {
                    let mut j = i + 1;
                    while j < ls.len() && ls[j].starts_with('#') { j += 1; }
                    if j < ls.len() && !ls[j].is_empty() && !ls[j].starts_with(' ') { if let Some(k) = ls[j].find(':') { got_pairs.push((l.to_string(), ls[j][..k].to_string())); } }
                } }
                for e in &expect_pairs {
                    if let Some(q) = got_pairs.iter().position(|g| g == e) { got_pairs.remove(q); }
                    else { report!("C07", shown, "a comment is no longer in front of the field it belonged to", format!("{:?} in front of {:?}", e.0, e.1), format!("{:?}", t2)); }
                }
            }
            if t2.contains("\n\n\n") { report!("C07", shown, "paragraphs are separated by more than one blank line", "exactly one".to_string(), format!("{:?}", t2)); }
            let again = run(&back).to_string();
            if again != t2 { report!("C07", shown, "reformatting the result again with the same settings changes it", format!("{:?}", t2), format!("{:?}", again)); }
            let direct = run(&out).to_string();
            if direct != t2 { report!("C07", shown, "reformatting the returned object again (without re-reading it) changes it", format!("{:?}", t2), format!("{:?}", direct)); }
        } } }
    }
    Ok(())
}

/// smaller well-formed documents obtained by deleting one element
fn shrinks(d: &Doc) -> Vec<Doc> {
    let mut out = Vec::new();
    for i in 0..d.lead.len() { let mut x = d.clone(); x.lead.remove(i); out.push(x); }
    for pi in 0..d.paras.len() {
        { let mut x = d.clone(); x.paras.remove(pi); out.push(x); }
        let p = &d.paras[pi];
        for fi in 0..p.fields.len() {
            if p.fields.len() > 1 { let mut x = d.clone(); x.paras[pi].fields.remove(fi); x.paras[pi].fields[0].comments.clear(); out.push(x); }
            let f = &p.fields[fi];
            for ci in 0..f.comments.len() { let mut x = d.clone(); x.paras[pi].fields[fi].comments.remove(ci); out.push(x); }
            for ki in 0..f.conts.len() { let mut x = d.clone(); x.paras[pi].fields[fi].conts.remove(ki); out.push(x); }
            if !f.ws.is_empty() { let mut x = d.clone(); x.paras[pi].fields[fi].ws = String::new(); out.push(x); }
            if f.first.len() > 1 { let mut x = d.clone(); x.paras[pi].fields[fi].first = f.first.chars().take(1).collect(); out.push(x); }
            if f.name != "A" { let mut x = d.clone(); x.paras[pi].fields[fi].name = "A".into(); out.push(x); }
        }
        for ti in 0..p.trailing.len() { let mut x = d.clone(); x.paras[pi].trailing.remove(ti); out.push(x); }
        let last = pi + 1 == d.paras.len();
        for gi in 0..p.gap.len() {
            if gi == 0 && !(last && p.gap.len() == 1) && !(p.gap.len() > 1 && p.gap[1].is_none()) { continue; }
            if gi == 0 && !last && p.gap.len() == 1 { continue; }
            let mut x = d.clone(); x.paras[pi].gap.remove(gi); out.push(x);
        }
    }
    out
}

// ---------------------------------------------------------------------------------------------------------
// C14: lossy relations assembled from valid components print to text that reads back equal
mod rel {
    use super::{Fail, Rng};
    use debian_control::lossy::{Relation, Relations};
    use debian_control::relations::{BuildProfile, VersionConstraint};
    use std::str::FromStr;
    const NAMES: &[&str] = &["foo", "lib-x1.2+y", "a", "0ad", "g++"];
    const QUALS: &[&str] = &["any", "native", "amd64"];
    const VERSIONS: &[&str] = &["1", "1.0-1", "2:1.0~rc1-3", "0.9.8+dfsg-1.1", "1:0", "1.10", "1.9", "1.0~rc1", "1.0"];
    const ARCHS: &[&str] = &["amd64", "!i386", "linux-any", "!hurd-any", "any-arm64"];
    const PROFS: &[&str] = &["nocheck", "cross", "stage1", "pkg.foo.bar"];
    fn gen(r: &mut Rng) -> Relation {
        let cons = [VersionConstraint::GreaterThanEqual, VersionConstraint::LessThanEqual, VersionConstraint::Equal, VersionConstraint::GreaterThan, VersionConstraint::LessThan];
        let ng = [0, 0, 1, 2][r.below(4)];
        Relation {
            name: r.pick(NAMES).to_string(),
            archqual: if r.below(3) == 0 { Some(r.pick(QUALS).to_string()) } else { None },
            version: if r.below(2) == 0 { Some((cons[r.below(5)].clone(), r.pick(VERSIONS).parse().unwrap())) } else { None },
            architectures: if r.below(3) == 0 { let n = r.below(4); Some((0..n).map(|_| r.pick(ARCHS).to_string()).collect()) } else { None },
            profiles: (0..ng).map(|_| { let n = 1 + r.below(3); (0..n).map(|_| if r.below(2) == 0 { BuildProfile::Enabled(r.pick(PROFS).to_string()) } else { BuildProfile::Disabled(r.pick(PROFS).to_string()) }).collect() }).collect(),
        }
    }
    /// C10 / C14 (second clause): the strict lossless reader accepts the printed field and shows the same structure
    pub fn run_lossless() -> Result<usize, Fail> {
        use debian_control::lossless::relations::Relations as LRelations;
        let mut r = Rng(crate::seed_mix(0xA0761D6478BD642F));
        let mut n = 0;
        for _ in 0..4000 {
            let ne = 1 + r.below(3);
            let rels = Relations((0..ne).map(|_| { let na = 1 + r.below(2); (0..na).map(|_| gen(&mut r)).collect() }).collect());
            let t = rels.to_string();
            n += 1;
            let ll = match LRelations::from_str(&t) {
                Ok(x) => x,
                Err(e) => return Err(Fail { prop: "C10".into(), input: t.clone(), what: "strict lossless reader rejects a well-formed field".into(), expected: "Ok".into(), got: e }),
            };
            if ll.to_string() != t { return Err(Fail { prop: "C10".into(), input: t.clone(), what: "printed text differs".into(), expected: t.clone(), got: ll.to_string() }); }
            let got: Vec<Vec<(String, Option<String>, Option<(VersionConstraint, String)>, Option<Vec<String>>, Vec<Vec<BuildProfile>>)>> = ll.entries().map(|e| e.relations().map(|x| (x.name(), x.archqual(), x.version().map(|(c, v)| (c, v.to_string())), x.architectures().map(|a| a.collect()), x.profiles().collect())).collect()).collect();
            let want: Vec<Vec<(String, Option<String>, Option<(VersionConstraint, String)>, Option<Vec<String>>, Vec<Vec<BuildProfile>>)>> = rels.0.iter().map(|e| e.iter().map(|x| (x.name.clone(), x.archqual.clone(), x.version.clone().map(|(c, v)| (c, v.to_string())), x.architectures.clone(), x.profiles.clone())).collect()).collect();
            if got != want { return Err(Fail { prop: "C10".into(), input: t.clone(), what: "entries / alternatives / names / qualifiers / versions / architectures / profiles differ".into(), expected: format!("{:?}", want), got: format!("{:?}", got) }); }
            // the same field with free spaces, tabs and newlines around the separators, empty entries and a trailing comma:
            // accepted by the strict lossless reader and by the lossy reader, with the same structure
            let wsp: &[&str] = &["", " ", "  ", "\t", "\n ", " \n  "];
            let mut m = String::new();
            if r.below(6) == 0 { m.push_str(*r.pick(wsp)); m.push(','); }
            m.push_str(*r.pick(wsp));
            for (i, e) in rels.0.iter().enumerate() {
                if i > 0 { m.push_str(*r.pick(wsp)); m.push(','); if r.below(5) == 0 { m.push_str(*r.pick(wsp)); m.push(','); } m.push_str(*r.pick(wsp)); }
                for (j, a) in e.iter().enumerate() { if j > 0 { m.push_str(*r.pick(wsp)); m.push('|'); m.push_str(*r.pick(wsp)); } m.push_str(&a.to_string()); }
            }
            if r.below(4) == 0 { m.push_str(*r.pick(wsp)); m.push(','); }
            m.push_str(*r.pick(wsp));
            let ll2 = match LRelations::from_str(&m) { Ok(x) => x, Err(e) => return Err(Fail { prop: "C10".into(), input: m.clone(), what: "strict lossless reader rejects a well-formed field (free white space around separators, empty entries, trailing comma)".into(), expected: "Ok".into(), got: e }) };
            if ll2.to_string() != m { return Err(Fail { prop: "C10".into(), input: m.clone(), what: "printed text differs".into(), expected: m.clone(), got: ll2.to_string() }); }
            let got2: Vec<Vec<String>> = ll2.entries().map(|e| e.relations().map(|x| { let l: Relation = x.into(); l.to_string() }).collect()).collect();
            let want2: Vec<Vec<String>> = rels.0.iter().map(|e| e.iter().map(|x| x.to_string()).collect()).collect();
            if got2 != want2 { return Err(Fail { prop: "C10".into(), input: m.clone(), what: "the lossless reader does not expose the entries and alternatives that were written".into(), expected: format!("{:?}", want2), got: format!("{:?}", got2) }); }
            match Relations::from_str(&m) {
                Ok(b) if b == rels => {}
                other => return Err(Fail { prop: "C10".into(), input: m.clone(), what: "the lossy reader does not accept the same field with the same structure".into(), expected: format!("{:?}", rels), got: format!("{:?}", other) }),
            }
        }
        Ok(n)
    }

    /// C13: a model field printed with arbitrary layout (extra whitespace / newlines, empty entries, optionally a
    /// substitution variable), normalised by the lossless wrap_and_sort
    pub fn run_c13() -> Result<usize, Fail> {
        use debian_control::lossless::relations::Relations as LRelations;
        let mut r = Rng(crate::seed_mix(0x8CB92BA72F3D8DD7));
        let mut n = 0;
        let wsp: &[&str] = &["", " ", "  ", "\n ", " \n  "];
        for _ in 0..3000 * crate::scale() {
            let ne = r.below(4);
            let mut rels = Relations((0..ne).map(|_| { let na = 1 + r.below(3); (0..na).map(|_| gen(&mut r)).collect() }).collect());
            // entries that are a proper prefix of one another (same alternatives plus one or two that sort last)
            if ne > 0 && r.below(3) == 0 {
                for _ in 0..1 + r.below(2) {
                    let mut e: Vec<Relation> = r.pick(&rels.0).clone();
                    for k in 0..1 + r.below(2) { let mut x = gen(&mut r); x.name = format!("zz{}", k); e.push(x); }
                    let at = r.below(rels.0.len() + 1);
                    rels.0.insert(at, e);
                }
            }
            // a repeated entry (the multiset of entries has to survive)
            if ne > 0 && r.below(4) == 0 { let e: Vec<Relation> = r.pick(&rels.0).clone(); let at = r.below(rels.0.len() + 1); rels.0.insert(at, e); }
            let substvar = r.below(4) == 0 || ne == 0;
            // relations written with too little or with padding white space inside ("foo(>=1)[amd64]", "foo ( >= 1 ) [ amd64 ]")
            let squeeze = r.below(4);
            let inner = |a: &Relation| -> String {
                let t = a.to_string();
                match squeeze { 1 => t.replace(" (", "(").replace(") ", ")").replace(" [", "[").replace("] ", "]").replace(" <", "<"),
                                2 => t.replace("(", "( ").replace("[", "[ ").replace("]", " ]").replace("<", "< ").replace(">", " >").replace("> =", ">=").replace("< <", "<<").replace(" > >", " >>").replace("< =", "<=").replace("> >", ">>"),
                                _ => t }
            };
            // messy text
            let mut t = String::new();
            t.push_str(*r.pick(wsp));
            if r.below(5) == 0 { t.push_str(", "); }
            for (i, e) in rels.0.iter().enumerate() {
                if i > 0 { t.push_str(*r.pick(wsp)); t.push(','); if r.below(6) == 0 { t.push_str(" ,"); } t.push_str(*r.pick(wsp)); }
                for (j, a) in e.iter().enumerate() {
                    if j > 0 { t.push_str(*r.pick(wsp)); t.push('|'); t.push_str(*r.pick(wsp)); }
                    t.push_str(&inner(a));
                }
            }
            if substvar { t.push_str(", ${misc:Depends}"); }
            if r.below(5) == 0 { t.push(','); }
            t.push_str(*r.pick(wsp));
            n += 1;
            let (ll, errs) = LRelations::parse_relaxed(&t, true);
            if !errs.is_empty() { continue; }
            let shown = t.clone();
            let out = std::panic::catch_unwind(std::panic::AssertUnwindSafe(|| ll.wrap_and_sort()));
            let out = match out { Ok(o) => o, Err(_) => return Err(Fail { prop: "C13".into(), input: shown, what: "wrap_and_sort panics".into(), expected: "a field".into(), got: "panic".into() }) };
            let text = out.to_string();
            // canonical, sorted text computed from the model
            let mut entries: Vec<Vec<Relation>> = rels.0.clone();
            for e in entries.iter_mut() { e.sort_by(|a, b| a.to_string().cmp(&b.to_string())); }
            let mut meaning: Vec<Vec<String>> = entries.iter().map(|e| e.iter().map(|a| a.to_string()).collect()).collect();
            meaning.sort();
            // the result denotes the same dependencies: same multiset of entries, each the same multiset of alternatives
            let (back, berrs) = LRelations::parse_relaxed(&text, true);
            if !berrs.is_empty() { return Err(Fail { prop: "C13".into(), input: shown, what: "the normalised field does not parse strictly".into(), expected: "no errors".into(), got: format!("{:?} for {:?}", berrs, text) }); }
            let view = |f: &LRelations| -> Vec<Vec<String>> {
                let mut v: Vec<Vec<String>> = f.entries().map(|e| { let mut a: Vec<String> = e.relations().map(|x| {
                    let lossy = Relation { name: x.name(), archqual: x.archqual(), version: x.version(), architectures: x.architectures().map(|a| a.collect()), profiles: x.profiles().collect() };
                    lossy.to_string() }).collect(); a.sort(); a }).filter(|a: &Vec<String>| !a.is_empty()).collect();
                v.sort(); v };
            let got = view(&back);
            if got != meaning { return Err(Fail { prop: "C13".into(), input: shown, what: "the normalised field does not denote the same dependencies".into(), expected: format!("{:?}", meaning), got: format!("{:?} from {:?}", got, text) }); }
            if substvar && !text.contains("${misc:Depends}") { return Err(Fail { prop: "C13".into(), input: shown, what: "a substitution variable was dropped".into(), expected: "${misc:Depends} kept".into(), got: text }); }
            // single-line canonical text: ', ' between entries, ' | ' between alternatives, each relation in canonical form
            if text.contains('\n') || text.contains("  ") || text.starts_with(' ') || text.ends_with(' ') || text.contains(" ,") || text.contains(",,") || text.ends_with(',') {
                return Err(Fail { prop: "C13".into(), input: shown, what: "the normalised text is not single-line canonical".into(), expected: "entries joined by ', ', alternatives by ' | ', single spaces".into(), got: text });
            }
            // ... and every relation is written in its canonical form 'name[:archqual] (op version) [archs] <profiles>'
            for e in back.entries() { for x in e.relations() {
                let lossy = Relation { name: x.name(), archqual: x.archqual(), version: x.version(), architectures: x.architectures().map(|a| a.collect()), profiles: x.profiles().collect() };
                if x.to_string().trim() != lossy.to_string() { return Err(Fail { prop: "C13".into(), input: shown, what: "a relation of the normalised field is not written in canonical form (single spaces)".into(), expected: lossy.to_string(), got: x.to_string() }); }
            } }
            // sorted: names do not decrease; relations of one name with the same operator are in Debian version order
            let key = |x: &debian_control::lossless::relations::Relation| (x.name(), x.version());
            let ordered = |a: &(String, Option<(VersionConstraint, debversion::Version)>), b: &(String, Option<(VersionConstraint, debversion::Version)>)| -> bool {
                if a.0 != b.0 { return a.0 < b.0; }
                match (&a.1, &b.1) { (Some((ca, va)), Some((cb, vb))) if ca == cb => va <= vb, _ => true }
            };
            for e in back.entries() {
                let ks: Vec<_> = e.relations().map(|x| key(&x)).collect();
                for w in ks.windows(2) { if !ordered(&w[0], &w[1]) { return Err(Fail { prop: "C13".into(), input: shown, what: "the alternatives of an entry are not sorted (name, then Debian version order)".into(), expected: "sorted".into(), got: text }); } }
            }
            let firsts: Vec<_> = back.entries().filter_map(|e| e.relations().next().map(|x| key(&x))).collect();
            for w in firsts.windows(2) { if !ordered(&w[0], &w[1]) { return Err(Fail { prop: "C13".into(), input: shown, what: "the entries are not sorted (by their first alternative: name, then Debian version order)".into(), expected: "sorted".into(), got: text }); } }
            // ... and no entry sorts strictly before an EARLIER one (all pairs, not only neighbours: an inconsistent
            // comparison can leave neighbours in order and the whole list unsorted): alternatives compared one by one,
            // a proper prefix first; pairs this oracle cannot order (same name, different operators) end the comparison
            let cmp3 = |a: &(String, Option<(VersionConstraint, debversion::Version)>), b: &(String, Option<(VersionConstraint, debversion::Version)>)| -> Option<std::cmp::Ordering> {
                if a.0 != b.0 { return Some(a.0.cmp(&b.0)); }
                match (&a.1, &b.1) {
                    (None, None) => Some(std::cmp::Ordering::Equal),
                    (None, Some(_)) => Some(std::cmp::Ordering::Less),
                    (Some(_), None) => Some(std::cmp::Ordering::Greater),
                    (Some((ca, va)), Some((cb, vb))) => if ca == cb { Some(va.cmp(vb)) } else { None },
                }
            };
            let all: Vec<Vec<_>> = back.entries().map(|e| e.relations().map(|x| key(&x)).collect::<Vec<_>>()).filter(|e: &Vec<_>| !e.is_empty()).collect();
            for i in 0..all.len() { for j in i + 1..all.len() {
                let (a, b) = (&all[i], &all[j]);
                let mut verdict = None;
                let mut k = 0;
                loop {
                    if k == a.len() || k == b.len() { verdict = Some(a.len().cmp(&b.len())); break; }
                    match cmp3(&a[k], &b[k]) { None => break, Some(std::cmp::Ordering::Equal) => { k += 1; } Some(o) => { verdict = Some(o); break; } }
                }
                if verdict == Some(std::cmp::Ordering::Greater) {
                    return Err(Fail { prop: "C13".into(), input: shown, what: format!("entry {} of the result sorts after entry {} (alternatives compared one by one by name, then unversioned first, then Debian version order; a proper prefix first)", i, j), expected: "sorted".into(), got: text });
                }
            } }
            // idempotent: on the re-read field and on the returned object itself
            let again = back.wrap_and_sort().to_string();
            if again != text { return Err(Fail { prop: "C13".into(), input: shown, what: "normalising the result again changes it".into(), expected: text, got: again }); }
            let (ll2, _) = LRelations::parse_relaxed(&t, true);
            let direct = ll2.wrap_and_sort().wrap_and_sort().to_string();
            if direct != text { return Err(Fail { prop: "C13".into(), input: shown, what: "normalising the returned object again (without re-reading it) changes it".into(), expected: text, got: direct }); }
        }
        Ok(n)
    }
    /// C11, explicit cases the histories do not generate: an entry losing its only alternative, the entry behind a
    /// substitution variable, a field that already ends in a separator, a replacement relation with outer white space
    pub fn extra_c11() -> Result<usize, Fail> {
        use debian_control::lossless::relations::{Relations as LRelations, Relation as LRelation};
        let p = |s: &str| LRelations::parse_relaxed(s, true).0;
        let view = |f: &LRelations| -> Vec<Vec<String>> { f.entries().map(|e| e.relations().map(|x| x.to_string()).collect()).collect() };
        let check = |what: &str, r: &LRelations, want: Vec<Vec<&str>>, known: Option<(&str, &str)>| -> Result<(), Fail> {
            let text = r.to_string();
            let want: Vec<Vec<String>> = want.into_iter().map(|e| e.into_iter().map(|x| x.to_string()).collect()).collect();
            let (back, errs) = LRelations::parse_relaxed(&text, true);
            let t = text.trim();
            let sep_ok = !t.starts_with(',') && !t.ends_with(',') && !t.replace(' ', "").contains(",,") && !t.starts_with('|') && !t.ends_with('|');
            if errs.is_empty() && view(&back) == want && view(r) == want && sep_ok { return Ok(()); }
            if let Some((class, note)) = known { crate::anytext::note_known_pub(class, note); return Ok(()); }
            Err(Fail { prop: "C11".into(), input: what.into(), what: "after the edit the field does not print to text that parses strictly to the model, or a separator is duplicated / dangling".into(), expected: format!("{:?}", want), got: format!("{:?} (live {:?}, re-read {:?}, {} errors)", text, view(r), view(&back), errs.len()) })
        };
        let mut n = 0;
        for (t, e, k, want) in [("a, b", 1usize, 0usize, vec![vec!["a"]]), ("a, b, c", 1, 0, vec![vec!["a"], vec!["c"]]), ("a", 0, 0, vec![]), ("a | b, c", 0, 1, vec![vec!["a"], vec!["c"]]), ("${x}, a, b", 0, 0, vec![vec!["b"]])] {
            let r = p(t); let mut en = r.get_entry(e).unwrap(); en.remove_relation(k); n += 1;
            check(&format!("{:?}: get_entry({}).remove_relation({})", t, e, k), &r, want, None)?;
        }
        for (t, e, want) in [("${a}, foo", 0usize, vec![]), ("foo, ${a}", 0, vec![]), ("${a}, foo, bar", 0, vec![vec!["bar"]]), ("${a}, foo, bar", 1, vec![vec!["foo"]]), ("x, ${a}, foo", 1, vec![vec!["x"]])] {
            let mut r = p(t); r.remove_entry(e); n += 1;
            check(&format!("{:?}: remove_entry({})", t, e), &r, want, None)?;
        }
        // recorded findings (known-findings.txt): reported as KNOWN while they last, as a violation when anything else goes wrong
        for t in ["a, x, ", "a, x,"] {
            let mut r = p(t); r.push("y".parse().unwrap()); n += 1;
            check(&format!("{:?}: push(y)", t), &r, vec![vec!["a"], vec!["x"], vec!["y"]], Some(("C11:push-after-trailing-comma", "\"a, x, \" then push(y) prints \"a, x, , y\": the separator is duplicated (the field still parses to the model)")))?;
        }
        {
            let r = p("a | b , d"); let mut en = r.get_entry(0).unwrap();
            if let Ok(x) = " x ".parse::<LRelation>() { en.replace(1, x); n += 1;
                check("\"a | b , d\": get_entry(0).replace(1, \" x \".parse())", &r, vec![vec!["a", "x"], vec!["d"]], None)?; }
        }
        Ok(n)
    }
    /// C11: histories of edits on a relationship field against a list-of-lists model
    pub fn run_c11() -> Result<usize, Fail> {
        use debian_control::lossless::relations::{Relations as LRelations, Entry as LEntry, Relation as LRelation};
        let mut r = Rng(crate::seed_mix(0x1F83D9ABFB41BD6B));
        let mut n = 0;
        let view = |f: &LRelations| -> Vec<Vec<String>> {
            f.entries().map(|e| e.relations().map(|x| {
                let lossy = Relation { name: x.name(), archqual: x.archqual(), version: x.version(), architectures: x.architectures().map(|a| a.collect()), profiles: x.profiles().collect() };
                lossy.to_string() }).collect()).collect()
        };
        let only = std::env::var("VWIT_C11_OPS").ok();
        for _ in 0..2000 * crate::scale() {
            // start: a well-formed field of 0..3 entries, canonical layout
            let ne = r.below(4);
            let rels = Relations((0..ne).map(|_| { let na = 1 + r.below(2); (0..na).map(|_| { let mut g = gen(&mut r); if g.architectures.as_ref().map(|a| a.is_empty()).unwrap_or(false) { g.architectures = None; } g }).collect() }).collect());
            let wsp: &[&str] = &["", " ", "  ", "\n ", " \n  "];
            let mut start = String::new();
            if r.below(3) == 0 {
                // arbitrary layout: whitespace / newlines around separators, empty entries, leading / trailing commas
                start.push_str(*r.pick(wsp));
                if r.below(4) == 0 { start.push_str(", "); }
                for (i, e) in rels.0.iter().enumerate() {
                    if i > 0 { start.push_str(*r.pick(wsp)); start.push(','); if r.below(4) == 0 { start.push_str(" ,"); } start.push_str(*r.pick(wsp)); }
                    for (j, a) in e.iter().enumerate() { if j > 0 { start.push_str(*r.pick(wsp)); start.push('|'); start.push_str(*r.pick(wsp)); } start.push_str(&a.to_string()); }
                }
                if r.below(5) == 0 { start.push(','); }
            } else { start = rels.to_string(); }
            let with_substvar = r.below(6) == 0;
            if with_substvar { if !rels.0.is_empty() { start.push_str(", "); } start.push_str("${misc:Depends}"); }
            let (mut field, perrs) = LRelations::parse_relaxed(&start, true);
            if !perrs.is_empty() { continue; }
            let mut model: Vec<Vec<String>> = rels.0.iter().map(|e| e.iter().map(|a| a.to_string()).collect()).collect();
            let mut hist: Vec<String> = Vec::new();
            for _ in 0..1 + r.below(3) {
                n += 1;
                let mut newrel = gen(&mut r); if newrel.architectures.as_ref().map(|a| a.is_empty()).unwrap_or(false) { newrel.architectures = None; }
                let newtext = newrel.to_string();
                let how = r.below(3);   // how the operand is built: parsed, from a list, by conversion from the lossy value
                let mk_entry = |t: &str, how: usize| -> LEntry { match how { 0 => LEntry::from_str(t).unwrap(), 1 => LEntry::from(vec![LRelation::from_str(t).unwrap()]), _ => LEntry::from(vec![newrel.clone()]) } };
                let op = r.below(13);
                let ops = ["push", "insert", "replace", "remove_entry", "entry_push", "entry_remove_relation", "set_version", "drop_constraint", "entry_replace", "set_archqual", "set_architectures", "add_profile", "relation_remove"];
                if let Some(o) = &only { if !o.split(',').any(|x| x == ops[op]) { continue; } }
                let desc: String;
                let res = std::panic::catch_unwind(std::panic::AssertUnwindSafe(|| -> Option<String> {
                    match op {
                        0 => { field.push(mk_entry(&newtext, how)); model.push(vec![newtext.clone()]); Some(format!("push({:?}) [operand built way {}]", newtext, how)) }
                        1 => { let i = r.below(model.len() + 2); field.insert(i, mk_entry(&newtext, how)); let j = i.min(model.len()); model.insert(j, vec![newtext.clone()]); Some(format!("insert({}, {:?}) [way {}]", i, newtext, how)) }
                        2 => { if model.is_empty() { return None; } let i = r.below(model.len()); field.replace(i, mk_entry(&newtext, how)); model[i] = vec![newtext.clone()]; Some(format!("replace({}, {:?}) [way {}]", i, newtext, how)) }
                        3 => { if model.is_empty() { return None; } let i = r.below(model.len()); field.remove_entry(i); model.remove(i); Some(format!("remove_entry({})", i)) }
                        4 => { if model.is_empty() { return None; } let i = r.below(model.len()); let mut e = field.get_entry(i).unwrap(); e.push(LRelation::from_str(&newtext).unwrap()); model[i].push(newtext.clone()); Some(format!("get_entry({}).push({:?})", i, newtext)) }
                        5 => { if model.is_empty() { return None; } let i = r.below(model.len());
                               if how == 1 {
                                   // an entry built from a list of relations, put into the field, then one alternative removed
                                   let a = gen(&mut r); let b = gen(&mut r);
                                   let (ta, tb) = (a.to_string(), b.to_string());
                                   field.replace(i, LEntry::from(vec![LRelation::from_str(&ta).unwrap(), LRelation::from_str(&tb).unwrap(), LRelation::from_str(&newtext).unwrap()]));
                                   model[i] = vec![ta, tb, newtext.clone()];
                               }
                               if model[i].len() < 2 { return None; } let j = r.below(model[i].len()); let e = field.get_entry(i).unwrap(); e.remove_relation(j); model[i].remove(j); Some(format!("get_entry({}).remove_relation({}){}", i, j, if how == 1 { " on an entry built from a list" } else { "" })) }
                        6 => { if model.is_empty() { return None; } let i = r.below(model.len()); let j = r.below(model[i].len()); let e = field.get_entry(i).unwrap(); let mut x = e.get_relation(j).unwrap();
                               let mut l = Relation { name: x.name(), archqual: x.archqual(), version: x.version(), architectures: x.architectures().map(|a| a.collect()), profiles: x.profiles().collect() };
                               l.version = newrel.version.clone(); x.set_version(newrel.version.clone()); model[i][j] = l.to_string(); Some(format!("relation({},{}).set_version({:?})", i, j, newrel.version.as_ref().map(|v| (v.0.to_string(), v.1.to_string())))) }
                        7 => { if model.is_empty() { return None; } let i = r.below(model.len()); let j = r.below(model[i].len()); let e = field.get_entry(i).unwrap(); let mut x = e.get_relation(j).unwrap();
                               let mut l = Relation { name: x.name(), archqual: x.archqual(), version: x.version(), architectures: x.architectures().map(|a| a.collect()), profiles: x.profiles().collect() };
                               l.version = None; x.drop_constraint(); model[i][j] = l.to_string(); Some(format!("relation({},{}).drop_constraint()", i, j)) }
                        8 => { if model.is_empty() { return None; } let i = r.below(model.len()); let j = r.below(model[i].len()); let mut e = field.get_entry(i).unwrap(); e.replace(j, LRelation::from_str(&newtext).unwrap()); model[i][j] = newtext.clone(); Some(format!("get_entry({}).replace({}, {:?})", i, j, newtext)) }
                        12 => { if model.is_empty() { return None; } let i = r.below(model.len()); if model[i].len() < 2 { return None; } let j = r.below(model[i].len()); let e = field.get_entry(i).unwrap(); let mut x = e.get_relation(j).unwrap(); x.remove(); model[i].remove(j); Some(format!("relation({},{}).remove()", i, j)) }
                        _ => { if model.is_empty() { return None; } let i = r.below(model.len()); let j = r.below(model[i].len()); let e = field.get_entry(i).unwrap(); let mut x = e.get_relation(j).unwrap();
                               let mut l = Relation { name: x.name(), archqual: x.archqual(), version: x.version(), architectures: x.architectures().map(|a| a.collect()), profiles: x.profiles().collect() };
                               let d = match op {
                                   9 => { let q = newrel.archqual.clone().unwrap_or("any".to_string()); l.archqual = Some(q.clone()); x.set_archqual(&q); format!("set_archqual({:?})", q) }
                                   10 => { let a = newrel.architectures.clone().unwrap_or(vec!["amd64".to_string()]); l.architectures = Some(a.clone()); x.set_architectures(a.iter().map(|s| s.as_str())); format!("set_architectures({:?})", a) }
                                   _ => { let g = vec![BuildProfile::Disabled("nodoc".to_string()), BuildProfile::Enabled("cross".to_string())]; l.profiles.push(g.clone()); x.add_profile(&g); "add_profile([!nodoc cross])".to_string() }
                               };
                               model[i][j] = l.to_string(); Some(format!("relation({},{}).{}", i, j, d)) }
                    }
                }));
                match res {
                    Err(_) => { hist.push(format!("{} <panics>", ops[op])); return Err(Fail { prop: "C11".into(), input: format!("{:?} then {:?}", start, hist), what: format!("{} panics", ops[op]), expected: "no panic".into(), got: "panic".into() }); }
                    Ok(None) => continue,
                    Ok(Some(d)) => { desc = d; }
                }
                hist.push(desc);
                let shown = format!("{:?} then {:?}", start, hist);
                let text = field.to_string();
                let (back, berrs) = LRelations::parse_relaxed(&text, true);
                if !berrs.is_empty() { return Err(Fail { prop: "C11".into(), input: shown, what: format!("after {} the field does not parse strictly", ops[op]), expected: "no errors".into(), got: format!("{:?} for {:?}", berrs, text) }); }
                if with_substvar && back.substvars().collect::<Vec<_>>() != vec!["${misc:Depends}".to_string()] { return Err(Fail { prop: "C11".into(), input: shown, what: format!("after {} the substitution variable is no longer an item of its own", ops[op]), expected: "[\"${misc:Depends}\"]".into(), got: format!("{:?} in {:?}", back.substvars().collect::<Vec<_>>(), text) }); }
                if view(&back) != model { return Err(Fail { prop: "C11".into(), input: shown, what: format!("after {} the printed field does not parse to the list model", ops[op]), expected: format!("{:?}", model), got: format!("{:?} from {:?}", view(&back), text) }); }
                if view(&field) != model { return Err(Fail { prop: "C11".into(), input: shown, what: format!("after {} the live field does not show the list model", ops[op]), expected: format!("{:?}", model), got: format!("{:?}", view(&field)) }); }
            }
        }
        Ok(n)
    }
    pub fn run() -> Result<usize, Fail> {
        let mut r = Rng(crate::seed_mix(0xD1B54A32D192ED03));
        let mut n = 0;
        for _ in 0..6000 * crate::scale() {
            let rel = gen(&mut r);
            let t = rel.to_string();
            n += 1;
            match Relation::from_str(&t) {
                Ok(b) if b == rel => {}
                other => return Err(Fail { prop: "C14".into(), input: t.clone(), what: "printed lossy Relation does not read back equal".into(), expected: format!("{:?}", rel), got: format!("{:?}", other) }),
            }
            // conversion clause: lossy -> lossless prints the same text, and back gives the value (an architecture list, where
            // present, has at least one element: "foo []" is no valid component)
            let convertible = |x: &Relation| x.architectures.as_ref().map(|a| !a.is_empty()).unwrap_or(true);
            if convertible(&rel) {
                let ll: debian_control::lossless::relations::Relation = rel.clone().into();
                if ll.to_string() != t { return Err(Fail { prop: "C14".into(), input: t.clone(), what: "the lossless form of a lossy relation prints other text than the lossy one".into(), expected: t.clone(), got: ll.to_string() }); }
                let back: Relation = ll.into();
                if back != rel { return Err(Fail { prop: "C14".into(), input: t.clone(), what: "lossy -> lossless -> lossy does not return the relation".into(), expected: format!("{:?}", rel), got: format!("{:?}", back) }); }
            }
            // a field of 1..3 entries of 1..2 alternatives
            let ne = 1 + r.below(3);
            let rels = Relations((0..ne).map(|_| { let na = 1 + r.below(2); (0..na).map(|_| gen(&mut r)).collect() }).collect());
            for e in &rels.0 {
                if !e.iter().all(|x| convertible(x)) { continue; }
                let want: String = e.iter().map(|x| x.to_string()).collect::<Vec<_>>().join(" | ");
                let le: debian_control::lossless::relations::Entry = e.clone().into();
                if le.to_string() != want { return Err(Fail { prop: "C14".into(), input: want.clone(), what: "the lossless form of a list of lossy alternatives prints other text".into(), expected: want.clone(), got: le.to_string() }); }
                let back: Vec<Relation> = le.into();
                if &back != e { return Err(Fail { prop: "C14".into(), input: want.clone(), what: "alternatives: lossy -> lossless entry -> lossy does not return the list".into(), expected: format!("{:?}", e), got: format!("{:?}", back) }); }
            }
            let t = rels.to_string();
            match Relations::from_str(&t) {
                Ok(b) if b == rels => {}
                other => return Err(Fail { prop: "C14".into(), input: t.clone(), what: "printed lossy Relations does not read back equal".into(), expected: format!("{:?}", rels), got: format!("{:?}", other) }),
            }
        }
        Ok(n)
    }
}

// ---------------------------------------------------------------------------------------------------------
// C12: satisfaction of a relationship field by installed versions, against the statement's own reading
mod sat {
    use super::{Fail, Rng};
    use debian_control::lossy;
    use debian_control::lossless::relations::Relations as LRelations;
    use debian_control::relations::VersionConstraint;
    use debversion::Version;
    use std::collections::HashMap;
    use std::str::FromStr;
    const NAMES: &[&str] = &["foo", "foo-dev", "libfoo", "libfoo1", "bar", "b"];
    const VERSIONS: &[&str] = &["0.9", "1.0", "1.0-1", "1:0.5", "2.0~rc1", "2.0", "3.0"];
    fn holds(c: &VersionConstraint, installed: &Version, wanted: &Version) -> bool {
        match c {
            VersionConstraint::LessThan => installed < wanted,
            VersionConstraint::LessThanEqual => installed <= wanted,
            VersionConstraint::Equal => installed == wanted,
            VersionConstraint::GreaterThanEqual => installed >= wanted,
            VersionConstraint::GreaterThan => installed > wanted,
        }
    }
    pub fn run() -> Result<usize, Fail> {
        let mut r = Rng(crate::seed_mix(0x2545F4914F6CDD1D));
        let cons = [VersionConstraint::GreaterThanEqual, VersionConstraint::LessThanEqual, VersionConstraint::Equal, VersionConstraint::GreaterThan, VersionConstraint::LessThan];
        let mut n = 0;
        for _ in 0..6000 * crate::scale() {
            // a field of 1..3 entries of 1..3 alternatives
            let ne = 1 + r.below(3);
            let field: Vec<Vec<lossy::Relation>> = (0..ne).map(|_| { let na = 1 + r.below(3); (0..na).map(|_| lossy::Relation {
                name: r.pick(NAMES).to_string(), archqual: None, architectures: None, profiles: vec![],
                version: if r.below(3) > 0 { Some((cons[r.below(5)].clone(), r.pick(VERSIONS).parse().unwrap())) } else { None } }).collect() }).collect();
            let rels = lossy::Relations(field.clone());
            let text = rels.to_string();
            let ll = match LRelations::from_str(&text) { Ok(x) => x, Err(_) => continue };
            // installed: 0..3 packages
            let ni = r.below(4);
            let mut map: HashMap<String, Version> = HashMap::new();
            // installed names also in forms a field never asks for by that text ("libfoo:amd64" is not "libfoo")
            const INSTALLED: &[&str] = &["foo", "foo-dev", "libfoo", "libfoo1", "bar", "b", "libfoo:amd64", "foo:any", "Foo"];
            for _ in 0..ni { map.insert(r.pick(INSTALLED).to_string(), r.pick(VERSIONS).parse().unwrap()); }
            let want = field.iter().all(|e| e.iter().any(|a| match map.get(&a.name) { None => false, Some(iv) => match &a.version { None => true, Some((c, v)) => holds(c, iv, v) } }));
            n += 1;
            let desc = format!("field {:?} installed {:?}", text, map.iter().map(|(k, v)| format!("{}={}", k, v)).collect::<Vec<_>>());
            let clos = |name: &str| map.get(name).cloned();
            let answers = [("lossy/closure", rels.satisfied_by(&clos)), ("lossless/closure", ll.satisfied_by(&clos))];
            for (who, got) in answers {
                if got != want { return Err(Fail { prop: "C12".into(), input: desc.clone(), what: format!("{} evaluator disagrees with the statement", who), expected: format!("{}", want), got: format!("{}", got) }); }
            }
            // single relations, through the map and the name/version pair forms
            for e in &field { for a in e {
                let w1 = match map.get(&a.name) { None => false, Some(iv) => match &a.version { None => true, Some((c, v)) => holds(c, iv, v) } };
                let g1 = a.satisfied_by(map.clone());
                if g1 != w1 { return Err(Fail { prop: "C12".into(), input: format!("relation {:?} installed {:?}", a.to_string(), desc), what: "lossy relation / map lookup disagrees with the statement".into(), expected: format!("{}", w1), got: format!("{}", g1) }); }
                for (k, v) in map.iter() {
                    let w2 = if *k == a.name { match &a.version { None => true, Some((c, wv)) => holds(c, v, wv) } } else { false };
                    let g2 = a.satisfied_by((k.clone(), v.clone()));
                    if g2 != w2 { return Err(Fail { prop: "C12".into(), input: format!("relation {:?} installed pair {}={}", a.to_string(), k, v), what: "lossy relation / pair lookup disagrees with the statement".into(), expected: format!("{}", w2), got: format!("{}", g2) }); }
                }
            } }
        }
        Ok(n)
    }
}
// ---------------------------------------------------------------------------------------------------------
// C19 (bounded stand-in, concrete inputs for the proved contract): clear-signed messages assembled from header, payload and
// signature lines (no CR: the trailing-CR case is a recorded finding of the proof) come back as exactly the payload and
// the concatenated signature lines; text that does not begin with the marker comes back unchanged
mod pgp19 {
    use super::{Fail, Rng};
    fn fail(input: &str, what: &str, expected: String, got: String) -> Fail { Fail { prop: "C19".into(), input: input.into(), what: what.into(), expected, got } }
    pub fn run() -> Result<usize, Fail> {
        let mut r = Rng(crate::seed_mix(0x510E527FADE682D1));
        let lines: &[&str] = &["Source: foo", "Description: bar\t", " .", "  ", "", "last ", "- dash", "x"];
        let sigs: &[&str] = &["AAAA", "", "BBBB", "=olY7", "Version: GnuPG v1", "iQIzBAEB"];
        let mut n = 0;
        for _ in 0..2000 * crate::scale() {
            let np = r.below(5); let ns = r.below(4);
            let payload: Vec<&str> = (0..np).map(|_| *r.pick(lines)).collect();
            let sig: Vec<&str> = (0..ns).map(|_| *r.pick(sigs)).collect();
            let mut t = String::from("-----BEGIN PGP SIGNED MESSAGE-----\nHash: SHA256\n\n");
            for l in &payload { t.push_str(l); t.push('\n'); }
            t.push_str("-----BEGIN PGP SIGNATURE-----\n");
            for l in &sig { t.push_str(l); t.push('\n'); }
            t.push_str("-----END PGP SIGNATURE-----\n");
            n += 1;
            let want_payload: String = payload.iter().map(|l| format!("{}\n", l)).collect();
            let want_sig: String = sig.concat();
            match std::panic::catch_unwind(|| debian_control::pgp::strip_pgp_signature(&t)) {
                Ok(Ok((p, s))) => {
                    if p != want_payload { return Err(fail(&t, "the payload of a clear-signed message is not returned exactly", format!("{:?}", want_payload), format!("{:?}", p))); }
                    if s.as_deref() != Some(want_sig.as_str()) { return Err(fail(&t, "the signature is not the concatenation of the signature lines", format!("{:?}", want_sig), format!("{:?}", s))); }
                }
                Ok(Err(e)) => return Err(fail(&t, "a complete clear-signed message is rejected", "Ok".into(), format!("{:?}", e))),
                Err(_) => return Err(fail(&t, "strip_pgp_signature panics", "a value".into(), "panic".into())),
            }
        }
        for t in ["", " ", "\n\n", "\nSource: foo\nBinary: bar\n", "Source: foo\n", "  -----BEGIN PGP SIGNED MESSAGE-----\nHash: SHA256\n\nHello\n-----BEGIN PGP SIGNATURE-----\nAAAA\n-----END PGP SIGNATURE-----\n",
                  "\n-----BEGIN PGP SIGNED MESSAGE-----\nHash: SHA256\n\nHello\n-----BEGIN PGP SIGNATURE-----\nAAAA\n-----END PGP SIGNATURE-----\n"] {
            n += 1;
            match debian_control::pgp::strip_pgp_signature(t) {
                Ok((p, None)) if p == t => {}
                other => return Err(fail(t, "text that does not begin with the clear-sign marker is not returned unchanged", format!("({:?}, None)", t), format!("{:?}", other))),
            }
        }
        Ok(n)
    }
}
// ---------------------------------------------------------------------------------------------------------
// C18 (bounded stand-in for the value types outside the contracts: VCS locations, package-list entries, signed-by values,
// the DEP-3 origin read through the typed patch header): printing a parsed canonical text returns that text - also for
// equal values built separately - and parsing the text of a value returns an equal value
mod codecs18 {
    use super::Fail;
    use std::str::FromStr;
    fn fail(input: &str, what: &str, expected: String, got: String) -> Fail { Fail { prop: "C18".into(), input: input.into(), what: what.into(), expected, got } }
    pub fn run() -> Result<usize, Fail> {
        let mut n = 0;
        // VCS locations: canonical text 'URL [-b BRANCH] [[SUBPATH]]'
        for t in ["https://x.example/y.git", "https://x.example/y.git -b main", "https://x.example/y.git [sub/dir]", "https://x.example/y.git -b main [sub/dir]"] {
            n += 1;
            let v = debian_control::vcs::ParsedVcs::from_str(t).map_err(|e| fail(t, "ParsedVcs rejects a canonical text", "Ok".into(), format!("{:?}", e)))?;
            if v.to_string() != t { return Err(fail(t, "ParsedVcs: printing a parsed canonical text does not return that text", t.into(), v.to_string())); }
        }
        // package-list entries with several extra pairs: the same text parsed again and again prints the same text
        for t in ["foo deb net optional", "foo deb net optional arch=any", "foo deb net optional arch=any essential=no profile=!stage1", "foo deb net optional k=a=b"] {
            for _ in 0..12 {
                n += 1;
                let v = debian_control::fields::PackageListEntry::from_str(t).map_err(|e| fail(t, "PackageListEntry rejects a canonical text", "Ok".into(), e))?;
                if v.to_string() != t { return Err(fail(t, "PackageListEntry: printing a parsed canonical text does not return that text", t.into(), v.to_string())); }
            }
        }
        // signed-by values: the text of a value parses to an equal value
        for v in [apt_sources::signature::Signature::KeyBlock("-----BEGIN PGP PUBLIC KEY BLOCK-----\n.\nmDMEY\n-----END PGP PUBLIC KEY BLOCK-----".to_string()), apt_sources::signature::Signature::KeyPath("/usr/share/keyrings/k.gpg".into())] {
            n += 1;
            let t = v.to_string();
            match apt_sources::signature::Signature::from_str(&t) { Ok(w) if w == v => {}, other => return Err(fail(&t, "Signature: parsing the text of a value does not return an equal value", format!("{:?}", v), format!("{:?}", other))) }
        }
        // the DEP-3 origin with its category prefix, read through the typed patch header
        use dep3::{Origin, OriginCategory};
        for (text, want) in [("upstream, commit:abc", (Some(OriginCategory::Upstream), Origin::Commit("abc".to_string()))),
                             ("backport, https://x.example/1", (Some(OriginCategory::Backport), Origin::Other("https://x.example/1".to_string()))),
                             ("commit:abc", (None, Origin::Commit("abc".to_string()))),
                             ("https://x.example/1", (None, Origin::Other("https://x.example/1".to_string())))] {
            n += 1;
            let doc = format!("Description: d\nOrigin: {}\n", text);
            let h = dep3::lossy::PatchHeader::from_str(&doc).map_err(|e| fail(&doc, "lossy PatchHeader rejects a well-formed header", "Ok".into(), e))?;
            if h.origin != Some(want.clone()) { return Err(fail(&doc, "the Origin field is not read as its category and value", format!("{:?}", want), format!("{:?}", h.origin))); }
        }
        Ok(n)
    }
}
// ---------------------------------------------------------------------------------------------------------
// C17: copyright file lookup, against the statement's own reading of the DEP-5 globs
mod cpr {
    use super::{Fail, Rng};
    use std::str::FromStr;
    /// '*' any run (also '/'), '?' exactly one character, '\' makes the next '*', '?' or '\' literal
    fn glob(p: &[char], s: &[char]) -> bool {
        if p.is_empty() { return s.is_empty(); }
        match p[0] {
            '*' => (0..=s.len()).any(|k| glob(&p[1..], &s[k..])),
            '?' => !s.is_empty() && glob(&p[1..], &s[1..]),
            '\\' if p.len() > 1 => !s.is_empty() && s[0] == p[1] && glob(&p[2..], &s[1..]),
            c => !s.is_empty() && s[0] == c && glob(&p[1..], &s[1..]),
        }
    }
    const PATS: &[&str] = &["*", "src/*", "src/*.c", "src/*?", "doc/*??.txt", "*.h", "a?c", "win\\\\*", "glob/star\\*", "debian/*", "src/a.c", "?", "*/*", "doc/c++-notes.txt", "a(b"];
    const PATHS: &[&str] = &["src/a.c", "src/", "src/ab", "doc/a.txt", "doc/abc.txt", "x.h", "abc", "ac", "win\\foo.c", "glob/star*", "glob/starx", "debian/rules", "a", "README", "a/b", "src/aXc", "doc/c++-notes.txt", "doc/cc-notes.txt", "a(b"];
    const LICS: &[&str] = &["MIT", "GPL-2+", "BSD-3-clause", "Apache-2.0"];
    /// explicit case: a stand-alone licence paragraph that has a name and no text
    fn name_only_licence() -> Result<usize, Fail> {
        let text = "Format: https://www.debian.org/doc/packaging-manuals/copyright-format/1.0/\n\nFiles: *\nCopyright: 2024 X\nLicense: GPL\n\nLicense: GPL\n";
        let lossy = debian_copyright::lossy::Copyright::from_str(text).map_err(|e| Fail { prop: "C17".into(), input: text.into(), what: "lossy reader rejects a machine-readable file".into(), expected: "Ok".into(), got: e })?;
        let lossless = debian_copyright::lossless::Copyright::from_str(text).map_err(|e| Fail { prop: "C17".into(), input: text.into(), what: "lossless reader rejects a machine-readable file".into(), expected: "Ok".into(), got: format!("{:?}", e) })?;
        let p = std::path::Path::new("a");
        let a = lossy.find_license_for_file(p).and_then(|l| l.name().map(|s| s.to_string()));
        let b = lossless.find_license_for_file(p).and_then(|l| l.name().map(|s| s.to_string()));
        if a != b {
            { return Err(Fail { prop: "C17".into(), input: text.into(), what: "the lossy and the lossless reader give different licences for a file".into(), expected: format!("{:?}", a), got: format!("{:?}", b) }); }
        }
        Ok(1)
    }
    /// explicit case: a Files paragraph whose licence carries its own text wins over a stand-alone paragraph of the same name
    fn own_text_wins() -> Result<usize, Fail> {
        let text = "Format: https://www.debian.org/doc/packaging-manuals/copyright-format/1.0/\n\nFiles: *\nCopyright: 2024 X\nLicense: BSD-3-clause\n own variant\n\nFiles: lib/*\nCopyright: 2024 Y\nLicense: BSD-3-clause\n\nLicense: BSD-3-clause\n stand-alone variant\n";
        let lossy = debian_copyright::lossy::Copyright::from_str(text).map_err(|e| Fail { prop: "C17".into(), input: text.into(), what: "lossy reader rejects a machine-readable file".into(), expected: "Ok".into(), got: e })?;
        let lossless = debian_copyright::lossless::Copyright::from_str(text).map_err(|e| Fail { prop: "C17".into(), input: text.into(), what: "lossless reader rejects a machine-readable file".into(), expected: "Ok".into(), got: format!("{:?}", e) })?;
        for (path, want) in [("vendor/x.c", "own variant"), ("lib/y.c", "stand-alone variant")] {
            let p = std::path::Path::new(path);
            let a = lossy.find_license_for_file(p).and_then(|l| l.text().map(|s| s.to_string()));
            let b = lossless.find_license_for_file(p).and_then(|l| l.text().map(|s| s.to_string()));
            if a.as_deref() != Some(want) { return Err(Fail { prop: "C17".into(), input: format!("{:?} looked up for {}", text, path), what: "lossy: the licence is the paragraph's own when it carries text, otherwise the stand-alone paragraph of that name".into(), expected: want.into(), got: format!("{:?}", a) }); }
            if b.as_deref() != Some(want) { return Err(Fail { prop: "C17".into(), input: format!("{:?} looked up for {}", text, path), what: "lossless: the licence is the paragraph's own when it carries text, otherwise the stand-alone paragraph of that name".into(), expected: want.into(), got: format!("{:?}", b) }); }
        }
        Ok(2)
    }
    pub fn run() -> Result<usize, Fail> {
        let mut r = Rng(crate::seed_mix(0x94D049BB133111EB));
        let mut n = name_only_licence()? + own_text_wins()?;
        for _ in 0..3000 * crate::scale() {
            let np = 1 + r.below(4);
            let paras: Vec<(Vec<&str>, &str)> = (0..np).map(|_| { let k = 1 + r.below(2); ((0..k).map(|_| *r.pick(PATS)).collect(), *r.pick(LICS)) }).collect();
            let mut text = String::from("Format: https://www.debian.org/doc/packaging-manuals/copyright-format/1.0/\n");
            for (pats, lic) in &paras { text.push_str(&format!("\nFiles: {}\nCopyright: 2024 X\nLicense: {}\n", pats.join(" "), lic)); }
            for lic in LICS { text.push_str(&format!("\nLicense: {}\n text of {}\n", lic, lic)); }
            let lossy = match debian_copyright::lossy::Copyright::from_str(&text) { Ok(x) => x, Err(e) => return Err(Fail { prop: "C17".into(), input: text.clone(), what: "lossy reader rejects a machine-readable copyright file".into(), expected: "Ok".into(), got: format!("{:?}", e) }) };
            let lossless = match debian_copyright::lossless::Copyright::from_str(&text) { Ok(x) => x, Err(e) => return Err(Fail { prop: "C17".into(), input: text.clone(), what: "lossless reader rejects a machine-readable copyright file".into(), expected: "Ok".into(), got: format!("{:?}", e) }) };
            for path in PATHS {
                n += 1;
                let pc: Vec<char> = path.chars().collect();
                let want = paras.iter().rposition(|(pats, _)| pats.iter().any(|p| glob(&p.chars().collect::<Vec<_>>(), &pc)));
                let want_lic = want.map(|i| paras[i].1.to_string());
                let p = std::path::Path::new(path);
                let input = format!("{}\n--- path: {}", text, path);
                let got_lossy = match std::panic::catch_unwind(std::panic::AssertUnwindSafe(|| lossy.find_license_for_file(p).and_then(|l| l.name().map(|s| s.to_string())))) { Ok(x) => x, Err(_) => return Err(Fail { prop: "C17".into(), input, what: "lossy lookup panics on a well-formed pattern".into(), expected: "an answer".into(), got: "panic".into() }) };
                let got_ll = match std::panic::catch_unwind(std::panic::AssertUnwindSafe(|| lossless.find_license_for_file(p).and_then(|l| l.name().map(|s| s.to_string())))) { Ok(x) => x, Err(_) => return Err(Fail { prop: "C17".into(), input, what: "lossless lookup panics on a well-formed pattern".into(), expected: "an answer".into(), got: "panic".into() }) };
                if got_lossy != want_lic { return Err(Fail { prop: "C17".into(), input, what: "lossy lookup: not the last matching Files paragraph".into(), expected: format!("{:?}", want_lic), got: format!("{:?}", got_lossy) }); }
                if got_ll != want_lic { return Err(Fail { prop: "C17".into(), input, what: "lossless lookup: not the last matching Files paragraph".into(), expected: format!("{:?}", want_lic), got: format!("{:?}", got_ll) }); }
            }
        }
        Ok(n)
    }
}

// ---------------------------------------------------------------------------------------------------------
// C15 (bounded stand-in for typed accessors outside the contracts: HashMap / Vec / Version / Relations valued):
// what a setter writes its getter reads back, under the documented field name
mod acc {
    use super::{Fail, Rng};
    use std::collections::HashMap;
    use std::str::FromStr;
    const WORDS: &[&str] = &["a", "foo", "lib-x", "1.0", "x=y", "DEB_BUILD_OPTIONS", "parallel=4", "\"quoted=1\"", "LANG", "C.UTF-8"];
    /// list-valued setters of the lossless copyright and control wrappers, read back on the live tree and after re-reading
    fn list_setters() -> Result<usize, Fail> {
        let text = "Format: https://www.debian.org/doc/packaging-manuals/copyright-format/1.0/\n\nFiles: *\nCopyright: 2000 Old\nLicense: MIT\n";
        let mut n = 0;
        for holders in [vec!["2019 John Doe"], vec!["2019 John Doe", "2020 Jane Roe"], vec!["a", "b", "c"]] {
            let c = debian_copyright::lossless::Copyright::from_str(text).map_err(|e| Fail { prop: "C15".into(), input: text.into(), what: "lossless copyright reader rejects a machine-readable file".into(), expected: "Ok".into(), got: format!("{:?}", e) })?;
            let mut f = c.iter_files().next().unwrap();
            f.set_copyright(&holders);
            n += 1;
            let want: Vec<String> = holders.iter().map(|x| x.to_string()).collect();
            let shown = format!("FilesParagraph::set_copyright({:?})", holders);
            if f.copyright() != want { return Err(Fail { prop: "C15".into(), input: shown, what: "copyright() does not return what set_copyright() wrote (live object)".into(), expected: format!("{:?}", want), got: format!("{:?}", f.copyright()) }); }
            let again = debian_copyright::lossless::Copyright::from_str(&c.to_string()).ok().and_then(|c2| c2.iter_files().next().map(|f2| f2.copyright()));
            if again != Some(want.clone()) { return Err(Fail { prop: "C15".into(), input: shown, what: "copyright() of the re-read file does not return what set_copyright() wrote".into(), expected: format!("{:?}", want), got: format!("{:?}", again) }); }
        }
        // Vcs-* of a parsed source paragraph
        let ctl: debian_control::lossless::Control = "Source: x\nVcs-Git: https://g.example/r.git -b main\n".parse().map_err(|_| Fail { prop: "C15".into(), input: "control".into(), what: "control reader rejects".into(), expected: "Ok".into(), got: "Err".into() })?;
        n += 1;
        match ctl.source().and_then(|s| s.vcs()) {
            Some(debian_control::vcs::Vcs::Git { repo_url, branch, .. }) if repo_url == "https://g.example/r.git" && branch.as_deref() == Some("main") => {}
            other => return Err(Fail { prop: "C15".into(), input: "Source: x\nVcs-Git: https://g.example/r.git -b main\n".into(), what: "Source::vcs() does not return the documented reading of the Vcs-Git field".into(), expected: "Git { repo_url, branch: main }".into(), got: format!("{:?}", other) }),
        }
        Ok(n)
    }
    pub fn run() -> Result<usize, Fail> {
        use debian_control::lossless::buildinfo::Buildinfo;
        let mut r = Rng(crate::seed_mix(0xC2B2AE3D27D4EB4F));
        let mut n = list_setters()?;
        for _ in 0..2000 * crate::scale() {
            n += 1;
            let mut b = Buildinfo::new();
            // Environment: KEY=value lines; values may contain '='
            let ne = 1 + r.below(3);
            let mut env: HashMap<String, String> = HashMap::new();
            for i in 0..ne { env.insert(format!("K{}{}", i, r.pick(&["", "_X", "OPT"])), r.pick(WORDS).to_string()); }
            b.set_environment(env.clone());
            let shown = format!("set_environment({:?})", env);
            if b.environment() != Some(env.clone()) { return Err(Fail { prop: "C15".into(), input: shown, what: "Buildinfo::environment() does not return what set_environment() wrote".into(), expected: format!("{:?}", env), got: format!("{:?}", b.environment()) }); }
            // the documented reading of the field: KEY up to the first '=' on each line
            let mut keys: Vec<&String> = env.keys().collect(); keys.sort();
            let text = format!("Format: 1.0\nEnvironment:\n{}", keys.iter().map(|k| format!(" {}={}\n", k, env[*k])).collect::<String>());
            let reread = Buildinfo::from_str(&text).ok().and_then(|x| x.environment());
            if reread != Some(env.clone()) { return Err(Fail { prop: "C15".into(), input: text, what: "Buildinfo::environment() does not read the Environment field as KEY=value lines".into(), expected: format!("{:?}", env), got: format!("{:?}", reread) }); }
            // Binary / Build-Tainted-By: space separated lists
            let nb = 1 + r.below(3);
            let bins: Vec<String> = (0..nb).map(|_| r.pick(&["foo", "libfoo1", "foo-dev", "bar"]).to_string()).collect();
            b.set_binaries(bins.clone());
            if b.binaries() != Some(bins.clone()) { return Err(Fail { prop: "C15".into(), input: format!("set_binaries({:?})", bins), what: "Buildinfo::binaries() does not return what set_binaries() wrote".into(), expected: format!("{:?}", bins), got: format!("{:?}", b.binaries()) }); }
            let text = format!("Binary: {}\n", bins.join(" "));
            let reread = Buildinfo::from_str(&text).ok().and_then(|x| x.binaries());
            if reread != Some(bins.clone()) { return Err(Fail { prop: "C15".into(), input: text, what: "Buildinfo::binaries() does not read the Binary field".into(), expected: format!("{:?}", bins), got: format!("{:?}", reread) }); }
            b.set_build_tainted_by(bins.clone());
            if b.build_tainted_by() != Some(bins.clone()) { return Err(Fail { prop: "C15".into(), input: format!("set_build_tainted_by({:?})", bins), what: "Buildinfo::build_tainted_by() does not return what its setter wrote".into(), expected: format!("{:?}", bins), got: format!("{:?}", b.build_tainted_by()) }); }
            let text = format!("Build-Tainted-By: {}\n", bins.join(" "));
            let reread = Buildinfo::from_str(&text).ok().and_then(|x| x.build_tainted_by());
            if reread != Some(bins.clone()) { return Err(Fail { prop: "C15".into(), input: text, what: "Buildinfo::build_tainted_by() does not read the Build-Tainted-By field".into(), expected: format!("{:?}", bins), got: format!("{:?}", reread) }); }
            // Version
            let vs = *r.pick(&["1.0-1", "2:1.0~rc1", "0.9"]);
            let v: debversion::Version = vs.parse().unwrap();
            b.set_version(v.clone());
            if b.version() != Some(v.clone()) { return Err(Fail { prop: "C15".into(), input: format!("set_version({})", vs), what: "Buildinfo::version() does not return what set_version() wrote".into(), expected: format!("{:?}", v), got: format!("{:?}", b.version()) }); }
            let text = format!("Version: {}\n", vs);
            let reread = Buildinfo::from_str(&text).ok().and_then(|x| x.version());
            if reread != Some(v.clone()) { return Err(Fail { prop: "C15".into(), input: text, what: "Buildinfo::version() does not read the Version field".into(), expected: format!("{:?}", v), got: format!("{:?}", reread) }); }
        }
        Ok(n)
    }
}


// ---------------------------------------------------------------------------------------------------------
// C01 / C09 / C02 on arbitrary text: every string of length <= 3 (C09) / <= 4 (C01) over the property's character
// classes, plus fixed-seed random strings up to length 16, plus damaged copies of well-formed documents (C02)
mod anytext {
    use super::{esc, Fail, Rng};
    use std::str::FromStr;
    use std::panic::{catch_unwind, AssertUnwindSafe};

    pub const DEB_ALPHA: &[char] = &['A', 'b', '-', ':', '#', ' ', '\t', '\n', '\r', '\u{e9}', '\u{1}', '.'];
    pub const REL_ALPHA: &[char] = &['a', '1', ':', '|', ',', '(', ')', '[', ']', '!', '<', '>', '=', '$', '{', '}', ' ', '\t', '\r', '\n', '%', '\u{e9}'];

    pub fn all_strings(alpha: &[char], maxlen: usize) -> Vec<String> {
        let mut out = vec![String::new()];
        let mut layer = vec![String::new()];
        for _ in 0..maxlen {
            let mut next = Vec::new();
            for s in &layer { for c in alpha { let mut t = s.clone(); t.push(*c); next.push(t); } }
            out.extend(next.iter().cloned());
            layer = next;
        }
        out
    }
    pub fn random_strings(r: &mut Rng, alpha: &[char], n: usize, maxlen: usize) -> Vec<String> {
        (0..n).map(|_| { let l = r.below(maxlen + 1); (0..l).map(|_| *r.pick(alpha)).collect() }).collect()
    }
    /// failures of a class listed in /verif/known-findings.txt: remembered (first example per class), printed at the end
    pub static KNOWN: std::sync::Mutex<Vec<(String, String)>> = std::sync::Mutex::new(Vec::new());
    pub fn note_known_pub(class: &str, example: &str) { note_known(class, example) }
    fn note_known(class: &str, example: &str) {
        let mut k = KNOWN.lock().unwrap();
        if !k.iter().any(|x| x.0 == class) { k.push((class.to_string(), example.to_string())); }
    }
    pub fn print_known() {
        for (c, e) in KNOWN.lock().unwrap().iter() { println!("KNOWN {{\"class\":{},\"example\":{}}}", esc(c), esc(e)); }
    }
    fn fail(prop: &str, input: &str, what: &str, expected: String, got: String) -> Fail {
        Fail { prop: prop.into(), input: input.into(), what: what.into(), expected, got }
    }

    fn check_c01(s: &str) -> Result<(), Fail> {
        let r = catch_unwind(AssertUnwindSafe(|| {
            let (doc, errs) = deb822_lossless::Deb822::from_str_relaxed(s);
            let strict = deb822_lossless::Deb822::from_str(s);
            (doc.to_string(), errs.len(), strict.map(|d| d.to_string()).ok())
        }));
        match r {
            Err(_) => Err(fail("C01", s, "the lossless reader panics", "a value".into(), "panic".into())),
            Ok((out, nerr, strict)) => {
                if out != s { return Err(fail("C01", s, "the tolerant reader does not reproduce the text", esc(s), esc(&out))); }
                if strict.is_some() != (nerr == 0) { return Err(fail("C01", s, "the strict reader does not fail exactly when the tolerant reader reports an error", format!("strict ok == {}", nerr == 0), format!("strict ok == {}", strict.is_some()))); }
                if let Some(t) = strict { if t != s { return Err(fail("C01", s, "the strict reader does not reproduce the text", esc(s), esc(&t))); } }
                Ok(())
            }
        }
    }
    pub fn run_c01() -> Result<usize, Fail> {
        let mut r = Rng(crate::seed_mix(0x6A09E667F3BCC909));
        let mut inputs = all_strings(DEB_ALPHA, 4);
        inputs.extend(random_strings(&mut r, DEB_ALPHA, 20000 * crate::scale(), 16));
        // characters an editor or a transfer may add in front: byte order mark, zero width space, no-break space
        for pre in ["\u{feff}", "\u{200b}", "\u{a0}"] { for t in ["", "Source: foo\n", "# c\n\nSource: foo\n", "\nA: b"] { inputs.push(format!("{}{}", pre, t)); } }
        for s in &inputs { check_c01(s)?; }
        Ok(inputs.len())
    }

    fn check_c09(s: &str) -> Result<(), Fail> {
        use debian_control::lossless::relations::{Entry, Relation, Relations};
        let r = catch_unwind(AssertUnwindSafe(|| {
            let (a, ea) = Relations::parse_relaxed(s, true);
            let (b, eb) = Relations::parse_relaxed(s, false);
            let strict = Relations::from_str(s).map(|x| x.to_string()).ok();
            let e = Entry::from_str(s).map(|x| x.to_string()).ok();
            let rel = Relation::from_str(s).map(|x| x.to_string()).ok();
            (a.to_string(), ea.len(), b.to_string(), eb.len(), strict, e, rel)
        }));
        match r {
            Err(_) => Err(fail("C09", s, "the lossless relations reader panics", "a value".into(), "panic".into())),
            Ok((a, _ea, b, eb, strict, e, rel)) => {
                if a != s { return Err(fail("C09", s, "parse_relaxed(_, true) does not reproduce the text", esc(s), esc(&a))); }
                if b != s { return Err(fail("C09", s, "parse_relaxed(_, false) does not reproduce the text", esc(s), esc(&b))); }
                if strict.is_some() != (eb == 0) { return Err(fail("C09", s, "Relations::from_str does not succeed exactly when parse_relaxed(_, false) reports no error", format!("ok == {}", eb == 0), format!("ok == {}", strict.is_some()))); }
                if let Some(t) = strict { if t != s { return Err(fail("C09", s, "Relations::from_str does not reproduce the text", esc(s), esc(&t))); } }
                // listed known finding (class single-reader-drops-outer-separators): the single-entry / single-relation readers
                // return the ENTRY / RELATION node of the parsed field, so separators and whitespace around it are not printed.
                // Anything else that differs is reported.
                let outer = |c: char| c == ',' || c == ' ' || c == '\t' || c == '\r' || c == '\n';
                for (name, got) in [("Entry::from_str", e), ("Relation::from_str", rel)] {
                    if got.is_some() && eb != 0 { return Err(fail("C09", s, &format!("{} accepts a text for which the tolerant reader (substitution variables disallowed) reports errors", name), "Err".into(), "Ok".into())); }
                    if let Some(t) = got {
                        if t != s {
                            let around = s.find(t.as_str()).map(|i| s[..i].chars().all(outer) && s[i + t.len()..].chars().all(outer)).unwrap_or(false);
                            if !t.is_empty() && around { note_known("C09:single-reader-drops-outer-separators", &format!("{}({:?}) is accepted and prints {:?}", name, s, t)); }
                            else { return Err(fail("C09", s, &format!("{} accepts the text but prints something else", name), esc(s), esc(&t))); }
                        }
                    }
                }
                Ok(())
            }
        }
    }
    pub fn run_c09() -> Result<usize, Fail> {
        let mut r = Rng(crate::seed_mix(0xBB67AE8584CAA73B));
        let mut inputs = all_strings(REL_ALPHA, 3);
        inputs.extend(random_strings(&mut r, REL_ALPHA, 20000 * crate::scale(), 14));
        for t in ["foo, ${misc:Depends}", "${shlibs:Depends}, foo | bar", "${a}", "a | ${a}", "foo (>= 1), ${x:Y}, bar", "${a} "] { inputs.push(t.to_string()); }
        for s in &inputs { check_c09(s)?; }
        Ok(inputs.len())
    }

    // ---- C02: every entry point returns (a value or an error) on every input -------------------------------------
    const TEMPLATES: &[&str] = &[
        "Source: foo\nMaintainer: A B <a@b.c>\nBuild-Depends: debhelper (>= 12~), libx-dev [!i386] <!nocheck>\nVcs-Git: https://x/y.git -b main [sub]\n\nPackage: foo\nArchitecture: any\nMulti-Arch: same\nPriority: optional\nDepends: ${misc:Depends}, a | b (<< 1:2.0-1)\nDescription: short\n long\n .\n more\n",
        "Format: https://www.debian.org/doc/packaging-manuals/copyright-format/1.0/\nUpstream-Name: x\n\nFiles: *\n src/*.c\nCopyright: 2020 A\nLicense: GPL-2+\n text\n\nLicense: GPL-2+\n full text\n",
        "Description: fix it\n more\nAuthor: A B <a@b.c>\nOrigin: upstream, https://x/commit/1\nForwarded: not-needed\nLast-Update: 2020-01-02\nApplied-Upstream: 1.2, commit:abc\nBug-Debian: https://bugs.debian.org/1\n---\n",
        "Types: deb deb-src\nURIs: http://deb.debian.org/debian\nSuites: stable\nComponents: main contrib\nSigned-By: /usr/share/keyrings/k.gpg\nEnabled: yes\nAllow-Insecure: force\n",
        "Types: deb\nURIs: http://x\nSuites: s\nComponents: main\nSigned-By:\n -----BEGIN PGP PUBLIC KEY BLOCK-----\n .\n mDMEY\n -----END PGP PUBLIC KEY BLOCK-----\n",
        "Format: 1.8\nDate: Mon, 01 Jan 2020 00:00:00 +0000\nSource: foo\nBinary: foo\nArchitecture: source\nVersion: 1.0-1\nDistribution: unstable\nUrgency: medium\nMaintainer: A <a@b.c>\nChanges:\n foo (1.0-1) unstable; urgency=medium\nChecksums-Sha1:\n da39a3ee5e6b4b0d3255bfef95601890afd80709 12 foo.dsc\nChecksums-Sha256:\n e3b0c44298fc1c149afbf4c8996fb92427ae41e4649b934ca495991b7852b855 12 foo.dsc\nFiles:\n d41d8cd98f00b204e9800998ecf8427e 12 utils optional foo.dsc\n",
        "Format: 1.0\nSource: foo\nBinary: foo bar\nArchitecture: amd64\nVersion: 1.0-1\nBuild-Origin: Debian\nBuild-Architecture: amd64\nBuild-Date: Mon, 01 Jan 2020 00:00:00 +0000\nInstalled-Build-Depends:\n a (= 1),\n b (= 2)\nEnvironment:\n LANG=\"C\"\n X=\"a=b\"\nChecksums-Md5:\n d41d8cd98f00b204e9800998ecf8427e 12 foo.deb\n",
        "Date: Mon, 01 Jan 2020 00:00:00 +0000\nFtpmaster: A B\nSuite: unstable\nSources:\n foo_1.0-1\nBinaries:\n foo_1.0-1 [amd64, i386]\nReason: RoQA; dead\nBug: 123\n",
        "-----BEGIN PGP SIGNED MESSAGE-----\nHash: SHA256\n\nSource: foo\n- -dash\n-----BEGIN PGP SIGNATURE-----\n\niQ==\n-----END PGP SIGNATURE-----\n",
        "Package: foo\nVersion: 1:2.0-1\nArchitecture: amd64\nInstalled-Size: 12\nSize: 3\nFilename: pool/f/foo.deb\nMD5sum: d41d8cd98f00b204e9800998ecf8427e\nSHA256: e3b0c44298fc1c149afbf4c8996fb92427ae41e4649b934ca495991b7852b855\nDepends: a, b\nDescription: x\n",
        "Origin: Debian\nLabel: Debian\nSuite: stable\nCodename: x\nDate: Sat, 01 Jan 2022 00:00:00 UTC\nArchitectures: amd64 i386\nComponents: main\nDescription: d\nMD5Sum:\n d41d8cd98f00b204e9800998ecf8427e 12 main/x\n",
        "git https://x/y.git -b main [dir]", "A B <a@b.c>", "foo deb utils optional arch=any profile=!stage1", "da39a3ee5e6b4b0d3255bfef95601890afd80709 12 foo.dsc",
        "d41d8cd98f00b204e9800998ecf8427e 12 utils optional foo.dsc", "upstream, https://x", "commit:abc", "not-needed", "GPL-2+\n text", "foo (>= 1:2.0~rc1) [amd64 !i386] <!a b> <c>",
    ];
    fn damaged(r: &mut Rng, t: &str) -> String {
        let cs: Vec<char> = t.chars().collect();
        let mut out = cs.clone();
        let pool: &[char] = &['\n', ' ', ':', '#', '\r', '\u{e9}', '(', '[', '<', '$', '{', '-', ',', '\t', 'x', '=', '\u{0}'];
        for _ in 0..1 + r.below(3) {
            if out.is_empty() { break; }
            let i = r.below(out.len());
            match r.below(5) {
                0 => { out.truncate(i); }
                1 => { out.remove(i); }
                2 => { out.insert(i, *r.pick(pool)); }
                3 => { out[i] = *r.pick(pool); }
                _ => { let j = r.below(out.len()); let (a, b) = (i.min(j), i.max(j)); out.drain(a..b); }
            }
        }
        out.into_iter().collect()
    }
    macro_rules! ep { ($v:ident, $name:expr, $body:expr) => { $v.push(($name, Box::new($body) as Box<dyn Fn(&str) + Sync>)); }; }
    pub fn entry_points() -> Vec<(&'static str, Box<dyn Fn(&str) + Sync>)> {
        let mut v: Vec<(&'static str, Box<dyn Fn(&str) + Sync>)> = Vec::new();
        ep!(v, "deb822_lossless::Deb822::from_str", |s: &str| { let _ = deb822_lossless::Deb822::from_str(s); });
        ep!(v, "deb822_lossless::Deb822::from_str_relaxed", |s: &str| { let _ = deb822_lossless::Deb822::from_str_relaxed(s); });
        ep!(v, "deb822_lossless::Deb822::read", |s: &str| { let _ = deb822_lossless::Deb822::read(s.as_bytes()); });
        ep!(v, "deb822_lossless::Deb822::read_relaxed", |s: &str| { let _ = deb822_lossless::Deb822::read_relaxed(s.as_bytes()); });
        ep!(v, "deb822_lossless::Paragraph::from_str", |s: &str| { let _ = deb822_lossless::Paragraph::from_str(s); });
        ep!(v, "deb822_lossless::lossy::Deb822::from_str", |s: &str| { let _ = deb822_lossless::lossy::Deb822::from_str(s); });
        ep!(v, "deb822_lossless::lossy::Paragraph::from_str", |s: &str| { let _ = deb822_lossless::lossy::Paragraph::from_str(s); });
        ep!(v, "lossless Relations::parse_relaxed(true)", |s: &str| { let _ = debian_control::lossless::relations::Relations::parse_relaxed(s, true); });
        ep!(v, "lossless Relations::parse_relaxed(false)", |s: &str| { let _ = debian_control::lossless::relations::Relations::parse_relaxed(s, false); });
        ep!(v, "lossless Relations::parse_relaxed without errors, then every accessor of every relation (name, archqual, version, architectures, profiles) and the conversion to the lossy type", |s: &str| {
            let (r, errs) = debian_control::lossless::relations::Relations::parse_relaxed(s, true);
            if !errs.is_empty() { return; }
            for e in r.entries() { for x in e.relations() {
                let _ = x.name(); let _ = x.archqual(); let _ = x.version(); let _ = x.architectures().map(|a| a.count()); let _ = x.profiles().count();
                let _: debian_control::lossy::Relation = x.into();
            } }
            let _ = r.substvars().count();
        });
        ep!(v, "lossless Relations::from_str", |s: &str| { let _ = debian_control::lossless::relations::Relations::from_str(s); });
        ep!(v, "lossless Entry::from_str", |s: &str| { let _ = debian_control::lossless::relations::Entry::from_str(s); });
        ep!(v, "lossless Relation::from_str", |s: &str| { let _ = debian_control::lossless::relations::Relation::from_str(s); });
        ep!(v, "lossy Relations::from_str", |s: &str| { let _ = debian_control::lossy::Relations::from_str(s); });
        ep!(v, "lossy Relation::from_str", |s: &str| { let _ = debian_control::lossy::Relation::from_str(s); });
        ep!(v, "lossless Control::read_relaxed, then every typed getter of the source and binary paragraphs (the field values are text turned into typed values)", |s: &str| {
            let c = match debian_control::lossless::Control::read_relaxed(s.as_bytes()) { Ok((c, _)) => c, Err(_) => return };
            if let Some(x) = c.source() {
                let _ = (x.name(), x.section(), x.priority(), x.maintainer(), x.build_depends(), x.build_depends_indep(), x.build_depends_arch(), x.build_conflicts(), x.build_conflicts_indep(), x.build_conflicts_arch());
                let _ = (x.standards_version(), x.homepage(), x.vcs_git(), x.vcs_browser(), x.vcs(), x.uploaders(), x.architecture(), x.rules_requires_root(), x.testsuite());
            }
            for b in c.binaries() {
                let _ = (b.name(), b.section(), b.priority(), b.architecture(), b.depends(), b.recommends(), b.suggests(), b.enhances(), b.pre_depends(), b.breaks(), b.conflicts(), b.replaces(), b.provides(), b.built_using());
                let _ = (b.multi_arch(), b.essential(), b.description(), b.homepage());
            }
        });
        ep!(v, "lossless Control::from_str", |s: &str| { let _ = debian_control::lossless::Control::from_str(s); });
        ep!(v, "lossless Control::read", |s: &str| { let _ = debian_control::lossless::Control::read(s.as_bytes()); });
        ep!(v, "lossless Control::read_relaxed", |s: &str| { let _ = debian_control::lossless::Control::read_relaxed(s.as_bytes()); });
        ep!(v, "lossy Control::from_str", |s: &str| { let _ = debian_control::lossy::Control::from_str(s); });
        ep!(v, "lossless Buildinfo::from_str", |s: &str| { let _ = debian_control::lossless::buildinfo::Buildinfo::from_str(s); });
        ep!(v, "lossy Buildinfo::from_str", |s: &str| { let _ = debian_control::lossy::buildinfo::Buildinfo::from_str(s); });
        ep!(v, "lossless apt::Source::from_str", |s: &str| { let _ = debian_control::lossless::apt::Source::from_str(s); });
        ep!(v, "lossless apt::Package::from_str", |s: &str| { let _ = debian_control::lossless::apt::Package::from_str(s); });
        ep!(v, "lossless apt::Release::from_str", |s: &str| { let _ = debian_control::lossless::apt::Release::from_str(s); });
        ep!(v, "lossy apt::Source::from_str", |s: &str| { let _ = debian_control::lossy::apt::Source::from_str(s); });
        ep!(v, "lossy apt::Package::from_str", |s: &str| { let _ = debian_control::lossy::apt::Package::from_str(s); });
        ep!(v, "lossy ftpmaster::Removal::from_str", |s: &str| { let _ = debian_control::lossy::ftpmaster::Removal::from_str(s); });
        ep!(v, "changes::Changes::read", |s: &str| { let _ = debian_control::lossless::changes::Changes::read(s.as_bytes()); });
        ep!(v, "changes::Changes::read_relaxed", |s: &str| { let _ = debian_control::lossless::changes::Changes::read_relaxed(s.as_bytes()); });
        ep!(v, "changes::File::from_str", |s: &str| { let _ = debian_control::lossless::changes::File::from_str(s); });
        ep!(v, "vcs::ParsedVcs::from_str", |s: &str| { let _ = debian_control::vcs::ParsedVcs::from_str(s); });
        ep!(v, "vcs::Vcs::from_field(Git)", |s: &str| { let _ = debian_control::vcs::Vcs::from_field("Git", s); });
        ep!(v, "vcs::Vcs::from_field(name = text)", |s: &str| { let _ = debian_control::vcs::Vcs::from_field(s, "https://x"); });
        ep!(v, "pgp::strip_pgp_signature", |s: &str| { let _ = debian_control::pgp::strip_pgp_signature(s); });
        ep!(v, "parse_identity", |s: &str| { let _ = debian_control::parse_identity(s); });
        ep!(v, "BuildProfile::from_str", |s: &str| { let _ = debian_control::relations::BuildProfile::from_str(s); });
        ep!(v, "VersionConstraint::from_str", |s: &str| { let _ = debian_control::relations::VersionConstraint::from_str(s); });
        ep!(v, "Priority::from_str", |s: &str| { let _ = debian_control::fields::Priority::from_str(s); });
        ep!(v, "Sha1Checksum::from_str", |s: &str| { let _ = debian_control::fields::Sha1Checksum::from_str(s); });
        ep!(v, "Sha256Checksum::from_str", |s: &str| { let _ = debian_control::fields::Sha256Checksum::from_str(s); });
        ep!(v, "Sha512Checksum::from_str", |s: &str| { let _ = debian_control::fields::Sha512Checksum::from_str(s); });
        ep!(v, "Md5Checksum::from_str", |s: &str| { let _ = debian_control::fields::Md5Checksum::from_str(s); });
        ep!(v, "PackageListEntry::from_str", |s: &str| { let _ = debian_control::fields::PackageListEntry::from_str(s); });
        ep!(v, "Urgency::from_str", |s: &str| { let _ = debian_control::fields::Urgency::from_str(s); });
        ep!(v, "MultiArch::from_str", |s: &str| { let _ = debian_control::fields::MultiArch::from_str(s); });
        ep!(v, "lossy Copyright::from_str", |s: &str| { let _ = debian_copyright::lossy::Copyright::from_str(s); });
        ep!(v, "lossless Copyright::from_str", |s: &str| { let _ = debian_copyright::lossless::Copyright::from_str(s); });
        ep!(v, "lossless Copyright::from_str_relaxed", |s: &str| { let _ = debian_copyright::lossless::Copyright::from_str_relaxed(s); });
        ep!(v, "debian_copyright::License::from_str", |s: &str| { let _ = debian_copyright::License::from_str(s); });
        ep!(v, "dep3 lossy PatchHeader::from_str", |s: &str| { let _ = dep3::lossy::PatchHeader::from_str(s); });
        ep!(v, "dep3 lossless PatchHeader::from_str", |s: &str| { let _ = dep3::lossless::PatchHeader::from_str(s); });
        ep!(v, "dep3::Forwarded::from_str", |s: &str| { let _ = dep3::Forwarded::from_str(s); });
        ep!(v, "dep3::OriginCategory::from_str", |s: &str| { let _ = dep3::OriginCategory::from_str(s); });
        ep!(v, "dep3::Origin::from_str", |s: &str| { let _ = dep3::Origin::from_str(s); });
        ep!(v, "dep3::AppliedUpstream::from_str", |s: &str| { let _ = dep3::AppliedUpstream::from_str(s); });
        ep!(v, "apt_sources::RepositoryType::from_str", |s: &str| { let _ = apt_sources::RepositoryType::from_str(s); });
        ep!(v, "apt_sources::YesNoForce::from_str", |s: &str| { let _ = apt_sources::YesNoForce::from_str(s); });
        ep!(v, "apt_sources::Repositories::from_str", |s: &str| { let _ = apt_sources::Repositories::from_str(s); });
        ep!(v, "apt_sources::signature::Signature::from_str", |s: &str| { let _ = apt_sources::signature::Signature::from_str(s); });
        v
    }
    pub fn run_c02() -> Result<usize, Fail> {
        let mut r = Rng(crate::seed_mix(0x3C6EF372FE94F82B));
        let mut inputs = all_strings(DEB_ALPHA, 3);
        inputs.extend(all_strings(REL_ALPHA, 2));
        inputs.extend(random_strings(&mut r, DEB_ALPHA, 3000 * crate::scale(), 16));
        inputs.extend(random_strings(&mut r, REL_ALPHA, 3000 * crate::scale(), 16));
        for t in TEMPLATES { inputs.push(t.to_string()); }
        for _ in 0..4000 * crate::scale() { let t = *r.pick(TEMPLATES); inputs.push(damaged(&mut r, t)); }
        let eps = entry_points();
        let progress = std::env::var("VWIT_PROGRESS").ok();
        let nthreads = 8usize;
        let first: Option<(usize, usize)> = std::thread::scope(|sc| {
            let mut hs = Vec::new();
            for k in 0..nthreads {
                let inputs = &inputs; let eps = &eps; let progress = &progress;
                hs.push(sc.spawn(move || {
                    let pf = progress.as_ref().map(|p| format!("{}.{}", p, k));
                    let mut i = k;
                    let mut found = None;
                    'outer: while i < inputs.len() {
                        for (j, (name, f)) in eps.iter().enumerate() {
                            if let Some(p) = &pf { let _ = std::fs::write(p, format!("{} on {:?}", name, inputs[i])); }
                            if catch_unwind(AssertUnwindSafe(|| f(&inputs[i]))).is_err() { found = Some((i, j)); break 'outer; }
                        }
                        i += nthreads;
                    }
                    if let Some(p) = &pf { let _ = std::fs::remove_file(p); }
                    found
                }));
            }
            hs.into_iter().filter_map(|h| h.join().ok().flatten()).min()
        });
        if let Some((i, j)) = first {
            // shrink: drop characters while the same entry point still panics
            let f = &eps[j].1;
            let mut cur: Vec<char> = inputs[i].chars().collect();
            loop {
                let mut progressed = false;
                for k in 0..cur.len() {
                    let mut c = cur.clone(); c.remove(k);
                    let t: String = c.iter().collect();
                    if catch_unwind(AssertUnwindSafe(|| f(&t))).is_err() { cur = c; progressed = true; break; }
                }
                if !progressed { break; }
            }
            let t: String = cur.into_iter().collect();
            return Err(fail("C02", &t, &format!("{} panics", eps[j].0), "a value or an error".into(), "panic".into()));
        }
        Ok(inputs.len() * eps.len())
    }
}

// ---------------------------------------------------------------------------------------------------------
// C16: the derived conversions of every shipped deriving struct, on both paragraph back-ends (table generated from the
// struct definitions by tools/gen_derive.py): round trip, declaration order, absent optional fields, update frame
mod derive16 {
    use super::Fail;
    use deb822_lossless::{FromDeb822Paragraph, ToDeb822Paragraph};
    type Lossy = deb822_lossless::lossy::Paragraph;
    type Lossless = deb822_lossless::lossless::Paragraph;
    fn lossy_items(p: &Lossy) -> Vec<(String, String)> { p.fields.iter().map(|f| (f.name.clone(), f.value.clone())).collect() }
    fn fail(input: String, what: &str, expected: String, got: String) -> Fail { Fail { prop: "C16".into(), input, what: what.into(), expected, got } }

    pub fn check<T>(name: &str, fields: &[(&str, &str, bool)]) -> Result<usize, Fail>
    where T: FromDeb822Paragraph<Lossy> + ToDeb822Paragraph<Lossy> + FromDeb822Paragraph<Lossless> + ToDeb822Paragraph<Lossless>
    {
        let opt: Vec<usize> = (0..fields.len()).filter(|i| fields[*i].2).collect();
        // which optional fields are present: all, none, all but one, only one
        let mut variants: Vec<Vec<bool>> = vec![vec![true; fields.len()], fields.iter().map(|f| !f.2).collect()];
        for &o in &opt {
            let mut a = vec![true; fields.len()]; a[o] = false; variants.push(a);
            let mut b: Vec<bool> = fields.iter().map(|f| !f.2).collect(); b[o] = true; variants.push(b);
        }
        let mut n = 0;
        // (presence, empty): in the last variant every optional plain-text field is present with the empty text
        let mut runs: Vec<(Vec<bool>, bool)> = variants.iter().map(|v| (v.clone(), false)).collect();
        if fields.iter().any(|f| f.2 && f.1 == "some text") { runs.push((vec![true; fields.len()], true)); }
        for (present, empty) in &runs {
            n += 1;
            let pairs: Vec<(String, String)> = fields.iter().zip(present).filter(|(_, p)| **p).map(|(f, _)| (f.0.to_string(), if *empty && f.2 && f.1 == "some text" { String::new() } else { f.1.to_string() })).collect();
            let shown = format!("{} from {:?}", name, pairs);
            let p0: Lossy = pairs.clone().into_iter().collect();
            let x = match <T as FromDeb822Paragraph<Lossy>>::from_paragraph(&p0) {
                Ok(x) => x,
                Err(e) => return Err(fail(shown, "from_paragraph rejects a paragraph that has every mandatory field", "Ok".into(), e)),
            };
            // to_paragraph: the present fields, in declaration order, under their configured names
            let p1: Lossy = x.to_paragraph();
            let want_keys: Vec<&str> = fields.iter().zip(present).filter(|(_, p)| **p).map(|(f, _)| f.0).collect();
            let got_keys: Vec<String> = p1.fields.iter().map(|f| f.name.clone()).collect();
            if got_keys != want_keys { return Err(fail(shown, "to_paragraph does not list exactly the present fields in declaration order under their configured names", format!("{:?}", want_keys), format!("{:?}", got_keys))); }
            // round trip: the paragraph reads back to a value that prints the same paragraph
            let y = match <T as FromDeb822Paragraph<Lossy>>::from_paragraph(&p1) {
                Ok(y) => y,
                Err(e) => return Err(fail(shown, "the paragraph written by to_paragraph is rejected by from_paragraph", format!("Ok for {:?}", lossy_items(&p1)), e)),
            };
            let p2: Lossy = y.to_paragraph();
            if lossy_items(&p2) != lossy_items(&p1) { return Err(fail(shown, "value -> paragraph -> value -> paragraph is not stable", format!("{:?}", lossy_items(&p1)), format!("{:?}", lossy_items(&p2)))); }
            // equal values built separately print the same paragraph (hash-based containers iterate in an order of their own)
            for _ in 0..12 {
                if let Ok(z) = <T as FromDeb822Paragraph<Lossy>>::from_paragraph(&p0) { let p3: Lossy = z.to_paragraph(); if lossy_items(&p3) != lossy_items(&p1) { return Err(fail(shown, "the same paragraph read twice gives values that print differently", format!("{:?}", lossy_items(&p1)), format!("{:?}", lossy_items(&p3)))); } }
            }
            // the lossless back-end gives the same fields
            let q1: Lossless = x.to_paragraph();
            let qi: Vec<(String, String)> = q1.items().collect();
            if qi != lossy_items(&p1) { return Err(fail(shown, "lossy and lossless to_paragraph differ", format!("{:?}", lossy_items(&p1)), format!("{:?}", qi))); }
            // update_paragraph on a paragraph that has every own field (old text) and two foreign fields
            let mut base: Vec<(String, String)> = vec![("X-Foreign-A".to_string(), "1".to_string())];
            // the old texts differ from the new ones (plain-text fields: only in their whitespace)
            for f in fields { base.push((f.0.to_string(), if f.1 == "some text" { "some  text".to_string() } else { f.1.to_string() })); }
            base.push(("X-Foreign-B".to_string(), "2".to_string()));
            let mut b: Lossy = base.clone().into_iter().collect();
            x.update_paragraph(&mut b);
            let text: String = base.iter().map(|(k, v)| format!("{}{}: {}\n", if k == "X-Foreign-B" { "# keep me\n" } else { "" }, k, v.replace('\n', "\n "))).collect();
            let doc = match <deb822_lossless::Deb822 as std::str::FromStr>::from_str(&text) { Ok(d) => d, Err(_) => continue };
            let mut l: Lossless = match doc.paragraphs().next() { Some(p) => p, None => continue };
            x.update_paragraph(&mut l);
            for (which, items, printed) in [("lossy", lossy_items(&b), String::new()), ("lossless", l.items().collect::<Vec<_>>(), doc.to_string())] {
                for (f, p) in fields.iter().zip(present) {
                    let got = items.iter().find(|kv| kv.0 == f.0).map(|kv| kv.1.clone());
                    let want = if *p { p1.get(f.0).map(|s| s.to_string()) } else { None };
                    if got != want { return Err(fail(format!("{} ({} paragraph)", shown, which), &format!("after update_paragraph the field {} does not read back as the value's field", f.0), format!("{:?}", want), format!("{:?}", got))); }
                }
                let foreign: Vec<&(String, String)> = items.iter().filter(|kv| kv.0.starts_with("X-Foreign")).collect();
                if foreign != vec![&("X-Foreign-A".to_string(), "1".to_string()), &("X-Foreign-B".to_string(), "2".to_string())] { return Err(fail(format!("{} ({} paragraph)", shown, which), "update_paragraph changed a field the struct does not own", "X-Foreign-A: 1, X-Foreign-B: 2".into(), format!("{:?}", foreign))); }
                if which == "lossless" && !printed.contains("# keep me\nX-Foreign-B: 2\n") { return Err(fail(format!("{} (lossless paragraph)", shown), "update_paragraph lost the comment in front of a foreign field", "# keep me".into(), printed)); }
            }
        }
        // error clause: a missing mandatory field, or a value the field's reader rejects, gives an error naming the field
        for (i, f) in fields.iter().enumerate() {
            let all: Vec<(String, String)> = fields.iter().map(|g| (g.0.to_string(), g.1.to_string())).collect();
            if !f.2 {
                n += 1;
                let pairs: Vec<(String, String)> = all.iter().enumerate().filter(|(j, _)| *j != i).map(|(_, kv)| kv.clone()).collect();
                let shown = format!("{} from {:?}", name, pairs);
                let p: Lossy = pairs.into_iter().collect();
                match <T as FromDeb822Paragraph<Lossy>>::from_paragraph(&p) {
                    Ok(_) => return Err(fail(shown, &format!("from_paragraph accepts a paragraph without the mandatory field {}", f.0), format!("Err naming {}", f.0), "Ok".into())),
                    Err(e) => if !e.contains(f.0) { return Err(fail(shown, &format!("the error for the missing mandatory field {} does not name it", f.0), format!("an error naming {}", f.0), e)); }
                }
            }
            n += 1;
            let mut pairs = all.clone();
            pairs[i].1 = "\u{1}?bad".to_string();
            let shown = format!("{} from {:?}", name, pairs);
            let p: Lossy = pairs.into_iter().collect();
            match <T as FromDeb822Paragraph<Lossy>>::from_paragraph(&p) {
                // the field's type accepts any text: then the value must carry the field
                Ok(x) => { let back: Lossy = x.to_paragraph(); if back.get(f.0).is_none() { return Err(fail(shown, &format!("from_paragraph swallows the unreadable value of {} (the field is absent from the value)", f.0), format!("Err naming {}, or a value that has the field", f.0), "Ok without the field".into())); } }
                Err(e) => if !e.contains(f.0) { return Err(fail(shown, &format!("the error for the unparsable value of {} does not name the field", f.0), format!("an error naming {}", f.0), e)); }
            }
        }
        Ok(n)
    }
    include!("gen_c16.rs");

    /// typed values the field tables cannot produce (the tables start from texts): empty lists in list-valued fields, and
    /// list values that begin on the line after the field name (lossy paragraphs report them with an empty first line)
    pub fn typed_values() -> Result<usize, Fail> {
        use debian_control::lossy::apt::{Source, Release};
        let mut n = 0;
        let rows = table("debian_control::lossy::apt::Source");
        let p0: Lossy = rows.iter().map(|r| (r.0.to_string(), r.1.to_string())).collect();
        let base = Source::from_paragraph(&p0).map_err(|e| fail("apt::Source from its field table".into(), "from_paragraph rejects the sample paragraph", "Ok".into(), e))?;
        let mut variants: Vec<(&str, Source)> = vec![];
        let mut a = base.clone(); a.package_list = vec![]; variants.push(("package_list = []", a));
        let mut b = base.clone(); b.binaries = Some(vec![]); variants.push(("binaries = Some([])", b));
        let mut c = base.clone(); c.package_list = vec!["a deb x optional".to_string(), "b deb x optional".to_string()]; variants.push(("package_list of two lines", c));
        for (what, v) in variants {
            n += 1;
            let lp: Lossy = v.to_paragraph();
            let back = Source::from_paragraph(&lp);
            if back.as_ref().ok() != Some(&v) { return Err(fail(format!("apt::Source with {}", what), "value -> lossy paragraph -> value is not the same value", format!("{:?}", v.package_list), format!("{:?}", back.map(|x| x.package_list)))); }
            let ll: Lossless = v.to_paragraph();
            let back = Source::from_paragraph(&ll);
            if back.as_ref().ok() != Some(&v) { return Err(fail(format!("apt::Source with {}", what), "value -> lossless paragraph -> value is not the same value", format!("{:?}", v.package_list), format!("{:?}", back.map(|x| x.package_list)))); }
        }
        // the same text read through both back-ends gives the same list
        let mut text = String::new();
        for r in rows { if r.0 == "Package-List" { text.push_str("Package-List:\n a deb x optional\n b deb x optional\n"); } else { text.push_str(&format!("{}: {}\n", r.0, r.1.replace('\n', "\n "))); } }
        n += 1;
        let lp: Lossy = text.parse().map_err(|_| fail(text.clone(), "the lossy reader rejects the sample paragraph", "Ok".into(), "Err".into()))?;
        let doc: deb822_lossless::Deb822 = text.parse().map_err(|_| fail(text.clone(), "the lossless reader rejects the sample paragraph", "Ok".into(), "Err".into()))?;
        let ll = doc.paragraphs().next().unwrap();
        let x = Source::from_paragraph(&lp).map_err(|e| fail(text.clone(), "from_paragraph (lossy)", "Ok".into(), e))?;
        let y = Source::from_paragraph(&ll).map_err(|e| fail(text.clone(), "from_paragraph (lossless)", "Ok".into(), e))?;
        if x.package_list != y.package_list { return Err(fail(text, "a list value that begins on the line after the field name reads differently through lossy and lossless paragraphs", format!("{:?}", y.package_list), format!("{:?}", x.package_list))); }
        // Release: empty component / architecture lists
        let rows = table("debian_control::lossy::apt::Release");
        let p0: Lossy = rows.iter().map(|r| (r.0.to_string(), r.1.to_string())).collect();
        let mut rel = Release::from_paragraph(&p0).map_err(|e| fail("apt::Release from its field table".into(), "from_paragraph rejects the sample paragraph", "Ok".into(), e))?;
        rel.components = vec![]; rel.architectures = vec![];
        n += 1;
        let lp: Lossy = rel.to_paragraph();
        let back = Release::from_paragraph(&lp);
        if back.as_ref().ok() != Some(&rel) { return Err(fail("apt::Release with empty components and architectures".into(), "value -> paragraph -> value is not the same value", "equal".into(), format!("{:?}", back))); }
        Ok(n)
    }
}

// ---------------------------------------------------------------------------------------------------------
// C20: typed lossy documents assembled from the field tables: parse, print, re-parse, print again; field-wise agreement
// with the lossless reader; structurally invalid variants are rejected
mod typed20 {
    use super::Fail;
    use std::str::FromStr;
    type Row = (&'static str, &'static str, bool);
    fn fail(input: &str, what: &str, expected: String, got: String) -> Fail { Fail { prop: "C20".into(), input: input.into(), what: what.into(), expected, got } }
    /// second pass of the whole enumeration: every optional plain-text field that is present has the empty value
    static EMPTY_OPTIONALS: std::sync::atomic::AtomicBool = std::sync::atomic::AtomicBool::new(false);
    /// third pass: every multi-line value begins on the line after the field name (as ftp-master's and apt's files are laid out)
    static NEXT_LINE: std::sync::atomic::AtomicBool = std::sync::atomic::AtomicBool::new(false);
    fn para_text(rows: &[Row], present: &dyn Fn(usize) -> bool) -> String {
        let empty = EMPTY_OPTIONALS.load(std::sync::atomic::Ordering::Relaxed);
        let next_line = NEXT_LINE.load(std::sync::atomic::Ordering::Relaxed);
        rows.iter().enumerate().filter(|(i, r)| !r.2 || present(*i)).map(|(_, r)|
            if empty && r.2 && r.1 == "some text" { format!("{}:\n", r.0) }
            else if next_line && r.1.contains('\n') { format!("{}:\n {}\n", r.0, r.1.replace('\n', "\n ")) }
            else { format!("{}: {}\n", r.0, r.1.replace('\n', "\n ")) }).collect()
    }
    /// what the lossless reader shows: every paragraph as (name, value) pairs
    fn lossless(text: &str) -> Option<Vec<Vec<(String, String)>>> {
        deb822_lossless::Deb822::from_str(text).ok().map(|d| d.paragraphs().map(|p| p.items().collect()).collect())
    }
    fn stable<T>(kind: &str, text: &str, parse: &dyn Fn(&str) -> Result<T, String>, print: &dyn Fn(&T) -> String) -> Result<(), Fail> { stable_eq(kind, text, parse, print, None, true) }
    /// `same_order`: the printer keeps the paragraph order of the text, so the printed text must show the lossless reader the same fields
    fn stable_eq<T>(kind: &str, text: &str, parse: &dyn Fn(&str) -> Result<T, String>, print: &dyn Fn(&T) -> String, eq: Option<&dyn Fn(&T, &T) -> bool>, same_order: bool) -> Result<(), Fail> {
        let v = match parse(text) { Ok(v) => v, Err(e) => return Err(fail(text, &format!("{}: a well-formed document is rejected", kind), "Ok".into(), e)) };
        let t2 = print(&v);
        let v2 = match parse(&t2) { Ok(v) => v, Err(e) => return Err(fail(text, &format!("{}: the printed value does not parse", kind), format!("Ok for {:?}", t2), e)) };
        if let Some(eq) = eq { if !eq(&v, &v2) { return Err(fail(text, &format!("{}: the printed value parses to a different value", kind), "an equal value".into(), format!("printed {:?}", t2))); } }
        let t3 = print(&v2);
        if t3 != t2 { return Err(fail(text, &format!("{}: printing, parsing and printing again gives a different text", kind), format!("{:?}", t2), format!("{:?}", t3))); }
        // "prints identically again" for equal values built separately (hash-based containers iterate in an order of their own)
        for _ in 0..12 {
            if let Ok(w) = parse(text) { let t4 = print(&w); if t4 != t2 { return Err(fail(text, &format!("{}: the same text parsed twice prints two different texts", kind), format!("{:?}", t2), format!("{:?}", t4))); } }
        }
        // field by field what the lossless reader shows for the same text (the sample texts are canonical)
        let (a, b) = (lossless(text), lossless(&t2));
        if !same_order { return Ok(()); }
        if let (Some(a), Some(b)) = (a, b) {
            if a != b { return Err(fail(text, &format!("{}: the typed value does not carry what the lossless reader shows for the text", kind), format!("{:?}", a), format!("{:?}", b))); }
        }
        Ok(())
    }
    fn rejected<T>(kind: &str, text: &str, why: &str, parse: &dyn Fn(&str) -> Result<T, String>) -> Result<(), Fail> {
        if parse(text).is_ok() { return Err(fail(text, &format!("{}: a document that {} is accepted", kind, why), "Err".into(), "Ok".into())); }
        Ok(())
    }
    pub fn run() -> Result<usize, Fail> {
        let a = run_once()?;
        EMPTY_OPTIONALS.store(true, std::sync::atomic::Ordering::Relaxed);
        let b = run_once();
        EMPTY_OPTIONALS.store(false, std::sync::atomic::Ordering::Relaxed);
        let b = b?;
        NEXT_LINE.store(true, std::sync::atomic::Ordering::Relaxed);
        let c = run_once();
        NEXT_LINE.store(false, std::sync::atomic::Ordering::Relaxed);
        Ok(a + b + c?)
    }
    /// typed list fields carry the lines the lossless reader shows, whatever the layout of the value
    fn typed_lists() -> Result<usize, Fail> {
        let want = Some(vec!["foo_1.0".to_string(), "bar_2.0".to_string()]);
        let mut n = 0;
        for layout in ["Sources: foo_1.0\n bar_2.0\nBinaries: foo_1.0\n bar_2.0\n", "Sources:\n foo_1.0\n bar_2.0\nBinaries:\n foo_1.0\n bar_2.0\n"] {
            let t = format!("Date: Thu, 01 Jan 2015 00:00:00 +0000\nFtpmaster: Someone\n{}Reason: ROM; obsolete\n", layout);
            n += 1;
            match debian_control::lossy::ftpmaster::Removal::from_str(&t) {
                Ok(r) => {
                    if r.sources != want { return Err(fail(&t, "lossy Removal: Sources does not carry the lines the lossless reader shows", format!("{:?}", want), format!("{:?}", r.sources))); }
                    if r.binaries != want { return Err(fail(&t, "lossy Removal: Binaries does not carry the lines the lossless reader shows", format!("{:?}", want), format!("{:?}", r.binaries))); }
                }
                Err(e) => return Err(fail(&t, "lossy Removal: a well-formed record is rejected", "Ok".into(), e)),
            }
        }
        Ok(n)
    }
    fn run_once() -> Result<usize, Fail> {
        use super::derive16::table;
        let mut n = typed_lists()?;
        let src = table("debian_control::lossy::Source"); let bin = table("debian_control::lossy::Binary");
        let masks: Vec<Box<dyn Fn(usize) -> bool>> = vec![Box::new(|_| true), Box::new(|_| false), Box::new(|i| i % 2 == 0), Box::new(|i| i % 3 == 1)];
        // ---- control files
        let pc = |s: &str| debian_control::lossy::Control::from_str(s);
        let dc = |v: &debian_control::lossy::Control| v.to_string();
        for m in &masks { for nb in 0..3 {
            let mut t = para_text(src, m.as_ref());
            for _ in 0..nb { t.push('\n'); t.push_str(&para_text(bin, m.as_ref())); }
            stable("lossy Control", &t, &pc, &dc)?; n += 1;
        } }
        // a binary paragraph may carry a Source field of its own (as apt's binary stanzas do): still one source, the same binaries
        {
            let t = format!("{}\n{}Source: other\n\n{}", para_text(src, &|_| false), para_text(bin, &|_| false), para_text(bin, &|_| true));
            match pc(&t) {
                Ok(c) => { if c.binaries.len() != 2 { return Err(fail(&t, "lossy Control: paragraphs with a Package field are the binaries", "2 binaries".into(), format!("{}", c.binaries.len()))); } }
                Err(e) => return Err(fail(&t, "lossy Control: a binary paragraph that also has a Source field makes the document rejected", "Ok".into(), e)),
            }
            n += 1;
        }
        let s1 = para_text(src, &|_| false); let b1 = para_text(bin, &|_| false);
        rejected("lossy Control", &b1, "has no source paragraph", &pc)?;
        rejected("lossy Control", &format!("{}\n{}", s1, s1), "has two source paragraphs", &pc)?;
        rejected("lossy Control", &format!("{}\nX-Other: 1\n", s1), "has a paragraph that is neither source nor binary", &pc)?;
        let bfull = para_text(bin, &|_| true);
        rejected("lossy Control", &format!("{}\n{}", s1, bfull.lines().filter(|l| !l.starts_with("Package:")).map(|l| format!("{}\n", l)).collect::<String>()), "has a paragraph without Source or Package", &pc)?;
        n += 4;
        // ---- copyright files
        let hd = table("debian_copyright::lossy::Header"); let fl = table("debian_copyright::lossy::FilesParagraph"); let li = table("debian_copyright::lossy::LicenseParagraph");
        let pcr = |s: &str| debian_copyright::lossy::Copyright::from_str(s);
        let dcr = |v: &debian_copyright::lossy::Copyright| v.to_string();
        for m in &masks { for (nf, nl) in [(0, 0), (1, 0), (2, 1), (1, 2)] {
            let mut t = para_text(hd, m.as_ref());
            for _ in 0..nf { t.push('\n'); t.push_str(&para_text(fl, m.as_ref())); }
            for _ in 0..nl { t.push('\n'); t.push_str(&para_text(li, m.as_ref())); }
            if !t.starts_with("Format:") { continue; }
            stable("lossy Copyright", &t, &pcr, &dcr)?; n += 1;
        } }
        // Files and License paragraphs in any order keep their roles
        for order in [[false, true, true, false], [true, false, true, false], [false, false, true, true]] {
            let mut t = para_text(hd, &|_| true);
            for is_lic in order { t.push('\n'); t.push_str(&para_text(if is_lic { li } else { fl }, &|_| true)); }
            if !t.starts_with("Format:") { continue; }
            match pcr(&t) {
                Ok(c) => { if c.files.len() != 2 || c.licenses.len() != 2 { return Err(fail(&t, "lossy Copyright: paragraphs with a Files field are Files paragraphs, the others with a License field are licences", "2 files, 2 licences".into(), format!("{} files, {} licences", c.files.len(), c.licenses.len()))); } }
                Err(e) => return Err(fail(&t, "lossy Copyright: a well-formed document is rejected", "Ok".into(), e)),
            }
            stable_eq("lossy Copyright", &t, &pcr, &dcr, Some(&|a: &debian_copyright::lossy::Copyright, b: &debian_copyright::lossy::Copyright| a == b), false)?;
            n += 1;
        }
        let h1 = para_text(hd, &|_| false);
        rejected("lossy Copyright", &format!("X-First: 1\n{}", h1), "does not start with Format:", &pcr)?;
        rejected("lossy Copyright", &format!("{}\nX-Other: 1\n", h1), "has a paragraph that is neither Files nor License", &pcr)?;
        n += 2;
        // ---- single-paragraph kinds
        macro_rules! single { ($kind:expr, $name:expr, $parse:expr, $print:expr) => {{
            let rows = table($name);
            for m in &masks { let t = para_text(rows, m.as_ref()); if t.is_empty() { continue; } stable($kind, &t, &$parse, &$print)?; n += 1; }
            // a missing mandatory field is rejected
            for (i, r) in rows.iter().enumerate() { if !r.2 {
                let t: String = rows.iter().enumerate().filter(|(j, _)| *j != i).map(|(_, r)| format!("{}: {}\n", r.0, r.1.replace('\n', "\n "))).collect();
                rejected($kind, &t, &format!("lacks the mandatory field {}", r.0), &$parse)?; n += 1;
            } }
        }}; }
        single!("lossy apt Source", "debian_control::lossy::apt::Source", |s: &str| debian_control::lossy::apt::Source::from_str(s), |v: &debian_control::lossy::apt::Source| v.to_string());
        single!("lossy apt Package", "debian_control::lossy::apt::Package", |s: &str| debian_control::lossy::apt::Package::from_str(s), |v: &debian_control::lossy::apt::Package| v.to_string());
        single!("lossy DEP-3 header", "dep3::lossy::PatchHeader", |s: &str| dep3::lossy::PatchHeader::from_str(s), |v: &dep3::lossy::PatchHeader| v.to_string());
        single!("APT sources", "apt_sources::Repository", |s: &str| apt_sources::Repositories::from_str(s), |v: &apt_sources::Repositories| v.to_string());
        {
            use deb822_lossless::ToDeb822Paragraph;
            single!("lossy Removal", "debian_control::lossy::ftpmaster::Removal", |s: &str| debian_control::lossy::ftpmaster::Removal::from_str(s), |v: &debian_control::lossy::ftpmaster::Removal| { let p: deb822_lossless::lossy::Paragraph = v.to_paragraph(); p.to_string() });
            single!("lossy Buildinfo", "debian_control::lossy::buildinfo::Buildinfo", |s: &str| debian_control::lossy::buildinfo::Buildinfo::from_str(s).map_err(|e| e.to_string()), |v: &debian_control::lossy::buildinfo::Buildinfo| { let p: deb822_lossless::lossy::Paragraph = v.to_paragraph(); p.to_string() });
        }
        // value level: the words of a whitespace-separated list field are its elements; an edited value survives print / parse
        {
            let rows = table("debian_control::lossy::apt::Source");
            let t = para_text(rows, &|_| true);
            let ps = |s: &str| debian_control::lossy::apt::Source::from_str(s);
            if let Ok(mut v) = ps(&t) {
                let want: Option<Vec<String>> = rows.iter().find(|r| r.0 == "Binary").map(|r| r.1.split_whitespace().map(|w| w.to_string()).collect());
                if v.binaries != want { return Err(fail(&t, "lossy apt Source: the Binary field lists the binaries separated by whitespace", format!("{:?}", want), format!("{:?}", v.binaries))); }
                v.binaries = Some(vec!["foo".to_string(), "libfoo1".to_string(), "libfoo-dev".to_string()]);
                let t2 = v.to_string();
                match ps(&t2) { Ok(v2) => { if v2 != v { return Err(fail(&t2, "lossy apt Source: a value with three binaries does not survive print / parse", format!("{:?}", v.binaries), format!("{:?}", v2.binaries))); } } Err(e) => return Err(fail(&t2, "lossy apt Source: the printed value does not parse", "Ok".into(), e)) }
            }
            n += 1;
        }
        // several repositories in one sources file
        let rp = table("apt_sources::Repository");
        let two = format!("{}\n{}", para_text(rp, &|_| true), para_text(rp, &|_| false));
        stable("APT sources", &two, &|s: &str| apt_sources::Repositories::from_str(s), &|v: &apt_sources::Repositories| v.to_string())?; n += 1;
        Ok(n)
    }
}

const N_DOCS: usize = 4000;
fn main() {
    let args: Vec<String> = std::env::args().collect();
    if args.len() < 2 { eprintln!("usage: vwit <C03|C04|C06|C08>"); std::process::exit(3); }
    let prop = args[1].as_str();
    if prop == "C01" {
        // arbitrary text first, then the well-formed documents of C03 (below)
        match anytext::run_c01() { Ok(n) => { eprintln!("vwit C01: no failing input among {} arbitrary texts", n); } Err(f) => f.print_and_exit() }
    }
    if prop == "C09" {
        match anytext::run_c09() { Ok(n) => { anytext::print_known(); eprintln!("vwit C09: no unlisted failing input among {} texts", n); return; } Err(f) => f.print_and_exit() }
    }
    if prop == "C02" {
        std::panic::set_hook(Box::new(|_| {}));
        match anytext::run_c02() { Ok(n) => { eprintln!("vwit C02: no panic in {} calls", n); return; } Err(f) => f.print_and_exit() }
    }
    if prop == "C20" {
        match typed20::run() { Ok(n) => { eprintln!("vwit C20: no failing input among {} documents", n); return; } Err(f) => f.print_and_exit() }
    }
    if prop == "C16" {
        match derive16::run_all().and_then(|n| derive16::typed_values().map(|m| n + m)) { Ok(n) => { eprintln!("vwit C16: no failing input among {} struct values", n); return; } Err(f) => f.print_and_exit() }
    }
    if prop == "C15" {
        match acc::run() { Ok(n) => { eprintln!("vwit C15: no failing input among {} Buildinfo records", n); return; } Err(f) => f.print_and_exit() }
    }
    if prop == "C12" {
        match sat::run() { Ok(n) => { eprintln!("vwit C12: no failing input among {} field / installed-set pairs", n); return; } Err(f) => f.print_and_exit() }
    }
    if prop == "C19" {
        std::panic::set_hook(Box::new(|_| {}));
        match pgp19::run() { Ok(n) => { eprintln!("vwit C19: no failing input among {} messages", n); return; } Err(f) => f.print_and_exit() }
    }
    if prop == "C18" {
        std::panic::set_hook(Box::new(|_| {}));
        match codecs18::run() { Ok(n) => { eprintln!("vwit C18: no failing input among {} texts and values", n); return; } Err(f) => f.print_and_exit() }
    }
    if prop == "C17" {
        std::panic::set_hook(Box::new(|_| {}));
        match cpr::run() { Ok(n) => { anytext::print_known(); eprintln!("vwit C17: no unlisted failing input among {} lookups", n); return; } Err(f) => f.print_and_exit() }
    }
    if prop == "C11" {
        std::panic::set_hook(Box::new(|_| {}));
        match rel::run_c11().and_then(|n| rel::extra_c11().map(|m| n + m)) { Ok(n) => { anytext::print_known(); eprintln!("vwit C11: no unlisted failing input among {} edit steps", n); return; } Err(f) => f.print_and_exit() }
    }
    if prop == "C13" {
        std::panic::set_hook(Box::new(|_| {}));
        match rel::run_c13() { Ok(n) => { eprintln!("vwit C13: no failing input among {} relation fields", n); return; } Err(f) => f.print_and_exit() }
    }
    if prop == "C10" {
        match rel::run_lossless() {
            Ok(n) => { eprintln!("vwit C10: no failing input among {} relation fields", n); return; }
            Err(f) => f.print_and_exit(),
        }
    }
    if prop == "C14" {
        match rel::run() {
            Ok(n) => { eprintln!("vwit C14: no failing input among {} relations and as many relation fields", n); return; }
            Err(f) => f.print_and_exit(),
        }
    }
    if prop == "C07" { if let Err(f) = extra_c07() { f.print_and_exit(); } }
    let mut r = Rng(crate::seed_mix(0x9E3779B97F4A7C15));
    // all single-field documents over the pools
    let mut docs: Vec<Doc> = Vec::new();
    for n in NAMES { for w in WS { for f in FIRST { for c in [None, Some(CONT[0]), Some(CONT[1]), Some(CONT[2])] {
        let conts = match c { None => vec![], Some(t) => vec![Cont { indent: " ".into(), text: t.to_string() }] };
        docs.push(Doc { lead: vec![], paras: vec![Para { fields: vec![Field { comments: vec![], name: n.to_string(), ws: w.to_string(), first: f.to_string(), conts }], trailing: vec![], gap: vec![] }] });
    } } } }
    for _ in 0..N_DOCS * scale() { docs.push(gen_doc(&mut r)); }
    let check: fn(&Doc) -> Result<(), Fail> = match prop {
        "C03" | "C01" => check_c03,
        "C06" => check_c06,
        "C08" => check_c08,
        "C04" => check_c04,
        "C05" => check_c05,
        "C07" => check_c07,
        _ => { eprintln!("no falsifier for {}", prop); std::process::exit(3); }
    };
    let progress = std::env::var("VWIT_PROGRESS").ok();
    // the documents are checked by 8 threads; the reported failure is the one with the smallest index, so the
    // result does not depend on scheduling. Each thread notes the document under test in <progress>.<k>
    // (removed when the thread is done) for the caller's watchdog.
    let nthreads = 8usize;
    let first_fail: Option<usize> = std::thread::scope(|sc| {
        let mut hs = Vec::new();
        for k in 0..nthreads {
            let docs = &docs; let progress = &progress;
            hs.push(sc.spawn(move || {
                let pf = progress.as_ref().map(|p| format!("{}.{}", p, k));
                let mut found = None;
                let mut i = k;
                while i < docs.len() {
                    if let Some(p) = &pf { let _ = std::fs::write(p, doc_text(&docs[i])); }
                    if check(&docs[i]).is_err() { found = Some(i); break; }
                    i += nthreads;
                }
                if let Some(p) = &pf { let _ = std::fs::remove_file(p); }
                found
            }));
        }
        hs.into_iter().filter_map(|h| h.join().ok().flatten()).min()
    });
    if let Some(i) = first_fail {
        let d = &docs[i];
        if let Some(p) = &progress { let _ = std::fs::write(p, doc_text(d)); }
        if let Err(f0) = check(d) {
            // greedy shrinking: keep deleting single elements while some failure remains
            let mut cur = d.clone();
            let mut fail = f0;
            loop {
                let mut progressed = false;
                for c in shrinks(&cur) {
                    if let Err(f) = check(&c) { cur = c; fail = f; progressed = true; break; }
                }
                if !progressed { break; }
            }
            fail.print_and_exit();
        }
    }
    anytext::print_known();
    eprintln!("vwit {}: no unlisted failing input among {} documents", prop, docs.len());
}
