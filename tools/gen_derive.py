#!/usr/bin/env python3
"""gen_derive.py - generate the C16 unit (units/derive16) from /repo's current sources.

What is read from the repository: which structs derive ToDeb822 / FromDeb822, and for every field its name, type,
`#[deb822(field = .., serialize_with = .., deserialize_with = ..)]` attribute. From that *definition* the script
writes what the property says the generated code must do (spec function ops_<Struct>: one operation per field, in
declaration order, under the configured name; absent optional fields are omitted / removed).
What is NOT read: the code the derive macro generates. That code is obtained separately, by asking rustc to expand
the macros (`cargo +nightly rustc -- -Zunpretty=expanded`, see tools/expand.sh), and `vx` extracts the generated
`impl ToDeb822Paragraph<P> for <Struct>` blocks from the expanded file. Verus then checks the real expansion against
the generated contract.

Output (rewritten on every run): units/derive16/unit.json, gen.vspec, gen_spec.rs, coverage.json.
"""
import json, os, re, sys

VERIF = os.path.dirname(os.path.dirname(os.path.abspath(__file__)))
REPO = os.environ.get("VERIF_REPO", "/repo")
EXP = os.environ.get("GEN_DERIVE_EXP", os.path.join(VERIF, "build", "expanded"))
UNIT = os.environ.get("GEN_DERIVE_UNIT", "derive16")          # development runs write another unit directory ...
WRITE_WIT = os.environ.get("GEN_DERIVE_NO_WIT", "") == ""      # ... and leave the stand-in's table alone
MISSING_FMT = "missing field: {0}"                              # what `format!("missing field: {}", key)` expands to
PARSING_FMT = "parsing field {0}: {1}"

# (source file, crate (= expanded file stem), module path inside the crate)
SOURCES = [
    ("debian-control/src/lossy/control.rs", "debian-control", ["lossy", "control"]),
    ("debian-control/src/lossy/apt.rs", "debian-control", ["lossy", "apt"]),
    ("debian-control/src/lossy/buildinfo.rs", "debian-control", ["lossy", "buildinfo"]),
    ("debian-control/src/lossy/ftpmaster.rs", "debian-control", ["lossy", "ftpmaster"]),
    ("debian-copyright/src/lossy.rs", "debian-copyright", ["lossy"]),
    ("dep3/src/lossy.rs", "dep3", ["lossy"]),
    ("apt-sources/src/lib.rs", "apt-sources", []),
    # verification-only: one struct with every field shape the macros distinguish (see tools/shapes/src/lib.rs)
    (os.path.join(VERIF, "tools", "shapes", "src", "lib.rs"), "vshapes", []),
]
NATIVE = {"String", "u8", "u16", "u32", "u64", "usize", "bool"}

# ---- custom (de)serialisers that are plain text functions (units/serde16/table.json): what each kind computes ----------------
# writer kinds: value expression V -> text; reader kinds: (text S, value V) -> accepted relation, rejected texts
SER_KINDS = {
    "yesno": lambda v: "yesno_text(%s)" % v,
    "join_sp": lambda v: "join_seqs(strs_view(%s@), \" \"@)" % v,
    "join_nl": lambda v: "join_seqs(strs_view(%s@), \"\\n\"@)" % v,
    # Display of the two std types whose text is defined here
    "disp_string": lambda v: "%s@" % v,
    "disp_bool": lambda v: "bool_text(%s)" % v,
}
DE_KINDS = {
    "yesno": (lambda s_, v: "yesno_parse(%s) == Some(%s)" % (s_, v), lambda s_: "yesno_parse(%s) is None" % s_),
    "words": (lambda s_, v: "strings_view(%s@) == ws_tokens(%s)" % (v, s_), lambda s_: "false"),
    "lines_ne": (lambda s_, v: "strings_view(%s@) == drop_empty(split_char(%s, '\\n'))" % (v, s_), lambda s_: "false"),
    "lines": (lambda s_, v: "strings_view(%s@) == lines_spec(%s)" % (v, s_), lambda s_: "false"),
}
# contracts of the real functions (unit serde16), by role and kind; P = the function's parameter
SERDE_CONTRACT = {
    ("de", "yesno"): "match yesno_parse(P@) { Some(b) => r == Ok::<bool, String>(b), None => r is Err }",
    ("ser", "yesno"): "r@ == yesno_text(*P)",
    ("de", "words"): "r is Ok, strings_view(r->Ok_0@) == ws_tokens(P@)",
    ("de", "lines_ne"): "r is Ok, strings_view(r->Ok_0@) == drop_empty(split_char(P@, '\\n'))",
    ("de", "lines"): "r is Ok, strings_view(r->Ok_0@) == lines_spec(P@)",
    ("ser", "join_sp"): "r@ == join_seqs(strs_view(P@), \" \"@)",
    ("ser", "join_nl"): "r@ == join_seqs(strs_view(P@), \"\\n\"@)",
}
# (writer kind, reader kind) -> (domain of the value or None, proof that reading the written text gives the value, how equal)
#   V = the value expression; the proof establishes  !ERR(SER(V))  and  REL(SER(V), w) ==> w "equal" V
PAIRS = {
    ("yesno", "yesno"): (None, ["theorem_pair_yesno(V);"], "eq"),
    ("disp_bool", "from_bool"): (None, ["reveal_strlit(\"true\"); reveal_strlit(\"false\"); assert(\"true\"@.len() != \"false\"@.len());"], "eq"),
    ("disp_string", "from_string"): (None, [], "string"),
    ("join_sp", "words"): ("words_ok(strs_view(V@))", ["theorem_pair_words(strs_view(V@)); lemma_views_same(V@);"], "vec"),
    ("join_nl", "words"): ("words_ok(strs_view(V@))", ["theorem_pair_words(strs_view(V@)); lemma_views_same(V@);"], "vec"),
    ("join_nl", "lines_ne"): ("lines_ok(strs_view(V@))", ["theorem_pair_lines_ne(strs_view(V@)); lemma_views_same(V@);"], "vec"),
    ("join_nl", "lines"): ("lines_ok_cr(strs_view(V@))", ["theorem_pair_lines(strs_view(V@)); lemma_views_same(V@);"], "vec"),
}
# flags have two values: any pairing of specified flag codecs is decided, inverse or not, by unfolding the four literals
BOOL_DECIDE = ["reveal_strlit(\"yes\"); reveal_strlit(\"no\"); reveal_strlit(\"true\"); reveal_strlit(\"false\");",
               "assert(\"yes\"@.len() == 3 && \"no\"@.len() == 2 && \"true\"@.len() == 4 && \"false\"@.len() == 5);"]


def load_serde_table():
    t = json.load(open(os.path.join(VERIF, "units", "serde16", "table.json")))
    by = {}
    for f in t["functions"]:
        by[(f["file"], f["fn"])] = f
    return t["functions"], by


def split_top(s, sep=","):
    out, depth, cur = [], 0, ""
    for ch in s:
        if ch in "<([{":
            depth += 1
        elif ch in ">)]}":
            depth -= 1
        if ch == sep and depth == 0:
            out.append(cur)
            cur = ""
        else:
            cur += ch
    if cur.strip():
        out.append(cur)
    return out


def parse_structs(text):
    """structs deriving ToDeb822: [(name, has_from, [(ident, type, key, ser, de)])]"""
    res = []
    for m in re.finditer(r"#\[derive\(([^)]*)\)\]", text):
        derives = [d.strip() for d in m.group(1).split(",")]
        if "ToDeb822" not in derives:
            continue
        rest = text[m.end():]
        sm = re.search(r"pub\s+struct\s+(\w+)\s*\{", rest)
        if not sm:
            continue
        # nothing but attributes / comments between the derive and the struct
        between = rest[:sm.start()]
        if re.search(r"\b(fn|impl|struct|enum|mod)\b", re.sub(r"//[^\n]*", "", between)):
            continue
        name = sm.group(1)
        depth, i = 1, sm.end()
        while depth > 0:
            c = rest[i]
            depth += (c == "{") - (c == "}")
            i += 1
        body = rest[sm.end():i - 1]
        body = re.sub(r"//[^\n]*", "", body)
        fields = []
        attr = None
        pos = 0
        # walk attributes and fields in order
        tok = re.compile(r"\s*(#\[(?P<attr>(?:[^\[\]]|\[[^\]]*\])*)\]|(?:pub(?:\([^)]*\))?\s+)?(?P<id>\w+)\s*:\s*)")
        while pos < len(body):
            mm = tok.match(body, pos)
            if not mm:
                if body[pos:].strip() == "":
                    break
                raise SystemExit("gen_derive: cannot parse struct %s near %r" % (name, body[pos:pos + 60]))
            if mm.group("attr") is not None:
                a = mm.group("attr").strip()
                if a.startswith("deb822"):
                    attr = a[a.index("(") + 1:a.rindex(")")]
                pos = mm.end()
                continue
            ident = mm.group("id")
            # the type runs to the next top-level comma
            depth, j = 0, mm.end()
            while j < len(body):
                c = body[j]
                if c in "<([":
                    depth += 1
                elif c in ">)]":
                    depth -= 1
                elif c == "," and depth == 0:
                    break
                j += 1
            ty = " ".join(body[mm.end():j].split())
            key, ser, de = ident, None, None
            if attr:
                for part in split_top(attr):
                    k, _, v = part.partition("=")
                    k, v = k.strip(), v.strip()
                    if k == "field":
                        key = json.loads(v)
                    elif k == "serialize_with":
                        ser = v
                    elif k == "deserialize_with":
                        de = v
            fields.append((ident, ty, key, ser, de))
            attr = None
            pos = j + 1
        res.append((name, "FromDeb822" in derives, fields))
    return res


def leaf_type(ty):
    m = re.match(r"Option\s*<(.*)>$", ty)
    return (m.group(1).strip(), True) if m else (ty, False)


def ident_of(ty):
    return re.sub(r"[^A-Za-z0-9]+", "_", ty).strip("_")


def rust_str(s):
    return json.dumps(s)



# ---- sample field texts for the bounded stand-in (vwit C16): by deserializer, then by leaf type ---------------------
SAMPLE_BY_DE = {
    "deserialize_yesno": "yes", "deserialize_list": "a\nb", "deserialize_file_list": "*.c\nsrc/*", "deserialize_copyrights": "2020 A\n2021 B",
    "deserialize_string_chain": "a b", "deserialize_types": "deb\ndeb-src", "deserialize_uris": "http://deb.example.org/debian", "deserialize_pathbuf": "/a/b",
    "deserialize_package_list": "foo deb utils optional arch=any", "deserialize_binaries": "foo bar", "deserialize_date": "2020-01-02",
    "deserialize_origin": "upstream, https://x.example/1", "deserialize_env": "A=\"1\"\nLANG=\"C\"\nTZ=\"UTC\"", "deserialize_version": "1.0-1",
    "deserialize_components": "main contrib", "deserialize_architectures": "amd64 i386",
    "de_tag": "<t>", "de_words": "w1 w2", "de_flag": "yes", "de_hex": "0x1f", "de_dec": "7",
}
SAMPLE_BY_TYPE = {
    "String": "some text", "bool": "true", "u32": "12", "usize": "12", "u64": "12",
    "Relations": "a (>= 1), b | c", "debversion::Version": "1:2.0-1", "url::Url": "https://example.org/x", "Url": "https://example.org/x",
    "Priority": "optional", "crate::fields::Priority": "optional", "crate::fields::MultiArch": "same", "crate::vcs::ParsedVcs": "https://x.example/r.git -b main",
    "YesNoForce": "force", "Signature": "/usr/share/keyrings/k.gpg", "License": "GPL-2+", "Forwarded": "not-needed", "AppliedUpstream": "1.2",
    "Vec<String>": "a b", "chrono::NaiveDate": "2020-01-02", "PathBuf": "/a/b", "Level": "high",
}
TYPE_PATH = {
    ("debian-control", ("lossy", "control")): "debian_control::lossy", ("debian-control", ("lossy", "apt")): "debian_control::lossy::apt",
    ("debian-control", ("lossy", "buildinfo")): "debian_control::lossy::buildinfo", ("debian-control", ("lossy", "ftpmaster")): "debian_control::lossy::ftpmaster",
    ("debian-copyright", ("lossy",)): "debian_copyright::lossy", ("dep3", ("lossy",)): "dep3::lossy", ("apt-sources", ()): "apt_sources", ("vshapes", ()): "vshapes",
}


def harness_table(structs):
    out = ["// GENERATED by tools/gen_derive.py from the struct definitions in /repo: (configured name, sample text, optional) per field, in declaration order",
           "pub fn run_all() -> Result<usize, super::Fail> {", "    let mut n = 0;"]
    for rel, crate, modpath, name, has_from, fields in structs:
        if not has_from:
            continue
        tp = TYPE_PATH.get((crate, tuple(modpath)))
        if tp is None:
            continue
        rows = []
        for ident, fty, key, ser, de in fields:
            leaf, optional = leaf_type(fty)
            val = SAMPLE_BY_DE.get(de) if de else None
            if val is None:
                val = SAMPLE_BY_TYPE.get(leaf)
            if val is None:
                val = "x"
            rows.append("(%s, %s, %s)" % (json.dumps(key), json.dumps(val), "true" if optional else "false"))
        out.append("    n += check::<%s::%s>(%s, &[%s])?;" % (tp, name, json.dumps("%s::%s" % (tp, name)), ", ".join(rows)))
    out += ["    Ok(n)", "}"]
    out += ["/// the same rows by type path (used by the C20 stand-in to assemble documents)",
            "pub fn table(name: &str) -> &'static [(&'static str, &'static str, bool)] {", "    match name {"]
    for rel, crate, modpath, name, has_from, fields in structs:
        tp = TYPE_PATH.get((crate, tuple(modpath)))
        if tp is None:
            continue
        rows = []
        for ident, fty, key, ser, de in fields:
            leaf, optional = leaf_type(fty)
            val = SAMPLE_BY_DE.get(de) if de else None
            if val is None:
                val = SAMPLE_BY_TYPE.get(leaf)
            if val is None:
                val = "x"
            rows.append("(%s, %s, %s)" % (json.dumps(key), json.dumps(val), "true" if optional else "false"))
        out.append("        %s => &[%s]," % (json.dumps("%s::%s" % (tp, name)), ", ".join(rows)))
    out += ["        _ => &[],", "    }", "}"]
    return "\n".join(out) + "\n"

def main():
    structs = []      # (rel, crate, modpath, name, has_from, fields)
    for rel, crate, modpath in SOURCES:
        p = os.path.join(REPO, rel)
        if not os.path.exists(p):
            continue
        for name, has_from, fields in parse_structs(open(p).read()):
            structs.append((rel, crate, modpath, name, has_from, fields))
    if not structs:
        raise SystemExit("gen_derive: no deriving struct found (lost anchor)")

    serde_fns, serde_by = load_serde_table()
    defined_ser = {}   # spec fn name -> (value type, kind)
    defined_de = {}
    pair_report = []   # per field with a custom function or a defined std codec: proved / hypothesis
    type_map = {}
    opaque = {}        # verus name -> original type
    ser_specs = {}     # spec fn name -> value type (verus)
    de_specs = {}      # custom deserializer -> value type (verus)
    parse_types = set()  # types read with FromStr
    spec = ["// GENERATED by tools/gen_derive.py from the struct definitions in %s - do not edit" % REPO, ""]
    body = []
    vspec = ["// GENERATED by tools/gen_derive.py - do not edit", ""]
    sources = []
    cover = []
    for rel, crate, modpath, name, has_from, fields in structs:
        modsel = "/".join(modpath) + "/" if modpath else ""
        uid = ident_of(crate + "_" + "_".join(modpath) + "_" + name).lower()
        mod = "m_" + uid
        ty = "%s::%s" % (mod, name)
        n = len(fields)
        uses = []
        arms = []
        from_ok, from_err, rt_hyp = [], [], []
        pair_pre, pair_ok = [], []     # proof lines of theorem_rt: before the case split / in the Ok branch
        for i, (ident, fty, key, ser, de) in enumerate(fields):
            ser_kind = de_kind = None
            leaf, optional = leaf_type(fty)
            if leaf not in NATIVE and not re.match(r"Vec\s*<\s*String\s*>$", leaf):
                vn = "VxT_" + ident_of(leaf)
                opaque[vn] = leaf
                type_map[leaf] = vn
            vty = type_map.get(leaf, leaf)
            if ser:
                sfn = "ser_%s_%s" % (ident_of(crate + "_" + "_".join(modpath)).lower(), ser)
                if sfn in ser_specs and ser_specs[sfn] != vty:
                    sfn = sfn + "_" + ident_of(vty)
                ser_specs[sfn] = vty
                ent = serde_by.get((rel, ser))
                if ent and ent["role"] == "ser":
                    ser_kind = ent["kind"]
                    defined_ser[sfn] = (vty, ser_kind)
                alias = "use super::stub_%s as %s;" % (sfn, ser)
                if alias not in uses:
                    uses.append(alias)
                val = lambda e, sfn=sfn: "%s(%s)" % (sfn, e)
            else:
                val = lambda e: "%s.display_spec()" % e
                ser_kind = {"String": "disp_string", "bool": "disp_bool"}.get(leaf)
            # ---- reading side (FromDeb822): the relation between a field text and the value it is read as
            if de:
                dfn = "de_%s_%s" % (ident_of(crate + "_" + "_".join(modpath)).lower(), de)
                if dfn in de_specs and de_specs[dfn] != vty:
                    dfn = dfn + "_" + ident_of(vty)
                de_specs[dfn] = vty
                ent = serde_by.get((rel, de))
                if ent and ent["role"] == "de":
                    de_kind = ent["kind"]
                    defined_de[dfn] = (vty, de_kind)
                alias = "use super::stub_%s as %s;" % (dfn, de)
                if alias not in uses:
                    uses.append(alias)
                relf = lambda s_, v_, dfn=dfn: "%s_rel(%s, %s)" % (dfn, s_, v_)
                errf = lambda s_, dfn=dfn: "%s_err(%s)" % (dfn, s_)
            else:
                parse_types.add(vty)
                de_kind = {"String": "from_string", "bool": "from_bool"}.get(leaf)
                relf = lambda s_, v_, vty=vty: "<%s as VxFromStr>::parse_rel(%s, %s)" % (vty, s_, v_)
                errf = lambda s_, vty=vty: "<%s as VxFromStr>::parse_err(%s)" % (vty, s_)
            k_ = rust_str(key)
            if optional:
                from_ok.append("(match list_get(l, %s@) { Some(s) => x.%s is Some && %s, None => x.%s is None })" % (k_, ident, relf("s", "x.%s->Some_0" % ident), ident))
                from_err.append("(match list_get(l, %s@) { Some(s) => %s && msg_names(e, %s@), None => false })" % (k_, errf("s"), k_))
                V = "x.%s->Some_0" % ident
                W = "y.%s->Some_0" % ident
                guard = "x.%s is Some" % ident
            else:
                from_ok.append("(match list_get(l, %s@) { Some(s) => %s, None => false })" % (k_, relf("s", "x.%s" % ident)))
                from_err.append("(match list_get(l, %s@) { Some(s) => %s && msg_names(e, %s@), None => msg_names(e, %s@) })" % (k_, errf("s"), k_, k_))
                V = "x.%s" % ident
                W = "y.%s" % ident
                guard = None
            # ---- the round trip of this field: proved from the two functions' specs, decided (flags), or a hypothesis
            pair = PAIRS.get((ser_kind, de_kind))
            decided_flag = pair is None and leaf == "bool" and ser_kind is not None and de_kind is not None
            if pair or decided_flag:
                dom, proof, how = pair if pair else (None, BOOL_DECIDE, "eq")
                if dom:
                    d_ = dom.replace("V", V)
                    rt_hyp.append("(%s ==> %s)" % (guard, d_) if guard else "(%s)" % d_)
                lines_pre = [pl.replace("V", V) for pl in proof]
                lines_pre.append("assert(!(%s));" % errf(val(V)))
                ext = {"eq": [], "string": ["axiom_string_ext(%s, %s);" % (W, V)], "vec": ["axiom_vec_string_ext(%s, %s);" % (W, V)]}[how]
                lines_ok = ext + ["assert(%s == %s);" % (W, V)]
                if guard:
                    pair_pre.append("if %s { %s }" % (guard, " ".join(lines_pre)))
                    pair_ok.append("if %s { %s }" % (guard, " ".join(lines_ok)))
                else:
                    pair_pre += lines_pre
                    pair_ok += lines_ok
                pair_report.append({"struct": name, "field": key, "writer": ser or "Display", "reader": de or "FromStr",
                                    "status": "proved inverse" if pair else "decided by unfolding (flag)", "domain": dom})
            else:
                h = "!%s && forall|w: %s| #[trigger] %s ==> w == %s" % (errf(val(V)), vty, relf(val(V), "w"), V)
                rt_hyp.append("(%s ==> %s)" % (guard, h) if guard else "(%s)" % h)
                if ser or de:
                    pair_report.append({"struct": name, "field": key, "writer": ser or "Display", "reader": de or "FromStr",
                                        "status": "hypothesis (a function outside units/serde16/table.json, or kinds without an inverse lemma: %s / %s)" % (ser_kind, de_kind), "domain": None})
            if optional:
                op = "opt_op(%s@, match x.%s { Some(v) => Some(%s), None => None::<Seq<char>> })" % (rust_str(key), ident, val("v"))
            else:
                op = "Op::Set(%s@, %s)" % (rust_str(key), val("x.%s" % ident))
            arms.append(("if i == %d { %s }" % (i, op)) if i < n - 1 else ("{ %s }" % op))
        body.append("/// what C16 says the conversions of `%s` (%s) do: operation i is field i of the definition, under its configured name" % (name, rel))
        body.append("pub open spec fn op_%s(x: %s, i: int) -> Op {" % (uid, ty))
        body.append("    " + "\n    else ".join(arms))
        body.append("}")
        keys = [f[2] for f in fields]
        # the same operations as straight-line definitions (what the contracts of the generated code name)
        body.append("pub open spec fn upd_%s(x: %s, l0: Seq<Pair>) -> Seq<Pair> {" % (uid, ty))
        for i in range(n):
            body.append("    let l%d = step(l%d, op_%s(x, %d));" % (i + 1, i, uid, i))
        body.append("    l%d" % n)
        body.append("}")
        body.append("pub open spec fn pres_%s(x: %s) -> Seq<Pair> {" % (uid, ty))
        body.append("    let s0 = Seq::<Pair>::empty();")
        for i in range(n):
            body.append("    let s%d = push_op(s%d, op_%s(x, %d));" % (i + 1, i, uid, i))
        body.append("    s%d" % n)
        body.append("}")
        body.append("pub proof fn lemma_unroll_%s(x: %s, l0: Seq<Pair>)" % (uid, ty))
        body.append("    ensures upd_%s(x, l0) == apply_n(l0, |i: int| op_%s(x, i), %d), pres_%s(x) == present_n(|i: int| op_%s(x, i), %d)," % (uid, uid, n, uid, uid, n))
        body.append("{")
        body.append("    let f = |i: int| op_%s(x, i);" % uid)
        body.append("    let s0 = Seq::<Pair>::empty();")
        body.append("    assert(apply_n(l0, f, 0) == l0); assert(present_n(f, 0) =~= s0);")
        for i in range(n):
            body.append("    let l%d = step(l%d, op_%s(x, %d)); let s%d = push_op(s%d, op_%s(x, %d));" % (i + 1, i, uid, i, i + 1, i, uid, i))
            body.append("    assert(f(%d) == op_%s(x, %d)); assert(apply_n(l0, f, %d) == l%d); assert(present_n(f, %d) == s%d);" % (i, uid, i, i + 1, i + 1, i + 1, i + 1))
        body.append("}")
        body.append("pub proof fn lemma_keys_%s(x: %s)" % (uid, ty))
        body.append("    ensures distinct_keys(|i: int| op_%s(x, i), %d)," % (uid, n))
        body.append("{")
        for k in sorted(set(keys)):
            body.append("    reveal_strlit(%s);" % rust_str(k))
        body.append("    let f = |i: int| op_%s(x, i);" % uid)
        for i, k in enumerate(keys):
            body.append("    assert(op_key(f(%d)) == %s@);" % (i, rust_str(k)))
        for i in range(n):
            for j in range(i + 1, n):
                a, b = keys[i], keys[j]
                if a == b:
                    raise SystemExit("gen_derive: struct %s has two fields named %r: C16 presupposes distinct names" % (name, a))
                if len(a) != len(b):
                    w = "%s@.len() != %s@.len()" % (rust_str(a), rust_str(b))
                else:
                    p_ = next(q for q in range(len(a)) if a[q] != b[q])
                    w = "%s@[%d] != %s@[%d]" % (rust_str(a), p_, rust_str(b), p_)
                body.append("    assert(%s);" % w)
        body.append("    assert forall|i: int, j: int| 0 <= i < j < %d implies op_key(#[trigger] f(i)) != op_key(#[trigger] f(j)) by { }" % n)
        body.append("}")
        body.append("/// C16 for `%s`: a paragraph updated from a value reads back as that value (absent optional fields are gone), names the" % name)
        body.append("/// struct does not own read as before, and a fresh paragraph lists exactly the present fields")
        body.append("pub proof fn theorem_%s(x: %s, l: Seq<Pair>)" % (uid, ty))
        body.append("    ensures")
        body.append("        forall|i: int| 0 <= i < %d ==> list_get(upd_%s(x, l), op_key(#[trigger] op_%s(x, i))) == (match op_%s(x, i) { Op::Set(_, v) => Some(v), Op::Remove(_) => None::<Seq<char>> })," % (n, uid, uid, uid))
        body.append("        forall|name: Seq<char>| !owns(|i: int| op_%s(x, i), %d, name) ==> list_get(upd_%s(x, l), name) == list_get(l, name)," % (uid, n, uid))
        body.append("        forall|i: int| 0 <= i < %d ==> list_get(pres_%s(x), op_key(#[trigger] op_%s(x, i))) == (match op_%s(x, i) { Op::Set(_, v) => Some(v), Op::Remove(_) => None::<Seq<char>> })," % (n, uid, uid, uid))
        body.append("{")
        body.append("    let f = |i: int| op_%s(x, i);" % uid)
        body.append("    lemma_keys_%s(x);" % uid)
        body.append("    lemma_unroll_%s(x, l);" % uid)
        body.append("    theorem_update_reads_back(l, f, %d);" % n)
        body.append("    theorem_present_reads_back(f, %d);" % n)
        body.append("    assert forall|i: int| 0 <= i < %d implies list_get(apply_n(l, f, %d), op_key(#[trigger] op_%s(x, i))) == (match op_%s(x, i) { Op::Set(_, v) => Some(v), Op::Remove(_) => None::<Seq<char>> }) by { assert(f(i) == op_%s(x, i)); }" % (n, n, uid, uid, uid))
        body.append("    assert forall|i: int| 0 <= i < %d implies list_get(present_n(f, %d), op_key(#[trigger] op_%s(x, i))) == (match op_%s(x, i) { Op::Set(_, v) => Some(v), Op::Remove(_) => None::<Seq<char>> }) by { assert(f(i) == op_%s(x, i)); }" % (n, n, uid, uid, uid))
        body.append("}")
        if has_from:
            body.append("/// what C16 says `%s::from_paragraph` returns: every field read from its configured name with its deserialiser" % name)
            body.append("pub open spec fn from_ok_%s(l: Seq<Pair>, x: %s) -> bool {" % (uid, ty))
            body.append("    " + "\n    && ".join(from_ok))
            body.append("}")
            body.append("/// ... and what an error means: a mandatory field is missing or a value is rejected, and the message names that field")
            body.append("pub open spec fn from_err_%s(l: Seq<Pair>, e: Seq<char>) -> bool {" % uid)
            body.append("    " + "\n    || ".join(from_err))
            body.append("}")
            body.append("/// HYPOTHESIS of the round trip: on this value's fields every (de)serialiser pair is inverse (not provable here: the")
            body.append("/// Display / FromStr / custom functions of the field types are outside the unit; the bounded stand-in samples them)")
            body.append("pub open spec fn rt_hyp_%s(x: %s) -> bool {" % (uid, ty))
            body.append("    " + ("\n    && ".join(rt_hyp) if rt_hyp else "true"))
            body.append("}")
            body.append("/// C16 round trip for `%s`, over the contracts of to_paragraph / update_paragraph and from_paragraph: reading a fresh" % name)
            body.append("/// paragraph made from x, or any paragraph updated from x, returns Ok(x)")
            body.append("pub proof fn theorem_rt_%s(x: %s, l0: Seq<Pair>, l: Seq<Pair>, r: Result<%s, String>)" % (uid, ty, ty))
            body.append("    requires")
            body.append("        l == pres_%s(x) || l == upd_%s(x, l0)," % (uid, uid))
            body.append("        rt_hyp_%s(x)," % uid)
            body.append("        match r { Ok(y) => from_ok_%s(l, y), Err(e) => from_err_%s(l, e@) }," % (uid, uid))
            body.append("    ensures r == Ok::<%s, String>(x)," % ty)
            body.append("{")
            body.append("    theorem_%s(x, l0);" % uid)
            for i, (ident, fty, key, ser, de) in enumerate(fields):
                body.append("    assert(op_key(op_%s(x, %d)) == %s@);" % (uid, i, rust_str(key)))
            for pl in pair_pre:
                body.append("    " + pl)
            body.append("    match r {")
            body.append("        Ok(y) => {")
            for pl in pair_ok:
                body.append("            " + pl)
            for i, (ident, fty, key, ser, de) in enumerate(fields):
                body.append("            assert(y.%s == x.%s);" % (ident, ident))
            body.append("            assert(y == x);")
            body.append("        }")
            body.append("        Err(e) => { assert(false); }")
            body.append("    }")
            body.append("}")
        body.append("")
        sel = "%s/%simpl ToDeb822Paragraph<P> for %s" % (mod, modsel, name)
        vspec += [
            "@item %s::to_paragraph" % sel,
            "@spec",
            "    // the fields in declaration order under their configured names, absent optional fields omitted",
            "    ensures r@ == pres_%s(*self)," % uid,
            "@insert stmt 0 after",
            "    let ghost s0 = Seq::<Pair>::empty();",
            "    let ghost f0 = fields@;",
            "    proof { lemma_pairs_empty(fields@); }",
        ]
        for i in range(n):
            optional = leaf_type(fields[i][1])[1]
            present = "self.%s is Some" % fields[i][0] if optional else "true"
            vspec += [
                "@insert stmt %d after" % (i + 1),
                "    let ghost s%d = push_op(s%d, op_%s(*self, %d));" % (i + 1, i, uid, i),
                "    let ghost f%d = fields@;" % (i + 1),
                "    proof {",
                "        match op_%s(*self, %d) {" % (uid, i),
                "            Op::Set(k, v) => { assert(pushed(f%d, f%d, k, v)); lemma_pairs_pushed(f%d, f%d, k, v); }" % (i, i + 1, i, i + 1),
                "            Op::Remove(_) => { assert(f%d == f%d); }" % (i + 1, i),
                "        }",
                "        assert(pairs_view(f%d) == s%d);" % (i + 1, i + 1),
                "    }",
            ]
        vspec += [
            "",
            "@item %s::update_paragraph" % sel,
            "@spec",
            "    // every present field set, every absent optional field removed, in declaration order; nothing else",
            "    ensures final(para)@ == upd_%s(*self, old(para)@)," % uid,
            "@insert begin",
            "    let ghost l0 = para@;",
        ]
        for i in range(n):
            vspec += [
                "@insert stmt %d after" % i,
                "    let ghost l%d = step(l%d, op_%s(*self, %d));" % (i + 1, i, uid, i),
                "    proof { assert(para@ == l%d); }" % (i + 1),
            ]
        vspec.append("")
        items = ["%s%s" % (modsel, name), "%simpl ToDeb822Paragraph for %s" % (modsel, name)]
        if has_from:
            items.append("%simpl FromDeb822Paragraph for %s" % (modsel, name))
            vspec += [
                "@item %s/%simpl FromDeb822Paragraph<P> for %s::from_paragraph" % (mod, modsel, name),
                "@spec",
                "    // Ok: every field read from its configured name with its deserialiser (absent optional field = None);",
                "    // Err: a mandatory field is missing or a value is rejected, and the message names that field",
                "    ensures match r { Ok(x) => from_ok_%s(para@, x), Err(e) => from_err_%s(para@, e@) }," % (uid, uid),
                "",
            ]
        sources.append({"file": os.path.join(EXP, crate + ".rs"), "mod": mod, "uses": uses, "items": items})
        cover.append({"struct": name, "file": rel, "fields": n, "from_deb822": has_from,
                      "custom_serializers": sorted(set(f[3] for f in fields if f[3]))})

    trusted = ["// GENERATED by tools/gen_derive.py - TRUSTED declarations of unit derive16 (reported as assumptions in the evidence):",
               "// opaque stand-ins for the field types (only their Display text matters to the conversions) and the custom",
               "// serializers (serialize_with functions) as uninterpreted, deterministic functions of the field value.", ""]
    for vn, orig in sorted(opaque.items()):
        trusted.append("/// opaque stand-in for the field type `%s`" % orig)
        trusted.append("#[verifier::external_body] pub struct %s { _p: () }" % vn)
        trusted.append("pub uninterp spec fn disp_%s(v: %s) -> Seq<char>;" % (vn, vn))
        trusted.append("impl VxDisplay for %s { open spec fn display_spec(&self) -> Seq<char> { disp_%s(*self) } }" % (vn, vn))
    trusted.append("impl VxDisplay for bool { open spec fn display_spec(&self) -> Seq<char> { bool_text(*self) } }")
    for vty in sorted(parse_types):
        if not vty.startswith("VxT_"):
            continue
        trusted.append("/// `%s: FromStr`: an uninterpreted relation between a text and the value it is read as, and the texts it rejects" % opaque[vty])
        trusted.append("pub uninterp spec fn parse_rel_%s(s: Seq<char>, v: %s) -> bool;" % (vty, vty))
        trusted.append("pub uninterp spec fn parse_err_%s(s: Seq<char>) -> bool;" % vty)
        trusted.append("impl VxFromStr for %s {" % vty)
        trusted.append("    type VxErr = VxOpaqueErr;")
        trusted.append("    open spec fn parse_rel(s: Seq<char>, v: %s) -> bool { parse_rel_%s(s, v) }" % (vty, vty))
        trusted.append("    open spec fn parse_err(s: Seq<char>) -> bool { parse_err_%s(s) }" % vty)
        trusted.append("    #[verifier::external_body] fn vx_from_str(s: &str) -> (r: Result<%s, VxOpaqueErr>) { unimplemented!() }" % vty)
        trusted.append("}")
    for dfn, vty in sorted(de_specs.items()):
        trusted.append("/// custom deserializer: an uninterpreted relation between the field text and the value, and the texts it rejects")
        if dfn in defined_de and defined_de[dfn][0] == vty:
            relk, errk = DE_KINDS[defined_de[dfn][1]]
            trusted.append("// defined: the contract below is the one the REAL function is verified against in unit serde16 (kind %s)" % defined_de[dfn][1])
            trusted.append("pub open spec fn %s_rel(s: Seq<char>, v: %s) -> bool { %s }" % (dfn, vty, relk("s", "v")))
            trusted.append("pub open spec fn %s_err(s: Seq<char>) -> bool { %s }" % (dfn, errk("s")))
        else:
            trusted.append("pub uninterp spec fn %s_rel(s: Seq<char>, v: %s) -> bool;" % (dfn, vty))
            trusted.append("pub uninterp spec fn %s_err(s: Seq<char>) -> bool;" % dfn)
        trusted.append("#[verifier::external_body] pub fn stub_%s(s: &String) -> (r: Result<%s, VxOpaqueErr>)" % (dfn, vty))
        trusted.append("    ensures match r { Ok(v) => %s_rel(s@, v) && !%s_err(s@), Err(_) => %s_err(s@) }" % (dfn, dfn, dfn))
        trusted.append("{ unimplemented!() }")
    for sfn, vty in sorted(ser_specs.items()):
        trusted.append("/// custom serializer: an uninterpreted function of the field value; ASSUMED deterministic")
        if sfn in defined_ser and defined_ser[sfn][0] == vty:
            trusted.append("// defined: the contract below is the one the REAL function is verified against in unit serde16 (kind %s)" % defined_ser[sfn][1])
            trusted.append("pub open spec fn %s(v: %s) -> Seq<char> { %s }" % (sfn, vty, SER_KINDS[defined_ser[sfn][1]]("v")))
        else:
            trusted.append("pub uninterp spec fn %s(v: %s) -> Seq<char>;" % (sfn, vty))
        trusted.append("#[verifier::external_body] pub fn stub_%s(v: &%s) -> (r: String) ensures r@ == %s(*v) { unimplemented!() }" % (sfn, vty, sfn))
    spec += body

    unit = {
        "name": UNIT,
        "generated_by": "tools/gen_derive.py (rewritten on every run from /repo)",
        "prelude": ["base.rs", "str_model.rs", "fmt_model.rs", "strops_model.rs", "strext_model.rs", "int_model.rs", "iter_model.rs", "join_model.rs", "list_model.rs", "derive_model.rs"],
        "spec": ["../common/ws_lemmas.rs", "../common/wordlist.rs", "../serde16/spec.rs", "ops_spec.rs", "gen_trusted.rs", "gen_spec.rs"],
        "trusted_spec": ["gen_trusted.rs"],
        "smt_options": ["smt.case_split=0"],
        "preamble": ["pub mod deb822_lossless { pub mod convert { pub use crate::Deb822LikeParagraph; } }"],
        "method_map": {"to_string": "vx_to_string:&"},
        "call_map": {"ToString::to_string": "vx_to_string", "std::str::FromStr::from_str": "vx_parse_string"},
        "derive_from": True,
        "type_map": dict(sorted(type_map.items())),
        "chain_map": [{"chain": ".into_iter().collect()", "fn": "vx_collect_para"}],
        "sources": sources,
        "contracts": ["gen.vspec"],
        "rlimit": 200,
    }
    out = os.path.join(VERIF, "units", UNIT)
    os.makedirs(out, exist_ok=True)
    json.dump(unit, open(os.path.join(out, "unit.json"), "w"), indent=1)
    open(os.path.join(out, "gen_spec.rs"), "w").write("\n".join(spec) + "\n")
    open(os.path.join(out, "gen_trusted.rs"), "w").write("\n".join(trusted) + "\n")
    open(os.path.join(out, "gen.vspec"), "w").write("\n".join(vspec) + "\n")
    json.dump({"structs": cover, "fields_total": sum(c["fields"] for c in cover), "codec_pairs": pair_report}, open(os.path.join(out, "coverage.json"), "w"), indent=1)
    # unit serde16: the contracts of the real custom functions, from the same table
    sv = ["// GENERATED by tools/gen_derive.py from units/serde16/table.json - do not edit", ""]
    for f in serde_fns:
        sv += ["@item %s/%s" % (f["mod"], f["fn"]), "@spec", "    ensures " + SERDE_CONTRACT[(f["role"], f["kind"])].replace("P", f["param"]) + ",", ""]
    if UNIT == "derive16":
        open(os.path.join(VERIF, "units", "serde16", "contracts.vspec"), "w").write("\n".join(sv))
    if WRITE_WIT:
        open(os.path.join(VERIF, "tools", "witness", "src", "gen_c16.rs"), "w").write(harness_table(structs))
    print("gen_derive: %d structs, %d fields" % (len(cover), sum(c["fields"] for c in cover)))


if __name__ == "__main__":
    main()
