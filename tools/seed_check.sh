#!/bin/bash
# seed_check.sh <prop> <patch.diff> : apply a seeded change to /repo, run the property's quick check, undo the change.
prop=$1; patch=$2
cd /repo || exit 3
if ! git diff --quiet; then echo "repo dirty"; exit 3; fi
git apply "$patch" || { echo "patch does not apply"; exit 3; }
cd /verif && out=$(bin/vcheck $prop 2>/dev/null); e=$?
git -C /repo checkout -- .
echo "$out" | grep -v "^KNOWN-FINDING" | cut -c1-220
echo "exit=$e"
