#!/usr/bin/env python3
"""virspec.py <crate.vir> <name-substring>... : print requires/ensures of imported functions, compactly."""
import sys, re

def tokenize(s):
    return re.findall(r'\(|\)|"(?:[^"\\]|\\.)*"|[^\s()]+', s)

def parse(tokens, i=0):
    out = []
    while i < len(tokens):
        t = tokens[i]
        if t == '(':
            sub, i = parse(tokens, i + 1)
            out.append(sub)
        elif t == ')':
            return out, i + 1
        else:
            out.append(t); i += 1
    return out, i

def kw(l, key):
    for j, x in enumerate(l):
        if x == key and j + 1 < len(l):
            return l[j + 1]
    return None

def path_of(x):
    # (Fun :path a::b)
    if isinstance(x, list):
        p = kw(x, ':path')
        if p: return p
        for y in x:
            r = path_of(y)
            if r: return r
    return None

def show(e):
    if not isinstance(e, list):
        return e
    if not e: return '()'
    h = e[0]
    if h == '>':
        return show(e[1:])
    if h == 'Call':
        tgt = kw(e, ':target'); args = kw(e, ':args') or []
        name = None
        if isinstance(tgt, list):
            # prefer the unresolved trait fn name (second Fun) if DynamicResolved, else first
            funs = []
            def walk(x):
                if isinstance(x, list):
                    if x and x[0] == 'Fun': funs.append(kw(x, ':path'))
                    for y in x: walk(y)
            walk(tgt)
            name = funs[-1] if funs else '?'
        name = re.sub(r'^vstd::[a-z_]+::', '', name or '?')
        return '%s(%s)' % (name, ', '.join(show(a) for a in args))
    if h in ('ReadPlace',):
        return show(e[1])
    if h == 'Place':
        if e[1] == 'Local': return show(e[2])
        if e[1] == 'Field':
            f = kw(e[2], ':field'); return '%s.%s' % (show(e[3]), f.strip('"'))
        if e[1] == 'DerefMut' or e[1]=='Temporary': return show(e[2])
        return 'Place<%s>' % ' '.join(show(x) for x in e[1:])
    if h == 'VarIdent':
        return e[1].strip('"')
    if h == 'Var':
        return show(e[1])
    if h == 'Const':
        c = e[1]
        if isinstance(c, list) and c[0] == 'Constant': return ' '.join(str(x) for x in c[2:]) or str(c[1])
        return show(c)
    if h == 'Binary':
        op = show(e[1]); return '(%s %s %s)' % (show(e[2]), op, show(e[3]))
    if h == 'BinaryOpr':
        op = e[1][1] if isinstance(e[1], list) else e[1]
        return '(%s %s %s)' % (show(e[2]), {'ExtEq':'=~='}.get(op, op), show(e[3]))
    if h == 'Unary':
        return '%s(%s)' % (show(e[1]), show(e[2]))
    if h == 'UnaryOpr':
        return '%s(%s)' % (show(e[1]), show(e[2]))
    if h == 'Quant':
        return 'Q[%s]{%s}' % (show(e[1]), ' '.join(show(x) for x in e[2:]))
    if h == 'Block':
        return ' ; '.join(show(x) for x in e[1:] if x != [])
    if h == 'Logical':
        op = e[1][1] if isinstance(e[1], list) else e[1]
        return '(%s %s %s)' % (show(e[2]), {'And':'&&','Or':'||','Implies':'==>'}.get(op, op), show(e[3]))
    if h == 'If':
        return 'if %s {%s} else {%s}' % (show(e[1]), show(e[2]), show(e[3]) if len(e)>3 else '')
    if h in ('Arith','Inequality','Ineq','And','Or','Implies','Eq','Ne','Not','Clip','Lt','Le','Gt','Ge','Add','Sub','Mul'):
        return ' '.join([h] + [show(x) for x in e[1:] if not (isinstance(x,list) and x and x[0] in ('Mode',))])
    return '(' + ' '.join(show(x) for x in e) + ')'

def main():
    txt = open(sys.argv[1]).read()
    pats = sys.argv[2:]
    # split into top-level forms starting with "(Function"
    for m in re.finditer(r'^\(Function\n', txt, re.M):
        start = m.start()
        # find matching paren
        depth = 0; i = start; instr = False
        while i < len(txt):
            c = txt[i]
            if instr:
                if c == '\\': i += 1
                elif c == '"': instr = False
            else:
                if c == '"': instr = True
                elif c == '(':
                    depth += 1
                elif c == ')':
                    depth -= 1
                    if depth == 0: break
            i += 1
        block = txt[start:i+1]
        head = block[:300]
        pm = re.search(r':path (\S+?)\)', head)
        name = pm.group(1) if pm else '?'
        if not any(p in name for p in pats):
            continue
        tree, _ = parse(tokenize(block))
        f = tree[0]
        params = kw(f, ':params') or []
        ps = []
        for p in params:
            n = kw(p, ':name'); ps.append(show(n))
        ret = kw(f, ':ret'); rn = show(kw(ret, ':name')) if ret else ''
        print('fn %s(%s) -> %s   [mode %s]' % (name, ', '.join(ps), rn, kw(f, ':mode')))
        for key in (':require', ':ensure', ':returns', ':decrease'):
            v = kw(f, key)
            if isinstance(v, list):
                # ensure may be ((..) (..)) pair in newer versions
                for x in v:
                    if isinstance(x, list) and x and isinstance(x[0], list) and x[0] and x[0][0] == '>':
                        for y in x: print('   %s %s' % (key[1:], show(y)))
                    elif isinstance(x, list):
                        print('   %s %s' % (key[1:], show(x)))
        b = kw(f, ':body')
        if isinstance(b, list) and kw(f, ':mode') == 'Spec':
            print('   body ' + show(b))
        print()
main()
