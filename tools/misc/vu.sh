#!/bin/bash
# vu.sh <unit> [repo] : extract a unit and run verus on it, human-readable errors (development helper)
u=$1; repo=${2:-/repo}
mkdir -p /verif/build/dev
${VX:-/verif/tools/vx/target/release/vx} $repo /verif/units/$u /verif/prelude /verif/build/dev/$u.rs /verif/build/dev/$u.map.json || exit 3
rl=$(python3 -c "import json;print(json.load(open('/verif/units/$u/unit.json')).get('rlimit',30))")
so=$(python3 -c "import json;print(' '.join('--smt-option '+o for o in json.load(open('/verif/units/$u/unit.json')).get('smt_options',[])))")
cd /verif/build/dev && verus $u.rs $so --rlimit $rl --multiple-errors 20 --time 2>&1 | grep -v "^note: \|^$" | head -${VU_LINES:-100000}
