#!/bin/bash
# seed_confirm.sh <prop> <i> : in the scratch worktree /tmp/seed_<prop>, confirm that mutant i
#   compiles, keeps the whole existing suite green, and that its demo fails with / passes without the patch.
# The demo's destination is read from the "cp out/m<i>/demo_test.rs <dest>" line in its header comment.
prop=$1; i=$2; wt=/tmp/seed_$prop; d=$wt/out/m$i
cd $wt || exit 3
export CARGO_TARGET_DIR=$wt/target
git checkout -q -- . ; 
dest=$(grep -o "cp out/m$i/demo_test.rs [^ ]*" $d/demo_test.rs | head -1 | awk '{print $3}')
pkg=$(grep -o "cargo test --offline \(-p [a-z0-9-]* \)\?--test [a-z0-9_]*" $d/demo_test.rs | head -1)
[ -z "$dest" ] && { echo "no dest"; exit 3; }
mkdir -p $(dirname $dest); cp $d/demo_test.rs $dest
timeout 600 $pkg >/tmp/sc_clean.log 2>&1; clean=$?
git apply $d/patch.diff || { echo "patch fails"; exit 3; }
timeout 600 $pkg >/tmp/sc_mut.log 2>&1; mut=$?
rm -f $dest; rmdir $(dirname $dest) 2>/dev/null
timeout 1200 cargo test --workspace --offline >/tmp/sc_suite.log 2>&1; suite=$?
nf=$(grep -E "^test result" /tmp/sc_suite.log | awk '{p+=$4; f+=$6} END {print p" passed "f" failed"}')
git checkout -q -- .
echo "$prop m$i: demo_clean_exit=$clean demo_mutant_exit=$mut suite_exit=$suite ($nf)"
[ $clean -eq 0 ] && [ $mut -ne 0 ] && [ $suite -eq 0 ]
