#!/bin/bash
# expand.sh : ask rustc to expand the macros of the crates that derive FromDeb822 / ToDeb822 (the code the derive macro
# really generates for the shipped structs), from /repo's current working tree, into build/expanded/<crate>.rs.
# Uses the nightly toolchain installed in the sandbox (-Zunpretty=expanded); offline.
repo=${VERIF_REPO:-/repo}
out=/verif/build/expanded
mkdir -p $out
cd $repo || exit 3
rc=0
for p in debian-control debian-copyright dep3 apt-sources; do
  if ! CARGO_TARGET_DIR=/verif/build/expand-target CARGO_NET_OFFLINE=true cargo +nightly rustc --offline -p $p --lib -- -Zunpretty=expanded > $out/$p.rs.tmp 2> $out/$p.err; then
    echo "expand.sh: $p does not compile (see $out/$p.err)" >&2; rc=3
  else
    mv $out/$p.rs.tmp $out/$p.rs
  fi
done
exit $rc
