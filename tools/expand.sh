#!/bin/bash
# expand.sh : ask rustc to expand the macros of the crates that derive FromDeb822 / ToDeb822 (the code the derive macro
# really generates for the shipped structs), from /repo's current working tree, into build/expanded/<crate>.rs.
# Uses the nightly toolchain installed in the sandbox (-Zunpretty=expanded); offline.
repo=${VERIF_REPO:-/repo}
out=/verif/build/expanded
mkdir -p $out
cd $repo || exit 3
rc=0
for p in debian-control debian-copyright dep3 apt-sources; do
  if ! CARGO_TARGET_DIR=/verif/build/expand-target CARGO_NET_OFFLINE=true cargo +nightly rustc --offline -p $p --lib -- -Zunpretty=expanded > $out/$p.rs.tmp 2> $out/$p.err; then
    echo "expand.sh: $p does not compile (see $out/$p.err)" >&2; rc=3
  else
    mv $out/$p.rs.tmp $out/$p.rs
  fi
done
# the verification-only crate whose struct covers every field shape the macros distinguish (tools/shapes), expanded by the same
# macros of the tree under test (its dependency is /repo)
cd /verif/tools/shapes || exit 3
if ! CARGO_TARGET_DIR=/verif/build/expand-target CARGO_NET_OFFLINE=true cargo +nightly rustc --offline --lib -- -Zunpretty=expanded > $out/vshapes.rs.tmp 2> $out/vshapes.err; then
  echo "expand.sh: tools/shapes does not compile against the tree under test (see $out/vshapes.err)" >&2; rc=3
else
  mv $out/vshapes.rs.tmp $out/vshapes.rs
fi
exit $rc
