#!/bin/bash
# run the property's quick check against every stored seeded change; write seeded/RESULTS.auto.md (seeded/RESULTS.md is the annotated table kept by hand)
cd /verif
echo "| seed | property | vcheck exit | outcome |" > seeded/RESULTS.auto.md
echo "|------|----------|-------------|---------|" >> seeded/RESULTS.auto.md
for d in seeded/*-m*; do
  id=$(basename $d); prop=${id%%-*}
  out=$(tools/seed_check.sh $prop /verif/$d/patch.diff 2>&1); e=$(echo "$out" | grep -o "exit=[0-9]*" | tail -1 | cut -d= -f2)
  case $e in 1) o="VIOLATION (detected)";; 2) o="UNDECIDED: $(echo "$out" | grep UNDECIDED | head -1 | cut -c1-140)";; 0) o="missed";; *) o="error";; esac
  echo "| $id | $prop | $e | $o |" >> seeded/RESULTS.auto.md
  echo "$id $e"
done
