#!/usr/bin/env python3
"""seed_import.py <prop> <i> <confirm-line> : copy a confirmed seeded change from /tmp/seed_<prop>/out/m<i> to /verif/seeded/<prop>-m<i>/"""
import json, os, shutil, sys
prop, i, confirm = sys.argv[1], sys.argv[2], sys.argv[3]
src = "/tmp/seed_%s/out/m%s" % (prop, i)
dst = "/verif/seeded/%s-m%s" % (prop, i)
os.makedirs(dst, exist_ok=True)
shutil.copy(src + "/patch.diff", dst + "/patch.diff")
for f in os.listdir(src):
    if f.startswith("demo"):
        shutil.copy(os.path.join(src, f), os.path.join(dst, f))
meta = json.load(open(src + "/meta.json"))
meta["confirmed_by_framework_author"] = confirm
json.dump(meta, open(dst + "/meta.json", "w"), indent=1)
