// ---------------------------------------------------------------------------------------------
// C19: the clauses of the property statement, derived as lemmas from `pgp_spec` (which the real
// function is proved to implement) and from the definition of `lines_of`.
// ---------------------------------------------------------------------------------------------

/// l is one line (contains no LF)
pub open spec fn one_line(l: Seq<char>) -> bool { forall|i: int| 0 <= i < l.len() ==> l[i] != '\n' }
/// l does not end in CR
pub open spec fn no_cr(l: Seq<char>) -> bool { l.len() == 0 || l.last() != '\r' }
pub open spec fn all_one_line(ls: Seq<Seq<char>>) -> bool { forall|i: int| 0 <= i < ls.len() ==> one_line(#[trigger] ls[i]) }
pub open spec fn all_no_cr(ls: Seq<Seq<char>>) -> bool { forall|i: int| 0 <= i < ls.len() ==> no_cr(#[trigger] ls[i]) }

/// the lines of a clear-signed message built from header, payload and signature lines
pub open spec fn msg_lines(h: Seq<Seq<char>>, p: Seq<Seq<char>>, s: Seq<Seq<char>>) -> Seq<Seq<char>> {
    seq![MARKER()] + h + seq![Seq::<char>::empty()] + p + seq![BEGIN_SIG()] + s + seq![END_SIG()]
}

/// domain of the statement: payload lines need no dash-escaping, header lines are non-empty,
/// signature lines are not the end marker
pub open spec fn valid_parts(h: Seq<Seq<char>>, p: Seq<Seq<char>>, s: Seq<Seq<char>>) -> bool {
    &&& all_one_line(h) && all_one_line(p) && all_one_line(s)
    &&& forall|i: int| 0 <= i < h.len() ==> (#[trigger] h[i]).len() > 0
    &&& forall|i: int| 0 <= i < p.len() ==> ((#[trigger] p[i]).len() == 0 || p[i][0] != '-')
    &&& forall|i: int| 0 <= i < s.len() ==> #[trigger] s[i] != END_SIG()
}

// ---- str::lines on LF-terminated text -----------------------------------------------------------

pub proof fn lemma_first_nl(l: Seq<char>, rest: Seq<char>)
    requires one_line(l)
    ensures first_nl(l + seq!['\n'] + rest) == l.len()
    decreases l.len()
{
    let t = l + seq!['\n'] + rest;
    if l.len() == 0 {
        assert(t[0] == '\n');
    } else {
        assert(t[0] == l[0]);
        assert(t.skip(1) =~= l.skip(1) + seq!['\n'] + rest);
        assert(one_line(l.skip(1))) by {
            assert forall|i: int| 0 <= i < l.skip(1).len() implies l.skip(1)[i] != '\n' by { assert(l.skip(1)[i] == l[i + 1]); }
        }
        lemma_first_nl(l.skip(1), rest);
    }
}

pub proof fn lemma_join_lf_front(ls: Seq<Seq<char>>)
    requires ls.len() > 0
    ensures join_lf(ls) == ls[0] + seq!['\n'] + join_lf(ls.skip(1))
    decreases ls.len()
{
    if ls.len() == 1 {
        assert(ls.drop_last() =~= Seq::<Seq<char>>::empty());
        assert(ls.skip(1) =~= Seq::<Seq<char>>::empty());
        assert(join_lf(ls.drop_last()) =~= Seq::<char>::empty());
        assert(join_lf(ls) =~= ls[0] + seq!['\n'] + join_lf(ls.skip(1)));
    } else {
        lemma_join_lf_front(ls.drop_last());
        assert(ls.drop_last().skip(1) =~= ls.skip(1).drop_last());
        assert(ls.skip(1).last() == ls.last());
        assert(ls.drop_last()[0] == ls[0]);
        assert(join_lf(ls) =~= ls[0] + seq!['\n'] + join_lf(ls.skip(1)));
    }
}

/// str::lines of LF-terminated text: the lines, each with one trailing CR dropped
pub proof fn lemma_lines_of_join(ls: Seq<Seq<char>>)
    requires all_one_line(ls)
    ensures lines_of(join_lf(ls)) == ls.map_values(|l: Seq<char>| strip_cr(l))
    decreases ls.len()
{
    let f = |l: Seq<char>| strip_cr(l);
    if ls.len() == 0 {
        assert(lines_of(join_lf(ls)) =~= ls.map_values(f));
    } else {
        lemma_join_lf_front(ls);
        let rest = join_lf(ls.skip(1));
        let t = ls[0] + seq!['\n'] + rest;
        assert(one_line(ls[0]));
        lemma_first_nl(ls[0], rest);
        assert(t.len() > 0);
        assert(t.take(ls[0].len() as int) =~= ls[0]);
        assert(t.skip(ls[0].len() as int + 1) =~= rest);
        assert(all_one_line(ls.skip(1))) by {
            assert forall|i: int| 0 <= i < ls.skip(1).len() implies one_line(#[trigger] ls.skip(1)[i]) by { assert(ls.skip(1)[i] == ls[i + 1]); }
        }
        lemma_lines_of_join(ls.skip(1));
        assert(lines_of(t) == seq![strip_cr(ls[0])] + lines_of(rest));
        assert(seq![strip_cr(ls[0])] + ls.skip(1).map_values(f) =~= ls.map_values(f));
    }
}

pub proof fn lemma_lines_of_join_no_cr(ls: Seq<Seq<char>>)
    requires all_one_line(ls), all_no_cr(ls)
    ensures lines_of(join_lf(ls)) == ls
{
    lemma_lines_of_join(ls);
    assert(ls.map_values(|l: Seq<char>| strip_cr(l)) =~= ls);
}

// ---- clause 1: a well-formed message unwraps to exactly its payload and signature ---------------

pub proof fn lemma_markers()
    ensures
        MARKER().len() == 34, MARKER()[0] == '-',
        BEGIN_SIG().len() == 29, BEGIN_SIG()[0] == '-',
        END_SIG().len() == 27, END_SIG()[0] == '-',
        MARKER() != BEGIN_SIG(), MARKER() != END_SIG(), BEGIN_SIG() != END_SIG(),
        one_line(MARKER()), one_line(BEGIN_SIG()), one_line(END_SIG()),
        no_cr(MARKER()), no_cr(BEGIN_SIG()), no_cr(END_SIG()),
{
    reveal_strlit("-----BEGIN PGP SIGNED MESSAGE-----");
    reveal_strlit("-----BEGIN PGP SIGNATURE-----");
    reveal_strlit("-----END PGP SIGNATURE-----");
}

pub proof fn lemma_spec_on_message(h: Seq<Seq<char>>, p: Seq<Seq<char>>, s: Seq<Seq<char>>)
    requires valid_parts(h, p, s)
    ensures pgp_spec(msg_lines(h, p, s)) == PgpOut::Signed(join_lf(p), concat(s))
{
    lemma_markers();
    let m = msg_lines(h, p, s);
    let hl = h.len() as int; let pl = p.len() as int; let sl = s.len() as int;
    assert(m.len() == hl + pl + sl + 4);
    assert(m[0] == MARKER());
    assert(forall|x: int| 1 <= x <= hl ==> m[x] == h[x - 1]);
    assert(m[hl + 1] == Seq::<char>::empty());
    assert(forall|x: int| hl + 2 <= x < hl + 2 + pl ==> m[x] == p[x - hl - 2]);
    assert(m[hl + 2 + pl] == BEGIN_SIG());
    assert(forall|x: int| hl + 3 + pl <= x < hl + 3 + pl + sl ==> m[x] == s[x - hl - 3 - pl]);
    assert(m[hl + 3 + pl + sl] == END_SIG());
    assert forall|x: int| 1 <= x < hl + 1 implies m[x] != Seq::<char>::empty() by { assert(h[x - 1].len() > 0); }
    lemma_find_line_is(m, 1, hl + 1, Seq::empty());
    assert forall|x: int| hl + 2 <= x < hl + 2 + pl implies m[x] != BEGIN_SIG() by {
        let l = p[x - hl - 2];
        if l.len() > 0 { assert(l[0] != '-'); }
    }
    lemma_find_line_is(m, hl + 2, hl + 2 + pl, BEGIN_SIG());
    lemma_find_line_is(m, hl + 3 + pl, hl + 3 + pl + sl, END_SIG());
    assert(m.subrange(hl + 2, hl + 2 + pl) =~= p);
    assert(m.subrange(hl + 3 + pl, hl + 3 + pl + sl) =~= s);
}

/// STATEMENT clause 1 (payload and signature lines without trailing CR):
/// unwrapping the text of a well-formed message returns exactly the payload text and the
/// concatenated signature lines.
pub proof fn theorem_wrapped_message(h: Seq<Seq<char>>, p: Seq<Seq<char>>, s: Seq<Seq<char>>, r: Result<(String, Option<String>), Error>)
    requires
        valid_parts(h, p, s), all_no_cr(h), all_no_cr(p), all_no_cr(s),
        pgp_result_ok(join_lf(msg_lines(h, p, s)), r),
    ensures
        r is Ok, r->Ok_0.0@ == join_lf(p), r->Ok_0.1 is Some, r->Ok_0.1->Some_0@ == concat(s),
{
    lemma_markers();
    let m = msg_lines(h, p, s);
    assert(all_one_line(m) && all_no_cr(m)) by {
        assert forall|i: int| 0 <= i < m.len() implies one_line(#[trigger] m[i]) && no_cr(m[i]) by {
            let hl = h.len() as int; let pl = p.len() as int; let sl = s.len() as int;
            if i == 0 {} else if i <= hl { assert(m[i] == h[i - 1]); }
            else if i == hl + 1 {}
            else if i < hl + 2 + pl { assert(m[i] == p[i - hl - 2]); }
            else if i == hl + 2 + pl {}
            else if i < hl + 3 + pl + sl { assert(m[i] == s[i - hl - 3 - pl]); }
            else {}
        }
    }
    lemma_lines_of_join_no_cr(m);
    lemma_spec_on_message(h, p, s);
}

/// STATEMENT clause 1 exactly as worded: *any* payload of LF-terminated lines without leading '-'.
/// (No restriction on trailing CR.)  Expected to FAIL on the pinned tree: see known-findings.txt.
pub proof fn theorem_wrapped_message_any_payload(h: Seq<Seq<char>>, p: Seq<Seq<char>>, s: Seq<Seq<char>>, r: Result<(String, Option<String>), Error>)
    requires
        valid_parts(h, p, s), all_no_cr(h), all_no_cr(s),
        pgp_result_ok(join_lf(msg_lines(h, p, s)), r),
    ensures
        r is Ok ==> r->Ok_0.0@ == join_lf(p),
{
    lemma_markers();
    let m = msg_lines(h, p, s);
    lemma_spec_on_message(h, p, s);
    if all_one_line(m) { lemma_lines_of_join(m); }
}

// ---- clause 2: text whose first line is not the marker is returned unchanged -----------------

pub proof fn theorem_not_signed(input: Seq<char>, r: Result<(String, Option<String>), Error>)
    requires
        lines_of(input).len() == 0 || lines_of(input)[0] != MARKER(),
        pgp_result_ok(input, r),
    ensures r is Ok, r->Ok_0.0@ == input, r->Ok_0.1 is None,
{
}

// ---- clause 3: every truncation after a line yields the matching error -------------------------

pub open spec fn truncation_error(hl: int, pl: int, n: int) -> Error {
    if n <= hl + 1 { Error::MissingPayload }
    else if n <= hl + 2 + pl { Error::MissingPgpSignature }
    else { Error::TruncatedPgpSignature }
}

pub proof fn theorem_truncated(h: Seq<Seq<char>>, p: Seq<Seq<char>>, s: Seq<Seq<char>>, n: int, r: Result<(String, Option<String>), Error>)
    requires
        valid_parts(h, p, s), all_no_cr(h), all_no_cr(p), all_no_cr(s),
        1 <= n < msg_lines(h, p, s).len(),
        pgp_result_ok(join_lf(msg_lines(h, p, s).take(n)), r),
    ensures
        r is Err, r->Err_0 == truncation_error(h.len() as int, p.len() as int, n),
{
    lemma_markers();
    let m = msg_lines(h, p, s);
    let hl = h.len() as int; let pl = p.len() as int; let sl = s.len() as int;
    assert(m.len() == hl + pl + sl + 4);
    assert(m[0] == MARKER());
    assert(forall|x: int| 1 <= x <= hl ==> m[x] == h[x - 1]);
    assert(m[hl + 1] == Seq::<char>::empty());
    assert(forall|x: int| hl + 2 <= x < hl + 2 + pl ==> m[x] == p[x - hl - 2]);
    assert(m[hl + 2 + pl] == BEGIN_SIG());
    assert(forall|x: int| hl + 3 + pl <= x < hl + 3 + pl + sl ==> m[x] == s[x - hl - 3 - pl]);
    let t = m.take(n);
    assert(forall|x: int| 0 <= x < n ==> t[x] == m[x]);
    assert(all_one_line(t) && all_no_cr(t)) by {
        assert forall|i: int| 0 <= i < t.len() implies one_line(#[trigger] t[i]) && no_cr(t[i]) by {
            if i == 0 {} else if i <= hl { assert(m[i] == h[i - 1]); }
            else if i == hl + 1 {}
            else if i < hl + 2 + pl { assert(m[i] == p[i - hl - 2]); }
            else if i == hl + 2 + pl {}
            else if i < hl + 3 + pl + sl { assert(m[i] == s[i - hl - 3 - pl]); }
            else {}
        }
    }
    lemma_lines_of_join_no_cr(t);
    assert forall|x: int| 1 <= x < hl + 1 && x < n implies t[x] != Seq::<char>::empty() by { assert(h[x - 1].len() > 0); }
    if n <= hl + 1 {
        lemma_find_line_none(t, 1, Seq::empty());
    } else {
        lemma_find_line_is(t, 1, hl + 1, Seq::empty());
        assert forall|x: int| hl + 2 <= x < hl + 2 + pl && x < n implies t[x] != BEGIN_SIG() by {
            let l = p[x - hl - 2];
            if l.len() > 0 { assert(l[0] != '-'); }
        }
        if n <= hl + 2 + pl {
            lemma_find_line_none(t, hl + 2, BEGIN_SIG());
        } else {
            lemma_find_line_is(t, hl + 2, hl + 2 + pl, BEGIN_SIG());
            lemma_find_line_none(t, hl + 3 + pl, END_SIG());
        }
    }
}

// ---- clause 4: extra lines after the end marker yield the junk error ---------------------------

pub proof fn theorem_junk(h: Seq<Seq<char>>, p: Seq<Seq<char>>, s: Seq<Seq<char>>, x: Seq<Seq<char>>, r: Result<(String, Option<String>), Error>)
    requires
        valid_parts(h, p, s), all_no_cr(h), all_no_cr(p), all_no_cr(s),
        x.len() > 0, all_one_line(x), all_no_cr(x),
        pgp_result_ok(join_lf(msg_lines(h, p, s) + x), r),
    ensures
        r is Err, r->Err_0 == Error::JunkAfterPgpSignature,
{
    lemma_markers();
    let m = msg_lines(h, p, s);
    let hl = h.len() as int; let pl = p.len() as int; let sl = s.len() as int;
    assert(m.len() == hl + pl + sl + 4);
    assert(m[0] == MARKER());
    assert(forall|y: int| 1 <= y <= hl ==> m[y] == h[y - 1]);
    assert(m[hl + 1] == Seq::<char>::empty());
    assert(forall|y: int| hl + 2 <= y < hl + 2 + pl ==> m[y] == p[y - hl - 2]);
    assert(m[hl + 2 + pl] == BEGIN_SIG());
    assert(forall|y: int| hl + 3 + pl <= y < hl + 3 + pl + sl ==> m[y] == s[y - hl - 3 - pl]);
    assert(m[hl + 3 + pl + sl] == END_SIG());
    let t = m + x;
    assert(forall|y: int| 0 <= y < m.len() ==> t[y] == m[y]);
    assert(forall|y: int| m.len() <= y < t.len() ==> t[y] == x[y - m.len()]);
    assert(all_one_line(t) && all_no_cr(t)) by {
        assert forall|i: int| 0 <= i < t.len() implies one_line(#[trigger] t[i]) && no_cr(t[i]) by {
            if i == 0 {} else if i <= hl { assert(m[i] == h[i - 1]); }
            else if i == hl + 1 {}
            else if i < hl + 2 + pl { assert(m[i] == p[i - hl - 2]); }
            else if i == hl + 2 + pl {}
            else if i < hl + 3 + pl + sl { assert(m[i] == s[i - hl - 3 - pl]); }
            else if i == hl + 3 + pl + sl {}
            else { assert(t[i] == x[i - m.len()]); }
        }
    }
    lemma_lines_of_join_no_cr(t);
    assert forall|y: int| 1 <= y < hl + 1 implies t[y] != Seq::<char>::empty() by { assert(h[y - 1].len() > 0); }
    lemma_find_line_is(t, 1, hl + 1, Seq::empty());
    assert forall|y: int| hl + 2 <= y < hl + 2 + pl implies t[y] != BEGIN_SIG() by {
        let l = p[y - hl - 2];
        if l.len() > 0 { assert(l[0] != '-'); }
    }
    lemma_find_line_is(t, hl + 2, hl + 2 + pl, BEGIN_SIG());
    lemma_find_line_is(t, hl + 3 + pl, hl + 3 + pl + sl, END_SIG());
}
