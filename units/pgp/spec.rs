// ---------------------------------------------------------------------------------------------
// C19 specification, written from the property statement (not from the code).
//
// A clear-signed message is the line sequence
//     [MARKER] ++ H ++ [""] ++ P ++ [BEGIN_SIG] ++ S ++ [END_SIG]
// H = armour header lines (non-empty), P = payload lines, S = signature lines.
// ---------------------------------------------------------------------------------------------

pub open spec fn MARKER() -> Seq<char> { "-----BEGIN PGP SIGNED MESSAGE-----"@ }
pub open spec fn BEGIN_SIG() -> Seq<char> { "-----BEGIN PGP SIGNATURE-----"@ }
pub open spec fn END_SIG() -> Seq<char> { "-----END PGP SIGNATURE-----"@ }

/// every line followed by LF
pub open spec fn join_lf(ls: Seq<Seq<char>>) -> Seq<char>
    decreases ls.len()
{
    if ls.len() == 0 { Seq::empty() } else { join_lf(ls.drop_last()) + ls.last() + seq!['\n'] }
}

/// plain concatenation
pub open spec fn concat(ls: Seq<Seq<char>>) -> Seq<char>
    decreases ls.len()
{
    if ls.len() == 0 { Seq::empty() } else { concat(ls.drop_last()) + ls.last() }
}

/// index of the first line equal to x at or after `from`; ls.len() if there is none
pub open spec fn find_line(ls: Seq<Seq<char>>, from: int, x: Seq<char>) -> int
    decreases ls.len() - from
{
    if from >= ls.len() { ls.len() as int }
    else if from >= 0 && ls[from] == x { from }
    else { find_line(ls, from + 1, x) }
}

pub enum PgpOut {
    NotSigned,
    Signed(Seq<char>, Seq<char>),
    Failed(Error),
}

/// what unwrapping must return, as a function of the lines of the text
pub open spec fn pgp_spec(ls: Seq<Seq<char>>) -> PgpOut {
    if ls.len() == 0 || ls[0] != MARKER() {
        PgpOut::NotSigned
    } else {
        let i = find_line(ls, 1, Seq::empty());
        if i >= ls.len() { PgpOut::Failed(Error::MissingPayload) } else {
            let j = find_line(ls, i + 1, BEGIN_SIG());
            if j >= ls.len() { PgpOut::Failed(Error::MissingPgpSignature) } else {
                let k = find_line(ls, j + 1, END_SIG());
                if k >= ls.len() { PgpOut::Failed(Error::TruncatedPgpSignature) }
                else if k + 1 < ls.len() { PgpOut::Failed(Error::JunkAfterPgpSignature) }
                else { PgpOut::Signed(join_lf(ls.subrange(i + 1, j)), concat(ls.subrange(j + 1, k))) }
            }
        }
    }
}

/// the function's result agrees with the specification
pub open spec fn pgp_result_ok(input: Seq<char>, r: Result<(String, Option<String>), Error>) -> bool {
    match pgp_spec(lines_of(input)) {
        PgpOut::NotSigned => r is Ok && r->Ok_0.0@ == input && r->Ok_0.1 is None,
        PgpOut::Signed(p, s) => r is Ok && r->Ok_0.0@ == p && r->Ok_0.1 is Some && r->Ok_0.1->Some_0@ == s,
        PgpOut::Failed(e) => r is Err && r->Err_0 == e,
    }
}

// ---- facts about find_line ------------------------------------------------------------------

pub proof fn lemma_find_line_bounds(ls: Seq<Seq<char>>, from: int, x: Seq<char>)
    requires 0 <= from
    ensures
        from <= find_line(ls, from, x) || find_line(ls, from, x) == ls.len(),
        find_line(ls, from, x) <= ls.len(),
        find_line(ls, from, x) < ls.len() ==> ls[find_line(ls, from, x)] == x,
        forall|m: int| from <= m < find_line(ls, from, x) && m < ls.len() ==> ls[m] != x,
    decreases ls.len() - from
{
    if from >= ls.len() {
    } else if ls[from] == x {
    } else {
        lemma_find_line_bounds(ls, from + 1, x);
    }
}

/// stepping over a non-matching line
pub proof fn lemma_find_line_step(ls: Seq<Seq<char>>, from: int, x: Seq<char>)
    requires 0 <= from < ls.len(), ls[from] != x
    ensures find_line(ls, from, x) == find_line(ls, from + 1, x)
{
}

/// a match at `at` with none before it
pub proof fn lemma_find_line_is(ls: Seq<Seq<char>>, from: int, at: int, x: Seq<char>)
    requires
        0 <= from <= at < ls.len(),
        ls[at] == x,
        forall|m: int| from <= m < at ==> ls[m] != x,
    ensures find_line(ls, from, x) == at
    decreases at - from
{
    if from < at {
        lemma_find_line_is(ls, from + 1, at, x);
    }
}

/// no match at all
pub proof fn lemma_find_line_none(ls: Seq<Seq<char>>, from: int, x: Seq<char>)
    requires
        0 <= from,
        forall|m: int| from <= m < ls.len() ==> ls[m] != x,
    ensures find_line(ls, from, x) == ls.len()
    decreases ls.len() - from
{
    if from < ls.len() {
        lemma_find_line_none(ls, from + 1, x);
    }
}

pub proof fn lemma_join_lf_push(ls: Seq<Seq<char>>, a: int, c: int)
    requires 0 <= a <= c < ls.len()
    ensures
        join_lf(ls.subrange(a, c + 1)) == join_lf(ls.subrange(a, c)) + ls[c] + seq!['\n'],
        concat(ls.subrange(a, c + 1)) == concat(ls.subrange(a, c)) + ls[c],
{
    assert(ls.subrange(a, c + 1).drop_last() =~= ls.subrange(a, c));
    assert(ls.subrange(a, c + 1).last() == ls[c]);
}
