// ---------------------------------------------------------------------------------------------
// C14 (round-trip clause): the lossy relation reader as a function of the token sequence.
// ---------------------------------------------------------------------------------------------
pub open spec fn prof_view(p: dc_relations::BuildProfile) -> ProfV {
    match p { dc_relations::BuildProfile::Enabled(s) => (false, s@), dc_relations::BuildProfile::Disabled(s) => (true, s@) }
}
pub open spec fn group_view(g: Seq<dc_relations::BuildProfile>) -> Seq<ProfV> { g.map_values(|p: dc_relations::BuildProfile| prof_view(p)) }
pub open spec fn groups_view(gs: Seq<Vec<dc_relations::BuildProfile>>) -> Seq<Seq<ProfV>> { gs.map_values(|g: Vec<dc_relations::BuildProfile>| group_view(g@)) }
pub open spec fn strs_v(v: Seq<String>) -> Seq<Seq<char>> { strs_view(v) }
pub open spec fn rel_view(r: lossy::Relation) -> RelV {
    RelV {
        name: r.name@,
        archqual: match r.archqual { Some(q) => Some(q@), None => None },
        version: r.version,
        archs: match r.architectures { Some(a) => Some(strs_v(a@)), None => None },
        profiles: groups_view(r.profiles@),
    }
}

pub open spec fn hd(ts: Seq<RTok>, k: SyntaxKind) -> bool { ts.len() > 0 && ts[0].0 == k }
/// eat_whitespace
pub open spec fn r_ws(ts: Seq<RTok>) -> Seq<RTok>
    decreases ts.len()
{
    if hd(ts, WHITESPACE) { r_ws(ts.skip(1)) } else { ts }
}
/// `:qualifier`
pub open spec fn r_archqual(ts: Seq<RTok>) -> Option<(Option<Seq<char>>, Seq<RTok>)> {
    if hd(ts, COLON) {
        if hd(ts.skip(1), IDENT) { Some((Some(ts[1].1), ts.skip(2))) } else { None }
    } else { Some((None, ts)) }
}
/// the operator characters
pub open spec fn r_ops(ts: Seq<RTok>, acc: Seq<char>) -> (Seq<char>, Seq<RTok>)
    decreases ts.len()
{
    if hd(ts, EQUAL) || hd(ts, L_ANGLE) || hd(ts, R_ANGLE) { r_ops(ts.skip(1), acc + ts[0].1) } else { (acc, ts) }
}
/// the version text: IDENT and COLON tokens up to ')'
pub open spec fn r_vtext(ts: Seq<RTok>, acc: Seq<char>) -> Option<(Seq<char>, Seq<RTok>)>
    decreases ts.len()
{
    if ts.len() == 0 || ts[0].0 == R_PARENS { Some((acc, ts)) }
    else if ts[0].0 == IDENT || ts[0].0 == COLON { r_vtext(ts.skip(1), acc + ts[0].1) }
    else { None }
}
/// `(op version)`
pub open spec fn r_version(ts: Seq<RTok>) -> Option<(Option<(dc_relations::VersionConstraint, debversion::Version)>, Seq<RTok>)> {
    if hd(ts, L_PARENS) {
        let o = r_ops(r_ws(ts.skip(1)), Seq::empty());
        match vconstraint_parse(o.0) {
            None => None,
            Some(c) => match r_vtext(r_ws(o.1), Seq::empty()) {
                None => None,
                Some(vt) => match version_parse_spec(vt.0) {
                    None => None,
                    Some(v) => { let t = r_ws(vt.1); if hd(t, R_PARENS) { Some((Some((c, v)), t.skip(1))) } else { None } }
                }
            }
        }
    } else { Some((None, ts)) }
}
/// the architecture names up to ']'
pub open spec fn r_archs(ts: Seq<RTok>, acc: Seq<Seq<char>>) -> Option<(Seq<Seq<char>>, Seq<RTok>)>
    decreases ts.len()
{
    if ts.len() == 0 { None }
    else if ts[0].0 == IDENT { r_archs(ts.skip(1), acc.push(ts[0].1)) }
    else if ts[0].0 == NOT { if hd(ts.skip(1), IDENT) { r_archs(ts.skip(2), acc.push(seq!['!'] + ts[1].1)) } else { None } }
    else if ts[0].0 == WHITESPACE { r_archs(ts.skip(1), acc) }
    else if ts[0].0 == R_BRACKET { Some((acc, ts.skip(1))) }
    else { None }
}
pub open spec fn r_archlist(ts: Seq<RTok>) -> Option<(Option<Seq<Seq<char>>>, Seq<RTok>)> {
    if hd(ts, L_BRACKET) { match r_archs(ts.skip(1), Seq::empty()) { Some(a) => Some((Some(a.0), a.1)), None => None } }
    else { Some((None, ts)) }
}
/// the terms of one restriction list up to '>'
pub open spec fn r_group(ts: Seq<RTok>, acc: Seq<ProfV>) -> Option<(Seq<ProfV>, Seq<RTok>)>
    decreases ts.len()
{
    if ts.len() == 0 { None }
    else if ts[0].0 == NOT { if hd(ts.skip(1), IDENT) { r_group(ts.skip(2), acc.push((true, ts[1].1))) } else { None } }
    else if ts[0].0 == IDENT { r_group(ts.skip(1), acc.push((false, ts[0].1))) }
    else if ts[0].0 == WHITESPACE || ts[0].0 == COMMA { r_group(ts.skip(1), acc) }
    else if ts[0].0 == R_ANGLE { Some((acc, ts.skip(1))) }
    else { None }
}
pub open spec fn r_groups(ts: Seq<RTok>, acc: Seq<Seq<ProfV>>) -> Option<(Seq<Seq<ProfV>>, Seq<RTok>)>
    decreases ts.len()
{
    if hd(ts, L_ANGLE) {
        match r_group(ts.skip(1), Seq::empty()) {
            None => None,
            Some(g) => if g.0.len() == 0 { None } else {
                let t = r_ws(g.1);
                if t.len() < ts.len() { r_groups(t, acc.push(g.0)) } else { None }
            }
        }
    } else { Some((acc, ts)) }
}
pub open spec fn rd_relation(ts: Seq<RTok>) -> Option<RelV> {
    if !hd(ts, IDENT) { None } else {
        match r_archqual(r_ws(ts.skip(1))) {
            None => None,
            Some(q) => match r_version(r_ws(q.1)) {
                None => None,
                Some(v) => match r_archlist(r_ws(v.1)) {
                    None => None,
                    Some(a) => match r_groups(r_ws(a.1), Seq::empty()) {
                        None => None,
                        Some(g) => if r_ws(g.1).len() > 0 { None } else {
                            Some(RelV { name: ts[0].1, archqual: q.0, version: v.0, archs: a.0, profiles: g.0 })
                        }
                    }
                }
            }
        }
    }
}
pub open spec fn read_relation_text(s: Seq<char>) -> Option<RelV> { rd_relation(rel_tokens_of(s)) }

// ---- lengths (termination guards) ------------------------------------------------------------------------------------
pub proof fn lemma_r_ws_len(ts: Seq<RTok>)
    ensures r_ws(ts).len() <= ts.len(), !hd(r_ws(ts), WHITESPACE)
    decreases ts.len()
{
    if hd(ts, WHITESPACE) { lemma_r_ws_len(ts.skip(1)); }
}
pub proof fn lemma_r_group_len(ts: Seq<RTok>, acc: Seq<ProfV>)
    ensures r_group(ts, acc) is Some ==> r_group(ts, acc)->Some_0.1.len() < ts.len()
    decreases ts.len()
{
    if ts.len() > 0 {
        if ts[0].0 == NOT { if hd(ts.skip(1), IDENT) { lemma_r_group_len(ts.skip(2), acc.push((true, ts[1].1))); } }
        else if ts[0].0 == IDENT { lemma_r_group_len(ts.skip(1), acc.push((false, ts[0].1))); }
        else if ts[0].0 == WHITESPACE || ts[0].0 == COMMA { lemma_r_group_len(ts.skip(1), acc); }
    }
}

pub broadcast proof fn lemma_rv_skip(v: Seq<(SyntaxKind, String)>)
    requires v.len() > 0
    ensures #[trigger] rtoks_view(v.skip(1)) == rtoks_view(v).skip(1)
{
    assert(rtoks_view(v.skip(1)) =~= rtoks_view(v).skip(1));
}
pub broadcast group group_rv { lemma_rv_skip }
