// domain of valid relation components and the lexing building blocks of printed relations (shared)
pub open spec fn ident_str(s: Seq<char>) -> bool { s.len() > 0 && forall|i: int| 0 <= i < s.len() ==> is_ident_s(#[trigger] s[i]) }
/// a version: its printed text is made of name characters and ':' and parses back to it (debversion is external:
/// this is what "valid component" means for the version)
pub open spec fn version_ok(v: debversion::Version) -> bool {
    let t = version_text(v);
    &&& t.len() > 0
    &&& forall|i: int| 0 <= i < t.len() ==> (is_ident_s(#[trigger] t[i]) || t[i] == ':')
    &&& version_parse_spec(t) == Some(v)
}
/// an architecture restriction: name or !name
pub open spec fn arch_ok(a: Seq<char>) -> bool { ident_str(a) || (a.len() > 1 && a[0] == '!' && ident_str(a.skip(1))) }
pub open spec fn group_ok(g: Seq<ProfV>) -> bool { g.len() > 0 && forall|i: int| 0 <= i < g.len() ==> ident_str((#[trigger] g[i]).1) }
pub open spec fn valid_rel(v: RelV) -> bool {
    &&& ident_str(v.name)
    &&& (v.archqual matches Some(q) ==> ident_str(q))
    &&& (v.version matches Some(cv) ==> version_ok(cv.1))
    &&& (v.archs matches Some(l) ==> forall|i: int| 0 <= i < l.len() ==> arch_ok(#[trigger] l[i]))
    &&& forall|i: int| 0 <= i < v.profiles.len() ==> group_ok(#[trigger] v.profiles[i])
}

// ---- lexing building blocks -------------------------------------------------------------------------------------------
/// what follows does not continue a name
pub open spec fn no_ident_start(b: Seq<char>) -> bool { b.len() == 0 || !is_ident_s(b[0]) }
pub open spec fn no_ws_start(b: Seq<char>) -> bool { b.len() == 0 || !is_ws_s(b[0]) }

pub proof fn lemma_run_ident_prefix(x: Seq<char>, b: Seq<char>)
    requires forall|i: int| 0 <= i < x.len() ==> is_ident_s(#[trigger] x[i]), no_ident_start(b)
    ensures run_ident(x + b) == x.len()
    decreases x.len()
{
    let s = x + b;
    if x.len() == 0 {
        assert(s =~= b);
    } else {
        assert(s[0] == x[0]);
        assert(s.skip(1) =~= x.skip(1) + b);
        assert forall|i: int| 0 <= i < x.skip(1).len() implies is_ident_s(#[trigger] x.skip(1)[i]) by { assert(x.skip(1)[i] == x[i + 1]); }
        lemma_run_ident_prefix(x.skip(1), b);
    }
}
pub proof fn lemma_lex_ident(x: Seq<char>, b: Seq<char>)
    requires ident_str(x), no_ident_start(b)
    ensures rel_tokens_of(x + b) == seq![(IDENT, x)] + rel_tokens_of(b)
{
    let s = x + b;
    lemma_run_ident_prefix(x, b);
    assert(s[0] == x[0]);
    assert(is_ident_s(x[0]));
    assert(delim_kind(s[0]) is None && !is_ws_s(s[0]));
    assert(s.take(x.len() as int) =~= x);
    assert(s.skip(x.len() as int) =~= b);
}
pub proof fn lemma_lex_delim(c: char, b: Seq<char>)
    requires delim_kind(c) is Some
    ensures rel_tokens_of(seq![c] + b) == seq![(delim_kind(c)->Some_0, seq![c])] + rel_tokens_of(b)
{
    let s = seq![c] + b;
    assert(s[0] == c);
    assert(s.take(1) =~= seq![c]);
    assert(s.skip(1) =~= b);
}
pub proof fn lemma_lex_space(b: Seq<char>)
    requires no_ws_start(b)
    ensures rel_tokens_of(seq![' '] + b) == seq![(WHITESPACE, seq![' '])] + rel_tokens_of(b)
{
    let s = seq![' '] + b;
    assert(s[0] == ' ');
    assert(s.skip(1) =~= b);
    assert(run_ws(s.skip(1)) == 0);
    assert(run_ws(s) == 1);
    assert(s.take(1) =~= seq![' ']);
}

