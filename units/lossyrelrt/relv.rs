// the abstract value of a relation (shared by the lossy round trip and the lossless reader theorem)
pub type ProfV = (bool, Seq<char>);   // (negated, name)
pub ghost struct RelV {
    pub name: Seq<char>,
    pub archqual: Option<Seq<char>>,
    pub version: Option<(dc_relations::VersionConstraint, debversion::Version)>,
    pub archs: Option<Seq<Seq<char>>>,
    pub profiles: Seq<Seq<ProfV>>,
}
