// ---------------------------------------------------------------------------------------------
// C14, first clause: a lossy relation assembled from valid components prints to text that the lossy reader
// turns back into an equal value:   theorem_relation_roundtrip: valid_rel(v) ==> read_relation_text(rel_text(v)) == Some(v)
// over the three contracts of this unit (lexer == rel_tokens_of, reader == rd_relation, printer == rel_text).
// ---------------------------------------------------------------------------------------------
pub proof fn lemma_r_ws_idem(ts: Seq<RTok>)
    ensures r_ws(r_ws(ts)) == r_ws(ts)
    decreases ts.len()
{
    if hd(ts, WHITESPACE) { lemma_r_ws_idem(ts.skip(1)); }
}
/// " " followed by a delimiter: the whitespace is skipped, the delimiter token is next
pub proof fn lemma_space_delim(c: char, b: Seq<char>)
    requires delim_kind(c) is Some
    ensures
        rel_tokens_of(seq![' ', c] + b) == seq![(WHITESPACE, seq![' ']), (delim_kind(c)->Some_0, seq![c])] + rel_tokens_of(b),
        r_ws(rel_tokens_of(seq![' ', c] + b)) == seq![(delim_kind(c)->Some_0, seq![c])] + rel_tokens_of(b),
{
    let r = seq![c] + b;
    assert(seq![' ', c] + b =~= seq![' '] + r);
    assert(r[0] == c);
    lemma_lex_space(r);
    lemma_lex_delim(c, b);
    let t = rel_tokens_of(seq![' ', c] + b);
    assert(t =~= seq![(WHITESPACE, seq![' ']), (delim_kind(c)->Some_0, seq![c])] + rel_tokens_of(b));
    assert(t.skip(1) =~= seq![(delim_kind(c)->Some_0, seq![c])] + rel_tokens_of(b));
    assert(t.skip(1)[0].0 != WHITESPACE);
    assert(r_ws(t.skip(1)) == t.skip(1));
}

// ---- the operator and the version -------------------------------------------------------------------------------------
pub open spec fn is_op_char(c: char) -> bool { c == '<' || c == '>' || c == '=' }
pub proof fn lemma_read_ops(t: Seq<char>, b: Seq<char>, acc: Seq<char>)
    requires forall|i: int| 0 <= i < t.len() ==> is_op_char(#[trigger] t[i]), b.len() > 0, b[0] == ' ', no_ws_start(b.skip(1))
    ensures r_ops(rel_tokens_of(t + b), acc) == (acc + t, rel_tokens_of(b))
    decreases t.len()
{
    if t.len() == 0 {
        assert(t + b =~= b);
        assert(b =~= seq![' '] + b.skip(1));
        lemma_lex_space(b.skip(1));
        assert(rel_tokens_of(b)[0].0 == WHITESPACE);
        assert(acc + t =~= acc);
    } else {
        let c = t[0];
        let r = t.skip(1);
        assert(t + b =~= seq![c] + (r + b));
        lemma_lex_delim(c, r + b);
        assert forall|i: int| 0 <= i < r.len() implies is_op_char(#[trigger] r[i]) by { assert(r[i] == t[i + 1]); }
        lemma_read_ops(r, b, acc + seq![c]);
        let ts = rel_tokens_of(t + b);
        assert(ts[0] == (delim_kind(c)->Some_0, seq![c]));
        assert(ts.skip(1) =~= rel_tokens_of(r + b));
        assert(acc + seq![c] + r =~= acc + t);
    }
}
pub proof fn lemma_vconstraint_ops(c: dc_relations::VersionConstraint)
    ensures forall|i: int| 0 <= i < vconstraint_text(c).len() ==> is_op_char(#[trigger] vconstraint_text(c)[i]), vconstraint_text(c).len() > 0
{
    reveal_strlit(">="); reveal_strlit("<="); reveal_strlit("="); reveal_strlit(">>"); reveal_strlit("<<");
}
/// version text (name characters and ':') up to the closing parenthesis
pub proof fn lemma_read_vtext(t: Seq<char>, b: Seq<char>, acc: Seq<char>)
    requires forall|i: int| 0 <= i < t.len() ==> (is_ident_s(#[trigger] t[i]) || t[i] == ':'), b.len() > 0, b[0] == ')'
    ensures r_vtext(rel_tokens_of(t + b), acc) == Some((acc + t, rel_tokens_of(b)))
    decreases t.len()
{
    if t.len() == 0 {
        assert(t + b =~= b);
        assert(b =~= seq![')'] + b.skip(1));
        lemma_lex_delim(')', b.skip(1));
        assert(rel_tokens_of(b)[0].0 == R_PARENS);
        assert(acc + t =~= acc);
    } else if t[0] == ':' {
        let r = t.skip(1);
        assert(t + b =~= seq![':'] + (r + b));
        lemma_lex_delim(':', r + b);
        assert forall|i: int| 0 <= i < r.len() implies (is_ident_s(#[trigger] r[i]) || r[i] == ':') by { assert(r[i] == t[i + 1]); }
        lemma_read_vtext(r, b, acc + seq![':']);
        let ts = rel_tokens_of(t + b);
        assert(ts[0] == (COLON, seq![':']));
        assert(ts.skip(1) =~= rel_tokens_of(r + b));
        assert(acc + seq![':'] + r =~= acc + t);
    } else {
        // a maximal run of name characters inside t
        let k = run_ident(t);
        lemma_run_ident_bounds(t);
        let x = t.take(k);
        let r = t.skip(k);
        assert(t + b =~= x + (r + b));
        assert(no_ident_start(r + b)) by { if r.len() > 0 { assert((r + b)[0] == r[0]); assert(r[0] == t[k]); } else { assert((r + b)[0] == b[0]); } }
        assert(ident_str(x)) by { assert forall|i: int| 0 <= i < x.len() implies is_ident_s(#[trigger] x[i]) by { assert(x[i] == t[i]); } }
        lemma_lex_ident(x, r + b);
        assert forall|i: int| 0 <= i < r.len() implies (is_ident_s(#[trigger] r[i]) || r[i] == ':') by { assert(r[i] == t[i + k]); }
        lemma_read_vtext(r, b, acc + x);
        let ts = rel_tokens_of(t + b);
        assert(ts[0] == (IDENT, x));
        assert(ts.skip(1) =~= rel_tokens_of(r + b));
        assert(acc + x + r =~= acc + t);
    }
}
pub proof fn lemma_run_ident_bounds(t: Seq<char>)
    ensures
        0 <= run_ident(t) <= t.len(),
        forall|i: int| 0 <= i < run_ident(t) ==> is_ident_s(#[trigger] t[i]),
        run_ident(t) < t.len() ==> !is_ident_s(t[run_ident(t)]),
        (t.len() > 0 && is_ident_s(t[0])) ==> run_ident(t) >= 1,
    decreases t.len()
{
    if t.len() > 0 && is_ident_s(t[0]) {
        lemma_run_ident_bounds(t.skip(1));
        let k = run_ident(t.skip(1));
        assert forall|i: int| 0 <= i < k + 1 implies is_ident_s(#[trigger] t[i]) by { if i > 0 { assert(t[i] == t.skip(1)[i - 1]); } }
        if k + 1 < t.len() { assert(t[k + 1] == t.skip(1)[k]); }
    }
}
/// " (op version)" read after the whitespace in front of it
pub proof fn lemma_read_version(c: dc_relations::VersionConstraint, v: debversion::Version, b: Seq<char>)
    requires version_ok(v)
    ensures r_version(r_ws(rel_tokens_of(version_part(Some((c, v))) + b))) == Some((Some((c, v)), rel_tokens_of(b)))
{
    let ct = vconstraint_text(c);
    let vt = version_text(v);
    let inner = ct + (seq![' '] + (vt + (seq![')'] + b)));
    assert(version_part(Some((c, v))) + b =~= seq![' ', '('] + inner);
    lemma_space_delim('(', inner);
    let y = r_ws(rel_tokens_of(version_part(Some((c, v))) + b));
    assert(y == seq![(L_PARENS, seq!['('])] + rel_tokens_of(inner));
    assert(y.skip(1) =~= rel_tokens_of(inner));
    lemma_vconstraint_ops(c);
    // no whitespace in front of the operator
    assert(is_op_char(ct[0]));
    assert(inner[0] == ct[0]);
    assert(delim_kind(inner[0]) is Some);
    lemma_lex_delim(inner[0], inner.skip(1));
    assert(inner =~= seq![inner[0]] + inner.skip(1));
    assert(rel_tokens_of(inner)[0].0 != WHITESPACE);
    assert(r_ws(rel_tokens_of(inner)) == rel_tokens_of(inner));
    // operator
    let b1 = seq![' '] + (vt + (seq![')'] + b));
    assert(b1.skip(1) =~= vt + (seq![')'] + b));
    assert(b1.skip(1)[0] == vt[0]);
    lemma_read_ops(ct, b1, Seq::empty());
    assert(Seq::<char>::empty() + ct =~= ct);
    vconstraint_roundtrip(c);
    // version text
    lemma_lex_space(b1.skip(1));
    assert(b1 =~= seq![' '] + b1.skip(1));
    let t1 = rel_tokens_of(b1);
    assert(t1.skip(1) =~= rel_tokens_of(b1.skip(1)));
    let b2 = seq![')'] + b;
    assert(b1.skip(1) =~= vt + b2);
    lemma_read_vtext(vt, b2, Seq::empty());
    assert(Seq::<char>::empty() + vt =~= vt);
    // first token of the version text is not whitespace
    assert(rel_tokens_of(vt + b2).len() > 0 && rel_tokens_of(vt + b2)[0].0 != WHITESPACE) by {
        if vt[0] == ':' { lemma_lex_delim(':', vt.skip(1) + b2); assert(vt + b2 =~= seq![':'] + (vt.skip(1) + b2)); }
        else {
            let k = run_ident(vt); lemma_run_ident_bounds(vt);
            let x = vt.take(k); let r = vt.skip(k);
            assert(ident_str(x)) by { assert forall|i: int| 0 <= i < x.len() implies is_ident_s(#[trigger] x[i]) by { assert(x[i] == vt[i]); } }
            assert(no_ident_start(r + b2)) by { if r.len() > 0 { assert((r + b2)[0] == vt[k]); } else { assert((r + b2)[0] == ')'); } }
            lemma_lex_ident(x, r + b2);
            assert(vt + b2 =~= x + (r + b2));
        }
    }
    assert(t1[0].0 == WHITESPACE);
    assert(t1.skip(1) == rel_tokens_of(vt + b2));
    assert(r_ws(t1.skip(1)) == t1.skip(1));
    assert(r_ws(t1) == rel_tokens_of(vt + b2));
    // closing parenthesis
    lemma_lex_delim(')', b);
    let t2 = rel_tokens_of(b2);
    assert(t2[0].0 == R_PARENS);
    assert(r_ws(t2) == t2);
    assert(t2.skip(1) =~= rel_tokens_of(b));
}

// ---- architecture list ---------------------------------------------------------------------------------------------------
/// one architecture (name or !name) followed by something that is not a name character
pub proof fn lemma_read_arch(a: Seq<char>, b: Seq<char>, acc: Seq<Seq<char>>)
    requires arch_ok(a), no_ident_start(b)
    ensures r_archs(rel_tokens_of(a + b), acc) == r_archs(rel_tokens_of(b), acc.push(a))
{
    if ident_str(a) {
        lemma_lex_ident(a, b);
        let ts = rel_tokens_of(a + b);
        assert(ts[0] == (IDENT, a));
        assert(ts.skip(1) =~= rel_tokens_of(b));
    } else {
        let n = a.skip(1);
        assert(a + b =~= seq!['!'] + (n + b));
        lemma_lex_delim('!', n + b);
        lemma_lex_ident(n, b);
        let ts = rel_tokens_of(a + b);
        assert(ts[0] == (NOT, seq!['!']));
        let t1 = ts.skip(1);
        assert(t1 =~= rel_tokens_of(n + b));
        assert(t1[0] == (IDENT, n));
        assert(ts[1] == t1[0]);
        assert(ts.skip(2) =~= rel_tokens_of(b));
        assert(seq!['!'] + n =~= a);
    }
}
pub proof fn lemma_read_archs(l: Seq<Seq<char>>, b: Seq<char>, acc: Seq<Seq<char>>)
    requires forall|i: int| 0 <= i < l.len() ==> arch_ok(#[trigger] l[i])
    ensures r_archs(rel_tokens_of(join_seqs(l, seq![' ']) + seq![']'] + b), acc) == Some((acc + l, rel_tokens_of(b)))
    decreases l.len()
{
    let close = seq![']'] + b;
    if l.len() == 0 {
        assert(join_seqs(l, seq![' ']) + seq![']'] + b =~= close);
        lemma_lex_delim(']', b);
        let ts = rel_tokens_of(close);
        assert(ts[0].0 == R_BRACKET);
        assert(ts.skip(1) =~= rel_tokens_of(b));
        assert(acc + l =~= acc);
    } else {
        let a = l[0];
        let rest = l.skip(1);
        assert(l =~= seq![a] + rest);
        assert forall|i: int| 0 <= i < rest.len() implies arch_ok(#[trigger] rest[i]) by { assert(rest[i] == l[i + 1]); }
        if rest.len() == 0 {
            assert(join_seqs(l, seq![' ']) == a);
            assert(join_seqs(l, seq![' ']) + seq![']'] + b =~= a + close);
            lemma_read_arch(a, close, acc);
            lemma_read_archs(rest, b, acc.push(a));
            assert(join_seqs(rest, seq![' ']) + seq![']'] + b =~= close);
            assert(acc.push(a) + rest =~= acc + l);
        } else {
            lemma_join_front(a, rest, seq![' ']);
            let tail = join_seqs(rest, seq![' ']) + seq![']'] + b;
            let sp = seq![' '] + tail;
            assert(join_seqs(l, seq![' ']) + seq![']'] + b =~= a + sp);
            lemma_read_arch(a, sp, acc);
            // the separating space is skipped
            assert(no_ws_start(tail)) by {
                let r0 = rest[0];
                assert(arch_ok(r0));
                if rest.len() == 1 { assert(join_seqs(rest, seq![' ']) == r0); } else { lemma_join_front(r0, rest.skip(1), seq![' ']); assert(rest =~= seq![r0] + rest.skip(1)); }
                assert(tail[0] == r0[0]);
                if !ident_str(r0) { assert(r0[0] == '!'); }
            }
            lemma_lex_space(tail);
            let ts = rel_tokens_of(sp);
            assert(ts[0].0 == WHITESPACE);
            assert(ts.skip(1) =~= rel_tokens_of(tail));
            lemma_read_archs(rest, b, acc.push(a));
            assert(acc.push(a) + rest =~= acc + l);
        }
    }
}
pub proof fn lemma_read_archlist(l: Seq<Seq<char>>, b: Seq<char>)
    requires forall|i: int| 0 <= i < l.len() ==> arch_ok(#[trigger] l[i])
    ensures r_archlist(r_ws(rel_tokens_of(archs_part(Some(l)) + b))) == Some((Some(l), rel_tokens_of(b)))
{
    let inner = join_seqs(l, seq![' ']) + seq![']'] + b;
    assert(archs_part(Some(l)) + b =~= seq![' ', '['] + inner);
    lemma_space_delim('[', inner);
    let y = r_ws(rel_tokens_of(archs_part(Some(l)) + b));
    assert(y.skip(1) =~= rel_tokens_of(inner));
    lemma_read_archs(l, b, Seq::empty());
    assert(Seq::<Seq<char>>::empty() + l =~= l);
}

// ---- restriction lists --------------------------------------------------------------------------------------------------------
pub proof fn lemma_group_text_front(p: ProfV, rest: Seq<ProfV>)
    ensures group_text(seq![p] + rest) == if rest.len() == 0 { prof_text(p) } else { prof_text(p) + seq![' '] + group_text(rest) }
    decreases rest.len()
{
    let g = seq![p] + rest;
    if rest.len() == 0 {
        assert(g =~= seq![p]);
    } else if rest.len() == 1 {
        assert(g.drop_last() =~= seq![p]);
        assert(g.last() == rest[0]);
        assert(group_text(g.drop_last()) == prof_text(p));
    } else {
        lemma_group_text_front(p, rest.drop_last());
        assert(g.drop_last() =~= seq![p] + rest.drop_last());
        assert(g.last() == rest.last());
        assert(group_text(g) =~= prof_text(p) + seq![' '] + group_text(rest));
    }
}
pub proof fn lemma_groups_text_front(g: Seq<ProfV>, rest: Seq<Seq<ProfV>>)
    ensures groups_text(seq![g] + rest) == seq![' ', '<'] + group_text(g) + seq!['>'] + groups_text(rest)
    decreases rest.len()
{
    let gs = seq![g] + rest;
    if rest.len() == 0 {
        assert(gs.drop_last() =~= Seq::<Seq<ProfV>>::empty());
        assert(gs.last() == g);
        assert(groups_text(gs.drop_last()) =~= Seq::<char>::empty());
        assert(groups_text(rest) =~= Seq::<char>::empty());
        assert(groups_text(gs) =~= seq![' ', '<'] + group_text(g) + seq!['>'] + groups_text(rest));
    } else {
        lemma_groups_text_front(g, rest.drop_last());
        assert(gs.drop_last() =~= seq![g] + rest.drop_last());
        assert(gs.last() == rest.last());
        assert(groups_text(gs) =~= seq![' ', '<'] + group_text(g) + seq!['>'] + groups_text(rest));
    }
}
pub proof fn lemma_read_term(p: ProfV, b: Seq<char>, acc: Seq<ProfV>)
    requires ident_str(p.1), no_ident_start(b)
    ensures r_group(rel_tokens_of(prof_text(p) + b), acc) == r_group(rel_tokens_of(b), acc.push(p))
{
    if p.0 {
        assert(prof_text(p) + b =~= seq!['!'] + (p.1 + b));
        lemma_lex_delim('!', p.1 + b);
        lemma_lex_ident(p.1, b);
        let ts = rel_tokens_of(prof_text(p) + b);
        assert(ts[0] == (NOT, seq!['!']));
        let t1 = ts.skip(1);
        assert(t1 =~= rel_tokens_of(p.1 + b));
        assert(ts[1] == t1[0]);
        assert(ts.skip(2) =~= rel_tokens_of(b));
        assert((true, ts[1].1) == p);
    } else {
        lemma_lex_ident(p.1, b);
        let ts = rel_tokens_of(prof_text(p) + b);
        assert(ts[0] == (IDENT, p.1));
        assert(ts.skip(1) =~= rel_tokens_of(b));
        assert((false, ts[0].1) == p);
    }
}
pub proof fn lemma_read_group(g: Seq<ProfV>, b: Seq<char>, acc: Seq<ProfV>)
    requires group_ok(g)
    ensures r_group(rel_tokens_of(group_text(g) + seq!['>'] + b), acc) == Some((acc + g, rel_tokens_of(b)))
    decreases g.len()
{
    let p = g[0];
    let rest = g.skip(1);
    assert(g =~= seq![p] + rest);
    lemma_group_text_front(p, rest);
    let close = seq!['>'] + b;
    if rest.len() == 0 {
        assert(group_text(g) + seq!['>'] + b =~= prof_text(p) + close);
        lemma_read_term(p, close, acc);
        lemma_lex_delim('>', b);
        let ts = rel_tokens_of(close);
        assert(ts[0].0 == R_ANGLE);
        assert(ts.skip(1) =~= rel_tokens_of(b));
        assert(acc.push(p) =~= acc + g);
    } else {
        assert forall|i: int| 0 <= i < rest.len() implies ident_str((#[trigger] rest[i]).1) by { assert(rest[i] == g[i + 1]); }
        let tail = group_text(rest) + seq!['>'] + b;
        let sp = seq![' '] + tail;
        assert(group_text(g) + seq!['>'] + b =~= prof_text(p) + sp);
        lemma_read_term(p, sp, acc);
        assert(no_ws_start(tail)) by {
            let q = rest[0];
            lemma_group_text_front(q, rest.skip(1));
            assert(rest =~= seq![q] + rest.skip(1));
            assert(tail[0] == prof_text(q)[0]);
            assert(ident_str(q.1));
            if q.0 { assert(prof_text(q)[0] == '!'); } else { assert(prof_text(q)[0] == q.1[0]); }
        }
        lemma_lex_space(tail);
        let ts = rel_tokens_of(sp);
        assert(ts[0].0 == WHITESPACE);
        assert(ts.skip(1) =~= rel_tokens_of(tail));
        lemma_read_group(rest, b, acc.push(p));
        assert(acc.push(p) + rest =~= acc + g);
    }
}
/// all restriction lists, then the end of the text
pub proof fn lemma_read_groups(gs: Seq<Seq<ProfV>>, acc: Seq<Seq<ProfV>>)
    requires forall|i: int| 0 <= i < gs.len() ==> group_ok(#[trigger] gs[i])
    ensures r_groups(r_ws(rel_tokens_of(groups_text(gs))), acc) == Some((acc + gs, Seq::<RTok>::empty()))
    decreases gs.len()
{
    if gs.len() == 0 {
        assert(groups_text(gs) =~= Seq::<char>::empty());
        assert(rel_tokens_of(groups_text(gs)) =~= Seq::<RTok>::empty());
        assert(acc + gs =~= acc);
    } else {
        let g = gs[0];
        let rest = gs.skip(1);
        assert(gs =~= seq![g] + rest);
        lemma_groups_text_front(g, rest);
        let after = groups_text(rest);
        let inner = group_text(g) + seq!['>'] + after;
        assert(groups_text(gs) =~= seq![' ', '<'] + inner);
        lemma_space_delim('<', inner);
        let y = r_ws(rel_tokens_of(groups_text(gs)));
        assert(y[0].0 == L_ANGLE);
        assert(y.skip(1) =~= rel_tokens_of(inner));
        lemma_read_group(g, after, Seq::empty());
        assert(Seq::<ProfV>::empty() + g =~= g);
        assert forall|i: int| 0 <= i < rest.len() implies group_ok(#[trigger] rest[i]) by { assert(rest[i] == gs[i + 1]); }
        lemma_read_groups(rest, acc.push(g));
        lemma_r_ws_len(rel_tokens_of(after));
        lemma_r_group_len(rel_tokens_of(inner), Seq::empty());
        assert(r_ws(rel_tokens_of(after)).len() < y.len());
        assert(acc.push(g) + rest =~= acc + gs);
    }
}

// ---- putting the parts together -----------------------------------------------------------------------------------------------
pub open spec fn tail3(v: RelV) -> Seq<char> { groups_text(v.profiles) }
pub open spec fn tail2(v: RelV) -> Seq<char> { archs_part(v.archs) + tail3(v) }
pub open spec fn tail1(v: RelV) -> Seq<char> { version_part(v.version) + tail2(v) }
pub open spec fn tail0(v: RelV) -> Seq<char> { archqual_text(v.archqual) + tail1(v) }
/// the next token kind after optional whitespace
pub open spec fn head_kind(ts: Seq<RTok>) -> Option<SyntaxKind> { if r_ws(ts).len() > 0 { Some(r_ws(ts)[0].0) } else { None } }

/// what each tail begins with
pub proof fn lemma_tails(v: RelV)
    requires valid_rel(v)
    ensures
        head_kind(rel_tokens_of(tail3(v))) == if v.profiles.len() > 0 { Some(L_ANGLE) } else { None::<SyntaxKind> },
        head_kind(rel_tokens_of(tail2(v))) == if v.archs is Some { Some(L_BRACKET) } else { head_kind(rel_tokens_of(tail3(v))) },
        head_kind(rel_tokens_of(tail1(v))) == if v.version is Some { Some(L_PARENS) } else { head_kind(rel_tokens_of(tail2(v))) },
        tail3(v).len() == 0 || tail3(v)[0] == ' ',
        tail2(v).len() == 0 || tail2(v)[0] == ' ',
        tail1(v).len() == 0 || tail1(v)[0] == ' ',
        tail0(v).len() == 0 || tail0(v)[0] == ' ' || tail0(v)[0] == ':',
{
    // tail3
    if v.profiles.len() > 0 {
        let g = v.profiles[0]; let rest = v.profiles.skip(1);
        assert(v.profiles =~= seq![g] + rest);
        lemma_groups_text_front(g, rest);
        let inner = group_text(g) + seq!['>'] + groups_text(rest);
        assert(tail3(v) =~= seq![' ', '<'] + inner);
        lemma_space_delim('<', inner);
    } else {
        assert(tail3(v) =~= Seq::<char>::empty());
        assert(rel_tokens_of(tail3(v)) =~= Seq::<RTok>::empty());
    }
    // tail2
    match v.archs {
        Some(l) => {
            let inner = join_seqs(l, seq![' ']) + seq![']'] + tail3(v);
            assert(tail2(v) =~= seq![' ', '['] + inner);
            lemma_space_delim('[', inner);
        }
        None => { assert(tail2(v) =~= tail3(v)); }
    }
    // tail1
    match v.version {
        Some(cv) => {
            let inner = vconstraint_text(cv.0) + seq![' '] + version_text(cv.1) + seq![')'] + tail2(v);
            assert(tail1(v) =~= seq![' ', '('] + inner);
            lemma_space_delim('(', inner);
        }
        None => { assert(tail1(v) =~= tail2(v)); }
    }
    match v.archqual {
        Some(q) => { assert(tail0(v)[0] == ':'); }
        None => { assert(tail0(v) =~= tail1(v)); }
    }
}
/// stage 1: the architecture qualifier
pub proof fn lemma_rt_archqual(v: RelV)
    requires valid_rel(v)
    ensures ({
        let q = r_archqual(r_ws(rel_tokens_of(tail0(v))));
        q is Some && q->Some_0.0 == v.archqual && r_ws(q->Some_0.1) == r_ws(rel_tokens_of(tail1(v)))
    })
{
    lemma_tails(v);
    let t0 = tail0(v); let t1 = tail1(v);
    let y1 = r_ws(rel_tokens_of(t1));
    lemma_r_ws_idem(rel_tokens_of(t1));
    let a = r_ws(rel_tokens_of(t0));
    let q = r_archqual(a);
    match v.archqual {
        Some(aq) => {
            assert(t0 =~= seq![':'] + (aq + t1));
            lemma_lex_delim(':', aq + t1);
            assert(no_ident_start(t1));
            lemma_lex_ident(aq, t1);
            let x = rel_tokens_of(t0);
            assert(x[0].0 == COLON);
            assert(a == x);
            let x1 = x.skip(1);
            assert(x1 =~= rel_tokens_of(aq + t1));
            assert(x[1] == x1[0]);
            assert(x.skip(2) =~= rel_tokens_of(t1));
            assert(q == Some((Some(aq), rel_tokens_of(t1))));
        }
        None => {
            assert(t0 =~= t1);
            assert(a == y1);
            assert(!hd(y1, COLON));
            assert(q == Some((None::<Seq<char>>, y1)));
        }
    }
}
/// stage 2: the version constraint
pub proof fn lemma_rt_version(v: RelV)
    requires valid_rel(v)
    ensures ({
        let ver = r_version(r_ws(rel_tokens_of(tail1(v))));
        ver is Some && ver->Some_0.0 == v.version && r_ws(ver->Some_0.1) == r_ws(rel_tokens_of(tail2(v)))
    })
{
    lemma_tails(v);
    let t1 = tail1(v); let t2 = tail2(v);
    let y1 = r_ws(rel_tokens_of(t1)); let y2 = r_ws(rel_tokens_of(t2));
    lemma_r_ws_idem(rel_tokens_of(t2));
    let ver = r_version(y1);
    match v.version {
        Some(cv) => { lemma_read_version(cv.0, cv.1, t2); assert(ver == Some((Some(cv), rel_tokens_of(t2)))); }
        None => { assert(t1 =~= t2); assert(y1 == y2); assert(!hd(y2, L_PARENS)); assert(ver == Some((None::<(dc_relations::VersionConstraint, debversion::Version)>, y2))); }
    }
}
/// stage 3: the architecture list
pub proof fn lemma_rt_archs(v: RelV)
    requires valid_rel(v)
    ensures ({
        let al = r_archlist(r_ws(rel_tokens_of(tail2(v))));
        al is Some && al->Some_0.0 == v.archs && r_ws(al->Some_0.1) == r_ws(rel_tokens_of(tail3(v)))
    })
{
    lemma_tails(v);
    let t2 = tail2(v); let t3 = tail3(v);
    let y2 = r_ws(rel_tokens_of(t2)); let y3 = r_ws(rel_tokens_of(t3));
    lemma_r_ws_idem(rel_tokens_of(t3));
    let al = r_archlist(y2);
    match v.archs {
        Some(l) => { lemma_read_archlist(l, t3); assert(al == Some((Some(l), rel_tokens_of(t3)))); }
        None => { assert(t2 =~= t3); assert(y2 == y3); assert(!hd(y3, L_BRACKET)); assert(al == Some((None::<Seq<Seq<char>>>, y3))); }
    }
}
/// stage 4: the restriction lists, up to the end of the text
pub proof fn lemma_rt_groups(v: RelV)
    requires valid_rel(v)
    ensures r_groups(r_ws(rel_tokens_of(tail3(v))), Seq::empty()) == Some((v.profiles, Seq::<RTok>::empty()))
{
    lemma_read_groups(v.profiles, Seq::empty());
    assert(Seq::<Seq<ProfV>>::empty() + v.profiles =~= v.profiles);
}
/// C14, first clause
pub proof fn theorem_relation_roundtrip(v: RelV)
    requires valid_rel(v)
    ensures read_relation_text(rel_text(v)) == Some(v)
{
    lemma_tails(v);
    let t0 = tail0(v);
    assert(rel_text(v) =~= v.name + t0);
    // the name
    assert(no_ident_start(t0));
    lemma_lex_ident(v.name, t0);
    let ts = rel_tokens_of(rel_text(v));
    assert(ts[0] == (IDENT, v.name));
    assert(ts.skip(1) =~= rel_tokens_of(t0));
    lemma_rt_archqual(v); lemma_rt_version(v); lemma_rt_archs(v); lemma_rt_groups(v);
    assert(r_ws(Seq::<RTok>::empty()).len() == 0);
    assert(rd_relation(ts) == Some(RelV { name: v.name, archqual: v.archqual, version: v.version, archs: v.archs, profiles: v.profiles }));
}
/// the domain is inhabited
pub proof fn lemma_valid_rel_inhabited(ver: debversion::Version)
    requires version_ok(ver)
    ensures exists|v: RelV| valid_rel(v) && v.archqual is Some && v.version is Some && v.archs is Some && v.profiles.len() == 2
{
    let v = RelV { name: seq!['f', 'o', 'o'], archqual: Some(seq!['a', 'n', 'y']), version: Some((dc_relations::VersionConstraint::GreaterThanEqual, ver)),
        archs: Some(seq![seq!['a'], seq!['!', 'b']]), profiles: seq![seq![(false, seq!['x']), (true, seq!['y'])], seq![(true, seq!['z'])]] };
    assert(ident_str(seq!['f', 'o', 'o']));
    assert(ident_str(seq!['a', 'n', 'y']));
    assert(arch_ok(seq!['a']));
    assert(seq!['!', 'b'].skip(1) =~= seq!['b']);
    assert(arch_ok(seq!['!', 'b']));
    assert(group_ok(seq![(false, seq!['x']), (true, seq!['y'])]));
    assert(group_ok(seq![(true, seq!['z'])]));
    assert(valid_rel(v));
}
