// ---------------------------------------------------------------------------------------------
// C14: what the lossy relation printer writes (Display for Relation), from the statement:
// name[:archqual] [ (op version)] [ [arch ...]] [ <[!]profile ...>]...
// ---------------------------------------------------------------------------------------------
pub open spec fn prof_text(p: ProfV) -> Seq<char> { if p.0 { seq!['!'] + p.1 } else { p.1 } }
/// the terms of one restriction list, separated by one space
pub open spec fn group_text(g: Seq<ProfV>) -> Seq<char>
    decreases g.len()
{
    if g.len() == 0 { Seq::empty() }
    else if g.len() == 1 { prof_text(g[0]) }
    else { group_text(g.drop_last()) + seq![' '] + prof_text(g.last()) }
}
pub open spec fn groups_text(gs: Seq<Seq<ProfV>>) -> Seq<char>
    decreases gs.len()
{
    if gs.len() == 0 { Seq::empty() } else { groups_text(gs.drop_last()) + seq![' ', '<'] + group_text(gs.last()) + seq!['>'] }
}
pub open spec fn archqual_text(q: Option<Seq<char>>) -> Seq<char> { match q { Some(a) => seq![':'] + a, None => Seq::empty() } }
pub open spec fn version_part(v: Option<(dc_relations::VersionConstraint, debversion::Version)>) -> Seq<char> {
    match v { Some(cv) => seq![' ', '('] + vconstraint_text(cv.0) + seq![' '] + version_text(cv.1) + seq![')'], None => Seq::empty() }
}
pub open spec fn archs_part(a: Option<Seq<Seq<char>>>) -> Seq<char> {
    match a { Some(l) => seq![' ', '['] + join_seqs(l, seq![' ']) + seq![']'], None => Seq::empty() }
}
pub open spec fn rel_text(v: RelV) -> Seq<char> {
    v.name + archqual_text(v.archqual) + version_part(v.version) + archs_part(v.archs) + groups_text(v.profiles)
}
pub proof fn lemma_group_text_push(g: Seq<ProfV>, i: int)
    requires 0 <= i < g.len()
    ensures group_text(g.take(i + 1)) == if i == 0 { prof_text(g[0]) } else { group_text(g.take(i)) + seq![' '] + prof_text(g[i]) }
{
    assert(g.take(i + 1).drop_last() =~= g.take(i));
    assert(g.take(i + 1).last() == g[i]);
    if i == 0 { assert(g.take(1)[0] == g[0]); }
}
pub proof fn lemma_groups_text_push(gs: Seq<Seq<ProfV>>, i: int)
    requires 0 <= i < gs.len()
    ensures groups_text(gs.take(i + 1)) == groups_text(gs.take(i)) + seq![' ', '<'] + group_text(gs[i]) + seq!['>']
{
    assert(gs.take(i + 1).drop_last() =~= gs.take(i));
    assert(gs.take(i + 1).last() == gs[i]);
}

