// `{}` of a value calls its Display::fmt; for these two types fmt is under contract in this unit
// (VersionConstraint::fmt writes vconstraint_text, BuildProfile::fmt writes prof_text)
impl VxDisplay for dc_relations::VersionConstraint {
    open spec fn display_spec(&self) -> Seq<char> { vconstraint_text(*self) }
}
impl VxDisplay for dc_relations::BuildProfile {
    open spec fn display_spec(&self) -> Seq<char> { prof_text(prof_view(*self)) }
}
