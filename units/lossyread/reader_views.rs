// views of the exec data of the lossy reader (src/lossy.rs types)
// ---- views of the exec data ------------------------------------------------------------------------
// fields_view: ../lossy822/spec.rs
pub open spec fn paras_view(ps: Seq<lossy::Paragraph>) -> Seq<Seq<FieldV>> { ps.map_values(|p: lossy::Paragraph| fields_view(p.fields@)) }

/// the paragraph under construction: `cur0` followed by the field being read
pub open spec fn cur_frame(cp: Seq<lossy::Field>, cur0: Seq<FieldV>, name0: Seq<char>) -> bool {
    &&& cp.len() == cur0.len() + 1
    &&& forall|i: int| 0 <= i < cur0.len() ==> (#[trigger] cp[i]).name@ == cur0[i].0 && cp[i].value@ == cur0[i].1
    &&& cp.last().name@ == name0
}

