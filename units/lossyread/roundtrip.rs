// ---------------------------------------------------------------------------------------------
// C08, round-trip clause: for every canonical lossy document, reading its printed text gives it back.
//
//   theorem_roundtrip:   canon_doc(ps) ==> read_text(doc_text(ps)) == Some(paras_view(ps))
//
// `doc_text` is what the real Display impls are proved to write (unit lossy822, same spec file),
// `read_text` is what the real FromStr for Deb822 is proved to return (contracts.vspec of this unit), and
// `tokens_of` is the real lexer (lex.vspec). The theorem is a lemma over those three contracts.
// ---------------------------------------------------------------------------------------------

// ---- the domain of the statement ---------------------------------------------------------------------
/// the first line of a value: may be empty, no leading whitespace
pub open spec fn canon_first(l: Seq<char>) -> bool { no_nl(l) && (l.len() > 0 ==> !is_indent_s(l[0])) }
/// a further line: non-empty, no leading whitespace
pub open spec fn stmt_cont(l: Seq<char>) -> bool { no_nl(l) && l.len() > 0 && !is_indent_s(l[0]) }
/// ... and not beginning with '#' (both readers deliberately read an indented '#' line as a comment, see C03)
pub open spec fn canon_cont(l: Seq<char>) -> bool { stmt_cont(l) && l[0] != '#' }
/// the lines of a value ("" is one empty line)
pub open spec fn vlines(v: Seq<char>) -> Seq<Seq<char>> { if v.len() == 0 { seq![Seq::<char>::empty()] } else { lines_of(v) } }
pub open spec fn value_shape(v: Seq<char>) -> bool {
    &&& forall|i: int| 0 <= i < v.len() ==> #[trigger] v[i] != '\r'
    &&& (v.len() > 0 ==> v.last() != '\n')
}
/// the statement's values: lines without CR/LF, no empty line except the first, no leading whitespace
pub open spec fn stmt_value(v: Seq<char>) -> bool {
    &&& value_shape(v)
    &&& vlines(v).len() > 0 && canon_first(vlines(v)[0])
    &&& forall|i: int| 1 <= i < vlines(v).len() ==> stmt_cont(#[trigger] vlines(v)[i])
}
pub open spec fn canon_value(v: Seq<char>) -> bool {
    &&& stmt_value(v)
    &&& forall|i: int| 1 <= i < vlines(v).len() ==> (#[trigger] vlines(v)[i])[0] != '#'
}
pub open spec fn canon_fields(fs: Seq<Field>) -> bool {
    forall|i: int| 0 <= i < fs.len() ==> valid_name((#[trigger] fs[i]).name@) && canon_value(fs[i].value@)
}
pub open spec fn canon_doc(ps: Seq<Paragraph>) -> bool {
    forall|i: int| 0 <= i < ps.len() ==> (#[trigger] ps[i]).fields@.len() > 0 && canon_fields(ps[i].fields@)
}
pub open spec fn stmt_fields(fs: Seq<Field>) -> bool {
    forall|i: int| 0 <= i < fs.len() ==> valid_name((#[trigger] fs[i]).name@) && stmt_value(fs[i].value@)
}
pub open spec fn stmt_doc(ps: Seq<Paragraph>) -> bool {
    forall|i: int| 0 <= i < ps.len() ==> (#[trigger] ps[i]).fields@.len() > 0 && stmt_fields(ps[i].fields@)
}

// ---- token images ------------------------------------------------------------------------------------------
pub open spec fn line_toks(l: Seq<char>) -> Seq<Tok> {
    if l.len() > 0 { seq![(VALUE, l), (NEWLINE, lf())] } else { seq![(NEWLINE, lf())] }
}
pub open spec fn cont_tok3(l: Seq<char>) -> Seq<Tok> { seq![(INDENT, sp()), (VALUE, l), (NEWLINE, lf())] }
pub open spec fn cont_toks(ls: Seq<Seq<char>>) -> Seq<Tok>
    decreases ls.len()
{
    if ls.len() == 0 { Seq::empty() } else { cont_toks(ls.drop_last()) + cont_tok3(ls.last()) }
}
pub open spec fn head_toks(name: Seq<char>) -> Seq<Tok> { seq![(KEY, name), (COLON, colon()), (WHITESPACE, sp())] }
pub open spec fn field_toks(name: Seq<char>, ls: Seq<Seq<char>>) -> Seq<Tok> {
    head_toks(name) + line_toks(ls[0]) + cont_toks(ls.skip(1))
}
pub open spec fn fields_toks(fs: Seq<Field>) -> Seq<Tok>
    decreases fs.len()
{
    if fs.len() == 0 { Seq::empty() } else { fields_toks(fs.drop_last()) + field_toks(fs.last().name@, vlines(fs.last().value@)) }
}
pub open spec fn doc_toks(ps: Seq<Paragraph>) -> Seq<Tok>
    decreases ps.len()
{
    if ps.len() == 0 { Seq::empty() }
    else if ps.len() == 1 { fields_toks(ps[0].fields@) }
    else { doc_toks(ps.drop_last()) + seq![(NEWLINE, lf())] + fields_toks(ps.last().fields@) }
}
/// "l\n" for every line
pub open spec fn join_lines(ls: Seq<Seq<char>>) -> Seq<char>
    decreases ls.len()
{
    if ls.len() == 0 { Seq::empty() } else { join_lines(ls.drop_last()) + ls.last() + lf() }
}

// ---- lines_of on canonical values -----------------------------------------------------------------------
pub proof fn lemma_first_nl(s: Seq<char>)
    ensures
        0 <= first_nl(s) <= s.len(),
        first_nl(s) < s.len() ==> s[first_nl(s)] == '\n',
        forall|j: int| 0 <= j < first_nl(s) ==> #[trigger] s[j] != '\n',
    decreases s.len()
{
    if s.len() > 0 && s[0] != '\n' {
        lemma_first_nl(s.skip(1));
        let n = first_nl(s.skip(1));
        assert forall|j: int| 0 <= j < 1 + n implies #[trigger] s[j] != '\n' by { if j > 0 { assert(s[j] == s.skip(1)[j - 1]); } }
        if 1 + n < s.len() { assert(s[1 + n] == s.skip(1)[n]); }
    }
}
pub proof fn lemma_join_single(x: Seq<char>)
    ensures join_lines(seq![x]) == x + lf(), cont_lines(seq![x]) == sp() + x + lf()
{
    let e = Seq::<Seq<char>>::empty();
    assert(seq![x].drop_last() =~= e);
    assert(join_lines(e) =~= Seq::<char>::empty());
    assert(cont_lines(e) =~= Seq::<char>::empty());
    assert(seq![x].last() == x);
    assert(join_lines(seq![x]) =~= x + lf());
    assert(cont_lines(seq![x]) =~= sp() + x + lf());
}
pub proof fn lemma_join_cons(a: Seq<char>, rest: Seq<Seq<char>>)
    ensures join_lines(seq![a] + rest) == a + lf() + join_lines(rest)
    decreases rest.len()
{
    let all = seq![a] + rest;
    if rest.len() == 0 {
        assert(all =~= seq![a]);
        lemma_join_single(a);
        assert(join_lines(rest) =~= Seq::<char>::empty());
        assert(join_lines(all) =~= a + lf() + join_lines(rest));
    } else {
        lemma_join_cons(a, rest.drop_last());
        assert(all.drop_last() =~= seq![a] + rest.drop_last());
        assert(all.last() == rest.last());
        assert(join_lines(all) =~= a + lf() + join_lines(rest));
    }
}
pub proof fn lemma_cont_lines_cons(a: Seq<char>, rest: Seq<Seq<char>>)
    ensures cont_lines(seq![a] + rest) == sp() + a + lf() + cont_lines(rest)
    decreases rest.len()
{
    let all = seq![a] + rest;
    if rest.len() == 0 {
        assert(all =~= seq![a]);
        lemma_join_single(a);
        assert(cont_lines(rest) =~= Seq::<char>::empty());
        assert(cont_lines(all) =~= sp() + a + lf() + cont_lines(rest));
    } else {
        lemma_cont_lines_cons(a, rest.drop_last());
        assert(all.drop_last() =~= seq![a] + rest.drop_last());
        assert(all.last() == rest.last());
        assert(cont_lines(all) =~= sp() + a + lf() + cont_lines(rest));
    }
}
/// a non-empty value without CR and without a final LF: its lines have no CR/LF, and joined again give the value
pub proof fn lemma_lines_of_shape(v: Seq<char>)
    requires v.len() > 0, value_shape(v)
    ensures
        lines_of(v).len() >= 1,
        (lines_of(v).len() == 1 ==> lines_of(v)[0] == v),
        forall|i: int| 0 <= i < lines_of(v).len() ==> no_nl(#[trigger] lines_of(v)[i]),
        join_lines(lines_of(v)) == v + lf(),
    decreases v.len()
{
    lemma_first_nl(v);
    let n = first_nl(v);
    if n >= v.len() {
        assert(strip_cr(v) == v);
        assert(lines_of(v) =~= seq![v]);
        lemma_join_single(v);
        assert(no_nl(v)) by { assert forall|i: int| 0 <= i < v.len() implies !is_newline_s(#[trigger] v[i]) by {} }
    } else {
        let a = v.take(n);
        let r = v.skip(n + 1);
        assert(v.last() != '\n');
        assert(r.len() > 0);
        assert(r.last() == v.last());
        assert forall|i: int| 0 <= i < r.len() implies #[trigger] r[i] != '\r' by { assert(r[i] == v[i + n + 1]); }
        lemma_lines_of_shape(r);
        assert(strip_cr(a) == a) by { if a.len() > 0 { assert(a.last() == v[n - 1]); } }
        assert(lines_of(v) == seq![a] + lines_of(r));
        assert(no_nl(a)) by { assert forall|i: int| 0 <= i < a.len() implies !is_newline_s(#[trigger] a[i]) by { assert(a[i] == v[i]); } }
        lemma_join_cons(a, lines_of(r));
        assert(a + lf() + (r + lf()) =~= v + lf());
        assert forall|i: int| 0 <= i < lines_of(v).len() implies no_nl(#[trigger] lines_of(v)[i]) by {
            if i > 0 { assert(lines_of(v)[i] == lines_of(r)[i - 1]); }
        }
    }
}
pub proof fn lemma_vlines(v: Seq<char>)
    requires value_shape(v)
    ensures
        vlines(v).len() >= 1,
        join_lines(vlines(v)) == v + lf(),
        forall|i: int| 0 <= i < vlines(v).len() ==> no_nl(#[trigger] vlines(v)[i]),
        lines_of(v).len() > 1 ==> vlines(v) == lines_of(v),
        lines_of(v).len() <= 1 ==> vlines(v) == seq![v],
{
    if v.len() == 0 {
        let e = Seq::<char>::empty();
        assert(v =~= e);
        lemma_join_single(e);
    } else {
        lemma_lines_of_shape(v);
        if lines_of(v).len() == 1 { assert(lines_of(v) =~= seq![v]); }
    }
}
/// the printed field in normal form: "Name:" followed by " line\n" for each line of the value
pub proof fn lemma_field_text_normal(name: Seq<char>, v: Seq<char>)
    requires value_shape(v)
    ensures field_text(name, v) == name + colon() + cont_lines(vlines(v))
{
    lemma_vlines(v);
    if lines_of(v).len() <= 1 {
        lemma_join_single(v);
        assert(field_text(name, v) =~= name + colon() + cont_lines(vlines(v)));
    }
}

// ---- lexing the printed text (generic lemmas: ../deb822/lex_lemmas.rs) ------------------------------------
/// " line\n" right after "Name:"
pub proof fn lemma_lex_first_line(l: Seq<char>)
    requires canon_first(l)
    ensures lexes(SV(), sp() + l + lf(), seq![(WHITESPACE, sp())] + line_toks(l), S0())
{
    assert forall|b: Seq<char>| #[trigger] tokens_of(SV(), (sp() + l + lf()) + b) == (seq![(WHITESPACE, sp())] + line_toks(l)) + tokens_of(S0(), b) by {
        let r = l + (lf() + b);
        assert((sp() + l + lf()) + b =~= sp() + r);
        assert(r[0] == if l.len() > 0 { l[0] } else { '\n' });
        lemma_lex_sp(SV(), r);
        lemma_lex_nl(SV(), b);
        if l.len() > 0 {
            lemma_lex_value(SV(), l, b);
            assert(seq![(WHITESPACE, sp())] + (seq![(VALUE, l)] + (seq![(NEWLINE, lf())] + tokens_of(S0(), b)))
                =~= (seq![(WHITESPACE, sp())] + line_toks(l)) + tokens_of(S0(), b));
        } else {
            assert(r =~= lf() + b);
            assert(seq![(WHITESPACE, sp())] + (seq![(NEWLINE, lf())] + tokens_of(S0(), b))
                =~= (seq![(WHITESPACE, sp())] + line_toks(l)) + tokens_of(S0(), b));
        }
    }
}
/// " line\n" at the start of a line: a continuation line
pub proof fn lemma_lex_cont_line(l: Seq<char>)
    requires canon_cont(l)
    ensures lexes(S0(), sp() + l + lf(), cont_tok3(l), S0())
{
    assert forall|b: Seq<char>| #[trigger] tokens_of(S0(), (sp() + l + lf()) + b) == cont_tok3(l) + tokens_of(S0(), b) by {
        let r = l + (lf() + b);
        assert((sp() + l + lf()) + b =~= sp() + r);
        assert(r[0] == l[0]);
        lemma_lex_sp(S0(), r);
        lemma_lex_value(SI(), l, b);
        lemma_lex_nl(SI(), b);
        assert(seq![(INDENT, sp())] + (seq![(VALUE, l)] + (seq![(NEWLINE, lf())] + tokens_of(S0(), b))) =~= cont_tok3(l) + tokens_of(S0(), b));
    }
}
pub proof fn lemma_lex_cont_lines(ls: Seq<Seq<char>>)
    requires forall|i: int| 0 <= i < ls.len() ==> canon_cont(#[trigger] ls[i])
    ensures lexes(S0(), cont_lines(ls), cont_toks(ls), S0())
    decreases ls.len()
{
    if ls.len() == 0 {
        lemma_lexes_empty(S0());
    } else {
        let dl = ls.drop_last();
        assert forall|i: int| 0 <= i < dl.len() implies canon_cont(#[trigger] dl[i]) by { assert(dl[i] == ls[i]); }
        lemma_lex_cont_lines(dl);
        lemma_lex_cont_line(ls.last());
        lemma_lexes_compose(S0(), cont_lines(dl), cont_toks(dl), S0(), sp() + ls.last() + lf(), cont_tok3(ls.last()), S0());
        assert(cont_lines(ls) =~= cont_lines(dl) + (sp() + ls.last() + lf()));
    }
}
pub proof fn lemma_lex_field(name: Seq<char>, v: Seq<char>)
    requires valid_name(name), canon_value(v)
    ensures lexes(S0(), field_text(name, v), field_toks(name, vlines(v)), S0())
{
    lemma_field_text_normal(name, v);
    lemma_vlines(v);
    let ls = vlines(v);
    let l0 = ls[0];
    let rest = ls.skip(1);
    assert(ls =~= seq![l0] + rest);
    lemma_cont_lines_cons(l0, rest);
    assert forall|i: int| 0 <= i < rest.len() implies canon_cont(#[trigger] rest[i]) by { assert(rest[i] == ls[i + 1]); }
    lemma_lex_key_colon(name);
    lemma_lex_first_line(l0);
    lemma_lex_cont_lines(rest);
    lemma_lexes_compose(S0(), name + colon(), seq![(KEY, name), (COLON, colon())], SV(), sp() + l0 + lf(), seq![(WHITESPACE, sp())] + line_toks(l0), S0());
    lemma_lexes_compose(S0(), (name + colon()) + (sp() + l0 + lf()), seq![(KEY, name), (COLON, colon())] + (seq![(WHITESPACE, sp())] + line_toks(l0)), S0(),
        cont_lines(rest), cont_toks(rest), S0());
    assert(field_text(name, v) =~= ((name + colon()) + (sp() + l0 + lf())) + cont_lines(rest));
    assert(field_toks(name, ls) =~= (seq![(KEY, name), (COLON, colon())] + (seq![(WHITESPACE, sp())] + line_toks(l0))) + cont_toks(rest));
}
pub proof fn lemma_lex_fields(fs: Seq<Field>)
    requires canon_fields(fs)
    ensures lexes(S0(), fields_text(fs), fields_toks(fs), S0())
    decreases fs.len()
{
    if fs.len() == 0 {
        lemma_lexes_empty(S0());
    } else {
        let dl = fs.drop_last();
        assert forall|i: int| 0 <= i < dl.len() implies valid_name((#[trigger] dl[i]).name@) && canon_value(dl[i].value@) by { assert(dl[i] == fs[i]); }
        lemma_lex_fields(dl);
        lemma_lex_field(fs.last().name@, fs.last().value@);
        lemma_lexes_compose(S0(), fields_text(dl), fields_toks(dl), S0(),
            field_text(fs.last().name@, fs.last().value@), field_toks(fs.last().name@, vlines(fs.last().value@)), S0());
    }
}
pub proof fn lemma_lex_doc(ps: Seq<Paragraph>)
    requires canon_doc(ps)
    ensures lexes(S0(), doc_text(ps), doc_toks(ps), S0())
    decreases ps.len()
{
    if ps.len() == 0 {
        lemma_lexes_empty(S0());
    } else if ps.len() == 1 {
        lemma_lex_fields(ps[0].fields@);
    } else {
        let dl = ps.drop_last();
        assert forall|i: int| 0 <= i < dl.len() implies (#[trigger] dl[i]).fields@.len() > 0 && canon_fields(dl[i].fields@) by { assert(dl[i] == ps[i]); }
        lemma_lex_doc(dl);
        lemma_lex_fields(ps.last().fields@);
        assert(lexes(S0(), lf(), seq![(NEWLINE, lf())], S0())) by {
            assert forall|b: Seq<char>| #[trigger] tokens_of(S0(), lf() + b) == seq![(NEWLINE, lf())] + tokens_of(S0(), b) by { lemma_lex_nl(S0(), b); }
        }
        lemma_lexes_compose(S0(), doc_text(dl), doc_toks(dl), S0(), lf(), seq![(NEWLINE, lf())], S0());
        lemma_lexes_compose(S0(), doc_text(dl) + lf(), doc_toks(dl) + seq![(NEWLINE, lf())], S0(),
            fields_text(ps.last().fields@), fields_toks(ps.last().fields@), S0());
    }
}

// ---- reading the tokens ------------------------------------------------------------------------------------
pub open spec fn safe_rest(t: Seq<Tok>) -> bool { t.len() == 0 || t[0].0 != INDENT }

pub proof fn lemma_read_cont3(l: Seq<char>, t: Seq<Tok>, acc: Seq<char>)
    ensures rd_cont_lines(cont_tok3(l) + t, acc) == rd_cont_lines(t, acc + l + lf())
{
    let ts = cont_tok3(l) + t;
    assert(ts[0] == (INDENT, sp()));
    let t1 = ts.skip(1);
    assert(t1[0] == (VALUE, l));
    let t2 = t1.skip(1);
    assert(t2[0] == (NEWLINE, lf()));
    assert(t2.skip(1) =~= t);
    assert(rd_cont_line(t2, acc + l) == Some((acc + l + lf(), t)));
    assert(rd_cont_line(t1, acc) == rd_cont_line(t2, acc + l));
}
pub proof fn lemma_read_cont_toks(ls: Seq<Seq<char>>, t: Seq<Tok>, acc: Seq<char>)
    ensures rd_cont_lines(cont_toks(ls) + t, acc) == rd_cont_lines(t, acc + join_lines(ls))
    decreases ls.len()
{
    if ls.len() == 0 {
        assert(cont_toks(ls) + t =~= t);
        assert(acc + join_lines(ls) =~= acc);
    } else {
        let dl = ls.drop_last();
        let t1 = cont_tok3(ls.last()) + t;
        lemma_read_cont_toks(dl, t1, acc);
        lemma_read_cont3(ls.last(), t, acc + join_lines(dl));
        assert(cont_toks(ls) + t =~= cont_toks(dl) + t1);
        assert(acc + join_lines(dl) + ls.last() + lf() =~= acc + join_lines(ls));
    }
}
pub proof fn lemma_read_field(name: Seq<char>, v: Seq<char>, t: Seq<Tok>)
    requires value_shape(v), safe_rest(t)
    ensures rd_field(field_toks(name, vlines(v)) + t) == Some(((name, v), t))
{
    lemma_vlines(v);
    let ls = vlines(v);
    let l0 = ls[0];
    let rest = ls.skip(1);
    let ts = field_toks(name, ls) + t;
    let x = cont_toks(rest) + t;
    let y = line_toks(l0) + x;
    assert(ts =~= head_toks(name) + y);
    assert(ts[0] == (KEY, name));
    assert(ts[1] == (COLON, colon()));
    let t2 = ts.skip(2);
    assert(t2 =~= seq![(WHITESPACE, sp())] + y);
    assert(t2.skip(1) =~= y);
    assert(y[0].0 != WHITESPACE);
    assert(tok_skip_ws(y) == y);
    assert(tok_skip_ws(t2) == y);
    // first line
    if l0.len() > 0 {
        assert(y[0] == (VALUE, l0));
        let y1 = y.skip(1);
        assert(y1[0] == (NEWLINE, lf()));
        assert(y1.skip(1) =~= x);
        assert(rd_first_line(y1, l0) == Some((l0, x)));
        assert(rd_first_line(y, Seq::empty()) == Some((l0, x)));
    } else {
        assert(y[0] == (NEWLINE, lf()));
        assert(y.skip(1) =~= x);
        assert(l0 =~= Seq::<char>::empty());
        assert(rd_first_line(y, Seq::empty()) == Some((l0, x)));
    }
    // continuation lines
    lemma_read_cont_toks(rest, t, l0.push('\n'));
    let w = l0.push('\n') + join_lines(rest);
    assert(rd_cont_lines(t, w) == Some((w, t)));
    assert(ls =~= seq![l0] + rest);
    lemma_join_cons(l0, rest);
    assert(w =~= v + lf());
    assert(w.last() == '\n');
    assert(trim_nl(w) =~= v);
}
pub proof fn lemma_read_fields(fs: Seq<Field>, t: Seq<Tok>, cur: Seq<FieldV>, paras: Seq<Seq<FieldV>>)
    requires safe_rest(t), forall|i: int| 0 <= i < fs.len() ==> value_shape((#[trigger] fs[i]).value@)
    ensures read_doc(fields_toks(fs) + t, cur, paras) == read_doc(t, cur + fields_view(fs), paras)
    decreases fs.len()
{
    if fs.len() == 0 {
        assert(fields_toks(fs) + t =~= t);
        assert(cur + fields_view(fs) =~= cur);
    } else {
        let dl = fs.drop_last();
        let f = fs.last();
        let t1 = field_toks(f.name@, vlines(f.value@)) + t;
        assert(t1[0] == (KEY, f.name@)) by { assert(t1 =~= head_toks(f.name@) + (line_toks(vlines(f.value@)[0]) + cont_toks(vlines(f.value@).skip(1)) + t)); }
        assert forall|i: int| 0 <= i < dl.len() implies value_shape((#[trigger] dl[i]).value@) by { assert(dl[i] == fs[i]); }
        lemma_read_fields(dl, t1, cur, paras);
        lemma_read_field(f.name@, f.value@, t);
        assert(fields_toks(fs) + t =~= fields_toks(dl) + t1);
        let c1 = cur + fields_view(dl);
        assert(t.len() < t1.len());
        assert(read_doc(t1, c1, paras) == read_doc(t, c1.push((f.name@, f.value@)), paras));
        assert(c1.push((f.name@, f.value@)) =~= cur + fields_view(fs));
    }
}
/// reading a non-empty document: the last paragraph is still open when the tokens end
pub proof fn lemma_read_doc(ps: Seq<Paragraph>, t: Seq<Tok>, paras0: Seq<Seq<FieldV>>)
    requires
        ps.len() > 0, safe_rest(t),
        forall|i: int| 0 <= i < ps.len() ==> (#[trigger] ps[i]).fields@.len() > 0,
        forall|i: int, j: int| 0 <= i < ps.len() && 0 <= j < ps[i].fields@.len() ==> value_shape((#[trigger] ps[i].fields@[j]).value@),
    ensures read_doc(doc_toks(ps) + t, Seq::empty(), paras0) == read_doc(t, fields_view(ps.last().fields@), paras0 + paras_view(ps.drop_last()))
    decreases ps.len()
{
    let e = Seq::<FieldV>::empty();
    if ps.len() == 1 {
        lemma_read_fields(ps[0].fields@, t, e, paras0);
        assert(e + fields_view(ps[0].fields@) =~= fields_view(ps[0].fields@));
        assert(paras0 + paras_view(ps.drop_last()) =~= paras0);
    } else {
        let dl = ps.drop_last();
        let last = ps.last();
        let t2 = fields_toks(last.fields@) + t;
        let t1 = seq![(NEWLINE, lf())] + t2;
        assert(t1[0] == (NEWLINE, lf()));
        assert forall|i: int, j: int| 0 <= i < dl.len() && 0 <= j < dl[i].fields@.len() implies value_shape((#[trigger] dl[i].fields@[j]).value@) by { assert(dl[i] == ps[i]); }
        assert forall|i: int| 0 <= i < dl.len() implies (#[trigger] dl[i]).fields@.len() > 0 by { assert(dl[i] == ps[i]); }
        lemma_read_doc(dl, t1, paras0);
        assert(doc_toks(ps) + t =~= doc_toks(dl) + t1);
        let c = fields_view(dl.last().fields@);
        let p1 = paras0 + paras_view(dl.drop_last());
        assert(c.len() > 0);
        assert(t1.skip(1) =~= t2);
        assert(read_doc(t1, c, p1) == read_doc(t2, e, p1.push(c)));
        lemma_read_fields(last.fields@, t, e, p1.push(c));
        assert(e + fields_view(last.fields@) =~= fields_view(last.fields@));
        assert(p1.push(c) =~= paras0 + paras_view(dl)) by {
            assert(paras_view(dl) =~= paras_view(dl.drop_last()).push(c));
        }
    }
}

// ---- the theorem -------------------------------------------------------------------------------------------
/// C08: a canonical lossy document prints to text that the lossy reader turns back into an equal value
pub proof fn theorem_roundtrip(ps: Seq<Paragraph>)
    requires canon_doc(ps)
    ensures read_text(doc_text(ps)) == Some(paras_view(ps))
{
    lemma_lex_doc(ps);
    let e = Seq::<char>::empty();
    assert(doc_text(ps) + e =~= doc_text(ps));
    assert(tokens_of(S0(), doc_text(ps) + e) == doc_toks(ps) + tokens_of(S0(), e));
    assert(doc_toks(ps) + tokens_of(S0(), e) =~= doc_toks(ps));
    let et = Seq::<Tok>::empty();
    let ef = Seq::<FieldV>::empty();
    let ep = Seq::<Seq<FieldV>>::empty();
    if ps.len() == 0 {
        assert(paras_view(ps) =~= ep);
    } else {
        assert forall|i: int, j: int| 0 <= i < ps.len() && 0 <= j < ps[i].fields@.len() implies value_shape((#[trigger] ps[i].fields@[j]).value@) by {
            assert(canon_fields(ps[i].fields@));
        }
        lemma_read_doc(ps, et, ep);
        assert(doc_toks(ps) + et =~= doc_toks(ps));
        let c = fields_view(ps.last().fields@);
        assert(c.len() > 0);
        assert((ep + paras_view(ps.drop_last())).push(c) =~= paras_view(ps));
    }
}
/// the same statement over the letter of C08 (continuation lines may begin with '#'): does not hold
pub proof fn theorem_roundtrip_statement_domain(ps: Seq<Paragraph>)
    requires stmt_doc(ps)
    ensures read_text(doc_text(ps)) == Some(paras_view(ps))
{
}

// ---- the refutation behind the known finding ---------------------------------------------------------------
/// " #...\n" at the start of a line is lexed as INDENT COMMENT NEWLINE
pub proof fn lemma_lex_hash_line(l: Seq<char>)
    requires stmt_cont(l), l[0] == '#'
    ensures lexes(S0(), sp() + l + lf(), seq![(INDENT, sp()), (COMMENT, l), (NEWLINE, lf())], S0())
{
    broadcast use group_lex_runs;
    assert forall|b: Seq<char>| #[trigger] tokens_of(S0(), (sp() + l + lf()) + b) == seq![(INDENT, sp()), (COMMENT, l), (NEWLINE, lf())] + tokens_of(S0(), b) by {
        let r = l + (lf() + b);
        assert((sp() + l + lf()) + b =~= sp() + r);
        assert(r[0] == l[0]);
        lemma_lex_sp(S0(), r);
        let n = l.len() as int;
        assert(r[n] == '\n');
        assert forall|j: int| 0 <= j < n implies !is_newline_s(#[trigger] r[j]) by { assert(r[j] == l[j]); }
        assert(is_not_nl_run(r, n));
        assert(r.take(n) =~= l);
        assert(r.skip(n) =~= lf() + b);
        assert(tokens_of(SI(), r) == seq![(COMMENT, l)] + tokens_of(SI(), lf() + b));
        lemma_lex_nl(SI(), b);
        assert(seq![(INDENT, sp())] + (seq![(COMMENT, l)] + (seq![(NEWLINE, lf())] + tokens_of(S0(), b)))
            =~= seq![(INDENT, sp()), (COMMENT, l), (NEWLINE, lf())] + tokens_of(S0(), b));
    }
}
/// KNOWN FINDING (C08), proved from the contracts: the one-field document X = "a\n#b" is inside the
/// statement's domain, prints to "X: a\n #b\n" and reads back as X = "a\n".
pub proof fn lemma_hash_continuation_counterexample(ps: Seq<Paragraph>)
    requires
        ps.len() == 1, ps[0].fields@.len() == 1,
        ps[0].fields@[0].name@ == seq!['X'],
        ps[0].fields@[0].value@ == seq!['a', '\n', '#', 'b'],
    ensures
        stmt_doc(ps),
        read_text(doc_text(ps)) == Some(seq![seq![(seq!['X'], seq!['a', '\n'])]]),
        read_text(doc_text(ps)) != Some(paras_view(ps)),
{
    let name = seq!['X'];
    let v = seq!['a', '\n', '#', 'b'];
    let la = seq!['a'];
    let lb = seq!['#', 'b'];
    let fs = ps[0].fields@;
    // the lines of the value
    assert(first_nl(v.skip(1)) == 0);
    assert(first_nl(v) == 1);
    let r = v.skip(2);
    assert(r =~= lb);
    assert(first_nl(lb.skip(1).skip(1)) == 0);
    assert(first_nl(lb.skip(1)) == 1);
    assert(first_nl(lb) == 2);
    assert(lines_of(lb) =~= seq![lb]);
    assert(v.take(1) =~= la);
    assert(strip_cr(la) == la);
    assert(lines_of(v) =~= seq![la] + seq![lb]);
    let ls = lines_of(v);
    assert(ls.len() == 2 && ls[0] == la && ls[1] == lb);
    assert(vlines(v) == ls);
    assert(valid_name(name));
    assert(no_nl(la) && no_nl(lb));
    assert(stmt_value(v));
    assert(stmt_doc(ps));
    // the printed text
    assert(fs.drop_last() =~= Seq::<Field>::empty());
    assert(fields_text(fs.drop_last()) =~= Seq::<char>::empty());
    assert(doc_text(ps) =~= field_text(name, v));
    lemma_join_single(lb);
    lemma_cont_lines_cons(la, seq![lb]);
    let text = (name + colon()) + (sp() + la + lf()) + (sp() + lb + lf());
    assert(field_text(name, v) =~= text);
    // its tokens
    lemma_lex_key_colon(name);
    lemma_lex_first_line(la);
    lemma_lex_hash_line(lb);
    let t1 = seq![(KEY, name), (COLON, colon())];
    let t2 = seq![(WHITESPACE, sp())] + line_toks(la);
    let t3 = seq![(INDENT, sp()), (COMMENT, lb), (NEWLINE, lf())];
    lemma_lexes_compose(S0(), name + colon(), t1, SV(), sp() + la + lf(), t2, S0());
    lemma_lexes_compose(S0(), (name + colon()) + (sp() + la + lf()), t1 + t2, S0(), sp() + lb + lf(), t3, S0());
    let e = Seq::<char>::empty();
    assert(text + e =~= text);
    assert(tokens_of(S0(), text + e) == ((t1 + t2) + t3) + tokens_of(S0(), e));
    let ts = seq![(KEY, name), (COLON, colon()), (WHITESPACE, sp()), (VALUE, la), (NEWLINE, lf()), (INDENT, sp()), (COMMENT, lb), (NEWLINE, lf())];
    assert(((t1 + t2) + t3) + tokens_of(S0(), e) =~= ts);
    // what the reader makes of them
    let et = Seq::<Tok>::empty();
    let u2 = ts.skip(2);
    let u3 = u2.skip(1);
    assert(u3[0] == (VALUE, la));
    assert(tok_skip_ws(u3) == u3);
    assert(tok_skip_ws(u2) == u3);
    let u4 = u3.skip(1);
    assert(u4[0] == (NEWLINE, lf()));
    let u5 = u4.skip(1);
    assert(rd_first_line(u4, la) == Some((la, u5)));
    assert(rd_first_line(u3, Seq::empty()) == Some((la, u5)));
    assert(u5[0] == (INDENT, sp()));
    let u6 = u5.skip(1);
    assert(u6[0] == (COMMENT, lb));
    let u7 = u6.skip(1);
    assert(u7[0] == (NEWLINE, lf()));
    assert(u7.skip(1) =~= et);
    let w0 = la.push('\n');
    let w = w0 + lf();
    assert(rd_cont_line(u7, w0) == Some((w, et)));
    assert(rd_cont_line(u6, w0) == Some((w, et)));
    assert(rd_cont_lines(et, w) == Some((w, et)));
    assert(rd_cont_lines(u5, w0) == Some((w, et)));
    assert(w.last() == '\n');
    assert(trim_nl(w) =~= seq!['a', '\n']);
    assert(rd_field(ts) == Some(((name, seq!['a', '\n']), et)));
    let ef = Seq::<FieldV>::empty();
    let ep = Seq::<Seq<FieldV>>::empty();
    let c1 = ef.push((name, seq!['a', '\n']));
    assert(read_doc(et, c1, ep) == Some(ep.push(c1)));
    assert(read_doc(ts, ef, ep) == Some(ep.push(c1)));
    assert(ep.push(c1) =~= seq![seq![(name, seq!['a', '\n'])]]);
    // and that is not the document
    assert(paras_view(ps)[0][0].1 == v);
    assert(seq!['a', '\n'].len() != v.len());
}
