// ---------------------------------------------------------------------------------------------
// C08 (round-trip clause): the lossy deb822 reader as a function of the token sequence.
// `read_doc` is what the real `FromStr for Deb822` is proved to compute (contracts.vspec); the
// statement itself — reading the printed text gives back the value — is the theorem in roundtrip.rs.
// ---------------------------------------------------------------------------------------------
pub type FieldV = (Seq<char>, Seq<char>);

pub open spec fn tok_skip_ws(ts: Seq<Tok>) -> Seq<Tok>
    decreases ts.len()
{
    if ts.len() > 0 && ts[0].0 == WHITESPACE { tok_skip_ws(ts.skip(1)) } else { ts }
}
/// first value line: the last VALUE before the NEWLINE (or the end) wins
pub open spec fn rd_first_line(ts: Seq<Tok>, acc: Seq<char>) -> Option<(Seq<char>, Seq<Tok>)>
    decreases ts.len()
{
    if ts.len() == 0 { Some((acc, ts)) }
    else if ts[0].0 == VALUE { rd_first_line(ts.skip(1), ts[0].1) }
    else if ts[0].0 == NEWLINE { Some((acc, ts.skip(1))) }
    else { None }
}
/// one continuation line (after its INDENT)
pub open spec fn rd_cont_line(ts: Seq<Tok>, acc: Seq<char>) -> Option<(Seq<char>, Seq<Tok>)>
    decreases ts.len()
{
    if ts.len() == 0 { Some((acc, ts)) }
    else if ts[0].0 == VALUE { rd_cont_line(ts.skip(1), acc + ts[0].1) }
    else if ts[0].0 == COMMENT { rd_cont_line(ts.skip(1), acc) }
    else if ts[0].0 == NEWLINE { Some((acc + ts[0].1, ts.skip(1))) }
    else if ts[0].0 == KEY { Some((acc, ts)) }
    else { None }
}
/// all continuation lines
pub open spec fn rd_cont_lines(ts: Seq<Tok>, acc: Seq<char>) -> Option<(Seq<char>, Seq<Tok>)>
    decreases ts.len()
{
    if ts.len() > 0 && ts[0].0 == INDENT {
        match rd_cont_line(ts.skip(1), acc) {
            Some(ar) => if ar.1.len() < ts.len() { rd_cont_lines(ar.1, ar.0) } else { None },
            None => None,
        }
    } else { Some((acc, ts)) }
}
pub open spec fn trim_nl(v: Seq<char>) -> Seq<char> {
    if v.len() > 0 && (v.last() == '\n' || v.last() == '\r') { v.drop_last() } else { v }
}
/// a field starting at its KEY token: name, value, rest
pub open spec fn rd_field(ts: Seq<Tok>) -> Option<(FieldV, Seq<Tok>)> {
    if ts.len() < 2 || ts[1].0 != COLON { None }
    else {
        match rd_first_line(tok_skip_ws(ts.skip(2)), Seq::empty()) {
            None => None,
            Some(vr) => match rd_cont_lines(vr.1, vr.0.push('\n')) {
                None => None,
                Some(wr) => Some(((ts[0].1, trim_nl(wr.0)), wr.1)),
            },
        }
    }
}
/// skip the rest of a comment line
pub open spec fn rd_skip_comment(ts: Seq<Tok>) -> Seq<Tok>
    decreases ts.len()
{
    if ts.len() == 0 { ts } else if ts[0].0 == NEWLINE { ts.skip(1) } else { rd_skip_comment(ts.skip(1)) }
}
pub open spec fn flush(cur: Seq<FieldV>, paras: Seq<Seq<FieldV>>) -> Seq<Seq<FieldV>> {
    if cur.len() > 0 { paras.push(cur) } else { paras }
}
/// the whole document; None = the reader reports an error
pub open spec fn read_doc(ts: Seq<Tok>, cur: Seq<FieldV>, paras: Seq<Seq<FieldV>>) -> Option<Seq<Seq<FieldV>>>
    decreases ts.len()
{
    if ts.len() == 0 { Some(flush(cur, paras)) }
    else if ts[0].0 == WHITESPACE { read_doc(ts.skip(1), cur, paras) }
    else if ts[0].0 == KEY {
        match rd_field(ts) {
            None => None,
            Some(fr) => if fr.1.len() < ts.len() { read_doc(fr.1, cur.push(fr.0), paras) } else { None },
        }
    }
    else if ts[0].0 == COMMENT {
        let r = rd_skip_comment(ts.skip(1));
        if r.len() < ts.len() { read_doc(r, cur, paras) } else { None }
    }
    else if ts[0].0 == NEWLINE { read_doc(ts.skip(1), Seq::empty(), flush(cur, paras)) }
    else { None }
}

/// reading a text: lex from the start-of-document state, then read the tokens
pub open spec fn read_text(s: Seq<char>) -> Option<Seq<Seq<FieldV>>> {
    read_doc(tokens_of(LexState { sol: true, colon_seen: false, indented: false }, s), Seq::empty(), Seq::empty())
}

// ---- the rest never grows ---------------------------------------------------------------------------
pub proof fn lemma_rd_first_line_len(ts: Seq<Tok>, acc: Seq<char>)
    ensures rd_first_line(ts, acc) is Some ==> rd_first_line(ts, acc)->Some_0.1.len() <= ts.len()
    decreases ts.len()
{
    if ts.len() > 0 && ts[0].0 == VALUE { lemma_rd_first_line_len(ts.skip(1), ts[0].1); }
}
pub proof fn lemma_rd_cont_line_len(ts: Seq<Tok>, acc: Seq<char>)
    ensures rd_cont_line(ts, acc) is Some ==> rd_cont_line(ts, acc)->Some_0.1.len() <= ts.len()
    decreases ts.len()
{
    if ts.len() > 0 && ts[0].0 == VALUE { lemma_rd_cont_line_len(ts.skip(1), acc + ts[0].1); }
    else if ts.len() > 0 && ts[0].0 == COMMENT { lemma_rd_cont_line_len(ts.skip(1), acc); }
}
pub proof fn lemma_rd_cont_lines_len(ts: Seq<Tok>, acc: Seq<char>)
    ensures rd_cont_lines(ts, acc) is Some ==> rd_cont_lines(ts, acc)->Some_0.1.len() <= ts.len()
    decreases ts.len()
{
    if ts.len() > 0 && ts[0].0 == INDENT {
        lemma_rd_cont_line_len(ts.skip(1), acc);
        match rd_cont_line(ts.skip(1), acc) {
            Some(ar) => { if ar.1.len() < ts.len() { lemma_rd_cont_lines_len(ar.1, ar.0); } }
            None => {}
        }
    }
}
pub proof fn lemma_tok_skip_ws_len(ts: Seq<Tok>)
    ensures tok_skip_ws(ts).len() <= ts.len()
    decreases ts.len()
{
    if ts.len() > 0 && ts[0].0 == WHITESPACE { lemma_tok_skip_ws_len(ts.skip(1)); }
}
pub proof fn lemma_rd_skip_comment_len(ts: Seq<Tok>)
    ensures rd_skip_comment(ts).len() <= ts.len()
    decreases ts.len()
{
    if ts.len() > 0 && ts[0].0 != NEWLINE { lemma_rd_skip_comment_len(ts.skip(1)); }
}

pub proof fn lemma_rd_field_len(ts: Seq<Tok>)
    ensures rd_field(ts) is Some ==> rd_field(ts)->Some_0.1.len() + 2 <= ts.len()
{
    if ts.len() >= 2 && ts[1].0 == COLON {
        lemma_tok_skip_ws_len(ts.skip(2));
        let w = tok_skip_ws(ts.skip(2));
        lemma_rd_first_line_len(w, Seq::empty());
        match rd_first_line(w, Seq::empty()) {
            Some(vr) => { lemma_rd_cont_lines_len(vr.1, vr.0.push('\n')); }
            None => {}
        }
    }
}

pub proof fn lemma_is_suffix_char(c: char, v: Seq<char>)
    ensures is_suffix(seq![c], v) <==> (v.len() > 0 && v.last() == c)
{
    if v.len() > 0 {
        assert(v.skip(v.len() - 1) =~= seq![v.last()]);
        assert(seq![v.last()][0] == v.last());
        assert(seq![c][0] == c);
    }
}
