// ---------------------------------------------------------------------------------------------
// C02 (lossy deb822 reader): `Peekable` over the lexer iterator, as verified glue.
// R-method-map: `lex(s).peekable()` => `vx_lex_peekable(lex(s))`. The bodies below restate
// std::iter::Peekable::{next, peek} for this one iterator type and are verified; what is trusted
// is that they are the std adapter.
// ---------------------------------------------------------------------------------------------

/// the token kinds the lexer can produce (never a composite node kind)
pub open spec fn is_token_kind(k: SyntaxKind) -> bool {
    k == KEY || k == VALUE || k == COLON || k == INDENT || k == NEWLINE || k == WHITESPACE || k == COMMENT || k == ERROR
}

pub struct VxLexPeek<'a> {
    pub it: lex___Iter<'a>,
    pub peeked: Option<Option<(SyntaxKind, &'a str)>>,
}

impl<'a> VxLexPeek<'a> {
    pub open spec fn wf(&self) -> bool {
        &&& self.it.wf()
        &&& (self.peeked matches Some(Some(kt)) ==> is_token_kind(kt.0))
        &&& (self.peeked matches Some(None) ==> self.it.input@.len() == 0)
    }
    /// the tokens not yet yielded
    pub open spec fn remaining(&self) -> Seq<(SyntaxKind, Seq<char>)> {
        match self.peeked {
            Some(Some(kt)) => seq![(kt.0, kt.1@)] + tokens_of(self.it.state(), self.it.input@),
            Some(None) => Seq::empty(),
            None => tokens_of(self.it.state(), self.it.input@),
        }
    }
    /// strictly decreases whenever `next` yields a token
    pub open spec fn measure(&self) -> nat {
        self.it.input@.len() + (if self.peeked matches Some(Some(_)) { 1nat } else { 0nat })
    }

    pub fn next(&mut self) -> (r: Option<(SyntaxKind, &'a str)>)
        requires old(self).wf()
        ensures
            final(self).wf(),
            r is Some ==> final(self).measure() < old(self).measure() && is_token_kind(r->Some_0.0),
            r is None ==> final(self).measure() == 0 && old(self).measure() == 0,
            old(self).peeked matches Some(p) ==> r == p,
            old(self).remaining().len() == 0 ==> r is None && final(self).remaining() == old(self).remaining(),
            old(self).remaining().len() > 0 ==> r is Some && (r->Some_0.0, r->Some_0.1@) == old(self).remaining()[0]
                && final(self).remaining() == old(self).remaining().skip(1)
                && old(self).remaining() == seq![(r->Some_0.0, r->Some_0.1@)] + final(self).remaining(),
    {
        proof { lemma_tokens_of_step(self.it.state(), self.it.input@); }
        match self.peeked.take() {
            Some(v) => v,
            None => self.it.next(),
        }
    }

    pub fn peek(&mut self) -> (r: Option<&(SyntaxKind, &'a str)>)
        requires old(self).wf()
        ensures
            final(self).wf(),
            final(self).measure() <= old(self).measure(),
            r is Some ==> final(self).peeked == Some(Some(*r->Some_0)) && is_token_kind(r->Some_0.0),
            r is None ==> final(self).measure() == 0,
            final(self).remaining() == old(self).remaining(),
            old(self).remaining().len() == 0 <==> r is None,
            r is Some ==> (r->Some_0.0, r->Some_0.1@) == old(self).remaining()[0],
    {
        proof { lemma_tokens_of_step(self.it.state(), self.it.input@); }
        if self.peeked.is_none() {
            let n = self.it.next();
            self.peeked = Some(n);
        }
        match &self.peeked {
            Some(Some(v)) => Some(v),
            _ => None,
        }
    }
}

pub fn vx_lex_peekable<'a>(it: lex___Iter<'a>) -> (r: VxLexPeek<'a>)
    requires it.wf()
    ensures r.wf(), r.remaining() == tokens_of(it.state(), it.input@)
{
    VxLexPeek { it, peeked: None }
}

/// unfolding tokens_of by one lexer step
pub proof fn lemma_tokens_of_step(st: LexState, s: Seq<char>)
    ensures
        s.len() == 0 ==> tokens_of(st, s).len() == 0,
        forall|k: SyntaxKind, t: Seq<char>, st2: LexState, s2: Seq<char>| #[trigger] lex_step(st, s, k, t, st2, s2)
            ==> tokens_of(st, s) == seq![(k, t)] + tokens_of(st2, s2),
{
    assert forall|k: SyntaxKind, t: Seq<char>, st2: LexState, s2: Seq<char>| #[trigger] lex_step(st, s, k, t, st2, s2)
        implies tokens_of(st, s) == seq![(k, t)] + tokens_of(st2, s2) by {
        let n = t.len() as int;
        assert(s.take(n) =~= t);
        assert(s.skip(n) =~= s2);
    }
}
