// ---------------------------------------------------------------------------------------------
// C02 (lossy deb822 reader): `Peekable` over the lexer iterator, as verified glue.
// R-method-map: `lex(s).peekable()` => `vx_lex_peekable(lex(s))`. The bodies below restate
// std::iter::Peekable::{next, peek} for this one iterator type and are verified; what is trusted
// is that they are the std adapter.
// ---------------------------------------------------------------------------------------------

/// the token kinds the lexer can produce (never a composite node kind)
pub open spec fn is_token_kind(k: SyntaxKind) -> bool {
    k == KEY || k == VALUE || k == COLON || k == INDENT || k == NEWLINE || k == WHITESPACE || k == COMMENT || k == ERROR
}

pub struct VxLexPeek<'a> {
    pub it: lex___Iter<'a>,
    pub peeked: Option<Option<(SyntaxKind, &'a str)>>,
}

impl<'a> VxLexPeek<'a> {
    pub open spec fn wf(&self) -> bool {
        &&& self.it.wf()
        &&& (self.peeked matches Some(Some(kt)) ==> is_token_kind(kt.0))
        &&& (self.peeked matches Some(None) ==> self.it.input@.len() == 0)
    }
    /// strictly decreases whenever `next` yields a token
    pub open spec fn measure(&self) -> nat {
        self.it.input@.len() + (if self.peeked matches Some(Some(_)) { 1nat } else { 0nat })
    }

    pub fn next(&mut self) -> (r: Option<(SyntaxKind, &'a str)>)
        requires old(self).wf()
        ensures
            final(self).wf(),
            r is Some ==> final(self).measure() < old(self).measure() && is_token_kind(r->Some_0.0),
            r is None ==> final(self).measure() == 0 && old(self).measure() == 0,
            old(self).peeked matches Some(p) ==> r == p,
    {
        match self.peeked.take() {
            Some(v) => v,
            None => self.it.next(),
        }
    }

    pub fn peek(&mut self) -> (r: Option<&(SyntaxKind, &'a str)>)
        requires old(self).wf()
        ensures
            final(self).wf(),
            final(self).measure() <= old(self).measure(),
            r is Some ==> final(self).peeked == Some(Some(*r->Some_0)) && is_token_kind(r->Some_0.0),
            r is None ==> final(self).measure() == 0,
    {
        if self.peeked.is_none() {
            let n = self.it.next();
            self.peeked = Some(n);
        }
        match &self.peeked {
            Some(Some(v)) => Some(v),
            _ => None,
        }
    }
}

pub fn vx_lex_peekable<'a>(it: lex___Iter<'a>) -> (r: VxLexPeek<'a>)
    requires it.wf()
    ensures r.wf()
{
    VxLexPeek { it, peeked: None }
}
