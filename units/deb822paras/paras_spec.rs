// ---------------------------------------------------------------------------------------------
// C05: add / insert / remove paragraph against Seq push / insert / remove on the ROOT's children.
// Vocabulary: a root's children are PARAGRAPH nodes, EMPTY_LINE nodes and tokens (comments, errors).
// ---------------------------------------------------------------------------------------------
pub open spec fn empty_para() -> Tree { node(PARAGRAPH, Seq::empty()) }
pub open spec fn is_para(t: Tree) -> bool { t is Node && rowan::tree_kind(t) == PARAGRAPH }
/// an EMPTY_LINE child: the parser makes one for every blank line *and* for every comment line outside a paragraph
pub open spec fn is_el(t: Tree) -> bool { rowan::tree_kind(t) == EMPTY_LINE }
/// a blank line proper: an EMPTY_LINE node that ends in a NEWLINE token and holds no comment
pub open spec fn is_blank(t: Tree) -> bool {
    &&& t is Node
    &&& rowan::tree_kind(t) == EMPTY_LINE
    &&& rowan::tree_children(t).len() > 0
    &&& rowan::tree_kind(rowan::tree_children(t).last()) == NEWLINE
    &&& forall|i: int| 0 <= i < rowan::tree_children(t).len() ==> rowan::tree_kind(#[trigger] rowan::tree_children(t)[i]) != COMMENT
}
pub open spec fn ch_paras(ch: Seq<Tree>) -> Seq<Tree> { kind_filter(rowan::child_nodes(ch), PARAGRAPH) }
pub open spec fn para_positions(ch: Seq<Tree>) -> Seq<int> { kind_positions(ch, PARAGRAPH) }
/// the type invariant of a Deb822 handle used here: it points at a node and no *token* child carries the kind PARAGRAPH
pub open spec fn root_wf(t: Tree) -> bool {
    &&& t is Node
    &&& forall|i: int| 0 <= i < rowan::tree_children(t).len() && rowan::tree_kind(#[trigger] rowan::tree_children(t)[i]) == PARAGRAPH
            ==> rowan::tree_children(t)[i] is Node
}

/// "paragraphs stay separated by at least one blank line"
pub open spec fn blank_between(ch: Seq<Tree>, i: int, j: int) -> bool { exists|k: int| i < k < j && #[trigger] is_blank(ch[k]) }
pub open spec fn sep_wf(ch: Seq<Tree>) -> bool {
    forall|i: int, j: int| 0 <= i < j < ch.len() && is_para(ch[i]) && is_para(ch[j]) ==> #[trigger] blank_between(ch, i, j)
}

/// what an insertion puts into the child list: the new empty paragraph and at most one blank line, on the side
/// where the neighbouring paragraph is
pub open spec fn ins_shape(ins: Seq<Tree>, before: bool) -> bool {
    ||| ins == seq![empty_para()]
    ||| (ins.len() == 2 && before && ins[0] == empty_para() && is_blank(ins[1]))
    ||| (ins.len() == 2 && !before && is_blank(ins[0]) && ins[1] == empty_para())
}
/// f is o with `ins` inserted in front of child p; every other child is the same tree (text, comments) as before
pub open spec fn insert_post(o: Tree, f: Tree, p: int, before: bool, ins: Seq<Tree>) -> bool {
    let ch = rowan::tree_children(o);
    &&& 0 <= p <= ch.len()
    &&& f == node(rowan::tree_kind(o), ch.take(p) + ins + ch.skip(p))
    &&& ins_shape(ins, before)
    &&& (ch_paras(ch).len() > 0 ==> ins.len() == 2)
}
/// f is o without the children s..q, all of which are EMPTY_LINE children
pub open spec fn blanks_removed(o: Tree, f: Tree, s: int, q: int) -> bool {
    let ch = rowan::tree_children(o);
    &&& 0 <= s <= q <= ch.len()
    &&& forall|j: int| s <= j < q ==> is_el(#[trigger] ch[j])
    &&& f == node(rowan::tree_kind(o), ch.take(s) + ch.skip(q))
}
/// f is o without the paragraph at child p and the EMPTY_LINE children p+1..q after it; every other child is the same tree
pub open spec fn para_removed(o: Tree, f: Tree, p: int, q: int) -> bool {
    let ch = rowan::tree_children(o);
    &&& 0 <= p < q <= ch.len()
    &&& is_para(ch[p])
    &&& forall|j: int| p < j < q ==> is_el(#[trigger] ch[j])
    &&& f == node(rowan::tree_kind(o), ch.take(p) + ch.skip(q))
}

/// where insert_empty_paragraph inserts: in front of child i, or at the end
pub open spec fn ins_point(index: Option<usize>, n: nat) -> int { match index { Some(i) => i as int, None => n as int } }
pub open spec fn is_some_idx(index: Option<usize>) -> bool { index is Some }
pub open spec fn idx_lt(i: usize, n: nat) -> bool { i < n }

// ---- lemmas -----------------------------------------------------------------------------------
pub proof fn lemma_ch_paras_add(a: Seq<Tree>, b: Seq<Tree>)
    ensures ch_paras(a + b) == ch_paras(a) + ch_paras(b)
{
    lemma_child_nodes_add(a, b);
    lemma_kind_filter_add(rowan::child_nodes(a), rowan::child_nodes(b), PARAGRAPH);
}
pub proof fn lemma_ch_paras_unfold(ch: Seq<Tree>)
    requires ch.len() > 0
    ensures ch_paras(ch) == if is_para(ch.last()) { ch_paras(ch.drop_last()).push(ch.last()) } else { ch_paras(ch.drop_last()) }
{
    let dl = ch.drop_last();
    if ch.last() is Node {
        assert(rowan::child_nodes(ch) == rowan::child_nodes(dl).push(ch.last()));
        assert(rowan::child_nodes(ch).drop_last() =~= rowan::child_nodes(dl));
    }
}
pub proof fn lemma_ch_paras_one(t: Tree)
    ensures ch_paras(seq![t]) == if is_para(t) { seq![t] } else { Seq::<Tree>::empty() }
{
    let s = seq![t];
    lemma_ch_paras_unfold(s);
    assert(s.drop_last() =~= Seq::<Tree>::empty());
    assert(rowan::child_nodes(Seq::<Tree>::empty()) =~= Seq::<Tree>::empty());
    assert(ch_paras(Seq::<Tree>::empty()) =~= Seq::<Tree>::empty());
    assert(ch_paras(s.drop_last()) =~= Seq::<Tree>::empty());
    if is_para(t) { assert(Seq::<Tree>::empty().push(t) =~= seq![t]); }
}
pub proof fn lemma_para_positions_len(ch: Seq<Tree>)
    ensures para_positions(ch).len() == ch_paras(ch).len()
    decreases ch.len()
{
    if ch.len() > 0 {
        lemma_ch_paras_unfold(ch);
        lemma_para_positions_len(ch.drop_last());
    } else {
        assert(rowan::child_nodes(ch) =~= Seq::<Tree>::empty());
        assert(ch_paras(ch) =~= Seq::<Tree>::empty());
    }
}
/// the j-th paragraph sits at child position para_positions(ch)[j]
pub proof fn lemma_para_position(ch: Seq<Tree>, j: int)
    requires 0 <= j < ch_paras(ch).len()
    ensures
        para_positions(ch).len() == ch_paras(ch).len(),
        0 <= para_positions(ch)[j] < ch.len(),
        ch[para_positions(ch)[j]] == ch_paras(ch)[j],
        is_para(ch[para_positions(ch)[j]]),
        ch_paras(ch.take(para_positions(ch)[j])).len() == j,
    decreases ch.len()
{
    lemma_para_positions_len(ch);
    if ch.len() > 0 {
        let dl = ch.drop_last();
        lemma_ch_paras_unfold(ch);
        lemma_para_positions_len(dl);
        if is_para(ch.last()) && j == ch_paras(dl).len() {
            assert(para_positions(ch)[j] == ch.len() - 1);
            assert(ch.take(ch.len() - 1) =~= dl);
        } else {
            lemma_para_position(dl, j);
            let pos = para_positions(dl)[j];
            assert(para_positions(ch)[j] == pos);
            assert(ch[pos] == dl[pos]);
            assert(ch.take(pos) =~= dl.take(pos));
        }
    }
}
/// a paragraph child preceded by j paragraphs is the j-th paragraph
pub proof fn lemma_position_of(ch: Seq<Tree>, i: int)
    requires 0 <= i < ch.len(), is_para(ch[i])
    ensures
        ch_paras(ch.take(i)).len() < para_positions(ch).len(),
        para_positions(ch)[ch_paras(ch.take(i)).len() as int] == i,
    decreases ch.len()
{
    let dl = ch.drop_last();
    lemma_para_positions_len(dl);
    if i == ch.len() - 1 {
        assert(ch.take(i) =~= dl);
    } else {
        assert(dl[i] == ch[i]);
        lemma_position_of(dl, i);
        assert(ch.take(i) =~= dl.take(i));
    }
}
/// the paragraphs among the first i children are no more than all paragraphs
pub proof fn lemma_paras_prefix_len(ch: Seq<Tree>, i: int)
    requires 0 <= i <= ch.len()
    ensures ch_paras(ch.take(i)).len() <= ch_paras(ch).len()
{
    lemma_ch_paras_add(ch.take(i), ch.skip(i));
    assert(ch.take(i) + ch.skip(i) =~= ch);
}
pub proof fn lemma_paras_take_step(ch: Seq<Tree>, i: int)
    requires 0 <= i < ch.len()
    ensures ch_paras(ch.take(i + 1)) == if is_para(ch[i]) { ch_paras(ch.take(i)).push(ch[i]) } else { ch_paras(ch.take(i)) }
{
    let t = ch.take(i + 1);
    lemma_ch_paras_unfold(t);
    assert(t.drop_last() =~= ch.take(i));
    assert(t.last() == ch[i]);
}
/// children that are not paragraphs do not count
pub proof fn lemma_skip_nonparas(ch: Seq<Tree>, a: int, b: int)
    requires 0 <= a <= b <= ch.len(), forall|j: int| a <= j < b ==> !is_para(#[trigger] ch[j])
    ensures ch_paras(ch.skip(a)) == ch_paras(ch.skip(b))
    decreases b - a
{
    if a < b {
        lemma_skip_nonparas(ch, a + 1, b);
        lemma_ch_paras_add(seq![ch[a]], ch.skip(a + 1));
        assert(seq![ch[a]] + ch.skip(a + 1) =~= ch.skip(a));
        lemma_ch_paras_one(ch[a]);
        assert(Seq::<Tree>::empty() + ch_paras(ch.skip(a + 1)) =~= ch_paras(ch.skip(a + 1)));
    }
}
pub proof fn lemma_kind_filter_le(ts: Seq<Tree>, k: SyntaxKind)
    ensures kind_filter(ts, k).len() <= ts.len()
    decreases ts.len()
{
    if ts.len() > 0 { lemma_kind_filter_le(ts.drop_last(), k); }
}
/// no child nodes: no paragraphs
pub proof fn lemma_no_nodes_no_paras(ch: Seq<Tree>)
    requires rowan::child_nodes(ch).len() == 0
    ensures ch_paras(ch).len() == 0, forall|i: int| 0 <= i < ch.len() ==> !is_para(#[trigger] ch[i])
    decreases ch.len()
{
    assert(rowan::child_nodes(ch) =~= Seq::<Tree>::empty());
    assert(ch_paras(ch) =~= Seq::<Tree>::empty());
    if ch.len() > 0 {
        if ch.last() is Node {
            assert(rowan::child_nodes(ch).len() > 0);
        } else {
            lemma_no_nodes_no_paras(ch.drop_last());
            assert forall|i: int| 0 <= i < ch.len() implies !is_para(#[trigger] ch[i]) by {
                if i < ch.len() - 1 { assert(ch.drop_last()[i] == ch[i]); }
            }
        }
    }
}

/// list view of an insertion in front of the k-th paragraph (k == number of paragraphs: at the end)
pub proof fn lemma_insert_paras(ch: Seq<Tree>, p: int, ins: Seq<Tree>, before: bool)
    requires 0 <= p <= ch.len(), ins_shape(ins, before)
    ensures
        ch_paras(ch.take(p) + ins + ch.skip(p)) == ch_paras(ch).insert(ch_paras(ch.take(p)).len() as int, empty_para()),
        ch_paras(ch.take(p)).len() <= ch_paras(ch).len(),
{
    let a = ch.take(p); let b = ch.skip(p);
    assert(a + b =~= ch);
    lemma_ch_paras_add(a, b);
    lemma_ch_paras_add(a + ins, b);
    lemma_ch_paras_add(a, ins);
    let e = empty_para();
    assert(ch_paras(ins) == seq![e]) by {
        if ins.len() == 1 {
            lemma_ch_paras_one(e);
        } else {
            assert(ins =~= seq![ins[0]] + seq![ins[1]]);
            lemma_ch_paras_add(seq![ins[0]], seq![ins[1]]);
            lemma_ch_paras_one(ins[0]); lemma_ch_paras_one(ins[1]);
            if before { assert(seq![e] + Seq::<Tree>::empty() =~= seq![e]); } else { assert(Seq::<Tree>::empty() + seq![e] =~= seq![e]); }
        }
    }
    let pa = ch_paras(a); let pb = ch_paras(b);
    let k = pa.len() as int;
    assert((pa + pb).insert(k, e) =~= pa + seq![e] + pb);
}
/// list view of removing the paragraph at child p together with the blank lines up to q
pub proof fn lemma_remove_paras(ch: Seq<Tree>, p: int, q: int, j: int)
    requires
        0 <= p < q <= ch.len(), is_para(ch[p]),
        forall|x: int| p < x < q ==> is_el(#[trigger] ch[x]),
        ch_paras(ch.take(p)).len() == j,
    ensures
        0 <= j < ch_paras(ch).len(),
        ch_paras(ch.take(p) + ch.skip(q)) == ch_paras(ch).remove(j),
{
    let a = ch.take(p); let b = ch.skip(p + 1); let c = ch.skip(q);
    assert(a + seq![ch[p]] + b =~= ch);
    lemma_ch_paras_add(a + seq![ch[p]], b);
    lemma_ch_paras_add(a, seq![ch[p]]);
    lemma_ch_paras_one(ch[p]);
    lemma_ch_paras_add(a, c);
    assert forall|x: int| p + 1 <= x < q implies !is_para(#[trigger] ch[x]) by { assert(is_el(ch[x])); }
    lemma_skip_nonparas(ch, p + 1, q);
    let pa = ch_paras(a); let pb = ch_paras(b);
    assert((pa + seq![ch[p]] + pb).remove(j) =~= pa + pb);
}

// ---- separation is preserved ----------------------------------------------------------------
pub proof fn lemma_sep_insert_before(ch: Seq<Tree>, p: int, ins: Seq<Tree>)
    requires sep_wf(ch), 0 <= p < ch.len(), is_para(ch[p]), ins.len() == 2, ins[0] == empty_para(), is_blank(ins[1])
    ensures sep_wf(ch.take(p) + ins + ch.skip(p))
{
    let nw = ch.take(p) + ins + ch.skip(p);
    assert forall|i: int, j: int| 0 <= i < j < nw.len() && is_para(nw[i]) && is_para(nw[j]) implies #[trigger] blank_between(nw, i, j) by {
        assert(nw[p + 1] == ins[1]);
        if i == p {
            assert(is_blank(nw[p + 1]));
        } else if i < p {
            assert(nw[i] == ch[i]);
            if j < p {
                assert(nw[j] == ch[j]);
                assert(blank_between(ch, i, j));
                let k = choose|k: int| i < k < j && #[trigger] is_blank(ch[k]);
                assert(nw[k] == ch[k]); assert(is_blank(nw[k]));
            } else {
                // every paragraph at or after the insertion point is preceded by the old paragraph p's separator
                assert(blank_between(ch, i, p));
                let k = choose|k: int| i < k < p && #[trigger] is_blank(ch[k]);
                assert(nw[k] == ch[k]); assert(is_blank(nw[k]));
            }
        } else {
            assert(i >= p + 2);
            assert(nw[i] == ch[i - 2]); assert(nw[j] == ch[j - 2]);
            assert(blank_between(ch, i - 2, j - 2));
            let k = choose|k: int| i - 2 < k < j - 2 && #[trigger] is_blank(ch[k]);
            assert(nw[k + 2] == ch[k]); assert(is_blank(nw[k + 2]));
        }
    }
}
pub proof fn lemma_sep_append(ch: Seq<Tree>, ins: Seq<Tree>)
    requires
        sep_wf(ch),
        (ins.len() == 2 && is_blank(ins[0]) && ins[1] == empty_para()) || (ins == seq![empty_para()] && ch_paras(ch).len() == 0),
    ensures sep_wf(ch + ins)
{
    let nw = ch + ins;
    let n = ch.len() as int;
    assert forall|i: int, j: int| 0 <= i < j < nw.len() && is_para(nw[i]) && is_para(nw[j]) implies #[trigger] blank_between(nw, i, j) by {
        if j < n {
            assert(nw[i] == ch[i]); assert(nw[j] == ch[j]);
            assert(blank_between(ch, i, j));
            let k = choose|k: int| i < k < j && #[trigger] is_blank(ch[k]);
            assert(nw[k] == ch[k]); assert(is_blank(nw[k]));
        } else if ins.len() == 2 {
            assert(nw[n] == ins[0]);
            assert(j == n + 1);
            assert(i < n);
            assert(is_blank(nw[n]));
        } else {
            assert(i < n); assert(nw[i] == ch[i]);
            lemma_para_in_paras(ch, i);
        }
    }
}
/// a paragraph child makes the paragraph list non-empty
pub proof fn lemma_para_in_paras(ch: Seq<Tree>, i: int)
    requires 0 <= i < ch.len(), is_para(ch[i])
    ensures ch_paras(ch).len() > 0
{
    lemma_position_of(ch, i);
    lemma_para_positions_len(ch);
}
pub proof fn lemma_sep_remove(ch: Seq<Tree>, p: int, q: int)
    requires sep_wf(ch), 0 <= p < q <= ch.len(), is_para(ch[p])
    ensures sep_wf(ch.take(p) + ch.skip(q))
{
    let nw = ch.take(p) + ch.skip(q);
    let d = q - p;
    assert forall|i: int, j: int| 0 <= i < j < nw.len() && is_para(nw[i]) && is_para(nw[j]) implies #[trigger] blank_between(nw, i, j) by {
        if i < p {
            assert(nw[i] == ch[i]);
            if j < p {
                assert(nw[j] == ch[j]);
                assert(blank_between(ch, i, j));
                let k = choose|k: int| i < k < j && #[trigger] is_blank(ch[k]);
                assert(nw[k] == ch[k]); assert(is_blank(nw[k]));
            } else {
                // the separator in front of the removed paragraph stays
                assert(blank_between(ch, i, p));
                let k = choose|k: int| i < k < p && #[trigger] is_blank(ch[k]);
                assert(nw[k] == ch[k]); assert(is_blank(nw[k]));
            }
        } else {
            assert(nw[i] == ch[i + d]); assert(nw[j] == ch[j + d]);
            assert(blank_between(ch, i + d, j + d));
            let k = choose|k: int| i + d < k < j + d && #[trigger] is_blank(ch[k]);
            assert(nw[k - d] == ch[k]); assert(is_blank(nw[k - d]));
        }
    }
}
/// the type invariant survives replacing children by nodes
pub proof fn lemma_root_wf_splice(o: Tree, a: int, b: int, ins: Seq<Tree>)
    requires root_wf(o), 0 <= a <= b <= rowan::tree_children(o).len(), forall|i: int| 0 <= i < ins.len() && rowan::tree_kind(#[trigger] ins[i]) == PARAGRAPH ==> ins[i] is Node
    ensures root_wf(node(rowan::tree_kind(o), rowan::tree_children(o).take(a) + ins + rowan::tree_children(o).skip(b)))
{
    let ch = rowan::tree_children(o);
    let nw = ch.take(a) + ins + ch.skip(b);
    assert forall|i: int| 0 <= i < nw.len() && rowan::tree_kind(#[trigger] nw[i]) == PARAGRAPH implies nw[i] is Node by {
        if i < a { assert(nw[i] == ch[i]); }
        else if i < a + ins.len() { assert(nw[i] == ins[i - a]); }
        else { assert(nw[i] == ch[i - a - ins.len() + b]); }
    }
}
