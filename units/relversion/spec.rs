// ---- Relation::version against the tree --------------------------------------------------------------------------------
impl VxFromStr for dc_relations::VersionConstraint {
    type VxErr = String;
    open spec fn parse_rel(s: Seq<char>, v: dc_relations::VersionConstraint) -> bool { vconstraint_parse(s) == Some(v) }
    open spec fn parse_err(s: Seq<char>) -> bool { vconstraint_parse(s) is None }
    fn vx_from_str(s: &str) -> (r: Result<dc_relations::VersionConstraint, String>) { dc_relations::VersionConstraint::from_str(s) }
}
pub open spec fn is_vtok(t: Tree) -> bool { t is Tok && (rowan::tree_kind(t) == IDENT || rowan::tree_kind(t) == COLON) }
/// the version text: the IDENT and COLON tokens of the VERSION node, concatenated
pub open spec fn vtok_texts(ch: Seq<Tree>) -> Seq<char>
    decreases ch.len()
{
    if ch.len() == 0 { Seq::empty() } else { vtok_texts(ch.drop_last()) + (if is_vtok(ch.last()) { rowan::tree_text(ch.last()) } else { Seq::empty() }) }
}
/// the version constraint the tree shows: first VERSION child, its first CONSTRAINT child as operator, its IDENT / COLON
/// tokens as version; a constraint only if the operator is one of the five and the version text is a version
pub open spec fn t_version(rel: Tree) -> Option<(dc_relations::VersionConstraint, debversion::Version)> {
    match first_node(rowan::tree_children(rel), VERSION) {
        None => None,
        Some(vn) => match first_node(rowan::tree_children(vn), CONSTRAINT) {
            None => None,
            Some(cn) => {
                let vt = vtok_texts(rowan::tree_children(vn));
                if vt.len() == 0 { None } else {
                    match (vconstraint_parse(rowan::tree_text(cn)), version_parse_spec(vt)) {
                        (Some(c), Some(v)) => Some((c, v)),
                        _ => None,
                    }
                }
            }
        },
    }
}
/// the collected token texts are the version text of the children
pub proof fn lemma_vtok_collect(elems: Seq<SyntaxElement>, ch: Seq<Tree>, outs: Seq<Option<String>>)
    requires
        elems.len() == ch.len(), outs.len() == ch.len(),
        forall|i: int| 0 <= i < ch.len() ==> rowan::elem_tree(#[trigger] elems[i]) == ch[i],
        forall|i: int| 0 <= i < ch.len() ==> (#[trigger] outs[i] is Some) == is_vtok(ch[i]),
        forall|i: int| 0 <= i < ch.len() && outs[i] is Some ==> (#[trigger] outs[i])->Some_0@ == rowan::tree_text(ch[i]),
    ensures concat_strs(somes(outs)) == vtok_texts(ch)
    decreases ch.len()
{
    if ch.len() > 0 {
        lemma_vtok_collect(elems.drop_last(), ch.drop_last(), outs.drop_last());
        if outs.last() is Some {
            assert(somes(outs) == somes(outs.drop_last()).push(outs.last()->Some_0));
            assert(somes(outs).drop_last() =~= somes(outs.drop_last()));
        }
    } else {
        assert(somes(outs) =~= Seq::<String>::empty());
    }
}
