// ---- Relation::version against the tree --------------------------------------------------------------------------------
impl VxFromStr for dc_relations::VersionConstraint {
    type VxErr = String;
    open spec fn parse_rel(s: Seq<char>, v: dc_relations::VersionConstraint) -> bool { vconstraint_parse(s) == Some(v) }
    open spec fn parse_err(s: Seq<char>) -> bool { vconstraint_parse(s) is None }
    fn vx_from_str(s: &str) -> (r: Result<dc_relations::VersionConstraint, String>) { dc_relations::VersionConstraint::from_str(s) }
}
pub open spec fn is_vtok(t: Tree) -> bool { t is Tok && (rowan::tree_kind(t) == IDENT || rowan::tree_kind(t) == COLON) }
/// the version text: the IDENT and COLON tokens of the VERSION node, concatenated
pub open spec fn vtok_texts(ch: Seq<Tree>) -> Seq<char>
    decreases ch.len()
{
    if ch.len() == 0 { Seq::empty() } else { vtok_texts(ch.drop_last()) + (if is_vtok(ch.last()) { rowan::tree_text(ch.last()) } else { Seq::empty() }) }
}
/// the version constraint the tree shows: first VERSION child, its first CONSTRAINT child as operator, its IDENT / COLON
/// tokens as version; a constraint only if the operator is one of the five and the version text is a version
pub open spec fn t_version(rel: Tree) -> Option<(dc_relations::VersionConstraint, debversion::Version)> {
    match first_node(rowan::tree_children(rel), VERSION) {
        None => None,
        Some(vn) => match first_node(rowan::tree_children(vn), CONSTRAINT) {
            None => None,
            Some(cn) => {
                let vt = vtok_texts(rowan::tree_children(vn));
                if vt.len() == 0 { None } else {
                    match (vconstraint_parse(rowan::tree_text(cn)), version_parse_spec(vt)) {
                        (Some(c), Some(v)) => Some((c, v)),
                        _ => None,
                    }
                }
            }
        },
    }
}
/// the collected token texts are the version text of the children
pub proof fn lemma_vtok_collect(elems: Seq<SyntaxElement>, ch: Seq<Tree>, outs: Seq<Option<String>>)
    requires
        elems.len() == ch.len(), outs.len() == ch.len(),
        forall|i: int| 0 <= i < ch.len() ==> rowan::elem_tree(#[trigger] elems[i]) == ch[i],
        forall|i: int| 0 <= i < ch.len() ==> (#[trigger] outs[i] is Some) == is_vtok(ch[i]),
        forall|i: int| 0 <= i < ch.len() && outs[i] is Some ==> (#[trigger] outs[i])->Some_0@ == rowan::tree_text(ch[i]),
    ensures concat_strs(somes(outs)) == vtok_texts(ch)
    decreases ch.len()
{
    if ch.len() > 0 {
        lemma_vtok_collect(elems.drop_last(), ch.drop_last(), outs.drop_last());
        if outs.last() is Some {
            assert(somes(outs) == somes(outs.drop_last()).push(outs.last()->Some_0));
            assert(somes(outs).drop_last() =~= somes(outs.drop_last()));
        }
    } else {
        assert(somes(outs) =~= Seq::<String>::empty());
    }
}

/// structural description of a parse result of BuildProfile::from_str (the same definition as in unit codecs)
pub open spec fn profile_parse_is(t: Seq<char>, v: dc_relations::BuildProfile) -> bool {
    if t.len() > 0 && t[0] == '!' { v is Disabled && v->Disabled_0@ == t.skip(1) }
    else { v is Enabled && v->Enabled_0@ == t }
}
impl VxFromStr for dc_relations::BuildProfile {
    type VxErr = String;
    open spec fn parse_rel(s: Seq<char>, v: dc_relations::BuildProfile) -> bool { profile_parse_is(s, v) }
    open spec fn parse_err(s: Seq<char>) -> bool { false }
    fn vx_from_str(s: &str) -> (r: Result<dc_relations::BuildProfile, String>) { dc_relations::BuildProfile::from_str(s) }
}
// ---- Relation::profiles against the tree -----------------------------------------------------------------------------
pub type ProfV = (bool, Seq<char>);   // (negated, name)
pub open spec fn prof_view(p: dc_relations::BuildProfile) -> ProfV {
    match p { dc_relations::BuildProfile::Enabled(s) => (false, s@), dc_relations::BuildProfile::Disabled(s) => (true, s@) }
}
pub open spec fn group_view(g: Seq<dc_relations::BuildProfile>) -> Seq<ProfV> { g.map_values(|p: dc_relations::BuildProfile| prof_view(p)) }
pub open spec fn groups_view(gs: Seq<Vec<dc_relations::BuildProfile>>) -> Seq<Seq<ProfV>> { gs.map_values(|g: Vec<dc_relations::BuildProfile>| group_view(g@)) }
/// a profile text: "!name" is the negated profile name
pub open spec fn profv_of(t: Seq<char>) -> ProfV { if t.len() > 0 && t[0] == '!' { (true, t.skip(1)) } else { (false, t) } }
pub open spec fn cat(l: Seq<Seq<char>>) -> Seq<char> { join_seqs(l, Seq::<char>::empty()) }
/// the loop of the accessor as a function: children from the front; white space ends a profile, angle brackets are
/// skipped, every other child's text belongs to the current profile
pub open spec fn prof_fold(ch: Seq<Tree>, ret: Seq<ProfV>, cur: Seq<Seq<char>>) -> (Seq<ProfV>, Seq<Seq<char>>)
    decreases ch.len()
{
    if ch.len() == 0 { (ret, cur) } else {
        let k = rowan::tree_kind(ch[0]);
        if k == WHITESPACE || k == NEWLINE {
            if cur.len() > 0 { prof_fold(ch.skip(1), ret.push(profv_of(cat(cur))), Seq::empty()) } else { prof_fold(ch.skip(1), ret, cur) }
        } else if k == L_ANGLE || k == R_ANGLE { prof_fold(ch.skip(1), ret, cur) }
        else { prof_fold(ch.skip(1), ret, cur.push(rowan::tree_text(ch[0]))) }
    }
}
/// one `<...>` group: the profiles between the angle brackets, separated by white space
pub open spec fn t_profile_group(pn: Tree) -> Seq<ProfV> {
    let (ret, cur) = prof_fold(rowan::tree_children(pn), Seq::empty(), Seq::empty());
    if cur.len() > 0 { ret.push(profv_of(cat(cur))) } else { ret }
}
/// the restriction formula: one group per PROFILES child, in order
pub open spec fn t_profiles(rel: Tree) -> Seq<Seq<ProfV>> {
    kind_filter(rowan::child_nodes(rowan::tree_children(rel)), PROFILES).map_values(|pn: Tree| t_profile_group(pn))
}
pub proof fn lemma_keep_kind(hs: Seq<SyntaxNode>, ts: Seq<Tree>, keep: Seq<bool>, k: SyntaxKind)
    requires
        hs.len() == ts.len(), keep.len() == ts.len(),
        forall|i: int| 0 <= i < ts.len() ==> (#[trigger] hs[i]).tree() == ts[i],
        forall|i: int| 0 <= i < ts.len() ==> #[trigger] keep[i] == (rowan::tree_kind(ts[i]) == k),
    ensures
        keep_where(hs, keep).len() == kind_filter(ts, k).len(),
        forall|i: int| 0 <= i < kind_filter(ts, k).len() ==> (#[trigger] keep_where(hs, keep)[i]).tree() == kind_filter(ts, k)[i],
    decreases ts.len()
{
    if ts.len() > 0 {
        lemma_keep_kind(hs.drop_last(), ts.drop_last(), keep.drop_last(), k);
    }
}
