// ---------------------------------------------------------------------------------------------
// C07 (layout clause): what rebuild_value writes behind `Name:` for a value given as tokens.
// ---------------------------------------------------------------------------------------------
/// the tokens without their leading WHITESPACE (and NEWLINE, if nl_too) tokens
pub open spec fn strip_lead(ts: Seq<VTok>, nl_too: bool) -> Seq<VTok>
    decreases ts.len()
{
    if ts.len() > 0 && (ts[0].0 == WHITESPACE || (nl_too && ts[0].0 == NEWLINE)) { strip_lead(ts.skip(1), nl_too) } else { ts }
}
/// the token texts in order; after every NEWLINE token come exactly `ind` spaces (the continuation-line indentation)
pub open spec fn body(ts: Seq<VTok>, after_nl: bool, ind: nat) -> Seq<char>
    decreases ts.len()
{
    if ts.len() == 0 { Seq::empty() }
    else { (if after_nl { spaces(ind) } else { Seq::empty() }) + ts[0].1@ + body(ts.skip(1), ts[0].0 == NEWLINE, ind) }
}
pub open spec fn ends_nl(ts: Seq<VTok>, init: bool) -> bool { if ts.len() == 0 { init } else { ts.last().0 == NEWLINE } }
pub open spec fn one_liner(ts: Seq<VTok>, key_len: nat, mll: Option<usize>) -> bool {
    mll is Some && fll_spec(ts) + key_len + 2 <= mll->Some_0 && !has_nl_spec(ts)
}
/// everything written behind the colon, up to and including the final newline
pub open spec fn rebuilt(ts: Seq<VTok>, key_len: nat, ind: nat, iel: bool, mll: Option<usize>) -> Seq<char> {
    if one_liner(ts, key_len, mll) {
        let t2 = strip_lead(ts, false);
        seq![' '] + body(t2, false, ind) + (if ends_nl(t2, false) { Seq::<char>::empty() } else { seq!['\n'] })
    } else {
        let t2 = strip_lead(ts, true);
        // a multi-line value begins on the next line when that is asked for - and always when it begins with a comment:
        // every comment stays on a line of its own (on the field's line it would read as value text)
        // ... and never when it begins with value text that starts with '#': on a continuation line that would read as a comment
        let hash_first = t2.len() > 0 && t2[0].0 == VALUE && t2[0].1@.len() > 0 && t2[0].1@[0] == '#';
        let first_on_own_line = (iel && has_nl_spec(ts) && !hash_first) || (t2.len() > 0 && t2[0].0 == COMMENT);
        (if first_on_own_line { seq!['\n'] } else { seq![' '] }) + body(t2, first_on_own_line, ind)
            + (if ends_nl(t2, first_on_own_line) { Seq::<char>::empty() } else { seq!['\n'] })
    }
}
/// body over a prefix, one token further
pub proof fn lemma_body_step(ts: Seq<VTok>, i: int, init: bool, ind: nat)
    requires 0 <= i < ts.len()
    ensures body(ts.take(i + 1), init, ind) == body(ts.take(i), init, ind)
        + (if ends_nl(ts.take(i), init) { spaces(ind) } else { Seq::<char>::empty() }) + ts[i].1@
    decreases i
{
    let a = ts.take(i + 1);
    if i == 0 {
        assert(a.skip(1) =~= Seq::<VTok>::empty());
        assert(ts.take(0) =~= Seq::<VTok>::empty());
        assert(a[0] == ts[0]);
        assert(body(a.skip(1), ts[0].0 == NEWLINE, ind) =~= Seq::<char>::empty());
        assert(body(ts.take(0), init, ind) =~= Seq::<char>::empty());
        assert(body(a, init, ind) =~= (if init { spaces(ind) } else { Seq::<char>::empty() }) + ts[0].1@);
        assert(ends_nl(ts.take(0), init) == init);
    } else {
        let b = ts.skip(1);
        assert(a.skip(1) =~= b.take(i));
        assert(ts.take(i).skip(1) =~= b.take(i - 1));
        assert(a[0] == ts[0]); assert(ts.take(i)[0] == ts[0]);
        lemma_body_step(b, i - 1, ts[0].0 == NEWLINE, ind);
        assert(b[i - 1] == ts[i]);
        assert(ends_nl(b.take(i - 1), ts[0].0 == NEWLINE) == ends_nl(ts.take(i), init)) by {
            if i - 1 == 0 { assert(ts.take(i).last() == ts[0]); }
            else { assert(b.take(i - 1).last() == ts[i - 1]); assert(ts.take(i).last() == ts[i - 1]); }
        }
        let head = (if init { spaces(ind) } else { Seq::<char>::empty() }) + ts[0].1@;
        assert(body(a, init, ind) == head + body(b.take(i), ts[0].0 == NEWLINE, ind));
        assert(body(ts.take(i), init, ind) == head + body(b.take(i - 1), ts[0].0 == NEWLINE, ind));
        assert(body(a, init, ind) =~= body(ts.take(i), init, ind)
            + (if ends_nl(ts.take(i), init) { spaces(ind) } else { Seq::<char>::empty() }) + ts[i].1@);
    }
}
/// the written text always ends with a newline
pub proof fn lemma_rebuilt_ends_with_newline(ts: Seq<VTok>, key_len: nat, ind: nat, iel: bool, mll: Option<usize>)
    requires forall|i: int| 0 <= i < ts.len() && (#[trigger] ts[i]).0 == NEWLINE ==> ts[i].1@ == seq!['\n']
    ensures rebuilt(ts, key_len, ind, iel, mll).len() > 0, rebuilt(ts, key_len, ind, iel, mll).last() == '\n'
{
    let nl_too = !one_liner(ts, key_len, mll);
    let t2 = strip_lead(ts, nl_too);
    let init = nl_too && iel && has_nl_spec(ts);
    lemma_strip_suffix(ts, nl_too);
    if t2.len() > 0 && t2.last().0 == NEWLINE {
        lemma_body_last(t2, init, ind);
    }
}
/// strip_lead returns a suffix of its argument
pub proof fn lemma_strip_suffix(ts: Seq<VTok>, nl_too: bool)
    ensures exists|k: int| 0 <= k <= ts.len() && strip_lead(ts, nl_too) == #[trigger] ts.skip(k)
    decreases ts.len()
{
    if ts.len() > 0 && (ts[0].0 == WHITESPACE || (nl_too && ts[0].0 == NEWLINE)) {
        lemma_strip_suffix(ts.skip(1), nl_too);
        let k = choose|k: int| 0 <= k <= ts.skip(1).len() && strip_lead(ts.skip(1), nl_too) == #[trigger] ts.skip(1).skip(k);
        assert(ts.skip(1).skip(k) =~= ts.skip(k + 1));
    } else {
        assert(ts.skip(0) =~= ts);
    }
}
/// body ends with the text of the last token
pub proof fn lemma_body_last(ts: Seq<VTok>, init: bool, ind: nat)
    requires ts.len() > 0, ts.last().1@.len() > 0
    ensures body(ts, init, ind).len() > 0, body(ts, init, ind).last() == ts.last().1@.last()
    decreases ts.len()
{
    let head = (if init { spaces(ind) } else { Seq::<char>::empty() }) + ts[0].1@;
    if ts.len() == 1 {
        assert(ts.skip(1) =~= Seq::<VTok>::empty());
        assert(ts.last() == ts[0]);
        assert(body(ts.skip(1), ts[0].0 == NEWLINE, ind) =~= Seq::<char>::empty());
        assert(body(ts, init, ind) =~= head);
        assert(head.last() == ts[0].1@.last());
    } else {
        assert(ts.skip(1).last() == ts.last());
        lemma_body_last(ts.skip(1), ts[0].0 == NEWLINE, ind);
        let rest = body(ts.skip(1), ts[0].0 == NEWLINE, ind);
        assert(body(ts, init, ind) == head + rest);
        assert((head + rest).last() == rest.last());
    }
}

/// what is left after stripping has no leading blank; a text without NEWLINE tokens keeps that property
pub proof fn lemma_strip_facts(ts: Seq<VTok>, nl_too: bool)
    ensures
        ({ let t2 = strip_lead(ts, nl_too); t2.len() == 0 || !(t2[0].0 == WHITESPACE || (nl_too && t2[0].0 == NEWLINE)) }),
        !has_nl_spec(ts) ==> !has_nl_spec(strip_lead(ts, nl_too)),
    decreases ts.len()
{
    if ts.len() > 0 && (ts[0].0 == WHITESPACE || (nl_too && ts[0].0 == NEWLINE)) {
        lemma_strip_facts(ts.skip(1), nl_too);
        if !has_nl_spec(ts) {
            assert(!has_nl_spec(ts.skip(1))) by {
                if has_nl_spec(ts.skip(1)) { let i = choose|i: int| 0 <= i < ts.skip(1).len() && (#[trigger] ts.skip(1)[i]).0 == NEWLINE; assert(ts[i + 1].0 == NEWLINE); }
            }
        }
    }
}
/// one stripping step
pub proof fn lemma_strip_step(ts: Seq<VTok>, nl_too: bool)
    requires ts.len() > 0, ts[0].0 == WHITESPACE || (nl_too && ts[0].0 == NEWLINE)
    ensures strip_lead(ts, nl_too) == strip_lead(ts.skip(1), nl_too)
{ }
pub proof fn lemma_strip_done(ts: Seq<VTok>, nl_too: bool)
    requires ts.len() == 0 || !(ts[0].0 == WHITESPACE || (nl_too && ts[0].0 == NEWLINE))
    ensures strip_lead(ts, nl_too) == ts
{ }
