// ---------------------------------------------------------------------------------------------
// C18, record types: "<token> <size> <token>" triples and the five-column changes-file entry.
// ---------------------------------------------------------------------------------------------

// `{}` of a Priority / `.parse::<Priority>()` go to the extracted (verified) fmt / from_str
impl VxDisplay for dc_fields::Priority {
    open spec fn display_spec(&self) -> Seq<char> { priority_text(*self) }
}
impl VxFromStr for dc_fields::Priority {
    type VxErr = String;
    open spec fn parse_rel(s: Seq<char>, v: dc_fields::Priority) -> bool { priority_parse(s) == Some(v) }
    open spec fn parse_err(s: Seq<char>) -> bool { priority_parse(s) is None }
    fn vx_from_str(s: &str) -> (r: Result<dc_fields::Priority, String>) { dc_fields::Priority::from_str(s) }
}

/// three tokens joined by single spaces
pub proof fn lemma_ws_tokens3(a: Seq<char>, b: Seq<char>, c: Seq<char>)
    requires ws_free(a), ws_free(b), ws_free(c)
    ensures ws_tokens(a + sp1() + b + sp1() + c) == seq![a, b, c]
{
    let e = Seq::<char>::empty();
    lemma_ws_tokens_empty();
    assert(c + e =~= c);
    lemma_ws_tokens_cons(c, e);
    lemma_ws_tokens_space(c);
    assert((sp1() + c)[0] == ' ');
    lemma_ws_tokens_cons(b, sp1() + c);
    lemma_ws_tokens_space(b + (sp1() + c));
    assert((sp1() + (b + (sp1() + c)))[0] == ' ');
    lemma_ws_tokens_cons(a, sp1() + (b + (sp1() + c)));
    assert(a + sp1() + b + sp1() + c =~= a + (sp1() + (b + (sp1() + c))));
    assert(seq![a] + (seq![b] + (seq![c] + Seq::<Seq<char>>::empty())) =~= seq![a, b, c]);
}
pub proof fn lemma_ws_tokens5(a: Seq<char>, b: Seq<char>, c: Seq<char>, d: Seq<char>, e: Seq<char>)
    requires ws_free(a), ws_free(b), ws_free(c), ws_free(d), ws_free(e)
    ensures ws_tokens(a + sp1() + b + sp1() + c + sp1() + d + sp1() + e) == seq![a, b, c, d, e]
{
    lemma_ws_tokens3(c, d, e);
    let t3 = c + sp1() + d + sp1() + e;
    lemma_ws_tokens_space(t3);
    assert((sp1() + t3)[0] == ' ');
    lemma_ws_tokens_cons(b, sp1() + t3);
    lemma_ws_tokens_space(b + (sp1() + t3));
    assert((sp1() + (b + (sp1() + t3)))[0] == ' ');
    lemma_ws_tokens_cons(a, sp1() + (b + (sp1() + t3)));
    assert(a + sp1() + b + sp1() + c + sp1() + d + sp1() + e =~= a + (sp1() + (b + (sp1() + t3))));
    assert(seq![a] + (seq![b] + seq![c, d, e]) =~= seq![a, b, c, d, e]);
}
pub proof fn lemma_dec_text_ws_free(n: nat)
    ensures ws_free(dec_text(n))
{
    lemma_dec_text(n);
    assert forall|i: int| 0 <= i < dec_text(n).len() implies !is_unicode_ws(#[trigger] dec_text(n)[i]) by {
        assert(is_digit(dec_text(n)[i]));
    }
}

// ---- "<hash> <size> <filename>" ------------------------------------------------------------------
/// text form of a checksum triple
pub open spec fn triple_text(hash: Seq<char>, size: nat, filename: Seq<char>) -> Seq<char> {
    hash + sp1() + dec_text(size) + sp1() + filename
}
/// reading: first three whitespace-separated tokens; the second must be an unsigned integer
pub open spec fn triple_parse(s: Seq<char>) -> Option<(Seq<char>, nat, Seq<char>)> {
    let t = ws_tokens(s);
    if t.len() >= 3 && parse_usize_spec(t[1]) is Some { Some((t[0], parse_usize_spec(t[1])->Some_0, t[2])) } else { None }
}
/// value -> text -> value, for whitespace-free hash and filename and any size
pub proof fn triple_roundtrip(hash: Seq<char>, size: usize, filename: Seq<char>)
    requires ws_free(hash), ws_free(filename)
    ensures triple_parse(triple_text(hash, size as nat, filename)) == Some((hash, size as nat, filename))
{
    lemma_dec_text_ws_free(size as nat);
    lemma_ws_tokens3(hash, dec_text(size as nat), filename);
    lemma_usize_roundtrip(size);
}

// ---- changes-file entry "<md5> <size> <section> <priority> <filename>" ------------------------------
pub open spec fn file_text(md5: Seq<char>, size: nat, section: Seq<char>, prio: dc_fields::Priority, filename: Seq<char>) -> Seq<char> {
    md5 + sp1() + dec_text(size) + sp1() + section + sp1() + priority_text(prio) + sp1() + filename
}
pub open spec fn file_parse(s: Seq<char>) -> Option<(Seq<char>, nat, Seq<char>, dc_fields::Priority, Seq<char>)> {
    let t = ws_tokens(s);
    if t.len() >= 5 && parse_usize_spec(t[1]) is Some && priority_parse(t[3]) is Some {
        Some((t[0], parse_usize_spec(t[1])->Some_0, t[2], priority_parse(t[3])->Some_0, t[4]))
    } else { None }
}
pub proof fn lemma_priority_text_ws_free(p: dc_fields::Priority)
    ensures ws_free(priority_text(p))
{
    reveal_strlit("required"); reveal_strlit("important"); reveal_strlit("standard"); reveal_strlit("optional"); reveal_strlit("extra");
}
pub proof fn file_roundtrip(md5: Seq<char>, size: usize, section: Seq<char>, prio: dc_fields::Priority, filename: Seq<char>)
    requires ws_free(md5), ws_free(section), ws_free(filename)
    ensures file_parse(file_text(md5, size as nat, section, prio, filename)) == Some((md5, size as nat, section, prio, filename))
{
    lemma_dec_text_ws_free(size as nat);
    lemma_priority_text_ws_free(prio);
    lemma_ws_tokens5(md5, dec_text(size as nat), section, priority_text(prio), filename);
    lemma_usize_roundtrip(size);
    priority_roundtrip(prio);
}
