// ---------------------------------------------------------------------------------------------
// C16, the custom (de)serialiser pairs that are plain text functions: what each function computes (contracts.vspec)
// and, per pair that a deriving struct attaches to one field, that reading what was written returns the value
// (the part of the round trip the macro-level proof of unit derive16 leaves as hypothesis rt_hyp_S).
// ---------------------------------------------------------------------------------------------
pub open spec fn yesno_text(b: bool) -> Seq<char> { if b { "yes"@ } else { "no"@ } }
pub open spec fn yesno_parse(s: Seq<char>) -> Option<bool> { if s == "yes"@ { Some(true) } else if s == "no"@ { Some(false) } else { None } }
/// PAIR control.rs serialize_yesno / deserialize_yesno and apt-sources serializer_yesno / deserialize_yesno
pub proof fn theorem_pair_yesno(b: bool)
    ensures yesno_parse(yesno_text(b)) == Some(b)
{
    reveal_strlit("yes"); reveal_strlit("no");
    assert("yes"@.len() != "no"@.len());
}
pub open spec fn words_ok(l: Seq<Seq<char>>) -> bool { forall|i: int| 0 <= i < l.len() ==> ws_free(#[trigger] l[i]) }
/// PAIR apt.rs join_whitespace / deserialize_{components,architectures,binaries}; apt-sources serialize_string_chain /
/// deserialize_string_chain (joined by ' '); copyright serialize_file_list / deserialize_file_list (joined by '\n')
pub proof fn theorem_pair_words(l: Seq<Seq<char>>)
    requires words_ok(l)
    ensures ws_tokens(join_seqs(l, " "@)) == l, ws_tokens(join_seqs(l, "\n"@)) == l
{
    reveal_strlit(" "); reveal_strlit("\n");
    assert(" "@ =~= seq![' ']); assert("\n"@ =~= seq!['\n']);
    theorem_words_roundtrip(l, ' ');
    theorem_words_roundtrip(l, '\n');
}
pub open spec fn lines_ok(l: Seq<Seq<char>>) -> bool { forall|i: int| 0 <= i < l.len() ==> line_ok(#[trigger] l[i]) }
pub open spec fn lines_ok_cr(l: Seq<Seq<char>>) -> bool { forall|i: int| 0 <= i < l.len() ==> line_ok_cr(#[trigger] l[i]) }
/// PAIR apt.rs join_lines / deserialize_package_list; copyright serialize_copyrights / deserialize_copyrights
pub proof fn theorem_pair_lines_ne(l: Seq<Seq<char>>)
    requires lines_ok(l)
    ensures drop_empty(split_char(join_seqs(l, "\n"@), '\n')) == l
{
    reveal_strlit("\n"); assert("\n"@ =~= seq!['\n']);
    theorem_lines_ne_roundtrip(l);
}
/// PAIR ftpmaster.rs serialize_list / deserialize_list
pub proof fn theorem_pair_lines(l: Seq<Seq<char>>)
    requires lines_ok_cr(l)
    ensures lines_spec(join_seqs(l, "\n"@)) == l
{
    reveal_strlit("\n"); assert("\n"@ =~= seq!['\n']);
    theorem_lines_roundtrip(l);
}
