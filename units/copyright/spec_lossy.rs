// C17: lookup specification for the lossy reader's data structures

// ---- lookup -------------------------------------------------------------------------------------

/// a lossy Files paragraph matches a path
pub open spec fn fp_matches(fp: lossy::FilesParagraph, path: Seq<char>) -> bool { files_match(fp.files@, path) }

/// STATEMENT: the last Files paragraph, in file order, one of whose patterns matches; -1 if none
pub open spec fn last_match_idx(files: Seq<lossy::FilesParagraph>, path: Seq<char>) -> int
    decreases files.len()
{
    if files.len() == 0 { -1 }
    else if fp_matches(files.last(), path) { files.len() - 1 }
    else { last_match_idx(files.drop_last(), path) }
}
pub proof fn lemma_last_match_is(files: Seq<lossy::FilesParagraph>, path: Seq<char>, i: int)
    requires
        0 <= i < files.len(), fp_matches(files[i], path),
        forall|j: int| i < j < files.len() ==> !fp_matches(#[trigger] files[j], path),
    ensures last_match_idx(files, path) == i
    decreases files.len()
{
    if i < files.len() - 1 {
        assert(!fp_matches(files.last(), path));
        assert(files.drop_last()[i] == files[i]);
        assert forall|j: int| i < j < files.drop_last().len() implies !fp_matches(#[trigger] files.drop_last()[j], path) by { assert(files.drop_last()[j] == files[j]); }
        lemma_last_match_is(files.drop_last(), path, i);
    }
}
pub proof fn lemma_last_match_none(files: Seq<lossy::FilesParagraph>, path: Seq<char>)
    requires forall|j: int| 0 <= j < files.len() ==> !fp_matches(#[trigger] files[j], path)
    ensures last_match_idx(files, path) == -1
    decreases files.len()
{
    if files.len() > 0 {
        assert(!fp_matches(files.last(), path));
        assert forall|j: int| 0 <= j < files.drop_last().len() implies !fp_matches(#[trigger] files.drop_last()[j], path) by { assert(files.drop_last()[j] == files[j]); }
        lemma_last_match_none(files.drop_last(), path);
    }
}

pub open spec fn license_name(l: License) -> Option<Seq<char>> {
    match l { License::Name(n) => Some(n@), License::Text(_) => None, License::Named(n, _) => Some(n@) }
}
pub open spec fn license_has_text(l: License) -> bool { !(l is Name) }

/// STATEMENT: the first stand-alone licence paragraph with that name; -1 if none
pub open spec fn first_named_idx(ls: Seq<lossy::LicenseParagraph>, name: Seq<char>) -> int
    decreases ls.len()
{
    if ls.len() == 0 { -1 }
    else if license_name(ls[0].license) == Some(name) { 0 }
    else { let r = first_named_idx(ls.skip(1), name); if r < 0 { -1 } else { r + 1 } }
}
pub proof fn lemma_first_named_is(ls: Seq<lossy::LicenseParagraph>, name: Seq<char>, i: int)
    requires
        0 <= i < ls.len(), license_name(ls[i].license) == Some(name),
        forall|j: int| 0 <= j < i ==> license_name((#[trigger] ls[j]).license) != Some(name),
    ensures first_named_idx(ls, name) == i
    decreases i
{
    if i > 0 {
        assert(license_name(ls[0].license) != Some(name));
        assert(ls.skip(1)[i - 1] == ls[i]);
        assert forall|j: int| 0 <= j < i - 1 implies license_name((#[trigger] ls.skip(1)[j]).license) != Some(name) by { assert(ls.skip(1)[j] == ls[j + 1]); }
        lemma_first_named_is(ls.skip(1), name, i - 1);
    }
}
pub proof fn lemma_first_named_none(ls: Seq<lossy::LicenseParagraph>, name: Seq<char>)
    requires forall|j: int| 0 <= j < ls.len() ==> license_name((#[trigger] ls[j]).license) != Some(name)
    ensures first_named_idx(ls, name) == -1
    decreases ls.len()
{
    if ls.len() > 0 {
        assert(license_name(ls[0].license) != Some(name));
        assert forall|j: int| 0 <= j < ls.skip(1).len() implies license_name((#[trigger] ls.skip(1)[j]).license) != Some(name) by { assert(ls.skip(1)[j] == ls[j + 1]); }
        lemma_first_named_none(ls.skip(1), name);
    }
}

pub open spec fn all_files_valid(files: Seq<lossy::FilesParagraph>) -> bool {
    forall|i: int| 0 <= i < files.len() ==> all_valid_globs((#[trigger] files[i]).files@)
}

/// STATEMENT: the licence for a file: the matching paragraph's own licence when it carries text,
/// otherwise the first stand-alone licence with the same name
pub open spec fn license_for_file(c: lossy::Copyright, path: Seq<char>) -> Option<License> {
    let i = last_match_idx(c.files@, path);
    if i < 0 { None }
    else {
        let l = c.files@[i].license;
        if license_has_text(l) { Some(l) }
        else {
            let k = first_named_idx(c.licenses@, license_name(l)->Some_0);
            if k < 0 { None } else { Some(c.licenses@[k].license) }
        }
    }
}
