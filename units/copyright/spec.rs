// ---------------------------------------------------------------------------------------------
// C17: DEP-5 globs, file lookup and licences — specification written from the statement.
// ---------------------------------------------------------------------------------------------

pub open spec fn is_glob_special(c: char) -> bool { c == '*' || c == '?' || c == '\\' }

/// STATEMENT: '*' matches any run of characters (including '/'), '?' exactly one character, a backslash
/// makes the following '*', '?' or backslash literal, every other character matches only itself;
/// the pattern must match the whole path.
pub open spec fn glob_match(g: Seq<char>, s: Seq<char>) -> bool
    decreases g.len(), s.len()
{
    if g.len() == 0 { s.len() == 0 }
    else if g[0] == '*' { glob_match(g.skip(1), s) || (s.len() > 0 && glob_match(g, s.skip(1))) }
    else if g[0] == '?' { s.len() > 0 && glob_match(g.skip(1), s.skip(1)) }
    else if g[0] == '\\' { g.len() >= 2 && is_glob_special(g[1]) && s.len() > 0 && s[0] == g[1] && glob_match(g.skip(2), s.skip(1)) }
    else { s.len() > 0 && s[0] == g[0] && glob_match(g.skip(1), s.skip(1)) }
}

/// the pattern as a list of regex-fragment items; None for an invalid escape sequence
pub open spec fn glob_items(g: Seq<char>) -> Option<Seq<RxItem>>
    decreases g.len()
{
    if g.len() == 0 { Some(Seq::empty()) }
    else if g[0] == '*' { match glob_items(g.skip(1)) { Some(r) => Some(seq![RxItem::AnyRun] + r), None => None } }
    else if g[0] == '?' { match glob_items(g.skip(1)) { Some(r) => Some(seq![RxItem::AnyOne] + r), None => None } }
    else if g[0] == '\\' {
        if g.len() >= 2 && is_glob_special(g[1]) { match glob_items(g.skip(2)) { Some(r) => Some(seq![RxItem::Lit(g[1])] + r), None => None } }
        else { None }
    }
    else { match glob_items(g.skip(1)) { Some(r) => Some(seq![RxItem::Lit(g[0])] + r), None => None } }
}

pub open spec fn no_lf(s: Seq<char>) -> bool { forall|i: int| 0 <= i < s.len() ==> s[i] != '\n' }

/// the regex fragment has the statement's meaning (for paths without LF: '.' does not match LF)
pub proof fn lemma_items_mean_glob(g: Seq<char>, s: Seq<char>)
    requires glob_items(g) is Some, no_lf(s)
    ensures rx_items_match(glob_items(g)->Some_0, s) == glob_match(g, s)
    decreases g.len(), s.len()
{
    if g.len() == 0 {
    } else {
        let items = glob_items(g)->Some_0;
        if s.len() > 0 {
            assert(no_lf(s.skip(1))) by { assert forall|i: int| 0 <= i < s.skip(1).len() implies s.skip(1)[i] != '\n' by { assert(s.skip(1)[i] == s[i + 1]); } }
        }
        if g[0] == '*' {
            let r = glob_items(g.skip(1))->Some_0;
            assert(items.skip(1) =~= r);
            assert(items[0] == RxItem::AnyRun);
            lemma_items_mean_glob(g.skip(1), s);
            if s.len() > 0 { lemma_items_mean_glob(g, s.skip(1)); }
        } else if g[0] == '?' {
            let r = glob_items(g.skip(1))->Some_0;
            assert(items.skip(1) =~= r);
            assert(items[0] == RxItem::AnyOne);
            if s.len() > 0 { lemma_items_mean_glob(g.skip(1), s.skip(1)); }
        } else if g[0] == '\\' {
            let r = glob_items(g.skip(2))->Some_0;
            assert(items.skip(1) =~= r);
            assert(items[0] == RxItem::Lit(g[1]));
            if s.len() > 0 { lemma_items_mean_glob(g.skip(2), s.skip(1)); }
        } else {
            let r = glob_items(g.skip(1))->Some_0;
            assert(items.skip(1) =~= r);
            assert(items[0] == RxItem::Lit(g[0]));
            if s.len() > 0 { lemma_items_mean_glob(g.skip(1), s.skip(1)); }
        }
    }
}

/// items of a concatenation, when the first part ends on a token boundary
pub proof fn lemma_items_concat(a: Seq<char>, b: Seq<char>)
    requires glob_items(a) is Some
    ensures glob_items(a + b) == (match glob_items(b) { Some(y) => Some(glob_items(a)->Some_0 + y), None => None })
    decreases a.len()
{
    if a.len() == 0 {
        assert(a + b =~= b);
        if glob_items(b) is Some { assert(glob_items(a)->Some_0 + glob_items(b)->Some_0 =~= glob_items(b)->Some_0); }
    } else {
        let ab = a + b;
        assert(ab[0] == a[0]);
        if a[0] == '\\' {
            assert(ab[1] == a[1]);
            assert(ab.skip(2) =~= a.skip(2) + b);
            lemma_items_concat(a.skip(2), b);
            if glob_items(b) is Some {
                assert(seq![RxItem::Lit(a[1])] + (glob_items(a.skip(2))->Some_0 + glob_items(b)->Some_0) =~= (seq![RxItem::Lit(a[1])] + glob_items(a.skip(2))->Some_0) + glob_items(b)->Some_0);
            }
        } else {
            assert(ab.skip(1) =~= a.skip(1) + b);
            lemma_items_concat(a.skip(1), b);
            if glob_items(b) is Some {
                let i = if a[0] == '*' { RxItem::AnyRun } else if a[0] == '?' { RxItem::AnyOne } else { RxItem::Lit(a[0]) };
                assert(seq![i] + (glob_items(a.skip(1))->Some_0 + glob_items(b)->Some_0) =~= (seq![i] + glob_items(a.skip(1))->Some_0) + glob_items(b)->Some_0);
            }
        }
    }
}

pub proof fn lemma_items_text_push(items: Seq<RxItem>, i: RxItem)
    ensures rx_items_text(items.push(i)) == rx_items_text(items) + rx_item_text(i)
{
    assert(items.push(i).drop_last() =~= items);
}

// ---- lookup -------------------------------------------------------------------------------------

/// a Files paragraph matches a path when one of its patterns matches the whole path
pub open spec fn files_match(patterns: Seq<String>, path: Seq<char>) -> bool {
    exists|i: int| 0 <= i < patterns.len() && glob_items((#[trigger] patterns[i])@) is Some
        && rx_items_match(glob_items(patterns[i]@)->Some_0, path)
}
pub open spec fn all_valid_globs(patterns: Seq<String>) -> bool {
    forall|i: int| 0 <= i < patterns.len() ==> glob_items((#[trigger] patterns[i])@) is Some
}

/// a lossy Files paragraph matches a path
pub open spec fn fp_matches(fp: lossy::FilesParagraph, path: Seq<char>) -> bool { files_match(fp.files@, path) }

/// STATEMENT: the last Files paragraph, in file order, one of whose patterns matches; -1 if none
pub open spec fn last_match_idx(files: Seq<lossy::FilesParagraph>, path: Seq<char>) -> int
    decreases files.len()
{
    if files.len() == 0 { -1 }
    else if fp_matches(files.last(), path) { files.len() - 1 }
    else { last_match_idx(files.drop_last(), path) }
}
pub proof fn lemma_last_match_is(files: Seq<lossy::FilesParagraph>, path: Seq<char>, i: int)
    requires
        0 <= i < files.len(), fp_matches(files[i], path),
        forall|j: int| i < j < files.len() ==> !fp_matches(#[trigger] files[j], path),
    ensures last_match_idx(files, path) == i
    decreases files.len()
{
    if i < files.len() - 1 {
        assert(!fp_matches(files.last(), path));
        assert(files.drop_last()[i] == files[i]);
        assert forall|j: int| i < j < files.drop_last().len() implies !fp_matches(#[trigger] files.drop_last()[j], path) by { assert(files.drop_last()[j] == files[j]); }
        lemma_last_match_is(files.drop_last(), path, i);
    }
}
pub proof fn lemma_last_match_none(files: Seq<lossy::FilesParagraph>, path: Seq<char>)
    requires forall|j: int| 0 <= j < files.len() ==> !fp_matches(#[trigger] files[j], path)
    ensures last_match_idx(files, path) == -1
    decreases files.len()
{
    if files.len() > 0 {
        assert(!fp_matches(files.last(), path));
        assert forall|j: int| 0 <= j < files.drop_last().len() implies !fp_matches(#[trigger] files.drop_last()[j], path) by { assert(files.drop_last()[j] == files[j]); }
        lemma_last_match_none(files.drop_last(), path);
    }
}

pub open spec fn license_name(l: License) -> Option<Seq<char>> {
    match l { License::Name(n) => Some(n@), License::Text(_) => None, License::Named(n, _) => Some(n@) }
}
pub open spec fn license_has_text(l: License) -> bool { !(l is Name) }

/// STATEMENT: the first stand-alone licence paragraph with that name; -1 if none
pub open spec fn first_named_idx(ls: Seq<lossy::LicenseParagraph>, name: Seq<char>) -> int
    decreases ls.len()
{
    if ls.len() == 0 { -1 }
    else if license_name(ls[0].license) == Some(name) { 0 }
    else { let r = first_named_idx(ls.skip(1), name); if r < 0 { -1 } else { r + 1 } }
}
pub proof fn lemma_first_named_is(ls: Seq<lossy::LicenseParagraph>, name: Seq<char>, i: int)
    requires
        0 <= i < ls.len(), license_name(ls[i].license) == Some(name),
        forall|j: int| 0 <= j < i ==> license_name((#[trigger] ls[j]).license) != Some(name),
    ensures first_named_idx(ls, name) == i
    decreases i
{
    if i > 0 {
        assert(license_name(ls[0].license) != Some(name));
        assert(ls.skip(1)[i - 1] == ls[i]);
        assert forall|j: int| 0 <= j < i - 1 implies license_name((#[trigger] ls.skip(1)[j]).license) != Some(name) by { assert(ls.skip(1)[j] == ls[j + 1]); }
        lemma_first_named_is(ls.skip(1), name, i - 1);
    }
}
pub proof fn lemma_first_named_none(ls: Seq<lossy::LicenseParagraph>, name: Seq<char>)
    requires forall|j: int| 0 <= j < ls.len() ==> license_name((#[trigger] ls[j]).license) != Some(name)
    ensures first_named_idx(ls, name) == -1
    decreases ls.len()
{
    if ls.len() > 0 {
        assert(license_name(ls[0].license) != Some(name));
        assert forall|j: int| 0 <= j < ls.skip(1).len() implies license_name((#[trigger] ls.skip(1)[j]).license) != Some(name) by { assert(ls.skip(1)[j] == ls[j + 1]); }
        lemma_first_named_none(ls.skip(1), name);
    }
}

pub open spec fn all_files_valid(files: Seq<lossy::FilesParagraph>) -> bool {
    forall|i: int| 0 <= i < files.len() ==> all_valid_globs((#[trigger] files[i]).files@)
}

/// STATEMENT: the licence for a file: the matching paragraph's own licence when it carries text,
/// otherwise the first stand-alone licence with the same name
pub open spec fn license_for_file(c: lossy::Copyright, path: Seq<char>) -> Option<License> {
    let i = last_match_idx(c.files@, path);
    if i < 0 { None }
    else {
        let l = c.files@[i].license;
        if license_has_text(l) { Some(l) }
        else {
            let k = first_named_idx(c.licenses@, license_name(l)->Some_0);
            if k < 0 { None } else { Some(c.licenses@[k].license) }
        }
    }
}
