// ---------------------------------------------------------------------------------------------
// C17: DEP-5 globs, file lookup and licences — specification written from the statement.
// ---------------------------------------------------------------------------------------------

pub open spec fn is_glob_special(c: char) -> bool { c == '*' || c == '?' || c == '\\' }

/// STATEMENT: '*' matches any run of characters (including '/'), '?' exactly one character, a backslash
/// makes the following '*', '?' or backslash literal, every other character matches only itself;
/// the pattern must match the whole path.
pub open spec fn glob_match(g: Seq<char>, s: Seq<char>) -> bool
    decreases g.len(), s.len()
{
    if g.len() == 0 { s.len() == 0 }
    else if g[0] == '*' { glob_match(g.skip(1), s) || (s.len() > 0 && glob_match(g, s.skip(1))) }
    else if g[0] == '?' { s.len() > 0 && glob_match(g.skip(1), s.skip(1)) }
    else if g[0] == '\\' { g.len() >= 2 && is_glob_special(g[1]) && s.len() > 0 && s[0] == g[1] && glob_match(g.skip(2), s.skip(1)) }
    else { s.len() > 0 && s[0] == g[0] && glob_match(g.skip(1), s.skip(1)) }
}

/// the pattern as a list of regex-fragment items; None for an invalid escape sequence
pub open spec fn glob_items(g: Seq<char>) -> Option<Seq<RxItem>>
    decreases g.len()
{
    if g.len() == 0 { Some(Seq::empty()) }
    else if g[0] == '*' { match glob_items(g.skip(1)) { Some(r) => Some(seq![RxItem::AnyRun] + r), None => None } }
    else if g[0] == '?' { match glob_items(g.skip(1)) { Some(r) => Some(seq![RxItem::AnyOne] + r), None => None } }
    else if g[0] == '\\' {
        if g.len() >= 2 && is_glob_special(g[1]) { match glob_items(g.skip(2)) { Some(r) => Some(seq![RxItem::Lit(g[1])] + r), None => None } }
        else { None }
    }
    else { match glob_items(g.skip(1)) { Some(r) => Some(seq![RxItem::Lit(g[0])] + r), None => None } }
}

pub open spec fn no_lf(s: Seq<char>) -> bool { forall|i: int| 0 <= i < s.len() ==> s[i] != '\n' }

/// the regex fragment has the statement's meaning (for paths without LF: '.' does not match LF)
pub proof fn lemma_items_mean_glob(g: Seq<char>, s: Seq<char>)
    requires glob_items(g) is Some, no_lf(s)
    ensures rx_items_match(glob_items(g)->Some_0, s) == glob_match(g, s)
    decreases g.len(), s.len()
{
    if g.len() == 0 {
    } else {
        let items = glob_items(g)->Some_0;
        if s.len() > 0 {
            assert(no_lf(s.skip(1))) by { assert forall|i: int| 0 <= i < s.skip(1).len() implies s.skip(1)[i] != '\n' by { assert(s.skip(1)[i] == s[i + 1]); } }
        }
        if g[0] == '*' {
            let r = glob_items(g.skip(1))->Some_0;
            assert(items.skip(1) =~= r);
            assert(items[0] == RxItem::AnyRun);
            lemma_items_mean_glob(g.skip(1), s);
            if s.len() > 0 { lemma_items_mean_glob(g, s.skip(1)); }
        } else if g[0] == '?' {
            let r = glob_items(g.skip(1))->Some_0;
            assert(items.skip(1) =~= r);
            assert(items[0] == RxItem::AnyOne);
            if s.len() > 0 { lemma_items_mean_glob(g.skip(1), s.skip(1)); }
        } else if g[0] == '\\' {
            let r = glob_items(g.skip(2))->Some_0;
            assert(items.skip(1) =~= r);
            assert(items[0] == RxItem::Lit(g[1]));
            if s.len() > 0 { lemma_items_mean_glob(g.skip(2), s.skip(1)); }
        } else {
            let r = glob_items(g.skip(1))->Some_0;
            assert(items.skip(1) =~= r);
            assert(items[0] == RxItem::Lit(g[0]));
            if s.len() > 0 { lemma_items_mean_glob(g.skip(1), s.skip(1)); }
        }
    }
}

/// items of a concatenation, when the first part ends on a token boundary
pub proof fn lemma_items_concat(a: Seq<char>, b: Seq<char>)
    requires glob_items(a) is Some
    ensures glob_items(a + b) == (match glob_items(b) { Some(y) => Some(glob_items(a)->Some_0 + y), None => None })
    decreases a.len()
{
    if a.len() == 0 {
        assert(a + b =~= b);
        if glob_items(b) is Some { assert(glob_items(a)->Some_0 + glob_items(b)->Some_0 =~= glob_items(b)->Some_0); }
    } else {
        let ab = a + b;
        assert(ab[0] == a[0]);
        if a[0] == '\\' {
            assert(ab[1] == a[1]);
            assert(ab.skip(2) =~= a.skip(2) + b);
            lemma_items_concat(a.skip(2), b);
            if glob_items(b) is Some {
                assert(seq![RxItem::Lit(a[1])] + (glob_items(a.skip(2))->Some_0 + glob_items(b)->Some_0) =~= (seq![RxItem::Lit(a[1])] + glob_items(a.skip(2))->Some_0) + glob_items(b)->Some_0);
            }
        } else {
            assert(ab.skip(1) =~= a.skip(1) + b);
            lemma_items_concat(a.skip(1), b);
            if glob_items(b) is Some {
                let i = if a[0] == '*' { RxItem::AnyRun } else if a[0] == '?' { RxItem::AnyOne } else { RxItem::Lit(a[0]) };
                assert(seq![i] + (glob_items(a.skip(1))->Some_0 + glob_items(b)->Some_0) =~= (seq![i] + glob_items(a.skip(1))->Some_0) + glob_items(b)->Some_0);
            }
        }
    }
}

pub proof fn lemma_items_text_push(items: Seq<RxItem>, i: RxItem)
    ensures rx_items_text(items.push(i)) == rx_items_text(items) + rx_item_text(i)
{
    assert(items.push(i).drop_last() =~= items);
}


// ---- lookup (generic part) ----
/// a Files paragraph matches a path when one of its patterns matches the whole path
pub open spec fn files_match(patterns: Seq<String>, path: Seq<char>) -> bool {
    exists|i: int| 0 <= i < patterns.len() && glob_items((#[trigger] patterns[i])@) is Some
        && rx_items_match(glob_items(patterns[i]@)->Some_0, path)
}
pub open spec fn all_valid_globs(patterns: Seq<String>) -> bool {
    forall|i: int| 0 <= i < patterns.len() ==> glob_items((#[trigger] patterns[i])@) is Some
}

