// ---------------------------------------------------------------------------------------------
// C16: what the derived conversions do to a paragraph, as operations on the ordered list of (name, value) pairs.
// The generated code talks to any `P: Deb822LikeParagraph`; its contract is the list contract of C04 / C08
// (get = first field of the name, set = replace first or append, remove = delete all of the name), ASSUMED here for
// an arbitrary P and proved for the two implementations in units lossy822 (all four) and deb822tree / deb822edit
// (lossless get / set; lossless remove only by the bounded stand-in of C04).
// ---------------------------------------------------------------------------------------------
// ---- one operation per struct field ---------------------------------------------------------------------------------
pub ghost enum Op { Set(Seq<char>, Seq<char>), Remove(Seq<char>) }
pub open spec fn opt_op(k: Seq<char>, v: Option<Seq<char>>) -> Op { match v { Some(s) => Op::Set(k, s), None => Op::Remove(k) } }
pub open spec fn op_key(o: Op) -> Seq<char> { match o { Op::Set(k, _) => k, Op::Remove(k) => k } }
/// one operation on the list (opaque while the generated code is checked: there it is only composed, never unfolded)
#[verifier::opaque]
pub open spec fn step(l: Seq<Pair>, o: Op) -> Seq<Pair> { match o { Op::Set(k, v) => list_set(l, k, v), Op::Remove(k) => list_remove(l, k) } }
/// the first n operations of f applied to l, in order (update_paragraph)
pub open spec fn apply_n(l: Seq<Pair>, f: spec_fn(int) -> Op, n: int) -> Seq<Pair>
    decreases n
{
    if n <= 0 { l } else { step(apply_n(l, f, n - 1), f(n - 1)) }
}
/// the pairs the first n operations contribute to a fresh paragraph (to_paragraph): present fields only, in order
pub open spec fn present_n(f: spec_fn(int) -> Op, n: int) -> Seq<Pair>
    decreases n
{
    if n <= 0 { Seq::empty() } else {
        match f(n - 1) { Op::Set(k, v) => present_n(f, n - 1).push((k, v)), Op::Remove(_) => present_n(f, n - 1) }
    }
}
/// to_paragraph, one field: a present field is pushed, an absent one is skipped
pub open spec fn push_op(s: Seq<Pair>, o: Op) -> Seq<Pair> { match o { Op::Set(k, v) => s.push((k, v)), Op::Remove(_) => s } }
/// pairs_view of a vector after a push
pub proof fn lemma_pairs_push(a: Seq<(String, String)>, x: (String, String))
    ensures pairs_view(a.push(x)) == pairs_view(a).push((x.0@, x.1@))
{
    reveal(pairs_view);
    assert(pairs_view(a.push(x)) =~= pairs_view(a).push((x.0@, x.1@)));
}
/// b is a with one more pair (k, v) at the end (no index or length arithmetic: the witness is the pushed element)
pub open spec fn pushed(a: Seq<(String, String)>, b: Seq<(String, String)>, k: Seq<char>, v: Seq<char>) -> bool {
    exists|x: (String, String)| b == #[trigger] a.push(x) && x.0@ == k && x.1@ == v
}
pub proof fn lemma_pairs_pushed(a: Seq<(String, String)>, b: Seq<(String, String)>, k: Seq<char>, v: Seq<char>)
    requires pushed(a, b, k, v)
    ensures pairs_view(b) == pairs_view(a).push((k, v))
{
    let x = choose|x: (String, String)| b == #[trigger] a.push(x) && x.0@ == k && x.1@ == v;
    lemma_pairs_push(a, x);
}
pub proof fn lemma_pairs_empty(a: Seq<(String, String)>)
    requires a.len() == 0
    ensures pairs_view(a) == Seq::<Pair>::empty()
{
    reveal(pairs_view);
    assert(pairs_view(a) =~= Seq::<Pair>::empty());
}
pub open spec fn distinct_keys(f: spec_fn(int) -> Op, n: int) -> bool {
    forall|i: int, j: int| 0 <= i < j < n ==> op_key(#[trigger] f(i)) != op_key(#[trigger] f(j))
}
pub open spec fn owns(f: spec_fn(int) -> Op, n: int, name: Seq<char>) -> bool { exists|i: int| 0 <= i < n && op_key(#[trigger] f(i)) == name }
/// the fields the struct does not own, in order
pub open spec fn others(l: Seq<Pair>, f: spec_fn(int) -> Op, n: int) -> Seq<Pair> { l.filter(|p: Pair| !owns(f, n, p.0)) }

// ---- list facts ------------------------------------------------------------------------------------------------------
/// list_remove (a Seq::filter, defined from the back) unfolded at the front
pub proof fn lemma_remove_front(l: Seq<Pair>, name: Seq<char>)
    requires l.len() > 0
    ensures list_remove(l, name) == (if l[0].0 != name { seq![l[0]] } else { Seq::<Pair>::empty() }) + list_remove(l.skip(1), name)
    decreases l.len()
{
    reveal(Seq::filter);
    let head = if l[0].0 != name { seq![l[0]] } else { Seq::<Pair>::empty() };
    if l.len() == 1 {
        assert(l.drop_last() =~= Seq::<Pair>::empty());
        assert(l.skip(1) =~= Seq::<Pair>::empty());
        assert(list_remove(Seq::<Pair>::empty(), name) =~= Seq::<Pair>::empty());
        assert(l.last() == l[0]);
        assert(list_remove(l, name) =~= head + list_remove(l.skip(1), name));
    } else {
        let dl = l.drop_last();
        lemma_remove_front(dl, name);
        assert(dl[0] == l[0]);
        assert(dl.skip(1) =~= l.skip(1).drop_last());
        assert(l.skip(1).last() == l.last());
        if l.last().0 != name {
            assert(list_remove(l, name) == list_remove(dl, name).push(l.last()));
            assert(list_remove(l.skip(1), name) == list_remove(dl.skip(1), name).push(l.last()));
            assert((head + list_remove(dl.skip(1), name)).push(l.last()) =~= head + list_remove(dl.skip(1), name).push(l.last()));
        } else {
            assert(list_remove(l, name) == list_remove(dl, name));
            assert(list_remove(l.skip(1), name) == list_remove(dl.skip(1), name));
        }
    }
}
/// list_get unfolded at the front
pub proof fn lemma_get_front(l: Seq<Pair>, name: Seq<char>)
    requires l.len() > 0
    ensures list_get(l, name) == if l[0].0 == name { Some(l[0].1) } else { list_get(l.skip(1), name) }
{
    if l[0].0 != name {
        lemma_first_idx(l.skip(1), name);
        let r = first_idx(l.skip(1), name);
        if r >= 0 { assert(l[r + 1] == l.skip(1)[r]); }
    }
}
pub proof fn lemma_get_after_remove(l: Seq<Pair>, name: Seq<char>)
    ensures
        list_get(list_remove(l, name), name) is None,
        forall|other: Seq<char>| other != name ==> list_get(list_remove(l, name), other) == list_get(l, other),
    decreases l.len()
{
    let r = list_remove(l, name);
    if l.len() == 0 {
        reveal(Seq::filter);
        assert(r.len() == 0);
    } else {
        let h = l[0]; let t = l.skip(1);
        lemma_get_after_remove(t, name);
        lemma_remove_front(l, name);
        let rt = list_remove(t, name);
        if h.0 == name {
            assert(Seq::<Pair>::empty() + rt =~= rt);
            assert(r == rt);
            assert forall|other: Seq<char>| other != name implies list_get(r, other) == list_get(l, other) by { lemma_get_front(l, other); }
        } else {
            assert(r == seq![h] + rt);
            assert(r[0] == h);
            assert(r.skip(1) =~= rt);
            lemma_get_front(r, name);
            assert forall|other: Seq<char>| other != name implies list_get(r, other) == list_get(l, other) by { lemma_get_front(l, other); lemma_get_front(r, other); }
        }
    }
}

// ---- the conversions read back, and touch nothing else -------------------------------------------------------
/// After update_paragraph every own field reads as the value's field (absent optional fields read as missing) and every
/// name the struct does not own reads as before.
pub proof fn theorem_update_reads_back(l: Seq<Pair>, f: spec_fn(int) -> Op, n: int)
    requires n >= 0, distinct_keys(f, n)
    ensures
        forall|i: int| 0 <= i < n ==> list_get(apply_n(l, f, n), op_key(#[trigger] f(i))) == (match f(i) { Op::Set(_, v) => Some(v), Op::Remove(_) => None::<Seq<char>> }),
        forall|name: Seq<char>| !owns(f, n, name) ==> list_get(apply_n(l, f, n), name) == list_get(l, name),
    decreases n
{
    if n > 0 {
        let a = apply_n(l, f, n - 1);
        let o = f(n - 1);
        let r = apply_n(l, f, n);
        reveal(step);
        assert(r == step(a, o));
        assert(distinct_keys(f, n - 1));
        theorem_update_reads_back(l, f, n - 1);
        match o {
            Op::Set(k, v) => { lemma_get_after_set(a, k, v); }
            Op::Remove(k) => { lemma_get_after_remove(a, k); }
        }
        assert forall|i: int| 0 <= i < n implies list_get(r, op_key(#[trigger] f(i))) == (match f(i) { Op::Set(_, v) => Some(v), Op::Remove(_) => None::<Seq<char>> }) by {
            if i < n - 1 { assert(op_key(f(i)) != op_key(f(n - 1))); }
        }
        assert forall|name: Seq<char>| !owns(f, n, name) implies list_get(r, name) == list_get(l, name) by {
            assert(name != op_key(f(n - 1)));
            assert(!owns(f, n - 1, name)) by {
                if owns(f, n - 1, name) { let i = choose|i: int| 0 <= i < n - 1 && op_key(#[trigger] f(i)) == name; assert(0 <= i < n && op_key(f(i)) == name); }
            }
        }
    }
}
/// a paragraph made by to_paragraph reads back every present field (keys distinct)
pub proof fn theorem_present_reads_back(f: spec_fn(int) -> Op, n: int)
    requires n >= 0, distinct_keys(f, n)
    ensures
        forall|i: int| 0 <= i < n ==> list_get(present_n(f, n), op_key(#[trigger] f(i))) == (match f(i) { Op::Set(_, v) => Some(v), Op::Remove(_) => None::<Seq<char>> }),
        forall|j: int| 0 <= j < present_n(f, n).len() ==> owns(f, n, (#[trigger] present_n(f, n)[j]).0),
    decreases n
{
    if n > 0 {
        theorem_present_reads_back(f, n - 1);
        assert(distinct_keys(f, n - 1));
        let a = present_n(f, n - 1);
        let r = present_n(f, n);
        let o = f(n - 1);
        // no earlier pair carries the key of the last operation
        assert forall|j: int| 0 <= j < a.len() implies (#[trigger] a[j]).0 != op_key(o) by {
            assert(owns(f, n - 1, a[j].0));
            let i = choose|i: int| 0 <= i < n - 1 && op_key(#[trigger] f(i)) == a[j].0;
            assert(op_key(f(i)) != op_key(f(n - 1)));
        }
        lemma_first_idx_none(a, op_key(o));
        assert forall|j: int| 0 <= j < r.len() implies owns(f, n, (#[trigger] r[j]).0) by {
            if j < a.len() {
                assert(r[j] == a[j]);
                assert(owns(f, n - 1, a[j].0));
                let i = choose|i: int| 0 <= i < n - 1 && op_key(#[trigger] f(i)) == a[j].0;
                assert(0 <= i < n && op_key(f(i)) == r[j].0);
            } else {
                assert(op_key(f(n - 1)) == r[j].0);
            }
        }
        match o {
            Op::Set(k, v) => {
                assert(r == a.push((k, v)));
                assert(r == list_set(a, k, v));
                lemma_get_after_set(a, k, v);
            }
            Op::Remove(k) => { assert(r == a); }
        }
        assert forall|i: int| 0 <= i < n implies list_get(r, op_key(#[trigger] f(i))) == (match f(i) { Op::Set(_, v) => Some(v), Op::Remove(_) => None::<Seq<char>> }) by {
            if i < n - 1 { assert(op_key(f(i)) != op_key(f(n - 1))); }
        }
    }
}
