// ---------------------------------------------------------------------------------------------
// C02: the lossy relationship reader (debian-control/src/lossy/relations.rs) — glue
// ---------------------------------------------------------------------------------------------
impl VxFromStr for dc_relations::VersionConstraint {
    type VxErr = String;
    open spec fn parse_spec(s: Seq<char>) -> Option<dc_relations::VersionConstraint> { vconstraint_parse(s) }
    fn vx_from_str(s: &str) -> (r: Result<dc_relations::VersionConstraint, String>) { dc_relations::VersionConstraint::from_str(s) }
}
