// ---------------------------------------------------------------------------------------------
// C02: the lossy relationship reader (debian-control/src/lossy/relations.rs) — glue
// ---------------------------------------------------------------------------------------------
impl VxFromStr for dc_relations::VersionConstraint {
    type VxErr = String;
    open spec fn parse_rel(s: Seq<char>, v: dc_relations::VersionConstraint) -> bool { vconstraint_parse(s) == Some(v) }
    open spec fn parse_err(s: Seq<char>) -> bool { vconstraint_parse(s) is None }
    fn vx_from_str(s: &str) -> (r: Result<dc_relations::VersionConstraint, String>) { dc_relations::VersionConstraint::from_str(s) }
}
