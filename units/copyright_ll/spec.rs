// ---------------------------------------------------------------------------------------------
// C17, lossless reader: lookup specification over the document model of deb822_api_model.rs
// (a document = list of paragraphs, a paragraph = ordered list of (name, value) fields).
// ---------------------------------------------------------------------------------------------
pub type ParaV = Seq<(Seq<char>, Seq<char>)>;

pub open spec fn has_field(p: ParaV, name: Seq<char>) -> bool { first_idx(p, name) >= 0 }
pub open spec fn field_of(p: ParaV, name: Seq<char>) -> Seq<char> { p[first_idx(p, name)].1 }
pub open spec fn is_files_para(p: ParaV) -> bool { has_field(p, "Files"@) }
pub open spec fn is_license_para(p: ParaV) -> bool { !has_field(p, "Files"@) && has_field(p, "License"@) }

/// a licence as read from the text of a License field: "name", "\ntext" or "name\ntext"
pub open spec fn lic_of_text(s: Seq<char>, v: License) -> bool {
    let i = find_sub(s, seq!['\n']);
    if i < 0 { v is Name && v->Name_0@ == s }
    else if i == 0 { v is Text && v->Text_0@ == s.skip(1) }
    else { v is Named && v->Named_0@ == s.take(i) && v->Named_1@ == s.skip(i + 1) }
}
/// LicenseParagraph::name: the first line of the field (the whole value when it has one line: a licence paragraph
/// without text still has its name); text: the part after the first LF, only when there is one
pub open spec fn lic_field_name(s: Seq<char>) -> Option<Seq<char>> {
    let i = find_sub(s, seq!['\n']);
    if i < 0 { Some(s) } else { Some(s.take(i)) }
}
pub open spec fn lic_field_text(s: Seq<char>) -> Option<Seq<char>> {
    let i = find_sub(s, seq!['\n']);
    if i < 0 { None } else { Some(s.skip(i + 1)) }
}
pub open spec fn opt_str_is(r: Option<String>, v: Option<Seq<char>>) -> bool {
    match v { Some(t) => r is Some && r->Some_0@ == t, None => r is None }
}

/// patterns of a Files paragraph: the whitespace-separated tokens of its Files field
pub open spec fn para_patterns(p: ParaV) -> Seq<Seq<char>> { ws_tokens(field_of(p, "Files"@)) }
pub open spec fn pats_match(pats: Seq<Seq<char>>, path: Seq<char>) -> bool {
    exists|i: int| 0 <= i < pats.len() && glob_items(#[trigger] pats[i]) is Some && rx_items_match(glob_items(pats[i])->Some_0, path)
}
pub open spec fn pats_valid(pats: Seq<Seq<char>>) -> bool {
    forall|i: int| 0 <= i < pats.len() ==> glob_items(#[trigger] pats[i]) is Some
}
pub open spec fn para_matches(p: ParaV, path: Seq<char>) -> bool { is_files_para(p) && pats_match(para_patterns(p), path) }

/// STATEMENT: the last Files paragraph, in file order, one of whose patterns matches; -1 if none
pub open spec fn ll_last_match_idx(doc: Seq<ParaV>, path: Seq<char>) -> int
    decreases doc.len()
{
    if doc.len() == 0 { -1 }
    else if para_matches(doc.last(), path) { doc.len() - 1 }
    else { ll_last_match_idx(doc.drop_last(), path) }
}
pub open spec fn doc_globs_valid(doc: Seq<ParaV>) -> bool {
    forall|i: int| 0 <= i < doc.len() && is_files_para(#[trigger] doc[i]) ==> pats_valid(para_patterns(doc[i]))
}

/// files_match over Vec<String> and pats_match over their views are the same thing
pub proof fn lemma_files_match_views(v: Seq<String>, path: Seq<char>)
    ensures files_match(v, path) == pats_match(strings_view(v), path), all_valid_globs(v) == pats_valid(strings_view(v))
{
    let sv = strings_view(v);
    assert(sv.len() == v.len());
    assert forall|i: int| 0 <= i < v.len() implies #[trigger] sv[i] == v[i]@ by {}
    if files_match(v, path) {
        let i = choose|i: int| 0 <= i < v.len() && glob_items((#[trigger] v[i])@) is Some && rx_items_match(glob_items(v[i]@)->Some_0, path);
        assert(glob_items(sv[i]) is Some && rx_items_match(glob_items(sv[i])->Some_0, path));
    }
    if pats_match(sv, path) {
        let i = choose|i: int| 0 <= i < sv.len() && glob_items(#[trigger] sv[i]) is Some && rx_items_match(glob_items(sv[i])->Some_0, path);
        assert(glob_items(v[i]@) is Some && rx_items_match(glob_items(v[i]@)->Some_0, path));
    }
    if all_valid_globs(v) {
        assert forall|i: int| 0 <= i < sv.len() implies glob_items(#[trigger] sv[i]) is Some by { assert(glob_items(v[i]@) is Some); }
    }
    if pats_valid(sv) {
        assert forall|i: int| 0 <= i < v.len() implies glob_items((#[trigger] v[i])@) is Some by { assert(glob_items(sv[i]) is Some); }
    }
}

// ---- iterator adapters over the document -------------------------------------------------------------

/// the paragraph views of a sequence of FilesParagraph / LicenseParagraph wrappers
pub open spec fn fp_views(s: Seq<lossless::FilesParagraph>) -> Seq<ParaV> { s.map_values(|x: lossless::FilesParagraph| x.0@) }
pub open spec fn lp_views(s: Seq<lossless::LicenseParagraph>) -> Seq<ParaV> { s.map_values(|x: lossless::LicenseParagraph| x.0@) }

/// paragraphs of the document satisfying a predicate, in file order
pub open spec fn files_paras(doc: Seq<ParaV>) -> Seq<ParaV> { doc.filter(|p: ParaV| is_files_para(p)) }
pub open spec fn license_paras(doc: Seq<ParaV>) -> Seq<ParaV> { doc.filter(|p: ParaV| is_license_para(p)) }

pub open spec fn para_views(s: Seq<deb822_lossless::Paragraph>) -> Seq<ParaV> { s.map_values(|x: deb822_lossless::Paragraph| x@) }

/// "last match" computed on the Files paragraphs only equals "last match" on the whole document
pub open spec fn last_match_in(fs: Seq<ParaV>, path: Seq<char>) -> int
    decreases fs.len()
{
    if fs.len() == 0 { -1 }
    else if pats_match(para_patterns(fs.last()), path) { fs.len() - 1 }
    else { last_match_in(fs.drop_last(), path) }
}
/// the paragraph found: Some(view) / None
pub open spec fn ll_find_files(doc: Seq<ParaV>, path: Seq<char>) -> Option<ParaV> {
    let i = ll_last_match_idx(doc, path);
    if i < 0 { None } else { Some(doc[i]) }
}
pub proof fn lemma_last_match_filter(doc: Seq<ParaV>, path: Seq<char>)
    ensures
        ({
            let fs = files_paras(doc);
            let k = last_match_in(fs, path);
            (k < 0 ==> ll_find_files(doc, path) is None) && (k >= 0 ==> k < fs.len() && ll_find_files(doc, path) == Some(fs[k]))
        }),
        -1 <= ll_last_match_idx(doc, path) < doc.len(),
    decreases doc.len()
{
    reveal(Seq::filter);
    if doc.len() > 0 {
        lemma_last_match_filter(doc.drop_last(), path);
        let fs0 = files_paras(doc.drop_last());
        let fs = files_paras(doc);
        if is_files_para(doc.last()) {
            assert(fs =~= fs0.push(doc.last()));
            assert(fs.drop_last() =~= fs0);
        } else {
            assert(fs =~= fs0);
        }
    }
}
pub proof fn lemma_last_match_in_is(fs: Seq<ParaV>, path: Seq<char>, i: int)
    requires 0 <= i < fs.len(), pats_match(para_patterns(fs[i]), path), forall|j: int| i < j < fs.len() ==> !pats_match(para_patterns(#[trigger] fs[j]), path)
    ensures last_match_in(fs, path) == i
    decreases fs.len()
{
    if i < fs.len() - 1 {
        assert(!pats_match(para_patterns(fs.last()), path));
        assert(fs.drop_last()[i] == fs[i]);
        assert forall|j: int| i < j < fs.drop_last().len() implies !pats_match(para_patterns(#[trigger] fs.drop_last()[j]), path) by { assert(fs.drop_last()[j] == fs[j]); }
        lemma_last_match_in_is(fs.drop_last(), path, i);
    }
}
pub proof fn lemma_last_match_in_none(fs: Seq<ParaV>, path: Seq<char>)
    requires forall|j: int| 0 <= j < fs.len() ==> !pats_match(para_patterns(#[trigger] fs[j]), path)
    ensures last_match_in(fs, path) == -1
    decreases fs.len()
{
    if fs.len() > 0 {
        assert(!pats_match(para_patterns(fs.last()), path));
        assert forall|j: int| 0 <= j < fs.drop_last().len() implies !pats_match(para_patterns(#[trigger] fs.drop_last()[j]), path) by { assert(fs.drop_last()[j] == fs[j]); }
        lemma_last_match_in_none(fs.drop_last(), path);
    }
}
pub open spec fn fs_globs_valid(fs: Seq<ParaV>) -> bool {
    forall|i: int| 0 <= i < fs.len() ==> pats_valid(para_patterns(#[trigger] fs[i]))
}
pub proof fn lemma_globs_valid_filter(doc: Seq<ParaV>)
    requires doc_globs_valid(doc)
    ensures fs_globs_valid(files_paras(doc))
    decreases doc.len()
{
    reveal(Seq::filter);
    if doc.len() > 0 {
        assert(doc_globs_valid(doc.drop_last())) by {
            assert forall|i: int| 0 <= i < doc.drop_last().len() && is_files_para(#[trigger] doc.drop_last()[i]) implies pats_valid(para_patterns(doc.drop_last()[i])) by { assert(doc.drop_last()[i] == doc[i]); }
        }
        lemma_globs_valid_filter(doc.drop_last());
        let fs0 = files_paras(doc.drop_last());
        if is_files_para(doc.last()) {
            assert(files_paras(doc) =~= fs0.push(doc.last()));
            assert(pats_valid(para_patterns(doc[doc.len() - 1])));
        } else {
            assert(files_paras(doc) =~= fs0);
        }
    }
}



// ---- stand-alone licences ---------------------------------------------------------------------------
/// name of a stand-alone licence paragraph (LicenseParagraph::name): first line of License when there is text
pub open spec fn lic_name_of_para(p: ParaV) -> Option<Seq<char>> {
    match list_get(p, "License"@) { Some(t) => lic_field_name(t), None => None }
}
/// STATEMENT: the first stand-alone licence paragraph with that name; -1 if none
pub open spec fn ll_first_named_idx(doc: Seq<ParaV>, name: Seq<char>) -> int
    decreases doc.len()
{
    if doc.len() == 0 { -1 }
    else if is_license_para(doc[0]) && lic_name_of_para(doc[0]) == Some(name) { 0 }
    else { let r = ll_first_named_idx(doc.skip(1), name); if r < 0 { -1 } else { r + 1 } }
}
pub open spec fn first_named_in(ls: Seq<ParaV>, name: Seq<char>) -> int
    decreases ls.len()
{
    if ls.len() == 0 { -1 }
    else if lic_name_of_para(ls[0]) == Some(name) { 0 }
    else { let r = first_named_in(ls.skip(1), name); if r < 0 { -1 } else { r + 1 } }
}
/// first match among the licence paragraphs == first match in the document
pub proof fn lemma_first_named_filter(doc: Seq<ParaV>, name: Seq<char>)
    ensures
        ({
            let ls = license_paras(doc);
            let k = first_named_in(ls, name);
            let i = ll_first_named_idx(doc, name);
            (k < 0 <==> i < 0) && (k >= 0 ==> 0 <= k < ls.len() && 0 <= i < doc.len() && ls[k] == doc[i])
        }),
    decreases doc.len()
{
    if doc.len() > 0 {
        lemma_first_named_filter(doc.skip(1), name);
        lemma_filter_front(doc, |p: ParaV| is_license_para(p));
        let ls = license_paras(doc);
        let ls1 = license_paras(doc.skip(1));
        if is_license_para(doc[0]) {
            assert(ls =~= seq![doc[0]] + ls1);
            assert(ls.skip(1) =~= ls1);
            let k1 = first_named_in(ls1, name);
            if lic_name_of_para(doc[0]) != Some(name) && k1 >= 0 {
                assert(ls[k1 + 1] == ls1[k1]);
                assert(doc.skip(1)[ll_first_named_idx(doc.skip(1), name)] == doc[ll_first_named_idx(doc.skip(1), name) + 1]);
            }
        } else {
            assert(ls =~= ls1);
            let k1 = first_named_in(ls1, name);
            if k1 >= 0 {
                assert(doc.skip(1)[ll_first_named_idx(doc.skip(1), name)] == doc[ll_first_named_idx(doc.skip(1), name) + 1]);
            }
        }
    } else {
        reveal(Seq::filter);
    }
}
pub proof fn lemma_first_named_in_is(ls: Seq<ParaV>, name: Seq<char>, i: int)
    requires 0 <= i < ls.len(), lic_name_of_para(ls[i]) == Some(name), forall|j: int| 0 <= j < i ==> lic_name_of_para(#[trigger] ls[j]) != Some(name)
    ensures first_named_in(ls, name) == i
    decreases i
{
    if i > 0 {
        assert(lic_name_of_para(ls[0]) != Some(name));
        assert(ls.skip(1)[i - 1] == ls[i]);
        assert forall|j: int| 0 <= j < i - 1 implies lic_name_of_para(#[trigger] ls.skip(1)[j]) != Some(name) by { assert(ls.skip(1)[j] == ls[j + 1]); }
        lemma_first_named_in_is(ls.skip(1), name, i - 1);
    }
}
pub proof fn lemma_first_named_in_none(ls: Seq<ParaV>, name: Seq<char>)
    requires forall|j: int| 0 <= j < ls.len() ==> lic_name_of_para(#[trigger] ls[j]) != Some(name)
    ensures first_named_in(ls, name) == -1
    decreases ls.len()
{
    if ls.len() > 0 {
        assert(lic_name_of_para(ls[0]) != Some(name));
        assert forall|j: int| 0 <= j < ls.skip(1).len() implies lic_name_of_para(#[trigger] ls.skip(1)[j]) != Some(name) by { assert(ls.skip(1)[j] == ls[j + 1]); }
        lemma_first_named_in_none(ls.skip(1), name);
    }
}
