// ---------------------------------------------------------------------------------------------
// C04 (single-handle part): what Entry::new builds and what the paragraph edits do to the tree, against
// the list model of the statement (list_set / list_insert on t_items, prelude/list_model.rs).
// ---------------------------------------------------------------------------------------------
pub open spec fn nlc() -> Seq<char> { seq!['\n'] }
pub open spec fn spc() -> Seq<char> { seq![' '] }
/// the tokens Entry::new writes for the first n lines of a value: VALUE line, NEWLINE, each further line indented by one space
pub open spec fn value_leaves(ls: Seq<Seq<char>>, n: int) -> Seq<Tree>
    decreases n
{
    if n <= 0 { Seq::empty() }
    else {
        value_leaves(ls, n - 1)
            + (if n - 1 > 0 { seq![leaf((INDENT, spc()))] } else { Seq::<Tree>::empty() })
            + seq![leaf((VALUE, ls[n - 1])), leaf((NEWLINE, nlc()))]
    }
}
pub open spec fn entry_head(key: Seq<char>) -> Seq<Tree> { seq![leaf((KEY, key)), leaf((COLON, seq![':'])), leaf((WHITESPACE, spc()))] }
/// the entry `Name: line1\n line2\n ...` for a name and a value
pub open spec fn new_entry_tree(key: Seq<char>, value: Seq<char>) -> Tree {
    node(ENTRY, entry_head(key) + value_leaves(split_char(value, '\n'), split_char(value, '\n').len() as int))
}

pub proof fn lemma_value_leaves(ls: Seq<Seq<char>>, n: int)
    requires 0 <= n <= ls.len()
    ensures
        all_toks(value_leaves(ls, n)),
        texts(kind_filter(value_leaves(ls, n), VALUE)) == ls.take(n),
        first_kind(value_leaves(ls, n), KEY) is None,
    decreases n
{
    if n <= 0 {
        assert(texts(kind_filter(value_leaves(ls, n), VALUE)) =~= ls.take(n));
    } else {
        lemma_value_leaves(ls, n - 1);
        let a = value_leaves(ls, n - 1);
        let b = if n - 1 > 0 { seq![leaf((INDENT, spc()))] } else { Seq::<Tree>::empty() };
        let c = seq![leaf((VALUE, ls[n - 1])), leaf((NEWLINE, nlc()))];
        let v = value_leaves(ls, n);
        assert(v == a + b + c);
        assert(all_toks(v));
        lemma_kind_filter_add(a + b, c, VALUE);
        lemma_kind_filter_add(a, b, VALUE);
        assert forall|i: int| 0 <= i < b.len() implies rowan::tree_kind(#[trigger] b[i]) != VALUE by {}
        lemma_kind_filter_none(b, VALUE);
        // c: VALUE then NEWLINE
        let c1 = c.drop_last();
        assert(c1 =~= seq![leaf((VALUE, ls[n - 1]))]);
        lemma_kind_filter_single(leaf((VALUE, ls[n - 1])), VALUE);
        assert(c.last() == leaf((NEWLINE, nlc())));
        assert(kind_filter(c, VALUE) =~= seq![leaf((VALUE, ls[n - 1]))]);
        assert(kind_filter(v, VALUE) =~= kind_filter(a, VALUE) + seq![leaf((VALUE, ls[n - 1]))]);
        assert(texts(kind_filter(a, VALUE) + seq![leaf((VALUE, ls[n - 1]))]) =~= texts(kind_filter(a, VALUE)).push(ls[n - 1]));
        assert(ls.take(n) =~= ls.take(n - 1).push(ls[n - 1]));
        // no KEY among them
        assert forall|j: int| 0 <= j < v.len() implies rowan::tree_kind(#[trigger] v[j]) != KEY by {
            lemma_first_kind_none_conv(a, KEY);
            if j < a.len() { assert(v[j] == a[j]); } else if j < a.len() + b.len() { assert(v[j] == b[j - a.len()]); } else { assert(v[j] == c[j - a.len() - b.len()]); }
        }
        lemma_first_kind_none(v, KEY);
    }
}
/// first_kind is None exactly when no element has the kind
pub proof fn lemma_first_kind_none_conv(ts: Seq<Tree>, k: SyntaxKind)
    requires first_kind(ts, k) is None
    ensures forall|j: int| 0 <= j < ts.len() ==> rowan::tree_kind(#[trigger] ts[j]) != k
    decreases ts.len()
{
    if ts.len() > 0 {
        lemma_first_kind_none_conv(ts.skip(1), k);
        assert forall|j: int| 0 <= j < ts.len() implies rowan::tree_kind(#[trigger] ts[j]) != k by {
            if j > 0 { assert(ts[j] == ts.skip(1)[j - 1]); }
        }
    }
}
/// str::split(c) and join(c) are inverse
pub proof fn lemma_split_join(s: Seq<char>, c: char)
    ensures join_seqs(split_char(s, c), seq![c]) == s, split_char(s, c).len() >= 1
    decreases s.len()
{
    let i = find_char(s, c);
    lemma_find_char(s, c);
    if i < 0 || i >= s.len() {
        assert(split_char(s, c) =~= seq![s]);
    } else {
        let r = s.skip(i + 1);
        lemma_split_join(r, c);
        lemma_join_front(s.take(i), split_char(r, c), seq![c]);
        assert(s.take(i) + seq![c] + r =~= s);
    }
}
pub proof fn lemma_find_char(s: Seq<char>, c: char)
    ensures -1 <= find_char(s, c) < s.len(), find_char(s, c) >= 0 ==> s[find_char(s, c)] == c
    decreases s.len()
{
    if s.len() > 0 && s[0] != c {
        lemma_find_char(s.skip(1), c);
        let r = find_char(s.skip(1), c);
        if r >= 0 { assert(s[r + 1] == s.skip(1)[r]); }
    }
}
/// what the accessors read from a new entry
pub proof fn lemma_new_entry(key: Seq<char>, value: Seq<char>)
    ensures
        new_entry_tree(key, value) is Node,
        rowan::tree_kind(new_entry_tree(key, value)) == ENTRY,
        t_key(new_entry_tree(key, value)) == Some(key),
        t_value(new_entry_tree(key, value)) == value,
{
    let ls = split_char(value, '\n');
    let n = ls.len() as int;
    lemma_split_join(value, '\n');
    lemma_value_leaves(ls, n);
    let h = entry_head(key);
    let v = value_leaves(ls, n);
    let ch = h + v;
    assert(all_toks(ch));
    lemma_child_nodes_of_toks(ch);
    assert(ch[0] == leaf((KEY, key)));
    assert(first_kind(ch, KEY) == Some(ch[0]));
    lemma_kind_filter_add(h, v, VALUE);
    assert forall|i: int| 0 <= i < h.len() implies rowan::tree_kind(#[trigger] h[i]) != VALUE by {}
    lemma_kind_filter_none(h, VALUE);
    assert(kind_filter(ch, VALUE) =~= kind_filter(v, VALUE));
    assert(ls.take(n) =~= ls);
}

// ---- the children of a paragraph and its entries -----------------------------------------------------------------------
/// the entries of a list of children
pub open spec fn ch_entries(ch: Seq<Tree>) -> Seq<Tree> { kind_filter(rowan::child_nodes(ch), ENTRY) }
pub open spec fn ch_items(ch: Seq<Tree>) -> Seq<Pair> { entries_items(ch_entries(ch)) }

/// appending an entry appends its (name, value)
pub proof fn lemma_append_entry(ch: Seq<Tree>, e: Tree)
    requires e is Node, rowan::tree_kind(e) == ENTRY, t_key(e) is Some
    ensures ch_items(ch + seq![e]) == ch_items(ch).push((t_key(e)->Some_0, t_value(e)))
{
    lemma_child_nodes_add(ch, seq![e]);
    assert(all_nodes(seq![e]));
    lemma_child_nodes_of_nodes(seq![e]);
    lemma_kind_filter_add(rowan::child_nodes(ch), seq![e], ENTRY);
    lemma_kind_filter_single(e, ENTRY);
    let es = ch_entries(ch) + seq![e];
    assert(es.drop_last() =~= ch_entries(ch));
    assert(es.last() == e);
}
/// the entries before / at / after a child position that holds an ENTRY node
pub proof fn lemma_split_at_entry(ch: Seq<Tree>, pos: int)
    requires 0 <= pos < ch.len()
    ensures ch == ch.take(pos) + seq![ch[pos]] + ch.skip(pos + 1),
        ch_entries(ch) == ch_entries(ch.take(pos)) + ch_entries(seq![ch[pos]]) + ch_entries(ch.skip(pos + 1)),
{
    let a = ch.take(pos); let b = seq![ch[pos]]; let c = ch.skip(pos + 1);
    assert(ch =~= a + b + c);
    lemma_child_nodes_add(a + b, c);
    lemma_child_nodes_add(a, b);
    lemma_kind_filter_add(rowan::child_nodes(a) + rowan::child_nodes(b), rowan::child_nodes(c), ENTRY);
    lemma_kind_filter_add(rowan::child_nodes(a), rowan::child_nodes(b), ENTRY);
}
pub proof fn lemma_entries_of_replaced(ch: Seq<Tree>, pos: int, e: Tree)
    requires 0 <= pos < ch.len()
    ensures ch_entries(ch.take(pos) + seq![e] + ch.skip(pos + 1)) == ch_entries(ch.take(pos)) + ch_entries(seq![e]) + ch_entries(ch.skip(pos + 1)),
{
    let a = ch.take(pos); let b = seq![e]; let c = ch.skip(pos + 1);
    lemma_child_nodes_add(a + b, c);
    lemma_child_nodes_add(a, b);
    lemma_kind_filter_add(rowan::child_nodes(a) + rowan::child_nodes(b), rowan::child_nodes(c), ENTRY);
    lemma_kind_filter_add(rowan::child_nodes(a), rowan::child_nodes(b), ENTRY);
}
pub proof fn lemma_entries_single(e: Tree)
    requires e is Node, rowan::tree_kind(e) == ENTRY
    ensures ch_entries(seq![e]) == seq![e]
{
    assert(all_nodes(seq![e]));
    lemma_child_nodes_of_nodes(seq![e]);
    lemma_kind_filter_single(e, ENTRY);
}
/// entries_items distributes over concatenation
pub proof fn lemma_entries_items_add(a: Seq<Tree>, b: Seq<Tree>)
    ensures entries_items(a + b) == entries_items(a) + entries_items(b)
    decreases b.len()
{
    if b.len() == 0 {
        assert(a + b =~= a);
        assert(entries_items(a) + entries_items(b) =~= entries_items(a));
    } else {
        lemma_entries_items_add(a, b.drop_last());
        assert((a + b).drop_last() =~= a + b.drop_last());
        assert((a + b).last() == b.last());
        assert(entries_items(a + b) =~= entries_items(a) + entries_items(b));
    }
}
pub proof fn lemma_entries_items_single(e: Tree)
    ensures entries_items(seq![e]) == if t_key(e) is Some { seq![(t_key(e)->Some_0, t_value(e))] } else { Seq::<Pair>::empty() }
{
    let s = seq![e];
    assert(s.drop_last() =~= Seq::<Tree>::empty());
    assert(s.last() == e);
    assert(entries_items(s.drop_last()) =~= Seq::<Pair>::empty());
    if t_key(e) is Some { assert(entries_items(s) =~= seq![(t_key(e)->Some_0, t_value(e))]); } else { assert(entries_items(s) =~= Seq::<Pair>::empty()); }
}
/// no field called `key` among the items of entries none of which has that key
pub proof fn lemma_items_no_key(es: Seq<Tree>, key: Seq<char>)
    requires forall|j: int| 0 <= j < es.len() ==> t_key(#[trigger] es[j]) != Some(key)
    ensures forall|j: int| 0 <= j < entries_items(es).len() ==> (#[trigger] entries_items(es)[j]).0 != key
    decreases es.len()
{
    if es.len() > 0 {
        let d = es.drop_last();
        assert forall|j: int| 0 <= j < d.len() implies t_key(#[trigger] d[j]) != Some(key) by { assert(d[j] == es[j]); }
        lemma_items_no_key(d, key);
        assert(t_key(es.last()) != Some(key));
        let l = entries_items(es);
        assert forall|j: int| 0 <= j < l.len() implies (#[trigger] l[j]).0 != key by {
            if j < entries_items(d).len() { assert(l[j] == entries_items(d)[j]); }
        }
    }
}
/// replacing the first entry called `key` (the i-th entry, at child position pos) by an entry (k2, v2):
/// the items list is updated in place at the first index of `key`
pub proof fn lemma_replace_first(ch: Seq<Tree>, pos: int, i: int, key: Seq<char>, e: Tree)
    requires
        0 <= pos < ch.len(), 0 <= i < ch_entries(ch).len(),
        ch[pos] == ch_entries(ch)[i],
        rowan::node_positions(ch).len() == rowan::child_nodes(ch).len(),
        ch_entries(ch.take(pos)).len() == i,
        ch[pos] is Node, rowan::tree_kind(ch[pos]) == ENTRY,
        t_key(ch_entries(ch)[i]) == Some(key),
        forall|j: int| 0 <= j < i ==> t_key(#[trigger] ch_entries(ch)[j]) != Some(key),
        e is Node, rowan::tree_kind(e) == ENTRY, t_key(e) is Some,
    ensures
        first_idx(ch_items(ch), key) >= 0,
        ch_items(ch.take(pos) + seq![e] + ch.skip(pos + 1)) == ch_items(ch).update(first_idx(ch_items(ch), key), (t_key(e)->Some_0, t_value(e))),
{
    let a = ch_entries(ch.take(pos)); let c = ch_entries(ch.skip(pos + 1));
    let old_e = ch[pos];
    lemma_split_at_entry(ch, pos);
    lemma_entries_single(old_e);
    lemma_entries_of_replaced(ch, pos, e);
    lemma_entries_single(e);
    let es = ch_entries(ch);
    assert(es == a + seq![old_e] + c);
    // items before / at / after
    lemma_entries_items_add(a + seq![old_e], c);
    lemma_entries_items_add(a, seq![old_e]);
    lemma_entries_items_single(old_e);
    lemma_entries_items_add(a + seq![e], c);
    lemma_entries_items_add(a, seq![e]);
    lemma_entries_items_single(e);
    let ia = entries_items(a); let ic = entries_items(c);
    let oldp = (key, t_value(old_e));
    let newp = (t_key(e)->Some_0, t_value(e));
    assert(ch_items(ch) == ia + seq![oldp] + ic);
    assert forall|j: int| 0 <= j < a.len() implies t_key(#[trigger] a[j]) != Some(key) by { assert(a[j] == es[j]); }
    lemma_items_no_key(a, key);
    let l = ia + seq![oldp] + ic;
    assert forall|j: int| 0 <= j < ia.len() implies (#[trigger] l[j]).0 != key by { assert(l[j] == ia[j]); }
    assert(l[ia.len() as int] == oldp);
    lemma_first_idx_is(l, key, ia.len() as int);
    assert(ia + seq![newp] + ic =~= l.update(ia.len() as int, newp));
}

// ---- positions of the entries among the children --------------------------------------------------------------------------
pub proof fn lemma_ch_entries_unfold(ch: Seq<Tree>)
    requires ch.len() > 0
    ensures
        ch_entries(ch) == if ch.last() is Node && rowan::tree_kind(ch.last()) == ENTRY { ch_entries(ch.drop_last()).push(ch.last()) } else { ch_entries(ch.drop_last()) },
{
    if ch.last() is Node {
        assert(rowan::child_nodes(ch).drop_last() =~= rowan::child_nodes(ch.drop_last()));
        assert(rowan::child_nodes(ch).last() == ch.last());
    }
}
/// the j-th entry sits at child position entry_positions(ch)[j]
pub proof fn lemma_entry_position(ch: Seq<Tree>, j: int)
    requires 0 <= j < ch_entries(ch).len()
    ensures
        entry_positions(ch).len() == ch_entries(ch).len(),
        0 <= entry_positions(ch)[j] < ch.len(),
        ch[entry_positions(ch)[j]] == ch_entries(ch)[j],
        ch[entry_positions(ch)[j]] is Node, rowan::tree_kind(ch[entry_positions(ch)[j]]) == ENTRY,
        ch_entries(ch.take(entry_positions(ch)[j])).len() == j,
    decreases ch.len()
{
    lemma_entry_positions_len(ch);
    if ch.len() > 0 {
        let dl = ch.drop_last();
        lemma_ch_entries_unfold(ch);
        lemma_entry_positions_len(dl);
        if ch.last() is Node && rowan::tree_kind(ch.last()) == ENTRY && j == ch_entries(dl).len() {
            assert(entry_positions(ch)[j] == ch.len() - 1);
            assert(ch.take(ch.len() - 1) =~= dl);
        } else {
            lemma_entry_position(dl, j);
            let pos = entry_positions(dl)[j];
            assert(entry_positions(ch)[j] == pos);
            assert(ch[pos] == dl[pos]);
            assert(ch.take(pos) =~= dl.take(pos));
        }
    }
}
pub proof fn lemma_entry_positions_len(ch: Seq<Tree>)
    ensures entry_positions(ch).len() == ch_entries(ch).len()
    decreases ch.len()
{
    if ch.len() > 0 {
        lemma_ch_entries_unfold(ch);
        lemma_entry_positions_len(ch.drop_last());
    } else {
        assert(ch_entries(ch) =~= Seq::<Tree>::empty());
    }
}
/// the value stored at the first index of `key` is the value of the first entry called `key`
pub proof fn lemma_replaced_value(ch: Seq<Tree>, pos: int, i: int, key: Seq<char>)
    requires
        0 <= pos < ch.len(), 0 <= i < ch_entries(ch).len(),
        ch[pos] == ch_entries(ch)[i],
        ch_entries(ch.take(pos)).len() == i,
        ch[pos] is Node, rowan::tree_kind(ch[pos]) == ENTRY,
        t_key(ch_entries(ch)[i]) == Some(key),
        forall|j: int| 0 <= j < i ==> t_key(#[trigger] ch_entries(ch)[j]) != Some(key),
    ensures
        first_idx(ch_items(ch), key) >= 0,
        ch_items(ch)[first_idx(ch_items(ch), key)].1 == t_value(ch[pos]),
{
    let a = ch_entries(ch.take(pos)); let c = ch_entries(ch.skip(pos + 1));
    let old_e = ch[pos];
    lemma_split_at_entry(ch, pos);
    lemma_entries_single(old_e);
    let es = ch_entries(ch);
    lemma_entries_items_add(a + seq![old_e], c);
    lemma_entries_items_add(a, seq![old_e]);
    lemma_entries_items_single(old_e);
    let ia = entries_items(a); let ic = entries_items(c);
    let oldp = (key, t_value(old_e));
    assert forall|j: int| 0 <= j < a.len() implies t_key(#[trigger] a[j]) != Some(key) by { assert(a[j] == es[j]); }
    lemma_items_no_key(a, key);
    let l = ia + seq![oldp] + ic;
    assert forall|j: int| 0 <= j < ia.len() implies (#[trigger] l[j]).0 != key by { assert(l[j] == ia[j]); }
    assert(l[ia.len() as int] == oldp);
    lemma_first_idx_is(l, key, ia.len() as int);
}

/// the trees of a one-element splice
pub proof fn lemma_elems_one(s: Seq<rowan::SyntaxElement>)
    requires s.len() == 1
    ensures rowan::elems_trees(s) == seq![rowan::elem_tree(s[0])]
{
    assert(rowan::elems_trees(s) =~= seq![rowan::elem_tree(s[0])]);
}

/// `new` is `old` with the child at position pos (an entry called key) replaced by e
pub open spec fn replaced_at(old: Tree, new: Tree, pos: int, key: Seq<char>, e: Tree) -> bool {
    let ch = rowan::tree_children(old);
    &&& 0 <= pos < ch.len() && ch[pos] is Node && rowan::tree_kind(ch[pos]) == ENTRY && t_key(ch[pos]) == Some(key)
    &&& new == node(rowan::tree_kind(old), ch.take(pos) + seq![e] + ch.skip(pos + 1))
}
/// what may be put in front of an appended entry: nothing, or one NEWLINE token (when the last line was unterminated)
pub open spec fn nl_ok(nl: Seq<Tree>) -> bool {
    nl.len() <= 1 && forall|i: int| 0 <= i < nl.len() ==> #[trigger] nl[i] == leaf((NEWLINE, nlc()))
}
/// new is old with `nl` and the entry e appended; every existing child is unchanged
pub open spec fn appended_with(old: Tree, new: Tree, nl: Seq<Tree>, e: Tree) -> bool {
    nl_ok(nl) && new == node(rowan::tree_kind(old), rowan::tree_children(old) + nl + seq![e])
}
/// every child other than the touched entry is unchanged (hence every byte outside that field)
pub open spec fn set_frame(old: Tree, new: Tree, key: Seq<char>, e: Tree) -> bool {
    if first_idx(t_items(old), key) >= 0 { exists|pos: int| replaced_at(old, new, pos, key, e) }
    else { exists|nl: Seq<Tree>| #[trigger] appended_with(old, new, nl, e) }
}
/// token children do not show in the entry list
pub proof fn lemma_append_toks(ch: Seq<Tree>, ts: Seq<Tree>)
    requires all_toks(ts)
    ensures ch_entries(ch + ts) == ch_entries(ch), ch_items(ch + ts) == ch_items(ch)
{
    lemma_child_nodes_add(ch, ts);
    lemma_child_nodes_of_toks(ts);
    assert(rowan::child_nodes(ch) + Seq::<Tree>::empty() =~= rowan::child_nodes(ch));
}
