// handles of the lossless relations API and the trees they stand for
pub type SyntaxNode = rowan::SyntaxNode;
pub type SyntaxElement = rowan::SyntaxElement;
pub open spec fn entries_are(hs: Seq<Entry>, ts: Seq<Tree>) -> bool {
    hs.len() == ts.len() && forall|i: int| 0 <= i < hs.len() ==> (#[trigger] hs[i]).0.tree() == ts[i]
}
pub open spec fn relations_are(hs: Seq<Relation>, ts: Seq<Tree>) -> bool {
    hs.len() == ts.len() && forall|i: int| 0 <= i < hs.len() ==> (#[trigger] hs[i]).0.tree() == ts[i]
}
pub open spec fn nodes_are(hs: Seq<SyntaxNode>, ts: Seq<Tree>) -> bool {
    hs.len() == ts.len() && forall|i: int| 0 <= i < hs.len() ==> (#[trigger] hs[i]).tree() == ts[i]
}
pub proof fn lemma_cast_entries(nodes: Seq<SyntaxNode>, a: Seq<Option<Entry>>, cn: Seq<Tree>)
    requires
        nodes_are(nodes, cn), a.len() == nodes.len(),
        forall|i: int| 0 <= i < nodes.len() ==> (rowan::tree_kind(cn[i]) == ENTRY ==> #[trigger] a[i] is Some && a[i]->Some_0.0 == nodes[i])
            && (rowan::tree_kind(cn[i]) != ENTRY ==> a[i] is None),
    ensures entries_are(somes(a), kind_filter(cn, ENTRY))
    decreases nodes.len()
{
    if nodes.len() > 0 {
        let n2 = nodes.drop_last(); let a2 = a.drop_last(); let c2 = cn.drop_last();
        assert forall|i: int| 0 <= i < n2.len() implies (#[trigger] n2[i]).tree() == c2[i] by { assert(n2[i] == nodes[i]); }
        assert forall|i: int| 0 <= i < n2.len() implies (rowan::tree_kind(c2[i]) == ENTRY ==> #[trigger] a2[i] is Some && a2[i]->Some_0.0 == n2[i])
            && (rowan::tree_kind(c2[i]) != ENTRY ==> a2[i] is None) by { assert(a2[i] == a[i]); assert(c2[i] == cn[i]); assert(n2[i] == nodes[i]); }
        lemma_cast_entries(n2, a2, c2);
        assert(nodes.last().tree() == cn.last());
    }
}
pub proof fn lemma_cast_relations(nodes: Seq<SyntaxNode>, a: Seq<Option<Relation>>, cn: Seq<Tree>)
    requires
        nodes_are(nodes, cn), a.len() == nodes.len(),
        forall|i: int| 0 <= i < nodes.len() ==> (rowan::tree_kind(cn[i]) == RELATION ==> #[trigger] a[i] is Some && a[i]->Some_0.0 == nodes[i])
            && (rowan::tree_kind(cn[i]) != RELATION ==> a[i] is None),
    ensures relations_are(somes(a), kind_filter(cn, RELATION))
    decreases nodes.len()
{
    if nodes.len() > 0 {
        let n2 = nodes.drop_last(); let a2 = a.drop_last(); let c2 = cn.drop_last();
        assert forall|i: int| 0 <= i < n2.len() implies (#[trigger] n2[i]).tree() == c2[i] by { assert(n2[i] == nodes[i]); }
        assert forall|i: int| 0 <= i < n2.len() implies (rowan::tree_kind(c2[i]) == RELATION ==> #[trigger] a2[i] is Some && a2[i]->Some_0.0 == n2[i])
            && (rowan::tree_kind(c2[i]) != RELATION ==> a2[i] is None) by { assert(a2[i] == a[i]); assert(c2[i] == cn[i]); assert(n2[i] == nodes[i]); }
        lemma_cast_relations(n2, a2, c2);
        assert(nodes.last().tree() == cn.last());
    }
}
