// ---------------------------------------------------------------------------------------------
// C10: the lossless relationship-field parser (debian-control/src/lossless/relations.rs) as a function from the
// token sequence to a tree and an error count. Every unexpected token is wrapped in an ERROR node and counted.
// The contracts in parser.vspec prove that the real parser computes exactly these functions.
// ---------------------------------------------------------------------------------------------
pub type Tree = rowan::Tree;
pub open spec fn leaf(t: RTok) -> Tree { rowan::Tree::Tok(t.0, t.1) }
pub open spec fn node(k: SyntaxKind, ch: Seq<Tree>) -> Tree { rowan::Tree::Node(k, ch) }
/// the parser's token stack (reversed Vec) in consumption order
pub open spec fn fwd(v: Seq<(SyntaxKind, String)>) -> Seq<RTok> { Seq::new(v.len(), |i: int| rtok_view(v[v.len() - 1 - i])) }
pub open spec fn cur(ts: Seq<RTok>) -> Option<SyntaxKind> { if ts.len() > 0 { Some(ts[0].0) } else { None } }
pub open spec fn is_k(ts: Seq<RTok>, k: SyntaxKind) -> bool { ts.len() > 0 && ts[0].0 == k }
pub open spec fn is_wsk(k: SyntaxKind) -> bool { k == WHITESPACE || k == NEWLINE }

pub proof fn lemma_fwd_pop(v: Seq<(SyntaxKind, String)>)
    requires v.len() > 0
    ensures fwd(v).len() == v.len(), fwd(v)[0] == rtok_view(v.last()), fwd(v.drop_last()) == fwd(v).skip(1)
{
    assert(fwd(v.drop_last()) =~= fwd(v).skip(1));
}
pub proof fn lemma_fwd_reverse(v: Seq<(SyntaxKind, String)>)
    ensures fwd(v.reverse()) == rtoks_view(v)
{
    assert(fwd(v.reverse()) =~= rtoks_view(v));
}
pub proof fn lemma_fwd_index(v: Seq<(SyntaxKind, String)>, i: int)
    requires 0 <= i < v.len()
    ensures fwd(v)[v.len() - 1 - i] == rtok_view(v[i])
{ }

// ---- builder frames (as in units/deb822tree/tree_spec.rs) ---------------------------------------------------------------
pub open spec fn appended(old: rowan::BState, new: rowan::BState, es: Seq<Tree>) -> bool {
    &&& old.stack.len() > 0
    &&& new.stack.len() == old.stack.len()
    &&& new.stack.drop_last() =~= old.stack.drop_last()
    &&& new.stack.last().kind == old.stack.last().kind
    &&& new.stack.last().ch =~= old.stack.last().ch + es
    &&& new.done =~= old.done
}
pub open spec fn opened(b0: rowan::BState, b: rowan::BState, k: SyntaxKind, ch: Seq<Tree>) -> bool {
    &&& b.stack.len() == b0.stack.len() + 1
    &&& b.stack.drop_last() =~= b0.stack
    &&& b.stack.last().kind == k
    &&& b.stack.last().ch =~= ch
    &&& b.done =~= b0.done
}
pub proof fn lemma_appended_trans(a: rowan::BState, b: rowan::BState, c: rowan::BState, x: Seq<Tree>, y: Seq<Tree>)
    requires appended(a, b, x), appended(b, c, y)
    ensures appended(a, c, x + y)
{
    assert(a.stack.last().ch + (x + y) =~= (a.stack.last().ch + x) + y);
}
pub proof fn lemma_appended_refl(a: rowan::BState)
    requires a.stack.len() > 0
    ensures appended(a, a, Seq::empty())
{
    assert(a.stack.last().ch + Seq::<Tree>::empty() =~= a.stack.last().ch);
}

// ---- the parser as a function -----------------------------------------------------------------------------------------------
/// skip_ws: WHITESPACE / NEWLINE tokens as leaves
pub open spec fn q_ws(ts: Seq<RTok>) -> (Seq<Tree>, Seq<RTok>)
    decreases ts.len()
{
    if ts.len() > 0 && is_wsk(ts[0].0) { let r = q_ws(ts.skip(1)); (seq![leaf(ts[0])] + r.0, r.1) } else { (Seq::empty(), ts) }
}
/// peek_past_ws: the kind of the first token that is not WHITESPACE / NEWLINE
pub open spec fn q_peek(ts: Seq<RTok>) -> Option<SyntaxKind> { cur(q_ws(ts).1) }
/// error(): an ERROR node around the next token (empty at the end of the input)
pub open spec fn q_err(ts: Seq<RTok>) -> (Tree, Seq<RTok>) {
    if ts.len() > 0 { (node(ERROR, seq![leaf(ts[0])]), ts.skip(1)) } else { (node(ERROR, Seq::empty()), ts) }
}
/// a token of kind k, or error()
pub open spec fn q_expect(ts: Seq<RTok>, k: SyntaxKind) -> (Tree, Seq<RTok>, nat) {
    if is_k(ts, k) { (leaf(ts[0]), ts.skip(1), 0) } else { (q_err(ts).0, q_err(ts).1, 1) }
}
/// the body of ${...}
pub open spec fn q_sv_body(ts: Seq<RTok>) -> (Seq<Tree>, Seq<RTok>, nat)
    decreases ts.len()
{
    if ts.len() == 0 { (seq![q_err(ts).0], ts, 1) }
    else if ts[0].0 == IDENT || ts[0].0 == COLON { let r = q_sv_body(ts.skip(1)); (seq![leaf(ts[0])] + r.0, r.1, r.2) }
    else if ts[0].0 == R_CURLY { (Seq::empty(), ts, 0) }
    else { let r = q_sv_body(ts.skip(1)); (seq![q_err(ts).0] + r.0, r.1, r.2 + 1) }
}
/// parse_substvar (the next token is '$')
pub open spec fn q_substvar(ts: Seq<RTok>) -> (Tree, Seq<RTok>, nat) {
    let t1 = ts.skip(1);
    let o = q_expect(t1, L_CURLY);
    let b = q_sv_body(o.1);
    let c = q_expect(b.1, R_CURLY);
    (node(SUBSTVAR, seq![leaf(ts[0]), o.0] + b.0 + seq![c.0]), c.1, o.2 + b.2 + c.2)
}
/// operator characters
pub open spec fn q_ops(ts: Seq<RTok>) -> (Seq<Tree>, Seq<RTok>)
    decreases ts.len()
{
    if is_k(ts, L_ANGLE) || is_k(ts, R_ANGLE) || is_k(ts, EQUAL) { let r = q_ops(ts.skip(1)); (seq![leaf(ts[0])] + r.0, r.1) } else { (Seq::empty(), ts) }
}
/// the rest of a version after its first IDENT: COLON / IDENT tokens (epoch)
pub open spec fn q_vrest(ts: Seq<RTok>) -> (Seq<Tree>, Seq<RTok>)
    decreases ts.len()
{
    if is_k(ts, COLON) || is_k(ts, IDENT) { let r = q_vrest(ts.skip(1)); (seq![leaf(ts[0])] + r.0, r.1) } else { (Seq::empty(), ts) }
}
/// `(op version)`: the VERSION node (the next token is '(')
pub open spec fn q_version(ts: Seq<RTok>) -> (Tree, Seq<RTok>, nat) {
    let w1 = q_ws(ts.skip(1));
    let o = q_ops(w1.1);
    let w2 = q_ws(o.1);
    let v = if is_k(w2.1, IDENT) { let r = q_vrest(w2.1.skip(1)); (seq![leaf(w2.1[0])] + r.0, r.1, 0nat) } else { (seq![q_err(w2.1).0], q_err(w2.1).1, 1nat) };
    let c = q_expect(v.1, R_PARENS);
    (node(VERSION, seq![leaf(ts[0])] + w1.0 + seq![node(CONSTRAINT, o.0)] + w2.0 + v.0 + seq![c.0]), c.1, v.2 + c.2)
}
/// the inside of [...] after '['
pub open spec fn q_archs(ts: Seq<RTok>) -> (Seq<Tree>, Seq<RTok>, nat)
    decreases ts.len()
{
    let w = q_ws(ts);
    let t = w.1;
    if t.len() == 0 { (w.0 + seq![q_err(t).0], t, 1) }
    else if t[0].0 == R_BRACKET { (w.0 + seq![leaf(t[0])], t.skip(1), 0) }
    else if t.len() <= ts.len() {
        let r = q_archs(t.skip(1));
        if t[0].0 == NOT || t[0].0 == IDENT { (w.0 + seq![leaf(t[0])] + r.0, r.1, r.2) } else { (w.0 + seq![q_err(t).0] + r.0, r.1, r.2 + 1) }
    } else { (w.0, t, 0) }
}
/// the inside of <...> after '<'
pub open spec fn q_profs(ts: Seq<RTok>) -> (Seq<Tree>, Seq<RTok>, nat)
    decreases ts.len()
{
    let w = q_ws(ts);
    let t = w.1;
    if t.len() == 0 { (w.0 + seq![q_err(t).0], t, 1) }
    else if t[0].0 == R_ANGLE { (w.0 + seq![leaf(t[0])], t.skip(1), 0) }
    else if t.len() > ts.len() { (w.0, t, 0) }
    else if t[0].0 == IDENT { let r = q_profs(t.skip(1)); (w.0 + seq![leaf(t[0])] + r.0, r.1, r.2) }
    else if t[0].0 == NOT {
        let w2 = q_ws(t.skip(1));
        let e = q_expect(w2.1, IDENT);
        if e.1.len() < ts.len() { let r = q_profs(e.1); (w.0 + seq![leaf(t[0])] + w2.0 + seq![e.0] + r.0, r.1, e.2 + r.2) } else { (w.0, t, 0) }
    }
    else { let r = q_profs(t.skip(1)); (w.0 + seq![q_err(t).0] + r.0, r.1, r.2 + 1) }
}
/// the PROFILES nodes: while the next non-blank token is '<'
pub open spec fn q_profiles(ts: Seq<RTok>) -> (Seq<Tree>, Seq<RTok>, nat)
    decreases ts.len()
{
    if q_peek(ts) == Some(L_ANGLE) {
        let w = q_ws(ts);
        let p = q_profs(w.1.skip(1));
        if p.1.len() < ts.len() {
            let r = q_profiles(p.1);
            (w.0 + seq![node(PROFILES, seq![leaf(w.1[0])] + p.0)] + r.0, r.1, p.2 + r.2)
        } else { (w.0, w.1, 0) }
    } else { (Seq::empty(), ts, 0) }
}
/// what follows the package name: `:qualifier`, nothing, or an error
pub open spec fn q_after_name(ts: Seq<RTok>) -> (Seq<Tree>, Seq<RTok>, nat) {
    let p = q_peek(ts);
    let w = q_ws(ts);
    if p == Some(COLON) {
        let w2 = q_ws(w.1.skip(1));
        let e = q_expect(w2.1, IDENT);
        let w3 = q_ws(e.1);
        (w.0 + seq![node(ARCHQUAL, seq![leaf(w.1[0])] + w2.0 + seq![e.0])] + w3.0, w3.1, e.2)
    } else if p == Some(PIPE) || p == Some(COMMA) { (Seq::empty(), ts, 0) }
    else if p is None || p == Some(L_PARENS) || p == Some(L_BRACKET) || p == Some(L_ANGLE) { (w.0, w.1, 0) }
    else { (w.0 + seq![q_err(w.1).0], q_err(w.1).1, 1) }
}
pub open spec fn q_opt_version(ts: Seq<RTok>) -> (Seq<Tree>, Seq<RTok>, nat) {
    if q_peek(ts) == Some(L_PARENS) { let w = q_ws(ts); let v = q_version(w.1); (w.0 + seq![v.0], v.1, v.2) } else { (Seq::empty(), ts, 0) }
}
pub open spec fn q_opt_archs(ts: Seq<RTok>) -> (Seq<Tree>, Seq<RTok>, nat) {
    if q_peek(ts) == Some(L_BRACKET) { let w = q_ws(ts); let a = q_archs(w.1.skip(1)); (w.0 + seq![node(ARCHITECTURES, seq![leaf(w.1[0])] + a.0)], a.1, a.2) } else { (Seq::empty(), ts, 0) }
}
/// parse_relation
pub open spec fn q_relation(ts: Seq<RTok>) -> (Tree, Seq<RTok>, nat) {
    let n = q_expect(ts, IDENT);
    let a = q_after_name(n.1);
    let v = q_opt_version(a.1);
    let ar = q_opt_archs(v.1);
    let p = q_profiles(ar.1);
    (node(RELATION, seq![n.0] + a.0 + v.0 + ar.0 + p.0), p.1, n.2 + a.2 + v.2 + ar.2 + p.2)
}
/// the alternatives of an entry
pub open spec fn q_alts(ts: Seq<RTok>) -> (Seq<Tree>, Seq<RTok>, nat)
    decreases ts.len()
{
    let r = q_relation(ts);
    let p = q_peek(r.1);
    let w = q_ws(r.1);
    if p == Some(COMMA) { (seq![r.0], r.1, r.2) }
    else if p is None { (seq![r.0] + w.0, w.1, r.2) }
    else if p == Some(PIPE) {
        let w2 = q_ws(w.1.skip(1));
        if w2.1.len() < ts.len() { let x = q_alts(w2.1); (seq![r.0] + w.0 + seq![leaf(w.1[0])] + w2.0 + x.0, x.1, r.2 + x.2) } else { (seq![r.0], r.1, r.2) }
    } else {
        let e = q_err(w.1);
        if e.1.len() < ts.len() { let x = q_alts(e.1); (seq![r.0] + w.0 + seq![e.0] + x.0, x.1, r.2 + 1 + x.2) } else { (seq![r.0], r.1, r.2) }
    }
}
/// parse_entry: whitespace, then the ENTRY node
pub open spec fn q_entry(ts: Seq<RTok>) -> (Seq<Tree>, Seq<RTok>, nat) {
    let w = q_ws(ts);
    let a = q_alts(w.1);
    (w.0 + seq![node(ENTRY, a.0)], a.1, a.2)
}
/// one round of the top-level loop (the next token exists)
pub open spec fn q_item(ts: Seq<RTok>, allow_substvar: bool) -> (Seq<Tree>, Seq<RTok>, nat) {
    let k = ts[0].0;
    let first: (Seq<Tree>, Seq<RTok>, nat) =
        if k == IDENT { q_entry(ts) }
        else if k == DOLLAR { if allow_substvar { let s = q_substvar(ts); (seq![s.0], s.1, s.2) } else { (seq![q_err(ts).0], q_err(ts).1, 1) } }
        else if k == COMMA { (Seq::empty(), ts, 0) }
        else { (seq![q_err(ts).0], q_err(ts).1, 1) };
    let w = q_ws(first.1);
    let t = w.1;
    if t.len() == 0 { (first.0 + w.0, t, first.2) }
    else {
        let sep: (Tree, Seq<RTok>, nat) = if t[0].0 == COMMA { (leaf(t[0]), t.skip(1), 0) } else { (q_err(t).0, q_err(t).1, 1) };
        let w2 = q_ws(sep.1);
        (first.0 + w.0 + seq![sep.0] + w2.0, w2.1, first.2 + sep.2)
    }
}
pub open spec fn q_items(ts: Seq<RTok>, allow_substvar: bool) -> (Seq<Tree>, nat)
    decreases ts.len()
{
    if ts.len() == 0 { (Seq::empty(), 0) }
    else {
        let i = q_item(ts, allow_substvar);
        if i.1.len() == 0 { (i.0, i.2) }
        else if i.1.len() < ts.len() { let r = q_items(i.1, allow_substvar); (i.0 + r.0, i.2 + r.1) }
        else { (i.0, i.2) }
    }
}
pub open spec fn q_root(ts: Seq<RTok>, allow_substvar: bool) -> (Tree, nat) {
    let w = q_ws(ts);
    let i = q_items(w.1, allow_substvar);
    (node(ROOT, w.0 + i.0), i.1)
}
pub open spec fn parse_rel_text(s: Seq<char>, allow_substvar: bool) -> (Tree, nat) { q_root(rel_tokens_of(s), allow_substvar) }

// ---- progress facts ----------------------------------------------------------------------------------------------------------
pub proof fn lemma_q_ws_len(ts: Seq<RTok>)
    ensures q_ws(ts).1.len() <= ts.len(), q_ws(ts).1.len() == 0 || !is_wsk(q_ws(ts).1[0].0)
    decreases ts.len()
{
    if ts.len() > 0 && is_wsk(ts[0].0) { lemma_q_ws_len(ts.skip(1)); }
}
pub proof fn lemma_q_ops_len(ts: Seq<RTok>)
    ensures q_ops(ts).1.len() <= ts.len()
    decreases ts.len()
{
    if is_k(ts, L_ANGLE) || is_k(ts, R_ANGLE) || is_k(ts, EQUAL) { lemma_q_ops_len(ts.skip(1)); }
}
pub proof fn lemma_q_vrest_len(ts: Seq<RTok>)
    ensures q_vrest(ts).1.len() <= ts.len()
    decreases ts.len()
{
    if is_k(ts, COLON) || is_k(ts, IDENT) { lemma_q_vrest_len(ts.skip(1)); }
}
pub proof fn lemma_q_archs_len(ts: Seq<RTok>)
    ensures q_archs(ts).1.len() <= ts.len()
    decreases ts.len()
{
    lemma_q_ws_len(ts);
    let t = q_ws(ts).1;
    if t.len() > 0 && t[0].0 != R_BRACKET { lemma_q_archs_len(t.skip(1)); }
}
pub proof fn lemma_q_profs_len(ts: Seq<RTok>)
    ensures q_profs(ts).1.len() <= ts.len()
    decreases ts.len()
{
    lemma_q_ws_len(ts);
    let t = q_ws(ts).1;
    if t.len() > 0 && t[0].0 != R_ANGLE {
        if t[0].0 == NOT {
            lemma_q_ws_len(t.skip(1));
            let e = q_expect(q_ws(t.skip(1)).1, IDENT);
            if e.1.len() < ts.len() { lemma_q_profs_len(e.1); }
        } else { lemma_q_profs_len(t.skip(1)); }
    }
}
