// ---------------------------------------------------------------------------------------------
// C10: what the read-only accessors of the lossless relations API expose, as functions of the tree.
// ---------------------------------------------------------------------------------------------

pub open spec fn kind_filter(ts: Seq<Tree>, k: SyntaxKind) -> Seq<Tree>
    decreases ts.len()
{
    if ts.len() == 0 { Seq::empty() }
    else if rowan::tree_kind(ts.last()) == k { kind_filter(ts.drop_last(), k).push(ts.last()) }
    else { kind_filter(ts.drop_last(), k) }
}
/// the first child that is a token of kind k
pub open spec fn first_tok(ch: Seq<Tree>, k: SyntaxKind) -> Option<Tree>
    decreases ch.len()
{
    if ch.len() == 0 { None } else if ch[0] is Tok && rowan::tree_kind(ch[0]) == k { Some(ch[0]) } else { first_tok(ch.skip(1), k) }
}
/// the first tree of kind k in a list
pub open spec fn first_kind(ts: Seq<Tree>, k: SyntaxKind) -> Option<Tree>
    decreases ts.len()
{
    if ts.len() == 0 { None } else if rowan::tree_kind(ts[0]) == k { Some(ts[0]) } else { first_kind(ts.skip(1), k) }
}
/// the first child node of kind k
pub open spec fn first_node(ch: Seq<Tree>, k: SyntaxKind) -> Option<Tree> { first_kind(rowan::child_nodes(ch), k) }
pub open spec fn t_entries(root: Tree) -> Seq<Tree> { kind_filter(rowan::child_nodes(rowan::tree_children(root)), ENTRY) }
pub open spec fn t_relations(entry: Tree) -> Seq<Tree> { kind_filter(rowan::child_nodes(rowan::tree_children(entry)), RELATION) }
/// the package name: the first IDENT token of the relation
pub open spec fn t_name(rel: Tree) -> Option<Seq<char>> {
    match first_tok(rowan::tree_children(rel), IDENT) { Some(t) => Some(rowan::tree_text(t)), None => None }
}
/// the architecture qualifier: the first IDENT token of the first ARCHQUAL child
pub open spec fn t_archqual(rel: Tree) -> Option<Seq<char>> {
    match first_node(rowan::tree_children(rel), ARCHQUAL) {
        Some(a) => match first_tok(rowan::tree_children(a), IDENT) { Some(t) => Some(rowan::tree_text(t)), None => None },
        None => None,
    }
}

/// the first token of kind k is at index i
pub proof fn lemma_first_tok_is(ch: Seq<Tree>, k: SyntaxKind, i: int)
    requires 0 <= i < ch.len(), ch[i] is Tok, rowan::tree_kind(ch[i]) == k,
        forall|j: int| 0 <= j < i ==> !((#[trigger] ch[j]) is Tok && rowan::tree_kind(ch[j]) == k)
    ensures first_tok(ch, k) == Some(ch[i])
    decreases i
{
    if i > 0 {
        assert(!(ch[0] is Tok && rowan::tree_kind(ch[0]) == k));
        assert(ch.skip(1)[i - 1] == ch[i]);
        assert forall|j: int| 0 <= j < i - 1 implies !((#[trigger] ch.skip(1)[j]) is Tok && rowan::tree_kind(ch.skip(1)[j]) == k) by { assert(ch.skip(1)[j] == ch[j + 1]); }
        lemma_first_tok_is(ch.skip(1), k, i - 1);
    }
}
pub proof fn lemma_first_tok_none(ch: Seq<Tree>, k: SyntaxKind)
    requires forall|j: int| 0 <= j < ch.len() ==> !((#[trigger] ch[j]) is Tok && rowan::tree_kind(ch[j]) == k)
    ensures first_tok(ch, k) is None
    decreases ch.len()
{
    if ch.len() > 0 {
        assert(!(ch[0] is Tok && rowan::tree_kind(ch[0]) == k));
        assert forall|j: int| 0 <= j < ch.skip(1).len() implies !((#[trigger] ch.skip(1)[j]) is Tok && rowan::tree_kind(ch.skip(1)[j]) == k) by { assert(ch.skip(1)[j] == ch[j + 1]); }
        lemma_first_tok_none(ch.skip(1), k);
    }
}

pub proof fn lemma_first_kind_is(ts: Seq<Tree>, k: SyntaxKind, i: int)
    requires 0 <= i < ts.len(), rowan::tree_kind(ts[i]) == k, forall|j: int| 0 <= j < i ==> rowan::tree_kind(#[trigger] ts[j]) != k
    ensures first_kind(ts, k) == Some(ts[i])
    decreases i
{
    if i > 0 {
        assert(rowan::tree_kind(ts[0]) != k);
        assert(ts.skip(1)[i - 1] == ts[i]);
        assert forall|j: int| 0 <= j < i - 1 implies rowan::tree_kind(#[trigger] ts.skip(1)[j]) != k by { assert(ts.skip(1)[j] == ts[j + 1]); }
        lemma_first_kind_is(ts.skip(1), k, i - 1);
    }
}
pub proof fn lemma_first_kind_none(ts: Seq<Tree>, k: SyntaxKind)
    requires forall|j: int| 0 <= j < ts.len() ==> rowan::tree_kind(#[trigger] ts[j]) != k
    ensures first_kind(ts, k) is None
    decreases ts.len()
{
    if ts.len() > 0 {
        assert(rowan::tree_kind(ts[0]) != k);
        assert forall|j: int| 0 <= j < ts.skip(1).len() implies rowan::tree_kind(#[trigger] ts.skip(1)[j]) != k by { assert(ts.skip(1)[j] == ts[j + 1]); }
        lemma_first_kind_none(ts.skip(1), k);
    }
}
