// ---------------------------------------------------------------------------------------------
// C10: what the read-only accessors of the lossless relations API expose, as functions of the tree.
// ---------------------------------------------------------------------------------------------
pub type SyntaxNode = rowan::SyntaxNode;
pub type SyntaxElement = rowan::SyntaxElement;

pub open spec fn kind_filter(ts: Seq<Tree>, k: SyntaxKind) -> Seq<Tree>
    decreases ts.len()
{
    if ts.len() == 0 { Seq::empty() }
    else if rowan::tree_kind(ts.last()) == k { kind_filter(ts.drop_last(), k).push(ts.last()) }
    else { kind_filter(ts.drop_last(), k) }
}
/// the first child that is a token of kind k
pub open spec fn first_tok(ch: Seq<Tree>, k: SyntaxKind) -> Option<Tree>
    decreases ch.len()
{
    if ch.len() == 0 { None } else if ch[0] is Tok && rowan::tree_kind(ch[0]) == k { Some(ch[0]) } else { first_tok(ch.skip(1), k) }
}
/// the first tree of kind k in a list
pub open spec fn first_kind(ts: Seq<Tree>, k: SyntaxKind) -> Option<Tree>
    decreases ts.len()
{
    if ts.len() == 0 { None } else if rowan::tree_kind(ts[0]) == k { Some(ts[0]) } else { first_kind(ts.skip(1), k) }
}
/// the first child node of kind k
pub open spec fn first_node(ch: Seq<Tree>, k: SyntaxKind) -> Option<Tree> { first_kind(rowan::child_nodes(ch), k) }
pub open spec fn t_entries(root: Tree) -> Seq<Tree> { kind_filter(rowan::child_nodes(rowan::tree_children(root)), ENTRY) }
pub open spec fn t_relations(entry: Tree) -> Seq<Tree> { kind_filter(rowan::child_nodes(rowan::tree_children(entry)), RELATION) }
/// the package name: the first IDENT token of the relation
pub open spec fn t_name(rel: Tree) -> Option<Seq<char>> {
    match first_tok(rowan::tree_children(rel), IDENT) { Some(t) => Some(rowan::tree_text(t)), None => None }
}
/// the architecture qualifier: the first IDENT token of the first ARCHQUAL child
pub open spec fn t_archqual(rel: Tree) -> Option<Seq<char>> {
    match first_node(rowan::tree_children(rel), ARCHQUAL) {
        Some(a) => match first_tok(rowan::tree_children(a), IDENT) { Some(t) => Some(rowan::tree_text(t)), None => None },
        None => None,
    }
}

pub open spec fn entries_are(hs: Seq<Entry>, ts: Seq<Tree>) -> bool {
    hs.len() == ts.len() && forall|i: int| 0 <= i < hs.len() ==> (#[trigger] hs[i]).0.tree() == ts[i]
}
pub open spec fn relations_are(hs: Seq<Relation>, ts: Seq<Tree>) -> bool {
    hs.len() == ts.len() && forall|i: int| 0 <= i < hs.len() ==> (#[trigger] hs[i]).0.tree() == ts[i]
}
pub open spec fn nodes_are(hs: Seq<SyntaxNode>, ts: Seq<Tree>) -> bool {
    hs.len() == ts.len() && forall|i: int| 0 <= i < hs.len() ==> (#[trigger] hs[i]).tree() == ts[i]
}
pub proof fn lemma_cast_entries(nodes: Seq<SyntaxNode>, a: Seq<Option<Entry>>, cn: Seq<Tree>)
    requires
        nodes_are(nodes, cn), a.len() == nodes.len(),
        forall|i: int| 0 <= i < nodes.len() ==> (rowan::tree_kind(cn[i]) == ENTRY ==> #[trigger] a[i] is Some && a[i]->Some_0.0 == nodes[i])
            && (rowan::tree_kind(cn[i]) != ENTRY ==> a[i] is None),
    ensures entries_are(somes(a), kind_filter(cn, ENTRY))
    decreases nodes.len()
{
    if nodes.len() > 0 {
        let n2 = nodes.drop_last(); let a2 = a.drop_last(); let c2 = cn.drop_last();
        assert forall|i: int| 0 <= i < n2.len() implies (#[trigger] n2[i]).tree() == c2[i] by { assert(n2[i] == nodes[i]); }
        assert forall|i: int| 0 <= i < n2.len() implies (rowan::tree_kind(c2[i]) == ENTRY ==> #[trigger] a2[i] is Some && a2[i]->Some_0.0 == n2[i])
            && (rowan::tree_kind(c2[i]) != ENTRY ==> a2[i] is None) by { assert(a2[i] == a[i]); assert(c2[i] == cn[i]); assert(n2[i] == nodes[i]); }
        lemma_cast_entries(n2, a2, c2);
        assert(nodes.last().tree() == cn.last());
    }
}
pub proof fn lemma_cast_relations(nodes: Seq<SyntaxNode>, a: Seq<Option<Relation>>, cn: Seq<Tree>)
    requires
        nodes_are(nodes, cn), a.len() == nodes.len(),
        forall|i: int| 0 <= i < nodes.len() ==> (rowan::tree_kind(cn[i]) == RELATION ==> #[trigger] a[i] is Some && a[i]->Some_0.0 == nodes[i])
            && (rowan::tree_kind(cn[i]) != RELATION ==> a[i] is None),
    ensures relations_are(somes(a), kind_filter(cn, RELATION))
    decreases nodes.len()
{
    if nodes.len() > 0 {
        let n2 = nodes.drop_last(); let a2 = a.drop_last(); let c2 = cn.drop_last();
        assert forall|i: int| 0 <= i < n2.len() implies (#[trigger] n2[i]).tree() == c2[i] by { assert(n2[i] == nodes[i]); }
        assert forall|i: int| 0 <= i < n2.len() implies (rowan::tree_kind(c2[i]) == RELATION ==> #[trigger] a2[i] is Some && a2[i]->Some_0.0 == n2[i])
            && (rowan::tree_kind(c2[i]) != RELATION ==> a2[i] is None) by { assert(a2[i] == a[i]); assert(c2[i] == cn[i]); assert(n2[i] == nodes[i]); }
        lemma_cast_relations(n2, a2, c2);
        assert(nodes.last().tree() == cn.last());
    }
}
/// the first token of kind k is at index i
pub proof fn lemma_first_tok_is(ch: Seq<Tree>, k: SyntaxKind, i: int)
    requires 0 <= i < ch.len(), ch[i] is Tok, rowan::tree_kind(ch[i]) == k,
        forall|j: int| 0 <= j < i ==> !((#[trigger] ch[j]) is Tok && rowan::tree_kind(ch[j]) == k)
    ensures first_tok(ch, k) == Some(ch[i])
    decreases i
{
    if i > 0 {
        assert(!(ch[0] is Tok && rowan::tree_kind(ch[0]) == k));
        assert(ch.skip(1)[i - 1] == ch[i]);
        assert forall|j: int| 0 <= j < i - 1 implies !((#[trigger] ch.skip(1)[j]) is Tok && rowan::tree_kind(ch.skip(1)[j]) == k) by { assert(ch.skip(1)[j] == ch[j + 1]); }
        lemma_first_tok_is(ch.skip(1), k, i - 1);
    }
}
pub proof fn lemma_first_tok_none(ch: Seq<Tree>, k: SyntaxKind)
    requires forall|j: int| 0 <= j < ch.len() ==> !((#[trigger] ch[j]) is Tok && rowan::tree_kind(ch[j]) == k)
    ensures first_tok(ch, k) is None
    decreases ch.len()
{
    if ch.len() > 0 {
        assert(!(ch[0] is Tok && rowan::tree_kind(ch[0]) == k));
        assert forall|j: int| 0 <= j < ch.skip(1).len() implies !((#[trigger] ch.skip(1)[j]) is Tok && rowan::tree_kind(ch.skip(1)[j]) == k) by { assert(ch.skip(1)[j] == ch[j + 1]); }
        lemma_first_tok_none(ch.skip(1), k);
    }
}

pub proof fn lemma_first_kind_is(ts: Seq<Tree>, k: SyntaxKind, i: int)
    requires 0 <= i < ts.len(), rowan::tree_kind(ts[i]) == k, forall|j: int| 0 <= j < i ==> rowan::tree_kind(#[trigger] ts[j]) != k
    ensures first_kind(ts, k) == Some(ts[i])
    decreases i
{
    if i > 0 {
        assert(rowan::tree_kind(ts[0]) != k);
        assert(ts.skip(1)[i - 1] == ts[i]);
        assert forall|j: int| 0 <= j < i - 1 implies rowan::tree_kind(#[trigger] ts.skip(1)[j]) != k by { assert(ts.skip(1)[j] == ts[j + 1]); }
        lemma_first_kind_is(ts.skip(1), k, i - 1);
    }
}
pub proof fn lemma_first_kind_none(ts: Seq<Tree>, k: SyntaxKind)
    requires forall|j: int| 0 <= j < ts.len() ==> rowan::tree_kind(#[trigger] ts[j]) != k
    ensures first_kind(ts, k) is None
    decreases ts.len()
{
    if ts.len() > 0 {
        assert(rowan::tree_kind(ts[0]) != k);
        assert forall|j: int| 0 <= j < ts.skip(1).len() implies rowan::tree_kind(#[trigger] ts.skip(1)[j]) != k by { assert(ts.skip(1)[j] == ts[j + 1]); }
        lemma_first_kind_none(ts.skip(1), k);
    }
}
