// ---------------------------------------------------------------------------------------------
// C08: lossy deb822 values — list model of a paragraph and the printed shape, from the statement.
// ---------------------------------------------------------------------------------------------

/// a paragraph as an ordered list of (name, value) pairs
pub open spec fn fields_view(fs: Seq<Field>) -> Seq<(Seq<char>, Seq<char>)> {
    fs.map_values(|f: Field| (f.name@, f.value@))
}
pub open spec fn para_view(p: Paragraph) -> Seq<(Seq<char>, Seq<char>)> {
    fields_view(p.fields@)
}

/// index of the first field called `name`, or -1
pub open spec fn first_idx(l: Seq<(Seq<char>, Seq<char>)>, name: Seq<char>) -> int
    decreases l.len()
{
    if l.len() == 0 { -1 }
    else if l[0].0 == name { 0 }
    else { let r = first_idx(l.skip(1), name); if r < 0 { -1 } else { r + 1 } }
}

pub proof fn lemma_first_idx(l: Seq<(Seq<char>, Seq<char>)>, name: Seq<char>)
    ensures
        -1 <= first_idx(l, name) < l.len(),
        first_idx(l, name) >= 0 ==> l[first_idx(l, name)].0 == name,
        forall|j: int| 0 <= j < l.len() && (j < first_idx(l, name) || first_idx(l, name) < 0) ==> (#[trigger] l[j]).0 != name,
    decreases l.len()
{
    if l.len() > 0 && l[0].0 != name {
        lemma_first_idx(l.skip(1), name);
        let r = first_idx(l.skip(1), name);
        assert forall|j: int| 0 <= j < l.len() && (j < first_idx(l, name) || first_idx(l, name) < 0) implies (#[trigger] l[j]).0 != name by {
            if j > 0 { assert(l[j] == l.skip(1)[j - 1]); }
        }
    }
}

/// i is the first index whose name matches
pub proof fn lemma_first_idx_is(l: Seq<(Seq<char>, Seq<char>)>, name: Seq<char>, i: int)
    requires 0 <= i < l.len(), l[i].0 == name, forall|j: int| 0 <= j < i ==> (#[trigger] l[j]).0 != name
    ensures first_idx(l, name) == i
    decreases i
{
    if i > 0 {
        assert(l[0].0 != name);
        assert(l.skip(1)[i - 1] == l[i]);
        assert forall|j: int| 0 <= j < i - 1 implies (#[trigger] l.skip(1)[j]).0 != name by { assert(l.skip(1)[j] == l[j + 1]); }
        lemma_first_idx_is(l.skip(1), name, i - 1);
    }
}
pub proof fn lemma_first_idx_none(l: Seq<(Seq<char>, Seq<char>)>, name: Seq<char>)
    requires forall|j: int| 0 <= j < l.len() ==> (#[trigger] l[j]).0 != name
    ensures first_idx(l, name) == -1
    decreases l.len()
{
    if l.len() > 0 {
        assert(l[0].0 != name);
        assert forall|j: int| 0 <= j < l.skip(1).len() implies (#[trigger] l.skip(1)[j]).0 != name by { assert(l.skip(1)[j] == l[j + 1]); }
        lemma_first_idx_none(l.skip(1), name);
    }
}

// ---- the statement's four list operations ----
pub open spec fn list_get(l: Seq<(Seq<char>, Seq<char>)>, name: Seq<char>) -> Option<Seq<char>> {
    if first_idx(l, name) >= 0 { Some(l[first_idx(l, name)].1) } else { None }
}
pub open spec fn list_insert(l: Seq<(Seq<char>, Seq<char>)>, name: Seq<char>, value: Seq<char>) -> Seq<(Seq<char>, Seq<char>)> {
    l.push((name, value))
}
pub open spec fn list_set(l: Seq<(Seq<char>, Seq<char>)>, name: Seq<char>, value: Seq<char>) -> Seq<(Seq<char>, Seq<char>)> {
    if first_idx(l, name) >= 0 { l.update(first_idx(l, name), (name, value)) } else { l.push((name, value)) }
}
/// all fields of that name removed, everything else in order
pub open spec fn list_remove(l: Seq<(Seq<char>, Seq<char>)>, name: Seq<char>) -> Seq<(Seq<char>, Seq<char>)> {
    l.filter(|f: (Seq<char>, Seq<char>)| f.0 != name)
}

// ---- printed shape ----
pub open spec fn sp() -> Seq<char> { seq![' '] }
pub open spec fn lf() -> Seq<char> { seq!['\n'] }
pub open spec fn colon() -> Seq<char> { seq![':'] }

/// " line\n" for every line
pub open spec fn cont_lines(ls: Seq<Seq<char>>) -> Seq<char>
    decreases ls.len()
{
    if ls.len() == 0 { Seq::empty() } else { cont_lines(ls.drop_last()) + sp() + ls.last() + lf() }
}
/// one field: "Name: value\n" when the value has at most one line, else "Name:" then " line\n" per line
pub open spec fn field_text(name: Seq<char>, value: Seq<char>) -> Seq<char> {
    if lines_of(value).len() > 1 { name + colon() + cont_lines(lines_of(value)) }
    else { name + colon() + sp() + value + lf() }
}
pub open spec fn fields_text(fs: Seq<Field>) -> Seq<char>
    decreases fs.len()
{
    if fs.len() == 0 { Seq::empty() } else { fields_text(fs.drop_last()) + field_text(fs.last().name@, fs.last().value@) }
}
/// paragraphs separated by exactly one blank line
pub open spec fn doc_text(ps: Seq<Paragraph>) -> Seq<char>
    decreases ps.len()
{
    if ps.len() == 0 { Seq::empty() }
    else if ps.len() == 1 { fields_text(ps[0].fields@) }
    else { doc_text(ps.drop_last()) + lf() + fields_text(ps.last().fields@) }
}

impl VxDisplay for Paragraph {
    open spec fn display_spec(&self) -> Seq<char> { fields_text(self.fields@) }
}

pub open spec fn field_pair(f: Field) -> (Seq<char>, Seq<char>) { (f.name@, f.value@) }

/// Vec::retain with "name differs" is the list model's remove
pub proof fn lemma_retain_is_remove(fs: Seq<Field>, keep: Seq<bool>, name: Seq<char>)
    requires keep.len() == fs.len(), forall|i: int| 0 <= i < fs.len() ==> keep[i] == (fs[i].name@ != name)
    ensures fields_view(filter_by(fs, keep)) == list_remove(fields_view(fs), name)
    decreases fs.len()
{
    reveal(Seq::filter);
    if fs.len() == 0 {
        assert(fields_view(filter_by(fs, keep)) =~= list_remove(fields_view(fs), name));
    } else {
        lemma_retain_is_remove(fs.drop_last(), keep.drop_last(), name);
        assert(fields_view(fs).drop_last() =~= fields_view(fs.drop_last()));
        assert(fields_view(fs).last() == (fs.last().name@, fs.last().value@));
        if keep.last() {
            assert(fields_view(filter_by(fs, keep)) =~= fields_view(filter_by(fs.drop_last(), keep.drop_last())).push((fs.last().name@, fs.last().value@)));
        }
        assert(fields_view(filter_by(fs, keep)) =~= list_remove(fields_view(fs), name));
    }
}

pub proof fn lemma_cont_lines_push(ls: Seq<Seq<char>>, i: int)
    requires 0 <= i < ls.len()
    ensures cont_lines(ls.take(i + 1)) == cont_lines(ls.take(i)) + sp() + ls[i] + lf()
{
    assert(ls.take(i + 1).drop_last() =~= ls.take(i));
    assert(ls.take(i + 1).last() == ls[i]);
}
pub proof fn lemma_fields_text_push(fs: Seq<Field>, i: int)
    requires 0 <= i < fs.len()
    ensures fields_text(fs.take(i + 1)) == fields_text(fs.take(i)) + field_text(fs[i].name@, fs[i].value@)
{
    assert(fs.take(i + 1).drop_last() =~= fs.take(i));
    assert(fs.take(i + 1).last() == fs[i]);
}
pub proof fn lemma_doc_text_push(ps: Seq<Paragraph>, i: int)
    requires 0 <= i < ps.len()
    ensures
        doc_text(ps.take(i + 1)) == if i == 0 { fields_text(ps[0].fields@) } else { doc_text(ps.take(i)) + lf() + fields_text(ps[i].fields@) }
{
    assert(ps.take(i + 1).drop_last() =~= ps.take(i));
    assert(ps.take(i + 1).last() == ps[i]);
    if i == 0 { assert(ps.take(1)[0] == ps[0]); }
}
