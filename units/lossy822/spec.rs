// ---------------------------------------------------------------------------------------------
// C08: lossy deb822 values — list model of a paragraph and the printed shape, from the statement.
// ---------------------------------------------------------------------------------------------

/// a paragraph as an ordered list of (name, value) pairs
pub open spec fn fields_view(fs: Seq<Field>) -> Seq<(Seq<char>, Seq<char>)> {
    fs.map_values(|f: Field| (f.name@, f.value@))
}
pub open spec fn para_view(p: Paragraph) -> Seq<(Seq<char>, Seq<char>)> {
    fields_view(p.fields@)
}

// ---- printed shape ----
// sp(), lf(), colon(): ../common/text_consts.rs

/// " line\n" for every line
pub open spec fn cont_lines(ls: Seq<Seq<char>>) -> Seq<char>
    decreases ls.len()
{
    if ls.len() == 0 { Seq::empty() } else { cont_lines(ls.drop_last()) + sp() + ls.last() + lf() }
}
/// one field: "Name: value\n" when the value has at most one line, else "Name:" then " line\n" per line
pub open spec fn field_text(name: Seq<char>, value: Seq<char>) -> Seq<char> {
    if lines_of(value).len() > 1 { name + colon() + cont_lines(lines_of(value)) }
    else { name + colon() + sp() + value + lf() }
}
pub open spec fn fields_text(fs: Seq<Field>) -> Seq<char>
    decreases fs.len()
{
    if fs.len() == 0 { Seq::empty() } else { fields_text(fs.drop_last()) + field_text(fs.last().name@, fs.last().value@) }
}
/// paragraphs separated by exactly one blank line
pub open spec fn doc_text(ps: Seq<Paragraph>) -> Seq<char>
    decreases ps.len()
{
    if ps.len() == 0 { Seq::empty() }
    else if ps.len() == 1 { fields_text(ps[0].fields@) }
    else { doc_text(ps.drop_last()) + lf() + fields_text(ps.last().fields@) }
}

impl VxDisplay for Paragraph {
    open spec fn display_spec(&self) -> Seq<char> { fields_text(self.fields@) }
}

pub open spec fn field_pair(f: Field) -> (Seq<char>, Seq<char>) { (f.name@, f.value@) }

/// Vec::retain with "name differs" is the list model's remove
pub proof fn lemma_retain_is_remove(fs: Seq<Field>, keep: Seq<bool>, name: Seq<char>)
    requires keep.len() == fs.len(), forall|i: int| 0 <= i < fs.len() ==> keep[i] == (fs[i].name@ != name)
    ensures fields_view(filter_by(fs, keep)) == list_remove(fields_view(fs), name)
    decreases fs.len()
{
    reveal(Seq::filter);
    if fs.len() == 0 {
        assert(fields_view(filter_by(fs, keep)) =~= list_remove(fields_view(fs), name));
    } else {
        lemma_retain_is_remove(fs.drop_last(), keep.drop_last(), name);
        assert(fields_view(fs).drop_last() =~= fields_view(fs.drop_last()));
        assert(fields_view(fs).last() == (fs.last().name@, fs.last().value@));
        if keep.last() {
            assert(fields_view(filter_by(fs, keep)) =~= fields_view(filter_by(fs.drop_last(), keep.drop_last())).push((fs.last().name@, fs.last().value@)));
        }
        assert(fields_view(filter_by(fs, keep)) =~= list_remove(fields_view(fs), name));
    }
}

pub proof fn lemma_cont_lines_push(ls: Seq<Seq<char>>, i: int)
    requires 0 <= i < ls.len()
    ensures cont_lines(ls.take(i + 1)) == cont_lines(ls.take(i)) + sp() + ls[i] + lf()
{
    assert(ls.take(i + 1).drop_last() =~= ls.take(i));
    assert(ls.take(i + 1).last() == ls[i]);
}
pub proof fn lemma_fields_text_push(fs: Seq<Field>, i: int)
    requires 0 <= i < fs.len()
    ensures fields_text(fs.take(i + 1)) == fields_text(fs.take(i)) + field_text(fs[i].name@, fs[i].value@)
{
    assert(fs.take(i + 1).drop_last() =~= fs.take(i));
    assert(fs.take(i + 1).last() == fs[i]);
}
pub proof fn lemma_doc_text_push(ps: Seq<Paragraph>, i: int)
    requires 0 <= i < ps.len()
    ensures
        doc_text(ps.take(i + 1)) == if i == 0 { fields_text(ps[0].fields@) } else { doc_text(ps.take(i)) + lf() + fields_text(ps[i].fields@) }
{
    assert(ps.take(i + 1).drop_last() =~= ps.take(i));
    assert(ps.take(i + 1).last() == ps[i]);
    if i == 0 { assert(ps.take(1)[0] == ps[0]); }
}
