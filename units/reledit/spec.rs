// ---------------------------------------------------------------------------------------------
// C11 (Relations level): inserting / pushing / replacing entries against Seq insert / push / update on the ROOT's
// ENTRY children, and the separator invariant (between two entries there is a COMMA token).
// ---------------------------------------------------------------------------------------------
pub open spec fn is_entry(t: Tree) -> bool { is_kind(t, ENTRY) }
pub open spec fn is_comma(t: Tree) -> bool { t is Tok && rowan::tree_kind(t) == COMMA }
pub open spec fn ch_entries(ch: Seq<Tree>) -> Seq<Tree> { ch_kind(ch, ENTRY) }
pub open spec fn t_entries(root: Tree) -> Seq<Tree> { ch_entries(rowan::tree_children(root)) }
pub open spec fn entry_positions(ch: Seq<Tree>) -> Seq<int> { kind_positions(ch, ENTRY) }
pub open spec fn entries_are(hs: Seq<Entry>, ts: Seq<Tree>) -> bool {
    hs.len() == ts.len() && forall|i: int| 0 <= i < hs.len() ==> (#[trigger] hs[i]).0.tree() == ts[i]
}
pub open spec fn entries_at(hs: Seq<Entry>, ps: Seq<int>) -> bool {
    hs.len() == ps.len() && forall|i: int| 0 <= i < hs.len() ==> (#[trigger] hs[i]).0.index_spec() == ps[i]
}

// ---- handles (copied mechanically by name from units/deb822tree/content_spec.rs) ----
pub open spec fn nodes_are(hs: Seq<SyntaxNode>, ts: Seq<Tree>) -> bool {
    hs.len() == ts.len() && forall|i: int| 0 <= i < hs.len() ==> (#[trigger] hs[i]).tree() == ts[i]
}
/// of the positions np (one per tree in cn), those whose tree has kind k
pub open spec fn pos_filter(cn: Seq<Tree>, np: Seq<int>, k: SyntaxKind) -> Seq<int>
    decreases cn.len()
{
    if cn.len() == 0 || np.len() != cn.len() { Seq::empty() }
    else if rowan::tree_kind(cn.last()) == k { pos_filter(cn.drop_last(), np.drop_last(), k).push(np.last()) }
    else { pos_filter(cn.drop_last(), np.drop_last(), k) }
}
pub proof fn lemma_pos_filter(ch: Seq<Tree>, k: SyntaxKind)
    ensures
        rowan::node_positions(ch).len() == rowan::child_nodes(ch).len(),
        pos_filter(rowan::child_nodes(ch), rowan::node_positions(ch), k) == kind_positions(ch, k),
    decreases ch.len()
{
    if ch.len() > 0 {
        lemma_pos_filter(ch.drop_last(), k);
        if ch.last() is Node {
            let cn = rowan::child_nodes(ch); let np = rowan::node_positions(ch);
            assert(cn.drop_last() =~= rowan::child_nodes(ch.drop_last()));
            assert(np.drop_last() =~= rowan::node_positions(ch.drop_last()));
            assert(cn.last() == ch.last());
            assert(np.last() == ch.len() - 1);
        }
    }
}
pub proof fn lemma_cast_entries(nodes: Seq<SyntaxNode>, a: Seq<Option<Entry>>, cn: Seq<Tree>, np: Seq<int>)
    requires
        nodes_are(nodes, cn), a.len() == nodes.len(), np.len() == nodes.len(),
        forall|i: int| 0 <= i < nodes.len() ==> (#[trigger] nodes[i]).index_spec() == np[i],
        forall|i: int| 0 <= i < nodes.len() ==> (rowan::tree_kind(cn[i]) == ENTRY ==> #[trigger] a[i] is Some && a[i]->Some_0.0 == nodes[i])
            && (rowan::tree_kind(cn[i]) != ENTRY ==> a[i] is None),
    ensures entries_are(somes(a), kind_filter(cn, ENTRY)), entries_at(somes(a), pos_filter(cn, np, ENTRY))
    decreases nodes.len()
{
    if nodes.len() > 0 {
        let n2 = nodes.drop_last(); let a2 = a.drop_last(); let c2 = cn.drop_last(); let p2 = np.drop_last();
        assert forall|i: int| 0 <= i < n2.len() implies (#[trigger] n2[i]).tree() == c2[i] by { assert(n2[i] == nodes[i]); }
        assert forall|i: int| 0 <= i < n2.len() implies (#[trigger] n2[i]).index_spec() == p2[i] by { assert(n2[i] == nodes[i]); }
        assert forall|i: int| 0 <= i < n2.len() implies (rowan::tree_kind(c2[i]) == ENTRY ==> #[trigger] a2[i] is Some && a2[i]->Some_0.0 == n2[i])
            && (rowan::tree_kind(c2[i]) != ENTRY ==> a2[i] is None) by { assert(a2[i] == a[i]); assert(c2[i] == cn[i]); assert(n2[i] == nodes[i]); }
        lemma_cast_entries(n2, a2, c2, p2);
        assert(nodes.last().tree() == cn.last());
        assert(nodes.last().index_spec() == np.last());
    }
}
pub open spec fn comma_tok() -> Tree { rowan::Tree::Tok(COMMA, seq![',']) }
pub open spec fn space_tok() -> Tree { rowan::Tree::Tok(WHITESPACE, seq![' ']) }

/// "separators are inserted as needed": between any two entries there is a comma
pub open spec fn comma_between(ch: Seq<Tree>, i: int, j: int) -> bool { exists|k: int| i < k < j && #[trigger] is_comma(ch[k]) }
pub open spec fn comma_sep(ch: Seq<Tree>) -> bool {
    forall|i: int, j: int| 0 <= i < j < ch.len() && is_entry(ch[i]) && is_entry(ch[j]) ==> #[trigger] comma_between(ch, i, j)
}
/// what an insertion puts into the child list: the entry with ", " on the side of its neighbour, or the entry alone
pub open spec fn ins_shape(ins: Seq<Tree>, e: Tree, before: bool) -> bool {
    ||| ins == seq![e]
    ||| (before && ins == seq![e, comma_tok(), space_tok()])
    ||| (!before && ins == seq![comma_tok(), space_tok(), e])
}
pub open spec fn inserted(o: Tree, f: Tree, p: int, ins: Seq<Tree>) -> bool {
    let ch = rowan::tree_children(o);
    0 <= p <= ch.len() && f == rowan::Tree::Node(rowan::tree_kind(o), ch.take(p) + ins + ch.skip(p))
}

// ---- position <-> list index ------------------------------------------------------------------------------------------
/// list view of inserting `ins` (which holds exactly the entry e among tokens) in front of child p
pub proof fn lemma_insert_entries(ch: Seq<Tree>, p: int, ins: Seq<Tree>, e: Tree, before: bool)
    requires 0 <= p <= ch.len(), ins_shape(ins, e, before), is_entry(e)
    ensures
        ch_entries(ch.take(p) + ins + ch.skip(p)) == ch_entries(ch).insert(ch_entries(ch.take(p)).len() as int, e),
        ch_entries(ch.take(p)).len() <= ch_entries(ch).len(),
{
    let a = ch.take(p); let b = ch.skip(p);
    assert(a + b =~= ch);
    lemma_ch_kind_add(a, b, ENTRY);
    lemma_ch_kind_add(a + ins, b, ENTRY);
    lemma_ch_kind_add(a, ins, ENTRY);
    assert(ch_entries(ins) == seq![e]) by {
        lemma_ch_kind_one(e, ENTRY); lemma_ch_kind_one(comma_tok(), ENTRY); lemma_ch_kind_one(space_tok(), ENTRY);
        let em = Seq::<Tree>::empty();
        if ins.len() == 1 {
        } else if before {
            assert(ins =~= seq![e] + (seq![comma_tok()] + seq![space_tok()]));
            lemma_ch_kind_add(seq![e], seq![comma_tok()] + seq![space_tok()], ENTRY);
            lemma_ch_kind_add(seq![comma_tok()], seq![space_tok()], ENTRY);
            assert(em + em =~= em); assert(seq![e] + em =~= seq![e]);
        } else {
            assert(ins =~= (seq![comma_tok()] + seq![space_tok()]) + seq![e]);
            lemma_ch_kind_add(seq![comma_tok()] + seq![space_tok()], seq![e], ENTRY);
            lemma_ch_kind_add(seq![comma_tok()], seq![space_tok()], ENTRY);
            assert(em + em =~= em); assert(em + seq![e] =~= seq![e]);
        }
    }
    let pa = ch_entries(a); let pb = ch_entries(b);
    let k = pa.len() as int;
    assert((pa + pb).insert(k, e) =~= pa + seq![e] + pb);
}

// ---- separators are preserved ------------------------------------------------------------------------------------------
pub proof fn lemma_sep_insert_before(ch: Seq<Tree>, p: int, e: Tree)
    requires comma_sep(ch), 0 <= p < ch.len(), is_entry(ch[p]), is_entry(e)
    ensures comma_sep(ch.take(p) + seq![e, comma_tok(), space_tok()] + ch.skip(p))
{
    let ins = seq![e, comma_tok(), space_tok()];
    let nw = ch.take(p) + ins + ch.skip(p);
    assert forall|i: int, j: int| 0 <= i < j < nw.len() && is_entry(nw[i]) && is_entry(nw[j]) implies #[trigger] comma_between(nw, i, j) by {
        assert(nw[p + 1] == ins[1]); assert(nw[p + 2] == ins[2]); assert(nw[p] == ins[0]);
        if i == p {
            assert(is_comma(nw[p + 1]));
            assert(j >= p + 3) by { if j == p + 1 { assert(!is_entry(nw[p + 1])); } if j == p + 2 { assert(!is_entry(nw[p + 2])); } }
        } else if i < p {
            assert(nw[i] == ch[i]);
            if j < p {
                assert(nw[j] == ch[j]);
                assert(comma_between(ch, i, j));
                let k = choose|k: int| i < k < j && #[trigger] is_comma(ch[k]);
                assert(nw[k] == ch[k]); assert(is_comma(nw[k]));
            } else {
                assert(comma_between(ch, i, p));
                let k = choose|k: int| i < k < p && #[trigger] is_comma(ch[k]);
                assert(nw[k] == ch[k]); assert(is_comma(nw[k]));
            }
        } else {
            assert(i >= p + 3) by { if i == p + 1 { assert(!is_entry(nw[p + 1])); } if i == p + 2 { assert(!is_entry(nw[p + 2])); } }
            assert(nw[i] == ch[i - 3]); assert(nw[j] == ch[j - 3]);
            assert(comma_between(ch, i - 3, j - 3));
            let k = choose|k: int| i - 3 < k < j - 3 && #[trigger] is_comma(ch[k]);
            assert(nw[k + 3] == ch[k]); assert(is_comma(nw[k + 3]));
        }
    }
}
pub proof fn lemma_sep_append(ch: Seq<Tree>, ins: Seq<Tree>, e: Tree)
    requires
        comma_sep(ch), is_entry(e),
        ins == seq![comma_tok(), space_tok(), e] || (ins == seq![e] && ch_entries(ch).len() == 0),
    ensures comma_sep(ch + ins)
{
    let nw = ch + ins;
    let n = ch.len() as int;
    assert forall|i: int, j: int| 0 <= i < j < nw.len() && is_entry(nw[i]) && is_entry(nw[j]) implies #[trigger] comma_between(nw, i, j) by {
        if j < n {
            assert(nw[i] == ch[i]); assert(nw[j] == ch[j]);
            assert(comma_between(ch, i, j));
            let k = choose|k: int| i < k < j && #[trigger] is_comma(ch[k]);
            assert(nw[k] == ch[k]); assert(is_comma(nw[k]));
        } else if ins.len() == 3 {
            assert(nw[n] == ins[0]); assert(nw[n + 1] == ins[1]); assert(nw[n + 2] == ins[2]);
            assert(j == n + 2) by { if j == n { assert(!is_entry(nw[n])); } if j == n + 1 { assert(!is_entry(nw[n + 1])); } }
            assert(i < n) by { if i == n { assert(!is_entry(nw[n])); } if i == n + 1 { assert(!is_entry(nw[n + 1])); } }
            assert(is_comma(nw[n]));
        } else {
            assert(i < n); assert(nw[i] == ch[i]);
            lemma_kind_position_of(ch, i, ENTRY);
            lemma_kind_positions_len(ch, ENTRY);
        }
    }
}

/// replacing the child that holds the j-th entry replaces the j-th entry
pub proof fn lemma_replace_entry(ch: Seq<Tree>, j: int, e: Tree)
    requires 0 <= j < ch_entries(ch).len(), is_entry(e)
    ensures ({ let p = entry_positions(ch)[j];
        0 <= p < ch.len() && ch_entries(ch.take(p) + seq![e] + ch.skip(p + 1)) == ch_entries(ch).update(j, e) })
{
    lemma_kind_position(ch, j, ENTRY);
    let p = entry_positions(ch)[j];
    let a = ch.take(p); let b = ch.skip(p + 1);
    assert(a + seq![ch[p]] + b =~= ch);
    lemma_ch_kind_add(a + seq![ch[p]], b, ENTRY);
    lemma_ch_kind_add(a, seq![ch[p]], ENTRY);
    lemma_ch_kind_add(a + seq![e], b, ENTRY);
    lemma_ch_kind_add(a, seq![e], ENTRY);
    lemma_ch_kind_one(ch[p], ENTRY); lemma_ch_kind_one(e, ENTRY);
    let pa = ch_entries(a); let pb = ch_entries(b);
    assert((pa + seq![ch[p]] + pb).update(j, e) =~= pa + seq![e] + pb);
}
/// a comma among the children, or none
pub open spec fn has_comma(ch: Seq<Tree>) -> bool { exists|i: int| 0 <= i < ch.len() && rowan::tree_kind(#[trigger] ch[i]) == COMMA }
