// ---------------------------------------------------------------------------------------------
// C03: what the read-only accessors expose, as functions of the tree.
// ---------------------------------------------------------------------------------------------
pub type SyntaxNode = rowan::SyntaxNode;
pub type Pair = (Seq<char>, Seq<char>);

/// the trees of kind k, in order
pub open spec fn kind_filter(ts: Seq<Tree>, k: SyntaxKind) -> Seq<Tree>
    decreases ts.len()
{
    if ts.len() == 0 { Seq::empty() }
    else if rowan::tree_kind(ts.last()) == k { kind_filter(ts.drop_last(), k).push(ts.last()) }
    else { kind_filter(ts.drop_last(), k) }
}
/// the children that are tokens, in order
pub open spec fn child_toks(ch: Seq<Tree>) -> Seq<Tree>
    decreases ch.len()
{
    if ch.len() == 0 { Seq::empty() }
    else if ch.last() is Tok { child_toks(ch.drop_last()).push(ch.last()) }
    else { child_toks(ch.drop_last()) }
}
/// the first tree of kind k
pub open spec fn first_kind(ts: Seq<Tree>, k: SyntaxKind) -> Option<Tree>
    decreases ts.len()
{
    if ts.len() == 0 { None } else if rowan::tree_kind(ts[0]) == k { Some(ts[0]) } else { first_kind(ts.skip(1), k) }
}
pub open spec fn texts(ts: Seq<Tree>) -> Seq<Seq<char>> { ts.map_values(|t: Tree| rowan::tree_text(t)) }

pub open spec fn t_paragraphs(root: Tree) -> Seq<Tree> { kind_filter(rowan::child_nodes(rowan::tree_children(root)), PARAGRAPH) }
pub open spec fn t_entries(p: Tree) -> Seq<Tree> { kind_filter(rowan::child_nodes(rowan::tree_children(p)), ENTRY) }
/// the key of an entry: the text of its first KEY token
pub open spec fn t_key(e: Tree) -> Option<Seq<char>> {
    match first_kind(child_toks(rowan::tree_children(e)), KEY) { Some(t) => Some(rowan::tree_text(t)), None => None }
}
/// the value of an entry: its VALUE tokens joined by newlines
pub open spec fn t_value(e: Tree) -> Seq<char> {
    join_seqs(texts(kind_filter(child_toks(rowan::tree_children(e)), VALUE)), seq!['\n'])
}
/// (key, value) of the entries that have a key, in order
pub open spec fn entries_items(es: Seq<Tree>) -> Seq<Pair>
    decreases es.len()
{
    if es.len() == 0 { Seq::empty() }
    else if t_key(es.last()) is Some { entries_items(es.drop_last()).push((t_key(es.last())->Some_0, t_value(es.last()))) }
    else { entries_items(es.drop_last()) }
}
pub open spec fn t_items(p: Tree) -> Seq<Pair> { entries_items(t_entries(p)) }
/// the value of the first entry with that key
pub open spec fn entries_get(es: Seq<Tree>, key: Seq<char>) -> Option<Seq<char>>
    decreases es.len()
{
    if es.len() == 0 { None } else if t_key(es[0]) == Some(key) { Some(t_value(es[0])) } else { entries_get(es.skip(1), key) }
}
/// the values of the pairs called `key`, in order
pub open spec fn pairs_get_all(l: Seq<Pair>, key: Seq<char>) -> Seq<Seq<char>>
    decreases l.len()
{
    if l.len() == 0 { Seq::empty() }
    else if l.last().0 == key { pairs_get_all(l.drop_last(), key).push(l.last().1) }
    else { pairs_get_all(l.drop_last(), key) }
}
pub open spec fn pair_names(l: Seq<Pair>) -> Seq<Seq<char>> { l.map_values(|p: Pair| p.0) }
pub open spec fn t_content(root: Tree) -> Seq<Seq<Pair>> { t_paragraphs(root).map_values(|p: Tree| t_items(p)) }

// ---- handles and the trees they stand for ------------------------------------------------------------------------
pub open spec fn nodes_are(hs: Seq<SyntaxNode>, ts: Seq<Tree>) -> bool {
    hs.len() == ts.len() && forall|i: int| 0 <= i < hs.len() ==> (#[trigger] hs[i]).tree() == ts[i]
}
pub open spec fn toks_are(hs: Seq<rowan::SyntaxToken>, ts: Seq<Tree>) -> bool {
    hs.len() == ts.len() && forall|i: int| 0 <= i < hs.len() ==> (#[trigger] hs[i]).tree() == ts[i]
}
pub open spec fn paras_are(hs: Seq<Paragraph>, ts: Seq<Tree>) -> bool {
    hs.len() == ts.len() && forall|i: int| 0 <= i < hs.len() ==> (#[trigger] hs[i]).0.tree() == ts[i]
}
pub open spec fn entries_are(hs: Seq<Entry>, ts: Seq<Tree>) -> bool {
    hs.len() == ts.len() && forall|i: int| 0 <= i < hs.len() ==> (#[trigger] hs[i]).0.tree() == ts[i]
}
pub open spec fn pairs_are(hs: Seq<(String, String)>, l: Seq<Pair>) -> bool {
    hs.len() == l.len() && forall|i: int| 0 <= i < hs.len() ==> (#[trigger] hs[i]).0@ == l[i].0 && hs[i].1@ == l[i].1
}

/// filter_map(Paragraph::cast) over the child nodes
pub proof fn lemma_cast_paragraphs(nodes: Seq<SyntaxNode>, a: Seq<Option<Paragraph>>, cn: Seq<Tree>)
    requires
        nodes_are(nodes, cn), a.len() == nodes.len(),
        forall|i: int| 0 <= i < nodes.len() ==> (rowan::tree_kind(cn[i]) == PARAGRAPH ==> #[trigger] a[i] is Some && a[i]->Some_0.0 == nodes[i])
            && (rowan::tree_kind(cn[i]) != PARAGRAPH ==> a[i] is None),
    ensures paras_are(somes(a), kind_filter(cn, PARAGRAPH))
    decreases nodes.len()
{
    if nodes.len() > 0 {
        let n2 = nodes.drop_last(); let a2 = a.drop_last(); let c2 = cn.drop_last();
        assert forall|i: int| 0 <= i < n2.len() implies (#[trigger] n2[i]).tree() == c2[i] by { assert(n2[i] == nodes[i]); }
        assert forall|i: int| 0 <= i < n2.len() implies (rowan::tree_kind(c2[i]) == PARAGRAPH ==> #[trigger] a2[i] is Some && a2[i]->Some_0.0 == n2[i])
            && (rowan::tree_kind(c2[i]) != PARAGRAPH ==> a2[i] is None) by { assert(a2[i] == a[i]); assert(c2[i] == cn[i]); assert(n2[i] == nodes[i]); }
        lemma_cast_paragraphs(n2, a2, c2);
        assert(nodes.last().tree() == cn.last());
    }
}
/// positions (among all children) of the child nodes of kind k, in order
pub open spec fn kind_positions(ch: Seq<Tree>, k: SyntaxKind) -> Seq<int>
    decreases ch.len()
{
    if ch.len() == 0 { Seq::empty() }
    else if ch.last() is Node && rowan::tree_kind(ch.last()) == k { kind_positions(ch.drop_last(), k).push(ch.len() - 1) }
    else { kind_positions(ch.drop_last(), k) }
}
/// of the positions np (one per tree in cn), those whose tree has kind k
pub open spec fn pos_filter(cn: Seq<Tree>, np: Seq<int>, k: SyntaxKind) -> Seq<int>
    decreases cn.len()
{
    if cn.len() == 0 || np.len() != cn.len() { Seq::empty() }
    else if rowan::tree_kind(cn.last()) == k { pos_filter(cn.drop_last(), np.drop_last(), k).push(np.last()) }
    else { pos_filter(cn.drop_last(), np.drop_last(), k) }
}
pub open spec fn entry_positions(ch: Seq<Tree>) -> Seq<int> { kind_positions(ch, ENTRY) }
pub open spec fn entries_at(hs: Seq<Entry>, ps: Seq<int>) -> bool {
    hs.len() == ps.len() && forall|i: int| 0 <= i < hs.len() ==> (#[trigger] hs[i]).0.index_spec() == ps[i]
}
pub proof fn lemma_pos_filter(ch: Seq<Tree>, k: SyntaxKind)
    ensures
        rowan::node_positions(ch).len() == rowan::child_nodes(ch).len(),
        pos_filter(rowan::child_nodes(ch), rowan::node_positions(ch), k) == kind_positions(ch, k),
    decreases ch.len()
{
    if ch.len() > 0 {
        lemma_pos_filter(ch.drop_last(), k);
        if ch.last() is Node {
            let cn = rowan::child_nodes(ch); let np = rowan::node_positions(ch);
            assert(cn.drop_last() =~= rowan::child_nodes(ch.drop_last()));
            assert(np.drop_last() =~= rowan::node_positions(ch.drop_last()));
            assert(cn.last() == ch.last());
            assert(np.last() == ch.len() - 1);
        }
    }
}
pub proof fn lemma_cast_entries(nodes: Seq<SyntaxNode>, a: Seq<Option<Entry>>, cn: Seq<Tree>, np: Seq<int>)
    requires
        nodes_are(nodes, cn), a.len() == nodes.len(), np.len() == nodes.len(),
        forall|i: int| 0 <= i < nodes.len() ==> (#[trigger] nodes[i]).index_spec() == np[i],
        forall|i: int| 0 <= i < nodes.len() ==> (rowan::tree_kind(cn[i]) == ENTRY ==> #[trigger] a[i] is Some && a[i]->Some_0.0 == nodes[i])
            && (rowan::tree_kind(cn[i]) != ENTRY ==> a[i] is None),
    ensures entries_are(somes(a), kind_filter(cn, ENTRY)), entries_at(somes(a), pos_filter(cn, np, ENTRY))
    decreases nodes.len()
{
    if nodes.len() > 0 {
        let n2 = nodes.drop_last(); let a2 = a.drop_last(); let c2 = cn.drop_last(); let p2 = np.drop_last();
        assert forall|i: int| 0 <= i < n2.len() implies (#[trigger] n2[i]).tree() == c2[i] by { assert(n2[i] == nodes[i]); }
        assert forall|i: int| 0 <= i < n2.len() implies (#[trigger] n2[i]).index_spec() == p2[i] by { assert(n2[i] == nodes[i]); }
        assert forall|i: int| 0 <= i < n2.len() implies (rowan::tree_kind(c2[i]) == ENTRY ==> #[trigger] a2[i] is Some && a2[i]->Some_0.0 == n2[i])
            && (rowan::tree_kind(c2[i]) != ENTRY ==> a2[i] is None) by { assert(a2[i] == a[i]); assert(c2[i] == cn[i]); assert(n2[i] == nodes[i]); }
        lemma_cast_entries(n2, a2, c2, p2);
        assert(nodes.last().tree() == cn.last());
        assert(nodes.last().index_spec() == np.last());
    }
}
/// filter_map(|it| it.into_token()) over all children
pub proof fn lemma_into_tokens(elems: Seq<rowan::SyntaxElement>, a: Seq<Option<rowan::SyntaxToken>>, ch: Seq<Tree>)
    requires
        elems.len() == ch.len(), a.len() == ch.len(),
        forall|i: int| 0 <= i < ch.len() ==> rowan::elem_tree(#[trigger] elems[i]) == ch[i] && (elems[i] is Node <==> ch[i] is Node),
        forall|i: int| 0 <= i < ch.len() ==> #[trigger] a[i] == (match elems[i] { rowan::NodeOrToken::Token(t) => Some(t), rowan::NodeOrToken::Node(_) => None::<rowan::SyntaxToken> }),
    ensures toks_are(somes(a), child_toks(ch))
    decreases ch.len()
{
    if ch.len() > 0 {
        let e2 = elems.drop_last(); let a2 = a.drop_last(); let c2 = ch.drop_last();
        assert forall|i: int| 0 <= i < c2.len() implies rowan::elem_tree(#[trigger] e2[i]) == c2[i] && (e2[i] is Node <==> c2[i] is Node) by { assert(e2[i] == elems[i]); assert(c2[i] == ch[i]); }
        assert forall|i: int| 0 <= i < c2.len() implies #[trigger] a2[i] == (match e2[i] { rowan::NodeOrToken::Token(t) => Some(t), rowan::NodeOrToken::Node(_) => None::<rowan::SyntaxToken> }) by { assert(a2[i] == a[i]); assert(e2[i] == elems[i]); }
        lemma_into_tokens(e2, a2, c2);
        assert(rowan::elem_tree(elems.last()) == ch.last());
        assert(a.last() == (match elems.last() { rowan::NodeOrToken::Token(t) => Some(t), rowan::NodeOrToken::Node(_) => None::<rowan::SyntaxToken> }));
    }
}
/// filter(|it| it.kind() == k)
pub proof fn lemma_filter_kind(hs: Seq<rowan::SyntaxToken>, keep: Seq<bool>, ts: Seq<Tree>, k: SyntaxKind)
    requires toks_are(hs, ts), keep.len() == hs.len(), forall|i: int| 0 <= i < hs.len() ==> #[trigger] keep[i] == (rowan::tree_kind(ts[i]) == k)
    ensures toks_are(keep_where(hs, keep), kind_filter(ts, k))
    decreases hs.len()
{
    if hs.len() > 0 {
        let h2 = hs.drop_last(); let k2 = keep.drop_last(); let t2 = ts.drop_last();
        assert forall|i: int| 0 <= i < h2.len() implies (#[trigger] h2[i]).tree() == t2[i] by { assert(h2[i] == hs[i]); }
        assert forall|i: int| 0 <= i < h2.len() implies #[trigger] k2[i] == (rowan::tree_kind(t2[i]) == k) by { assert(k2[i] == keep[i]); assert(t2[i] == ts[i]); }
        lemma_filter_kind(h2, k2, t2, k);
        assert(hs.last().tree() == ts.last());
    }
}
/// the first tree of kind k is at index i
pub proof fn lemma_first_kind_is(ts: Seq<Tree>, k: SyntaxKind, i: int)
    requires 0 <= i < ts.len(), rowan::tree_kind(ts[i]) == k, forall|j: int| 0 <= j < i ==> rowan::tree_kind(#[trigger] ts[j]) != k
    ensures first_kind(ts, k) == Some(ts[i])
    decreases i
{
    if i > 0 {
        assert(rowan::tree_kind(ts[0]) != k);
        assert(ts.skip(1)[i - 1] == ts[i]);
        assert forall|j: int| 0 <= j < i - 1 implies rowan::tree_kind(#[trigger] ts.skip(1)[j]) != k by { assert(ts.skip(1)[j] == ts[j + 1]); }
        lemma_first_kind_is(ts.skip(1), k, i - 1);
    }
}
pub proof fn lemma_first_kind_none(ts: Seq<Tree>, k: SyntaxKind)
    requires forall|j: int| 0 <= j < ts.len() ==> rowan::tree_kind(#[trigger] ts[j]) != k
    ensures first_kind(ts, k) is None
    decreases ts.len()
{
    if ts.len() > 0 {
        assert(rowan::tree_kind(ts[0]) != k);
        assert forall|j: int| 0 <= j < ts.skip(1).len() implies rowan::tree_kind(#[trigger] ts.skip(1)[j]) != k by { assert(ts.skip(1)[j] == ts[j + 1]); }
        lemma_first_kind_none(ts.skip(1), k);
    }
}
/// the first entry with that key is at index i
pub proof fn lemma_entries_get_is(es: Seq<Tree>, key: Seq<char>, i: int)
    requires 0 <= i < es.len(), t_key(es[i]) == Some(key), forall|j: int| 0 <= j < i ==> t_key(#[trigger] es[j]) != Some(key)
    ensures entries_get(es, key) == Some(t_value(es[i]))
    decreases i
{
    if i > 0 {
        assert(t_key(es[0]) != Some(key));
        assert(es.skip(1)[i - 1] == es[i]);
        assert forall|j: int| 0 <= j < i - 1 implies t_key(#[trigger] es.skip(1)[j]) != Some(key) by { assert(es.skip(1)[j] == es[j + 1]); }
        lemma_entries_get_is(es.skip(1), key, i - 1);
    }
}
pub proof fn lemma_entries_get_none(es: Seq<Tree>, key: Seq<char>)
    requires forall|j: int| 0 <= j < es.len() ==> t_key(#[trigger] es[j]) != Some(key)
    ensures entries_get(es, key) is None
    decreases es.len()
{
    if es.len() > 0 {
        assert(t_key(es[0]) != Some(key));
        assert forall|j: int| 0 <= j < es.skip(1).len() implies t_key(#[trigger] es.skip(1)[j]) != Some(key) by { assert(es.skip(1)[j] == es[j + 1]); }
        lemma_entries_get_none(es.skip(1), key);
    }
}
/// filter_map(|e| e.key().map(|k| (k, e.value())))
pub proof fn lemma_items(es: Seq<Entry>, a: Seq<Option<(String, String)>>, ts: Seq<Tree>)
    requires
        entries_are(es, ts), a.len() == es.len(),
        forall|i: int| 0 <= i < es.len() ==> (match t_key(ts[i]) {
            Some(k) => #[trigger] a[i] is Some && a[i]->Some_0.0@ == k && a[i]->Some_0.1@ == t_value(ts[i]),
            None => a[i] is None }),
    ensures pairs_are(somes(a), entries_items(ts))
    decreases es.len()
{
    if es.len() > 0 {
        let e2 = es.drop_last(); let a2 = a.drop_last(); let t2 = ts.drop_last();
        assert forall|i: int| 0 <= i < e2.len() implies (#[trigger] e2[i]).0.tree() == t2[i] by { assert(e2[i] == es[i]); }
        assert forall|i: int| 0 <= i < e2.len() implies (match t_key(t2[i]) {
            Some(k) => #[trigger] a2[i] is Some && a2[i]->Some_0.0@ == k && a2[i]->Some_0.1@ == t_value(t2[i]),
            None => a2[i] is None }) by { assert(a2[i] == a[i]); assert(t2[i] == ts[i]); }
        lemma_items(e2, a2, t2);
        assert(match t_key(ts.last()) { Some(k) => a.last() is Some && a.last()->Some_0.0@ == k && a.last()->Some_0.1@ == t_value(ts.last()), None => a.last() is None });
    }
}
/// filter_map(|e| e.key())
pub proof fn lemma_keys(es: Seq<Entry>, a: Seq<Option<String>>, ts: Seq<Tree>)
    requires
        entries_are(es, ts), a.len() == es.len(),
        forall|i: int| 0 <= i < es.len() ==> (match t_key(ts[i]) { Some(k) => #[trigger] a[i] is Some && a[i]->Some_0@ == k, None => a[i] is None }),
    ensures strs_view(somes(a)) == pair_names(entries_items(ts))
    decreases es.len()
{
    if es.len() > 0 {
        let e2 = es.drop_last(); let a2 = a.drop_last(); let t2 = ts.drop_last();
        assert forall|i: int| 0 <= i < e2.len() implies (#[trigger] e2[i]).0.tree() == t2[i] by { assert(e2[i] == es[i]); }
        assert forall|i: int| 0 <= i < e2.len() implies (match t_key(t2[i]) { Some(k) => #[trigger] a2[i] is Some && a2[i]->Some_0@ == k, None => a2[i] is None })
            by { assert(a2[i] == a[i]); assert(t2[i] == ts[i]); }
        lemma_keys(e2, a2, t2);
        assert(match t_key(ts.last()) { Some(k) => a.last() is Some && a.last()->Some_0@ == k, None => a.last() is None });
        if t_key(ts.last()) is Some {
            let k = t_key(ts.last())->Some_0;
            assert(somes(a) == somes(a2).push(a.last()->Some_0));
            assert(strs_view(somes(a)) =~= strs_view(somes(a2)).push(k));
            assert(entries_items(ts) == entries_items(t2).push((k, t_value(ts.last()))));
            assert(pair_names(entries_items(ts)) =~= pair_names(entries_items(t2)).push(k));
        } else {
            assert(somes(a) == somes(a2));
            assert(entries_items(ts) == entries_items(t2));
        }
        assert(strs_view(somes(a)) =~= pair_names(entries_items(ts)));
    } else {
        assert(strs_view(somes(a)) =~= pair_names(entries_items(ts)));
    }
}
/// filter_map(|(k, v)| if k == key { Some(v) } else { None })
pub proof fn lemma_get_all(ps: Seq<(String, String)>, a: Seq<Option<String>>, l: Seq<Pair>, key: Seq<char>)
    requires
        pairs_are(ps, l), a.len() == ps.len(),
        forall|i: int| 0 <= i < ps.len() ==> (l[i].0 == key ==> #[trigger] a[i] is Some && a[i]->Some_0@ == l[i].1) && (l[i].0 != key ==> a[i] is None),
    ensures strs_view(somes(a)) == pairs_get_all(l, key)
    decreases ps.len()
{
    if ps.len() > 0 {
        let p2 = ps.drop_last(); let a2 = a.drop_last(); let l2 = l.drop_last();
        assert forall|i: int| 0 <= i < p2.len() implies (#[trigger] p2[i]).0@ == l2[i].0 && p2[i].1@ == l2[i].1 by { assert(p2[i] == ps[i]); }
        assert forall|i: int| 0 <= i < p2.len() implies (l2[i].0 == key ==> #[trigger] a2[i] is Some && a2[i]->Some_0@ == l2[i].1) && (l2[i].0 != key ==> a2[i] is None)
            by { assert(a2[i] == a[i]); assert(l2[i] == l[i]); }
        lemma_get_all(p2, a2, l2, key);
        assert((l.last().0 == key ==> a.last() is Some && a.last()->Some_0@ == l.last().1) && (l.last().0 != key ==> a.last() is None));
        assert(strs_view(somes(a)) =~= pairs_get_all(l, key));
    } else {
        assert(strs_view(somes(a)) =~= pairs_get_all(l, key));
    }
}

// ---- generic lemmas about child_nodes / child_toks / kind_filter -------------------------------------------------
pub open spec fn all_nodes(ts: Seq<Tree>) -> bool { forall|i: int| 0 <= i < ts.len() ==> (#[trigger] ts[i]) is Node }
pub open spec fn all_toks(ts: Seq<Tree>) -> bool { forall|i: int| 0 <= i < ts.len() ==> (#[trigger] ts[i]) is Tok }

pub proof fn lemma_child_nodes_add(a: Seq<Tree>, b: Seq<Tree>)
    ensures rowan::child_nodes(a + b) == rowan::child_nodes(a) + rowan::child_nodes(b)
    decreases b.len()
{
    if b.len() == 0 {
        assert(a + b =~= a);
        assert(rowan::child_nodes(a) + rowan::child_nodes(b) =~= rowan::child_nodes(a));
    } else {
        lemma_child_nodes_add(a, b.drop_last());
        assert((a + b).drop_last() =~= a + b.drop_last());
        assert((a + b).last() == b.last());
        assert(rowan::child_nodes(a + b) =~= rowan::child_nodes(a) + rowan::child_nodes(b));
    }
}
pub proof fn lemma_child_toks_add(a: Seq<Tree>, b: Seq<Tree>)
    ensures child_toks(a + b) == child_toks(a) + child_toks(b)
    decreases b.len()
{
    if b.len() == 0 {
        assert(a + b =~= a);
        assert(child_toks(a) + child_toks(b) =~= child_toks(a));
    } else {
        lemma_child_toks_add(a, b.drop_last());
        assert((a + b).drop_last() =~= a + b.drop_last());
        assert((a + b).last() == b.last());
        assert(child_toks(a + b) =~= child_toks(a) + child_toks(b));
    }
}
pub proof fn lemma_kind_filter_add(a: Seq<Tree>, b: Seq<Tree>, k: SyntaxKind)
    ensures kind_filter(a + b, k) == kind_filter(a, k) + kind_filter(b, k)
    decreases b.len()
{
    if b.len() == 0 {
        assert(a + b =~= a);
        assert(kind_filter(a, k) + kind_filter(b, k) =~= kind_filter(a, k));
    } else {
        lemma_kind_filter_add(a, b.drop_last(), k);
        assert((a + b).drop_last() =~= a + b.drop_last());
        assert((a + b).last() == b.last());
        assert(kind_filter(a + b, k) =~= kind_filter(a, k) + kind_filter(b, k));
    }
}
pub proof fn lemma_child_nodes_of_nodes(ts: Seq<Tree>)
    requires all_nodes(ts)
    ensures rowan::child_nodes(ts) == ts, child_toks(ts) == Seq::<Tree>::empty()
    decreases ts.len()
{
    if ts.len() > 0 {
        assert forall|i: int| 0 <= i < ts.drop_last().len() implies (#[trigger] ts.drop_last()[i]) is Node by { assert(ts.drop_last()[i] == ts[i]); }
        lemma_child_nodes_of_nodes(ts.drop_last());
        assert(ts.last() is Node);
        assert(rowan::child_nodes(ts) =~= ts);
    } else {
        assert(rowan::child_nodes(ts) =~= ts);
    }
}
pub proof fn lemma_child_nodes_of_toks(ts: Seq<Tree>)
    requires all_toks(ts)
    ensures rowan::child_nodes(ts) == Seq::<Tree>::empty(), child_toks(ts) == ts
    decreases ts.len()
{
    if ts.len() > 0 {
        assert forall|i: int| 0 <= i < ts.drop_last().len() implies (#[trigger] ts.drop_last()[i]) is Tok by { assert(ts.drop_last()[i] == ts[i]); }
        lemma_child_nodes_of_toks(ts.drop_last());
        assert(ts.last() is Tok);
        assert(child_toks(ts) =~= ts);
    } else {
        assert(child_toks(ts) =~= ts);
    }
}
/// filtering by a kind none / all of the elements have
pub proof fn lemma_kind_filter_none(ts: Seq<Tree>, k: SyntaxKind)
    requires forall|i: int| 0 <= i < ts.len() ==> rowan::tree_kind(#[trigger] ts[i]) != k
    ensures kind_filter(ts, k) == Seq::<Tree>::empty()
    decreases ts.len()
{
    if ts.len() > 0 {
        assert forall|i: int| 0 <= i < ts.drop_last().len() implies rowan::tree_kind(#[trigger] ts.drop_last()[i]) != k by { assert(ts.drop_last()[i] == ts[i]); }
        lemma_kind_filter_none(ts.drop_last(), k);
        assert(rowan::tree_kind(ts.last()) != k);
    }
}
pub proof fn lemma_kind_filter_all(ts: Seq<Tree>, k: SyntaxKind)
    requires forall|i: int| 0 <= i < ts.len() ==> rowan::tree_kind(#[trigger] ts[i]) == k
    ensures kind_filter(ts, k) == ts
    decreases ts.len()
{
    if ts.len() > 0 {
        assert forall|i: int| 0 <= i < ts.drop_last().len() implies rowan::tree_kind(#[trigger] ts.drop_last()[i]) == k by { assert(ts.drop_last()[i] == ts[i]); }
        lemma_kind_filter_all(ts.drop_last(), k);
        assert(rowan::tree_kind(ts.last()) == k);
        assert(kind_filter(ts, k) =~= ts);
    } else {
        assert(kind_filter(ts, k) =~= ts);
    }
}

/// kind_filter on a three-element list whose middle element only is a VALUE
pub proof fn lemma_kind3(a: Tree, b: Tree, c: Tree)
    requires rowan::tree_kind(a) != VALUE, rowan::tree_kind(b) == VALUE, rowan::tree_kind(c) != VALUE
    ensures kind_filter(seq![a, b, c], VALUE) == seq![b]
{
    let s3 = seq![a, b, c];
    let s2 = s3.drop_last();
    let s1 = s2.drop_last();
    let s0 = s1.drop_last();
    assert(s0 =~= Seq::<Tree>::empty());
    assert(kind_filter(s0, VALUE) =~= Seq::<Tree>::empty());
    assert(s1.last() == a);
    assert(kind_filter(s1, VALUE) =~= Seq::<Tree>::empty());
    assert(s2.last() == b);
    assert(kind_filter(s2, VALUE) =~= seq![b]);
    assert(s3.last() == c);
    assert(kind_filter(s3, VALUE) =~= seq![b]);
}
pub proof fn lemma_kind_filter_single(a: Tree, k: SyntaxKind)
    ensures kind_filter(seq![a], k) == if rowan::tree_kind(a) == k { seq![a] } else { Seq::<Tree>::empty() }
{
    let s = seq![a];
    assert(s.drop_last() =~= Seq::<Tree>::empty());
    assert(kind_filter(s.drop_last(), k) =~= Seq::<Tree>::empty());
    assert(s.last() == a);
    if rowan::tree_kind(a) == k { assert(kind_filter(s, k) =~= seq![a]); } else { assert(kind_filter(s, k) =~= Seq::<Tree>::empty()); }
}

// ---- lookups against the list model ----------------------------------------------------------------------------------
pub proof fn lemma_entries_items_front(es: Seq<Tree>)
    requires es.len() > 0
    ensures entries_items(es) == (if t_key(es[0]) is Some { seq![(t_key(es[0])->Some_0, t_value(es[0]))] } else { Seq::<Pair>::empty() }) + entries_items(es.skip(1))
    decreases es.len()
{
    let h = if t_key(es[0]) is Some { seq![(t_key(es[0])->Some_0, t_value(es[0]))] } else { Seq::<Pair>::empty() };
    if es.len() == 1 {
        assert(es.drop_last() =~= Seq::<Tree>::empty());
        assert(es.skip(1) =~= Seq::<Tree>::empty());
        assert(es.last() == es[0]);
        assert(entries_items(es) =~= h + entries_items(es.skip(1)));
    } else {
        lemma_entries_items_front(es.drop_last());
        assert(es.drop_last().skip(1) =~= es.skip(1).drop_last());
        assert(es.skip(1).last() == es.last());
        assert(es.drop_last()[0] == es[0]);
        assert(entries_items(es) =~= h + entries_items(es.skip(1)));
    }
}
/// "the first field of that name": the lookup by name is list_get on the (name, value) list
pub proof fn lemma_entries_get_is_list_get(es: Seq<Tree>, key: Seq<char>)
    ensures entries_get(es, key) == list_get(entries_items(es), key)
    decreases es.len()
{
    if es.len() == 0 {
        assert(entries_items(es) =~= Seq::<Pair>::empty());
    } else {
        lemma_entries_get_is_list_get(es.skip(1), key);
        lemma_entries_items_front(es);
        let l = entries_items(es);
        let r = entries_items(es.skip(1));
        if t_key(es[0]) is Some {
            let h = (t_key(es[0])->Some_0, t_value(es[0]));
            assert(l =~= seq![h] + r);
            assert(l[0] == h);
            assert(l.skip(1) =~= r);
            lemma_first_idx(r, key);
            if h.0 == key {
                assert(first_idx(l, key) == 0);
            } else {
                let i = first_idx(r, key);
                assert(first_idx(l, key) == if i < 0 { -1 } else { i + 1 });
                if i >= 0 { assert(l[i + 1] == r[i]); }
                assert(t_key(es[0]) != Some(key));
            }
        } else {
            assert(l =~= r);
        }
    }
}

