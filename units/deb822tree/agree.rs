// ---------------------------------------------------------------------------------------------
// C06 (well-formed documents): the lossy reader accepts every document of the grammar (DocM, grammar.rs) and
// reports the same paragraphs, names in the same order and, per field, the same line list as the lossless
// reader - the lossy value keeps a possibly empty first line, the lossless value drops it.
//
//   theorem_readers_agree_on_wellformed:  wf_doc(d) ==>
//        read_text(doc_text(d)) == Some(lossy_content(d))            (lossy reader, proved == read_text)
//     && t_content(parse_text(doc_text(d)).0) == doc_content(d)      (lossless reader, proved == parse_text)
//     && both are the joins of the same lines (field_lines), lossless without an empty first line
// ---------------------------------------------------------------------------------------------
/// all value lines of a field as written: the first (possibly empty) and the continuation texts
pub open spec fn field_lines(f: FieldM) -> Seq<Seq<char>> { seq![f.first] + cont_texts(f.conts) }
pub open spec fn lossy_value(f: FieldM) -> Seq<char> { join_seqs(field_lines(f), seq!['\n']) }
pub open spec fn lossy_para(p: ParaM) -> Seq<FieldV> { p.fields.map_values(|f: FieldM| (f.name, lossy_value(f))) }
pub open spec fn lossy_content(d: DocM) -> Seq<Seq<FieldV>> { d.paras.map_values(|p: ParaM| lossy_para(p)) }

/// "text\n" for every continuation line
pub open spec fn conts_acc(ks: Seq<ContM>) -> Seq<char>
    decreases ks.len()
{
    if ks.len() == 0 { Seq::empty() } else { (ks[0].text + lf()) + conts_acc(ks.skip(1)) }
}
pub proof fn lemma_join2(a: Seq<char>, b: Seq<char>, r: Seq<Seq<char>>)
    ensures join_seqs(seq![a, b] + r, lf()) == join_seqs(seq![a + lf() + b] + r, lf())
    decreases r.len()
{
    let x = seq![a, b] + r;
    let y = seq![a + lf() + b] + r;
    if r.len() == 0 {
        assert(x =~= seq![a, b]);
        assert(y =~= seq![a + lf() + b]);
        assert(x.drop_last() =~= seq![a]);
        assert(join_seqs(x.drop_last(), lf()) == a);
        assert(x.last() == b);
    } else {
        lemma_join2(a, b, r.drop_last());
        assert(x.drop_last() =~= seq![a, b] + r.drop_last());
        assert(y.drop_last() =~= seq![a + lf() + b] + r.drop_last());
        assert(x.last() == r.last() && y.last() == r.last());
    }
}
/// the accumulated text of the lossy reader, minus its final newline, is the join of the lines
pub proof fn lemma_acc_is_join(pre: Seq<char>, ks: Seq<ContM>)
    ensures (pre + lf() + conts_acc(ks)).drop_last() == join_seqs(seq![pre] + cont_texts(ks), lf())
    decreases ks.len()
{
    if ks.len() == 0 {
        assert(seq![pre] + cont_texts(ks) =~= seq![pre]);
        assert((pre + lf() + conts_acc(ks)).drop_last() =~= pre);
    } else {
        let k = ks[0];
        let pre2 = pre + lf() + k.text;
        lemma_acc_is_join(pre2, ks.skip(1));
        assert(pre + lf() + conts_acc(ks) =~= pre2 + lf() + conts_acc(ks.skip(1)));
        lemma_join2(pre, k.text, cont_texts(ks.skip(1)));
        assert(seq![pre] + cont_texts(ks) =~= seq![pre, k.text] + cont_texts(ks.skip(1)));
    }
}

pub proof fn lemma_rd_conts(ks: Seq<ContM>, t: Seq<Tok>, acc: Seq<char>)
    requires not_indent(t)
    ensures rd_cont_lines(conts_toks(ks) + t, acc) == Some((acc + conts_acc(ks), t))
    decreases ks.len()
{
    let ts = conts_toks(ks) + t;
    if ks.len() == 0 {
        assert(ts =~= t);
        assert(acc + conts_acc(ks) =~= acc);
    } else {
        let k = ks[0];
        let rest = conts_toks(ks.skip(1)) + t;
        assert(ts =~= cont_toks3(k) + rest);
        assert(ts[0] == (INDENT, k.indent));
        let t1 = ts.skip(1);
        assert(t1[0] == (VALUE, k.text));
        let t2 = t1.skip(1);
        assert(t2[0] == (NEWLINE, lf()));
        assert(t2.skip(1) =~= rest);
        assert(rd_cont_line(t2, acc + k.text) == Some((acc + k.text + lf(), rest)));
        assert(rd_cont_line(t1, acc) == rd_cont_line(t2, acc + k.text));
        lemma_rd_conts(ks.skip(1), t, acc + k.text + lf());
        assert(rest.len() < ts.len());
        assert(acc + k.text + lf() + conts_acc(ks.skip(1)) =~= acc + conts_acc(ks));
    }
}
pub proof fn lemma_rd_entry(f: FieldM, t: Seq<Tok>)
    requires not_indent(t)
    ensures rd_field(entry_toks(f) + t) == Some(((f.name, lossy_value(f)), t))
{
    let nl = seq![(NEWLINE, lf())];
    let ts = entry_toks(f) + t;
    let vt = opt_tok(VALUE, f.first);
    let x = conts_toks(f.conts) + t;
    let y = vt + nl + x;
    assert(ts =~= seq![(KEY, f.name), (COLON, colon())] + (opt_tok(WHITESPACE, f.ws) + y));
    assert(ts[0] == (KEY, f.name) && ts[1] == (COLON, colon()));
    let t2 = ts.skip(2);
    assert(t2 =~= opt_tok(WHITESPACE, f.ws) + y);
    assert(y[0].0 == VALUE || y[0].0 == NEWLINE);
    assert(tok_skip_ws(y) == y);
    if f.ws.len() > 0 { assert(t2[0] == (WHITESPACE, f.ws)); assert(t2.skip(1) =~= y); } else { assert(t2 =~= y); }
    assert(tok_skip_ws(t2) == y);
    if f.first.len() > 0 {
        assert(y[0] == (VALUE, f.first));
        let y1 = y.skip(1);
        assert(y1[0] == (NEWLINE, lf()));
        assert(y1.skip(1) =~= x);
        assert(rd_first_line(y1, f.first) == Some((f.first, x)));
        assert(rd_first_line(y, Seq::empty()) == Some((f.first, x)));
    } else {
        assert(y[0] == (NEWLINE, lf()));
        assert(y.skip(1) =~= x);
        assert(f.first =~= Seq::<char>::empty());
        assert(rd_first_line(y, Seq::empty()) == Some((f.first, x)));
    }
    lemma_rd_conts(f.conts, t, f.first.push('\n'));
    let w = f.first.push('\n') + conts_acc(f.conts);
    assert(w =~= f.first + lf() + conts_acc(f.conts));
    lemma_acc_is_join(f.first, f.conts);
    assert(w.len() > 0 && w.last() == '\n') by {
        if f.conts.len() == 0 { assert(conts_acc(f.conts) =~= Seq::<char>::empty()); }
        else { lemma_conts_acc_last(f.conts); }
    }
    assert(trim_nl(w) == w.drop_last());
}
pub proof fn lemma_conts_acc_last(ks: Seq<ContM>)
    requires ks.len() > 0
    ensures conts_acc(ks).len() > 0, conts_acc(ks).last() == '\n'
    decreases ks.len()
{
    if ks.len() == 1 {
        assert(conts_acc(ks.skip(1)) =~= Seq::<char>::empty());
        assert(conts_acc(ks) =~= ks[0].text + lf());
    } else {
        lemma_conts_acc_last(ks.skip(1));
    }
}
/// comment lines are skipped
pub proof fn lemma_rd_comments(cs: Seq<Seq<char>>, t: Seq<Tok>, cur: Seq<FieldV>, paras: Seq<Seq<FieldV>>)
    ensures read_doc(comments_toks(cs) + t, cur, paras) == read_doc(t, cur, paras)
    decreases cs.len()
{
    let ts = comments_toks(cs) + t;
    if cs.len() == 0 { assert(ts =~= t); } else {
        let rest = comments_toks(cs.skip(1)) + t;
        assert(ts =~= comment_toks2(cs[0]) + rest);
        assert(ts[0] == (COMMENT, cs[0]));
        let t1 = ts.skip(1);
        assert(t1[0] == (NEWLINE, lf()));
        assert(t1.skip(1) =~= rest);
        assert(rd_skip_comment(t1) == rest);
        assert(rest.len() < ts.len());
        lemma_rd_comments(cs.skip(1), t, cur, paras);
    }
}
pub proof fn lemma_rd_fields(fs: Seq<FieldM>, t: Seq<Tok>, cur: Seq<FieldV>, paras: Seq<Seq<FieldV>>)
    requires not_indent(t)
    ensures read_doc(fields_toks(fs) + t, cur, paras) == read_doc(t, cur + fs.map_values(|f: FieldM| (f.name, lossy_value(f))), paras)
    decreases fs.len()
{
    let ts = fields_toks(fs) + t;
    if fs.len() == 0 {
        assert(ts =~= t);
        assert(cur + fs.map_values(|f: FieldM| (f.name, lossy_value(f))) =~= cur);
    } else {
        let f = fs[0];
        let rest = fields_toks(fs.skip(1)) + t;
        let et = entry_toks(f) + rest;
        assert(ts =~= comments_toks(f.comments) + et);
        lemma_rd_comments(f.comments, et, cur, paras);
        assert(not_indent(rest)) by {
            if fs.len() > 1 {
                let g = fs[1];
                assert(fields_toks(fs.skip(1)) =~= field_toks(g) + fields_toks(fs.skip(1).skip(1)));
                if g.comments.len() > 0 { assert(comments_toks(g.comments) =~= comment_toks2(g.comments[0]) + comments_toks(g.comments.skip(1))); assert(rest[0].0 == COMMENT); }
                else { assert(comments_toks(g.comments) =~= Seq::<Tok>::empty()); assert(rest[0].0 == KEY); }
            } else {
                assert(fields_toks(fs.skip(1)) =~= Seq::<Tok>::empty());
                assert(rest =~= t);
            }
        }
        lemma_rd_entry(f, rest);
        assert(et[0] == (KEY, f.name));
        assert(rest.len() < et.len());
        assert(read_doc(et, cur, paras) == read_doc(rest, cur.push((f.name, lossy_value(f))), paras));
        lemma_rd_fields(fs.skip(1), t, cur.push((f.name, lossy_value(f))), paras);
        assert(cur.push((f.name, lossy_value(f))) + fs.skip(1).map_values(|f: FieldM| (f.name, lossy_value(f))) =~= cur + fs.map_values(|f: FieldM| (f.name, lossy_value(f))));
    }
}
/// blank / comment lines with no paragraph under construction change nothing
pub proof fn lemma_rd_gap_idle(g: Seq<Option<Seq<char>>>, t: Seq<Tok>, paras: Seq<Seq<FieldV>>)
    ensures read_doc(gap_toks(g) + t, Seq::empty(), paras) == read_doc(t, Seq::empty(), paras)
    decreases g.len()
{
    let ts = gap_toks(g) + t;
    let e = Seq::<FieldV>::empty();
    if g.len() == 0 { assert(ts =~= t); } else {
        let rest = gap_toks(g.skip(1)) + t;
        assert(ts =~= gap_line_toks(g[0]) + rest);
        lemma_rd_gap_idle(g.skip(1), t, paras);
        match g[0] {
            None => {
                assert(ts[0] == (NEWLINE, lf()));
                assert(ts.skip(1) =~= rest);
                assert(flush(e, paras) == paras);
            }
            Some(c) => {
                assert(ts[0] == (COMMENT, c));
                let t1 = ts.skip(1);
                assert(t1[0] == (NEWLINE, lf()));
                assert(t1.skip(1) =~= rest);
                assert(rd_skip_comment(t1) == rest);
                assert(rest.len() < ts.len());
            }
        }
    }
}
pub proof fn lemma_rd_paras(ps: Seq<ParaM>, paras: Seq<Seq<FieldV>>)
    requires wf_paras(ps)
    ensures read_doc(paras_toks(ps), Seq::empty(), paras) == Some(paras + ps.map_values(|p: ParaM| lossy_para(p)))
    decreases ps.len()
{
    let e = Seq::<FieldV>::empty();
    if ps.len() == 0 {
        assert(paras + ps.map_values(|p: ParaM| lossy_para(p)) =~= paras);
        assert(flush(e, paras) == paras);
    } else {
        let p = ps[0];
        let after = gap_toks(p.gap) + paras_toks(ps.skip(1));
        let tr = comments_toks(p.trailing) + after;
        assert(paras_toks(ps) =~= fields_toks(p.fields) + tr);
        assert(not_indent(tr)) by {
            if p.trailing.len() > 0 { assert(comments_toks(p.trailing) =~= comment_toks2(p.trailing[0]) + comments_toks(p.trailing.skip(1))); assert(tr[0].0 == COMMENT); }
            else {
                assert(comments_toks(p.trailing) =~= Seq::<Tok>::empty());
                assert(tr =~= after);
                if p.gap.len() > 0 { assert(gap_toks(p.gap) =~= gap_line_toks(p.gap[0]) + gap_toks(p.gap.skip(1))); assert(after[0].0 == NEWLINE); }
                else { assert(ps.len() == 1); assert(paras_toks(ps.skip(1)) =~= Seq::<Tok>::empty()); assert(gap_toks(p.gap) =~= Seq::<Tok>::empty()); assert(after.len() == 0); }
            }
        }
        lemma_rd_fields(p.fields, tr, e, paras);
        let cur = lossy_para(p);
        assert(e + p.fields.map_values(|f: FieldM| (f.name, lossy_value(f))) =~= cur);
        lemma_rd_comments(p.trailing, after, cur, paras);
        assert(cur.len() > 0);
        let paras2 = paras.push(cur);
        if p.gap.len() > 0 {
            // the first gap line is blank: the paragraph is closed
            let g1 = gap_toks(p.gap.skip(1)) + paras_toks(ps.skip(1));
            assert(after =~= gap_line_toks(p.gap[0]) + g1);
            assert(after[0] == (NEWLINE, lf()));
            assert(after.skip(1) =~= g1);
            assert(read_doc(after, cur, paras) == read_doc(g1, e, flush(cur, paras)));
            lemma_rd_gap_idle(p.gap.skip(1), paras_toks(ps.skip(1)), paras2);
            lemma_rd_paras(ps.skip(1), paras2);
            assert(paras2 + ps.skip(1).map_values(|p: ParaM| lossy_para(p)) =~= paras + ps.map_values(|p: ParaM| lossy_para(p)));
        } else {
            assert(ps.len() == 1);
            assert(paras_toks(ps.skip(1)) =~= Seq::<Tok>::empty());
            assert(gap_toks(p.gap) =~= Seq::<Tok>::empty());
            assert(after =~= Seq::<Tok>::empty());
            assert(read_doc(after, cur, paras) == Some(flush(cur, paras)));
            assert(paras2 =~= paras + ps.map_values(|p: ParaM| lossy_para(p)));
        }
    }
}
/// C06 on the grammar of C03: both readers accept, same paragraphs, same names, same lines
pub proof fn theorem_readers_agree_on_wellformed(d: DocM)
    requires wf_doc(d)
    ensures
        read_text(doc_text(d)) == Some(lossy_content(d)),
        parse_text(doc_text(d)).1 == 0,
        t_content(parse_text(doc_text(d)).0) == doc_content(d),
        lossy_content(d).len() == doc_content(d).len(),
        forall|i: int, j: int| 0 <= i < d.paras.len() && 0 <= j < d.paras[i].fields.len() ==> {
            let f = d.paras[i].fields[j];
            &&& #[trigger] lossy_content(d)[i][j] == (f.name, join_seqs(field_lines(f), seq!['\n']))
            &&& doc_content(d)[i][j] == (f.name, join_seqs((if f.first.len() > 0 { seq![f.first] } else { Seq::empty() }) + cont_texts(f.conts), seq!['\n']))
            &&& lossy_content(d)[i].len() == doc_content(d)[i].len()
        },
{
    theorem_wellformed_accepted(d);
    lemma_lex_doc(d);
    let e = Seq::<FieldV>::empty();
    let ep = Seq::<Seq<FieldV>>::empty();
    lemma_rd_gap_idle(d.lead, paras_toks(d.paras), ep);
    lemma_rd_paras(d.paras, ep);
    assert(ep + d.paras.map_values(|p: ParaM| lossy_para(p)) =~= lossy_content(d));
}
