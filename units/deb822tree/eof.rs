// ---------------------------------------------------------------------------------------------
// C03, "final newline optional": a well-formed document whose last line - a field line or a continuation line -
// is not terminated is accepted too, with the same content.
//
//   theorem_unterminated_accepted: wf_doc(d), last paragraph open (no comment or blank line after its last field)
//        ==> parse_text(doc_text(d).drop_last()) has 0 errors and t_content(tree) == doc_content(d)
// ---------------------------------------------------------------------------------------------
/// the last paragraph ends with its last field's last line
pub open spec fn ends_in_field(d: DocM) -> bool {
    d.paras.len() > 0 && d.paras.last().gap.len() == 0 && d.paras.last().trailing.len() == 0
}
// ---- lexing at the end of the input ------------------------------------------------------------------------------------------
pub proof fn lemma_run_not_nl_all(l: Seq<char>)
    requires no_nl(l)
    ensures run_not_nl(l) == l.len()
    decreases l.len()
{
    if l.len() > 0 {
        assert(!is_newline_s(l[0]));
        assert forall|i: int| 0 <= i < l.skip(1).len() implies !is_newline_s(#[trigger] l.skip(1)[i]) by { assert(l.skip(1)[i] == l[i + 1]); }
        lemma_run_not_nl_all(l.skip(1));
    }
}
pub proof fn lemma_lex_value_end(st: LexState, l: Seq<char>)
    requires
        l.len() > 0, no_nl(l), !is_indent_s(l[0]),
        !(l[0] == ':' && !st.colon_seen && !st.indented), !(l[0] == '#' && st.sol),
        !(is_initial_key_char_s(l[0]) && st.sol && !st.indented), !st.sol || st.indented,
    ensures tokens_of(st, l) == seq![(VALUE, l)]
{
    lemma_run_not_nl_all(l);
    assert(!is_newline_s(l[0]));
    assert(l.take(l.len() as int) =~= l);
    assert(l.skip(l.len() as int) =~= Seq::<char>::empty());
    assert(tokens_of(st, l.skip(l.len() as int)) =~= Seq::<Tok>::empty());
    assert(seq![(VALUE, l)] + Seq::<Tok>::empty() =~= seq![(VALUE, l)]);
}
pub proof fn lemma_run_indent_all(w: Seq<char>)
    requires all_indent(w)
    ensures run_indent(w) == w.len()
    decreases w.len()
{
    if w.len() > 0 {
        assert(is_indent_s(w[0]));
        assert forall|i: int| 0 <= i < w.skip(1).len() implies is_indent_s(#[trigger] w.skip(1)[i]) by { assert(w.skip(1)[i] == w[i + 1]); }
        lemma_run_indent_all(w.skip(1));
    }
}
pub proof fn lemma_lex_ws_end(st: LexState, w: Seq<char>)
    requires w.len() > 0, all_indent(w)
    ensures tokens_of(st, w) == seq![(if st.sol { INDENT } else { WHITESPACE }, w)]
{
    lemma_run_indent_all(w);
    assert(is_indent_s(w[0]));
    assert(w.take(w.len() as int) =~= w);
    assert(w.skip(w.len() as int) =~= Seq::<char>::empty());
    let st2 = if st.sol { LexState { indented: true, ..st } } else { st };
    assert(tokens_of(st2, w.skip(w.len() as int)) =~= Seq::<Tok>::empty());
    assert(seq![(if st.sol { INDENT } else { WHITESPACE }, w)] + Seq::<Tok>::empty() =~= seq![(if st.sol { INDENT } else { WHITESPACE }, w)]);
}
/// the unterminated first value line right after "Name:"
pub proof fn lemma_lex_first_end(f: FieldM)
    requires wf_field(f)
    ensures tokens_of(SV(), f.ws + f.first) == opt_tok(WHITESPACE, f.ws) + opt_tok(VALUE, f.first)
{
    let e = Seq::<Tok>::empty();
    if f.first.len() > 0 {
        lemma_lex_value_end(SV(), f.first);
        if f.ws.len() > 0 { lemma_lex_ws(SV(), f.ws, f.first); } else { assert(f.ws + f.first =~= f.first); }
        assert(opt_tok(WHITESPACE, f.ws) + opt_tok(VALUE, f.first) =~= opt_tok(WHITESPACE, f.ws) + seq![(VALUE, f.first)]);
    } else {
        assert(f.ws + f.first =~= f.ws);
        if f.ws.len() > 0 { lemma_lex_ws_end(SV(), f.ws); } else { assert(tokens_of(SV(), f.ws) =~= e); }
        assert(opt_tok(WHITESPACE, f.ws) + opt_tok(VALUE, f.first) =~= opt_tok(WHITESPACE, f.ws));
    }
}
pub proof fn lemma_lex_cont_end(k: ContM)
    requires wf_cont(k)
    ensures tokens_of(S0(), k.indent + k.text) == seq![(INDENT, k.indent), (VALUE, k.text)]
{
    lemma_lex_ws(S0(), k.indent, k.text);
    lemma_lex_value_end(SI(), k.text);
    assert(seq![(INDENT, k.indent)] + seq![(VALUE, k.text)] =~= seq![(INDENT, k.indent), (VALUE, k.text)]);
}
/// the tokens of an entry whose last line is not terminated: those of the entry without the final NEWLINE
pub proof fn lemma_lex_entry_end(f: FieldM)
    requires wf_field(f)
    ensures tokens_of(S0(), entry_text(f).drop_last()) == entry_toks(f).drop_last(), entry_toks(f).len() >= 3, entry_toks(f).last() == (NEWLINE, lf())
{
    lemma_lex_key_colon(f.name);
    let head = seq![(KEY, f.name), (COLON, colon())];
    let nl = seq![(NEWLINE, lf())];
    if f.conts.len() == 0 {
        assert(conts_text(f.conts) =~= Seq::<char>::empty());
        assert(conts_toks(f.conts) =~= Seq::<Tok>::empty());
        assert(entry_text(f).drop_last() =~= (f.name + colon()) + (f.ws + f.first));
        lemma_lex_first_end(f);
        assert(tokens_of(S0(), (f.name + colon()) + (f.ws + f.first)) == head + tokens_of(SV(), f.ws + f.first));
        assert(entry_toks(f) =~= head + opt_tok(WHITESPACE, f.ws) + opt_tok(VALUE, f.first) + nl);
        assert(entry_toks(f).drop_last() =~= head + (opt_tok(WHITESPACE, f.ws) + opt_tok(VALUE, f.first)));
    } else {
        let ks = f.conts;
        let k = ks.last();
        let dl = ks.drop_last();
        lemma_conts_split(ks);
        assert forall|i: int| 0 <= i < dl.len() implies wf_cont(#[trigger] dl[i]) by { assert(dl[i] == ks[i]); }
        lemma_lex_first(f);
        lemma_lex_conts(dl);
        lemma_lexes_compose(S0(), f.name + colon(), head, SV(), f.ws + f.first + lf(), first_toks(f), S0());
        lemma_lexes_compose(S0(), (f.name + colon()) + (f.ws + f.first + lf()), head + first_toks(f), S0(), conts_text(dl), conts_toks(dl), S0());
        let pre = ((f.name + colon()) + (f.ws + f.first + lf())) + conts_text(dl);
        let pt = (head + first_toks(f)) + conts_toks(dl);
        assert(entry_text(f).drop_last() =~= pre + (k.indent + k.text));
        assert(tokens_of(S0(), pre + (k.indent + k.text)) == pt + tokens_of(S0(), k.indent + k.text));
        lemma_lex_cont_end(k);
        assert(entry_toks(f) =~= pt + cont_toks3(k));
        assert(entry_toks(f).drop_last() =~= pt + seq![(INDENT, k.indent), (VALUE, k.text)]);
    }
}
/// continuation lines: all but the last, then the last
pub proof fn lemma_conts_split(ks: Seq<ContM>)
    requires ks.len() > 0
    ensures
        conts_text(ks) == conts_text(ks.drop_last()) + (ks.last().indent + ks.last().text + lf()),
        conts_toks(ks) == conts_toks(ks.drop_last()) + cont_toks3(ks.last()),
    decreases ks.len()
{
    if ks.len() == 1 {
        assert(ks.drop_last() =~= Seq::<ContM>::empty());
        assert(ks.skip(1) =~= Seq::<ContM>::empty());
        assert(conts_text(ks) =~= conts_text(ks.drop_last()) + (ks.last().indent + ks.last().text + lf()));
        assert(conts_toks(ks) =~= conts_toks(ks.drop_last()) + cont_toks3(ks.last()));
    } else {
        lemma_conts_split(ks.skip(1));
        assert(ks.skip(1).drop_last() =~= ks.drop_last().skip(1));
        assert(ks.skip(1).last() == ks.last());
        assert(ks.drop_last()[0] == ks[0]);
        assert(conts_text(ks) =~= conts_text(ks.drop_last()) + (ks.last().indent + ks.last().text + lf()));
        assert(conts_toks(ks) =~= conts_toks(ks.drop_last()) + cont_toks3(ks.last()));
    }
}

// ---- parsing at the end of the input ------------------------------------------------------------------------------------------------
pub open spec fn lines_end(v: Seq<Tok>, ks: Seq<ContM>) -> Seq<Tok> { (v + seq![(NEWLINE, lf())] + conts_toks(ks)).drop_last() }

pub proof fn lemma_parse_lines_end(v: Seq<Tok>, ks: Seq<ContM>)
    requires v.len() == 0 || (v.len() == 1 && v[0].0 == VALUE)
    ensures p_lines(lines_end(v, ks)) == (leaves(lines_end(v, ks)), Seq::<Tok>::empty(), 0nat)
    decreases ks.len()
{
    let nl = seq![(NEWLINE, lf())];
    let ts = lines_end(v, ks);
    let e = Seq::<Tok>::empty();
    if ks.len() == 0 {
        assert(conts_toks(ks) =~= e);
        assert(ts =~= v);
        if v.len() == 1 {
            assert(ts.skip(1) =~= e);
            assert(p_value_run(e) == (Seq::<Tree>::empty(), e));
            assert(p_value_run(ts) == (seq![leaf(v[0])] + Seq::<Tree>::empty(), e));
            assert(leaves(ts) =~= seq![leaf(v[0])] + Seq::<Tree>::empty());
        } else {
            assert(leaves(ts) =~= Seq::<Tree>::empty());
        }
    } else {
        let k = ks[0];
        let v2 = seq![(VALUE, k.text)];
        let inner = lines_end(v2, ks.skip(1));
        lemma_parse_lines_end(v2, ks.skip(1));
        // ts = v + NL + INDENT + inner
        assert(conts_toks(ks) =~= cont_toks3(k) + conts_toks(ks.skip(1)));
        assert(ts =~= v + nl + seq![(INDENT, k.indent)] + inner) by {
            let full = v + nl + conts_toks(ks);
            let full2 = v2 + nl + conts_toks(ks.skip(1));
            assert(full =~= v + nl + seq![(INDENT, k.indent)] + full2);
            assert(full.drop_last() =~= v + nl + seq![(INDENT, k.indent)] + full2.drop_last());
        }
        let after = nl + (seq![(INDENT, k.indent)] + inner);
        assert(ts =~= v + after);
        assert(after[0].0 == NEWLINE);
        if v.len() == 1 {
            assert(ts[0] == v[0]);
            assert(ts.skip(1) =~= after);
            assert(p_value_run(after) == (Seq::<Tree>::empty(), after));
            assert(p_value_run(ts) == (seq![leaf(v[0])] + Seq::<Tree>::empty(), after));
            assert(leaves(v) =~= seq![leaf(v[0])] + Seq::<Tree>::empty());
        } else {
            assert(ts =~= after);
            assert(leaves(v) =~= Seq::<Tree>::empty());
        }
        assert(p_value_run(ts) == (leaves(v), after));
        let t2 = after.skip(1);
        assert(t2 =~= seq![(INDENT, k.indent)] + inner);
        assert(t2[0] == (INDENT, k.indent));
        let t3 = t2.skip(1);
        assert(t3 =~= inner);
        assert(inner[0] == (VALUE, k.text)) by {
            let full2 = v2 + nl + conts_toks(ks.skip(1));
            assert(full2[0] == v2[0]);
            assert(full2.len() >= 2);
        }
        assert(p_skip_ws(t3) == (Seq::<Tree>::empty(), t3));
        assert(t3.len() < ts.len());
        let r = p_lines(t3);
        assert(p_lines(ts) == (leaves(v) + seq![leaf(after[0]), leaf(t2[0])] + Seq::<Tree>::empty() + r.0, r.1, 0 + r.2));
        assert(leaves(ts) =~= leaves(v) + seq![leaf(after[0]), leaf(t2[0])] + Seq::<Tree>::empty() + leaves(inner));
    }
}
pub open spec fn entry_tree_end(f: FieldM) -> Tree { node(ENTRY, leaves(entry_toks(f).drop_last())) }

pub proof fn lemma_parse_entry_end(f: FieldM)
    requires f.name.len() > 0
    ensures p_entry(comments_toks(f.comments) + entry_toks(f).drop_last())
        == (leaves(comments_toks(f.comments)).push(entry_tree_end(f)), Seq::<Tok>::empty(), 0nat)
{
    let nl = seq![(NEWLINE, lf())];
    let et = entry_toks(f).drop_last();
    let vt = opt_tok(VALUE, f.first);
    let tail = lines_end(vt, f.conts);
    let head = seq![(KEY, f.name), (COLON, colon())];
    assert(et =~= head + opt_tok(WHITESPACE, f.ws) + tail) by {
        let full = head + first_toks(f) + conts_toks(f.conts);
        assert(full =~= head + opt_tok(WHITESPACE, f.ws) + (vt + nl + conts_toks(f.conts)));
        assert((vt + nl + conts_toks(f.conts)).len() >= 1);
        assert(full.drop_last() =~= head + opt_tok(WHITESPACE, f.ws) + (vt + nl + conts_toks(f.conts)).drop_last());
    }
    lemma_parse_comments(f.comments, et);
    assert(et[0] == (KEY, f.name));
    assert(p_entry_comments(et) == (Seq::<Tree>::empty(), et, 0nat, false));
    let c = p_entry_comments(comments_toks(f.comments) + et);
    assert(c.0 =~= leaves(comments_toks(f.comments)));
    assert(c.1 == et);
    let e1 = et.skip(1);
    assert(e1[0] == (COLON, colon()));
    assert(p_skip_ws(e1) == (Seq::<Tree>::empty(), e1));
    let k = p_expect(et, KEY);
    assert(k.0 =~= seq![leaf(et[0])] && k.1 == e1 && k.2 == 0);
    let e2 = e1.skip(1);
    assert(e2 =~= opt_tok(WHITESPACE, f.ws) + tail);
    // the value lines begin with VALUE, NEWLINE, or nothing: never WHITESPACE or COMMENT
    assert(!is_k(tail, WHITESPACE) && !is_k(tail, COMMENT)) by {
        let full2 = vt + nl + conts_toks(f.conts);
        if tail.len() > 0 { assert(tail[0] == full2[0]); }
    }
    assert(p_skip_ws(tail) == (Seq::<Tree>::empty(), tail));
    if f.ws.len() > 0 {
        assert(e2[0] == (WHITESPACE, f.ws));
        assert(e2.skip(1) =~= tail);
        assert(p_skip_ws(e2) == (seq![leaf(e2[0])] + Seq::<Tree>::empty(), tail));
    } else {
        assert(e2 =~= tail);
    }
    let co = p_expect(e1, COLON);
    assert(co.0 =~= seq![leaf(e1[0])] + leaves(opt_tok(WHITESPACE, f.ws)));
    assert(co.1 == tail && co.2 == 0);
    lemma_parse_lines_end(vt, f.conts);
    let l = p_lines(tail);
    assert(k.0 + co.0 + l.0 =~= leaves(et));
}
/// fields followed by anything that does not continue the last one (full result)
pub proof fn lemma_parse_fields_then_full(fs: Seq<FieldM>, u: Seq<Tok>)
    requires not_indent(u), forall|i: int| 0 <= i < fs.len() ==> (#[trigger] fs[i]).name.len() > 0
    ensures p_entries(fields_toks(fs) + u) == (fields_elems(fs) + p_entries(u).0, p_entries(u).1, p_entries(u).2)
    decreases fs.len()
{
    let ts = fields_toks(fs) + u;
    if fs.len() == 0 {
        assert(ts =~= u);
        assert(fields_elems(fs) + p_entries(u).0 =~= p_entries(u).0);
    } else {
        let f = fs[0];
        let rest = fields_toks(fs.skip(1)) + u;
        assert(ts =~= field_toks(f) + rest);
        assert(not_indent(rest)) by {
            if fs.len() > 1 {
                let g = fs[1];
                assert(fields_toks(fs.skip(1)) =~= field_toks(g) + fields_toks(fs.skip(1).skip(1)));
                if g.comments.len() > 0 { assert(comments_toks(g.comments) =~= comment_toks2(g.comments[0]) + comments_toks(g.comments.skip(1))); assert(rest[0].0 == COMMENT); }
                else { assert(comments_toks(g.comments) =~= Seq::<Tok>::empty()); assert(rest[0].0 == KEY); }
            } else {
                assert(fields_toks(fs.skip(1)) =~= Seq::<Tok>::empty());
                assert(rest =~= u);
            }
        }
        lemma_parse_entry(f, rest);
        assert forall|i: int| 0 <= i < fs.skip(1).len() implies (#[trigger] fs.skip(1)[i]).name.len() > 0 by { assert(fs.skip(1)[i] == fs[i + 1]); }
        lemma_parse_fields_then_full(fs.skip(1), u);
        assert(ts.len() > 0 && ts[0].0 != NEWLINE) by {
            if f.comments.len() > 0 { assert(comments_toks(f.comments) =~= comment_toks2(f.comments[0]) + comments_toks(f.comments.skip(1))); assert(ts[0].0 == COMMENT); }
            else { assert(comments_toks(f.comments) =~= Seq::<Tok>::empty()); assert(ts[0].0 == KEY); }
        }
        assert(rest.len() < ts.len());
        assert(field_elems(f) + (fields_elems(fs.skip(1)) + p_entries(u).0) =~= fields_elems(fs) + p_entries(u).0);
    }
}

pub proof fn lemma_fields_split(fs: Seq<FieldM>)
    requires fs.len() > 0
    ensures
        fields_text(fs) == fields_text(fs.drop_last()) + field_text(fs.last()),
        fields_toks(fs) == fields_toks(fs.drop_last()) + field_toks(fs.last()),
        fields_elems(fs) == fields_elems(fs.drop_last()) + field_elems(fs.last()),
    decreases fs.len()
{
    if fs.len() == 1 {
        assert(fs.drop_last() =~= Seq::<FieldM>::empty());
        assert(fs.skip(1) =~= Seq::<FieldM>::empty());
        assert(fields_text(fs) =~= fields_text(fs.drop_last()) + field_text(fs.last()));
        assert(fields_toks(fs) =~= fields_toks(fs.drop_last()) + field_toks(fs.last()));
        assert(fields_elems(fs) =~= fields_elems(fs.drop_last()) + field_elems(fs.last()));
    } else {
        lemma_fields_split(fs.skip(1));
        assert(fs.skip(1).drop_last() =~= fs.drop_last().skip(1));
        assert(fs.skip(1).last() == fs.last());
        assert(fs.drop_last()[0] == fs[0]);
        assert(fields_text(fs) =~= fields_text(fs.drop_last()) + field_text(fs.last()));
        assert(fields_toks(fs) =~= fields_toks(fs.drop_last()) + field_toks(fs.last()));
        assert(fields_elems(fs) =~= fields_elems(fs.drop_last()) + field_elems(fs.last()));
    }
}
pub proof fn lemma_paras_split(ps: Seq<ParaM>)
    requires ps.len() > 0, wf_paras(ps)
    ensures
        paras_text(ps) == paras_text(ps.drop_last()) + para_text(ps.last()),
        paras_toks(ps) == paras_toks(ps.drop_last()) + para_toks(ps.last()),
        wf_paras(ps.drop_last()), wf_para(ps.last()),
        forall|i: int| 0 <= i < ps.len() - 1 ==> (#[trigger] ps[i]).gap.len() > 0,
    decreases ps.len()
{
    if ps.len() == 1 {
        assert(ps.drop_last() =~= Seq::<ParaM>::empty());
        assert(ps.skip(1) =~= Seq::<ParaM>::empty());
        assert(paras_text(ps) =~= paras_text(ps.drop_last()) + para_text(ps.last()));
        assert(paras_toks(ps) =~= paras_toks(ps.drop_last()) + para_toks(ps.last()));
    } else {
        lemma_paras_split(ps.skip(1));
        let dl = ps.drop_last();
        assert(ps.skip(1).drop_last() =~= dl.skip(1));
        assert(ps.skip(1).last() == ps.last());
        assert(dl[0] == ps[0]);
        assert(wf_paras(dl));
        assert(paras_text(ps) =~= paras_text(dl) + para_text(ps.last()));
        assert(paras_toks(ps) =~= paras_toks(dl) + para_toks(ps.last()));
        assert forall|i: int| 0 <= i < ps.len() - 1 implies (#[trigger] ps[i]).gap.len() > 0 by { if i > 0 { assert(ps[i] == ps.skip(1)[i - 1]); } }
    }
}
/// the last, open paragraph with its last line unterminated
pub open spec fn para_tree_end(p: ParaM) -> Tree {
    node(PARAGRAPH, fields_elems(p.fields.drop_last()) + leaves(comments_toks(p.fields.last().comments)).push(entry_tree_end(p.fields.last())))
}
pub open spec fn para_toks_end(p: ParaM) -> Seq<Tok> {
    fields_toks(p.fields.drop_last()) + (comments_toks(p.fields.last().comments) + entry_toks(p.fields.last()).drop_last())
}
pub proof fn lemma_parse_para_end(p: ParaM)
    requires wf_para(p), p.gap.len() == 0, p.trailing.len() == 0
    ensures p_paragraph(para_toks_end(p)) == (para_tree_end(p), Seq::<Tok>::empty(), 0nat), para_toks_end(p).len() > 0, para_toks_end(p)[0].0 == KEY
{
    let fs = p.fields;
    let f = fs.last();
    let dl = fs.drop_last();
    let u = comments_toks(f.comments) + entry_toks(f).drop_last();
    assert forall|i: int| 0 <= i < dl.len() implies (#[trigger] dl[i]).name.len() > 0 by { assert(dl[i] == fs[i]); assert(wf_field(fs[i])); }
    assert(wf_field(f));
    assert(entry_toks(f).len() >= 3);
    assert(u.len() > 0 && (u[0].0 == COMMENT || u[0].0 == KEY)) by {
        if f.comments.len() > 0 { assert(comments_toks(f.comments) =~= comment_toks2(f.comments[0]) + comments_toks(f.comments.skip(1))); assert(u[0].0 == COMMENT); }
        else { assert(comments_toks(f.comments) =~= Seq::<Tok>::empty()); assert(u[0] == entry_toks(f).drop_last()[0]); }
    }
    lemma_parse_fields_then_full(dl, u);
    lemma_parse_entry_end(f);
    let e = Seq::<Tok>::empty();
    assert(p_entries(e) == (Seq::<Tree>::empty(), e, 0nat));
    assert(p_entries(u) == (leaves(comments_toks(f.comments)).push(entry_tree_end(f)) + Seq::<Tree>::empty(), e, 0nat));
    assert(leaves(comments_toks(f.comments)).push(entry_tree_end(f)) + Seq::<Tree>::empty() =~= leaves(comments_toks(f.comments)).push(entry_tree_end(f)));
    // the first token of the paragraph is the KEY of its first field
    let ts = para_toks_end(p);
    if dl.len() > 0 {
        assert(dl[0] == fs[0]);
        assert(fields_toks(dl) =~= field_toks(dl[0]) + fields_toks(dl.skip(1)));
        assert(comments_toks(dl[0].comments) =~= Seq::<Tok>::empty());
        assert(ts[0] == (KEY, dl[0].name));
    } else {
        assert(fs.last() == fs[0]);
        assert(fields_toks(dl) =~= Seq::<Tok>::empty());
        assert(comments_toks(f.comments) =~= Seq::<Tok>::empty());
        assert(ts =~= u);
    }
}
/// closed paragraphs, then a last paragraph that consumes everything
pub proof fn lemma_parse_items_then(g: Seq<Option<Seq<char>>>, ps: Seq<ParaM>, u: Seq<Tok>, pt: Tree)
    requires
        wf_paras(ps), forall|i: int| 0 <= i < ps.len() ==> (#[trigger] ps[i]).gap.len() > 0,
        u.len() > 0, u[0].0 == KEY, p_paragraph(u) == (pt, Seq::<Tok>::empty(), 0nat),
    ensures p_items(gap_toks(g) + paras_toks(ps) + u) == (gap_trees(g) + paras_trees(ps) + seq![pt], 0nat)
    decreases ps.len()
{
    let ts = gap_toks(g) + paras_toks(ps) + u;
    lemma_gap_toks_len(g);
    if ps.len() == 0 {
        assert(paras_toks(ps) =~= Seq::<Tok>::empty());
        assert(ts =~= gap_toks(g) + u);
        assert(!starts_blank(u));
        lemma_parse_gap(g, u);
        assert(paras_trees(ps) =~= Seq::<Tree>::empty());
        assert(ts.len() > 0);
        let e = Seq::<Tok>::empty();
        assert(p_items(e) == (Seq::<Tree>::empty(), 0nat));
        assert(p_skip_ws_nl(ts) == (gap_trees(g), u));
        assert(p_items(ts) == (gap_trees(g).push(pt) + Seq::<Tree>::empty(), 0nat + 0nat));
        assert(gap_trees(g).push(pt) + Seq::<Tree>::empty() =~= gap_trees(g) + paras_trees(ps) + seq![pt]);
    } else {
        let p0 = ps[0];
        let pt0 = paras_toks(ps) + u;
        lemma_para_head(p0, paras_toks(ps.skip(1)) + u);
        assert(pt0 =~= para_toks(p0) + (paras_toks(ps.skip(1)) + u));
        assert(!starts_blank(pt0));
        assert(ts =~= gap_toks(g) + pt0);
        lemma_parse_gap(g, pt0);
        let after = gap_toks(p0.gap) + (paras_toks(ps.skip(1)) + u);
        assert(pt0 =~= fields_toks(p0.fields) + comments_toks(p0.trailing) + after);
        assert(gap_toks(p0.gap) =~= gap_line_toks(p0.gap[0]) + gap_toks(p0.gap.skip(1)));
        assert(after[0].0 == NEWLINE);
        assert forall|i: int| 0 <= i < p0.fields.len() implies (#[trigger] p0.fields[i]).name.len() > 0 by { assert(wf_field(p0.fields[i])); }
        lemma_parse_fields(p0.fields, p0.trailing, after);
        assert(p_paragraph(pt0) == (para_tree(p0), after, 0nat));
        assert forall|i: int| 0 <= i < ps.skip(1).len() implies (#[trigger] ps.skip(1)[i]).gap.len() > 0 by { assert(ps.skip(1)[i] == ps[i + 1]); }
        lemma_parse_items_then(p0.gap, ps.skip(1), u, pt);
        assert(after =~= gap_toks(p0.gap) + paras_toks(ps.skip(1)) + u);
        assert(after.len() < ts.len());
        assert(gap_trees(g).push(para_tree(p0)) + (gap_trees(p0.gap) + paras_trees(ps.skip(1)) + seq![pt]) =~= gap_trees(g) + paras_trees(ps) + seq![pt]);
    }
}
/// what the accessors read in an entry whose last line is not terminated: the same
pub proof fn lemma_entry_tree_end(f: FieldM)
    ensures
        rowan::tree_kind(entry_tree_end(f)) == ENTRY, entry_tree_end(f) is Node,
        t_key(entry_tree_end(f)) == Some(f.name),
        t_value(entry_tree_end(f)) == field_value(f),
{
    lemma_entry_tree(f);
    let full = leaves(entry_toks(f));
    let ls = leaves(entry_toks(f).drop_last());
    assert(entry_toks(f).len() >= 3);
    assert(ls =~= full.drop_last());
    lemma_entry_toks_last(f);
    assert(full.last() == leaf((NEWLINE, lf())));
    assert(all_toks(full));
    assert(all_toks(ls));
    lemma_child_nodes_of_toks(full);
    lemma_child_nodes_of_toks(ls);
    assert(ls[0] == full[0]);
    assert(first_kind(ls, KEY) == Some(ls[0]));
    assert(first_kind(full, KEY) == Some(full[0]));
    // the VALUE tokens: dropping the final NEWLINE leaf changes nothing
    assert(kind_filter(full, VALUE) == kind_filter(ls, VALUE));
}

pub proof fn lemma_entry_toks_last(f: FieldM)
    ensures entry_toks(f).len() >= 3, entry_toks(f).last() == (NEWLINE, lf())
{
    if f.conts.len() == 0 {
        assert(conts_toks(f.conts) =~= Seq::<Tok>::empty());
    } else {
        lemma_conts_split(f.conts);
        assert(cont_toks3(f.conts.last()).last() == (NEWLINE, lf()));
    }
}

/// content of the open last paragraph
pub proof fn lemma_para_tree_end(p: ParaM)
    requires p.fields.len() > 0
    ensures rowan::tree_kind(para_tree_end(p)) == PARAGRAPH, para_tree_end(p) is Node, t_items(para_tree_end(p)) == para_content(p)
{
    let fs = p.fields;
    let f = fs.last();
    let dl = fs.drop_last();
    let lc = leaves(comments_toks(f.comments));
    let ch = fields_elems(dl) + lc.push(entry_tree_end(f));
    assert(all_toks(lc));
    lemma_child_nodes_of_toks(lc);
    lemma_entry_tree_end(f);
    assert(lc.push(entry_tree_end(f)) =~= lc + seq![entry_tree_end(f)]);
    assert(all_nodes(seq![entry_tree_end(f)]));
    lemma_child_nodes_of_nodes(seq![entry_tree_end(f)]);
    lemma_child_nodes_add(lc, seq![entry_tree_end(f)]);
    lemma_child_nodes_add(fields_elems(dl), lc + seq![entry_tree_end(f)]);
    lemma_fields_entries(dl);
    let es = entry_trees(dl) + seq![entry_tree_end(f)];
    assert(rowan::child_nodes(ch) =~= es);
    assert forall|i: int| 0 <= i < es.len() implies rowan::tree_kind(#[trigger] es[i]) == ENTRY by {}
    lemma_kind_filter_all(es, ENTRY);
    lemma_entries_items(dl);
    assert(es.drop_last() =~= entry_trees(dl));
    assert(es.last() == entry_tree_end(f));
    assert(entries_items(es) =~= dl.map_values(|f: FieldM| (f.name, field_value(f))).push((f.name, field_value(f))));
    assert(para_content(p) =~= dl.map_values(|f: FieldM| (f.name, field_value(f))).push((f.name, field_value(f)))) by {
        assert(fs =~= dl.push(f));
    }
}
/// C03, "final newline optional"
pub proof fn theorem_unterminated_accepted(d: DocM)
    requires wf_doc(d), ends_in_field(d)
    ensures
        doc_text(d).len() > 0 && doc_text(d).last() == '\n',
        parse_text(doc_text(d).drop_last()).1 == 0,
        rowan::tree_kind(parse_text(doc_text(d).drop_last()).0) == ROOT,
        t_content(parse_text(doc_text(d).drop_last()).0) == doc_content(d),
{
    let ps = d.paras;
    let p = ps.last();
    let dlp = ps.drop_last();
    lemma_paras_split(ps);
    let fs = p.fields;
    let f = fs.last();
    let dlf = fs.drop_last();
    lemma_fields_split(fs);
    assert(wf_field(f));
    assert forall|i: int| 0 <= i < dlf.len() implies wf_field(#[trigger] dlf[i]) by { assert(dlf[i] == fs[i]); }
    // the text: everything before the last entry, then the last entry
    assert(comments_text(p.trailing) =~= Seq::<char>::empty());
    assert(gap_text(p.gap) =~= Seq::<char>::empty());
    assert(comments_toks(p.trailing) =~= Seq::<Tok>::empty());
    assert(gap_toks(p.gap) =~= Seq::<Tok>::empty());
    let pre = gap_text(d.lead) + paras_text(dlp) + fields_text(dlf) + comments_text(f.comments);
    let pre_t = gap_toks(d.lead) + paras_toks(dlp) + fields_toks(dlf) + comments_toks(f.comments);
    lemma_lex_gap(d.lead);
    lemma_lex_paras(dlp);
    lemma_lex_fields(dlf);
    lemma_lex_comments(f.comments);
    lemma_lexes_compose(S0(), gap_text(d.lead), gap_toks(d.lead), S0(), paras_text(dlp), paras_toks(dlp), S0());
    lemma_lexes_compose(S0(), gap_text(d.lead) + paras_text(dlp), gap_toks(d.lead) + paras_toks(dlp), S0(), fields_text(dlf), fields_toks(dlf), S0());
    lemma_lexes_compose(S0(), gap_text(d.lead) + paras_text(dlp) + fields_text(dlf), gap_toks(d.lead) + paras_toks(dlp) + fields_toks(dlf), S0(), comments_text(f.comments), comments_toks(f.comments), S0());
    let et = entry_text(f);
    assert(et.len() > 0 && et.last() == '\n') by {
        if f.conts.len() == 0 { assert(conts_text(f.conts) =~= Seq::<char>::empty()); } else { lemma_conts_split(f.conts); }
    }
    assert(doc_text(d) =~= pre + et);
    assert(doc_text(d).drop_last() =~= pre + et.drop_last());
    lemma_lex_entry_end(f);
    let ts = tokens_of(S0(), doc_text(d).drop_last());
    assert(ts == pre_t + entry_toks(f).drop_last());
    // the tokens: lead gap, closed paragraphs, the open last paragraph
    let u = para_toks_end(p);
    assert(ts =~= gap_toks(d.lead) + paras_toks(dlp) + u);
    lemma_parse_para_end(p);
    lemma_parse_items_then(d.lead, dlp, u, para_tree_end(p));
    // what the accessors see
    let ch = gap_trees(d.lead) + paras_trees(dlp) + seq![para_tree_end(p)];
    lemma_gap_trees_nodes(d.lead);
    lemma_paras_trees(dlp);
    lemma_para_tree_end(p);
    assert(all_nodes(ch));
    lemma_child_nodes_of_nodes(ch);
    lemma_kind_filter_add(gap_trees(d.lead) + paras_trees(dlp), seq![para_tree_end(p)], PARAGRAPH);
    lemma_kind_filter_add(gap_trees(d.lead), paras_trees(dlp), PARAGRAPH);
    lemma_kind_filter_single(para_tree_end(p), PARAGRAPH);
    let tp = para_trees(dlp) + seq![para_tree_end(p)];
    assert(kind_filter(ch, PARAGRAPH) =~= tp);
    let root = node(ROOT, ch);
    assert(t_paragraphs(root) == tp);
    assert forall|i: int| 0 <= i < ps.len() implies t_items(#[trigger] tp[i]) == para_content(ps[i]) by {
        if i < dlp.len() { assert(tp[i] == para_tree(dlp[i])); assert(dlp[i] == ps[i]); lemma_para_tree(dlp[i]); }
        else { assert(tp[i] == para_tree_end(p)); }
    }
    assert(t_content(root) =~= doc_content(d));
}
