// ---------------------------------------------------------------------------------------------
// C03: the lossless deb822 parser as a function from the token sequence to a tree and an error count.
// The p_* functions follow the statement's reading of the format: blank/comment lines between paragraphs
// become EMPTY_LINE nodes, a paragraph is a PARAGRAPH node of ENTRY nodes (comment lines in front of a field
// are children of the paragraph), every unexpected token is wrapped in an ERROR node and counted.
// The contracts in parser.vspec prove that the real parser computes exactly these functions.
// ---------------------------------------------------------------------------------------------
pub type Tree = rowan::Tree;

pub open spec fn tok_view(t: (SyntaxKind, String)) -> Tok { (t.0, t.1@) }
pub open spec fn toks_view(v: Seq<(SyntaxKind, String)>) -> Seq<Tok> { v.map_values(|t: (SyntaxKind, String)| tok_view(t)) }
/// the parser's token stack (reversed Vec) in consumption order
pub open spec fn fwd(v: Seq<(SyntaxKind, String)>) -> Seq<Tok> {
    Seq::new(v.len(), |i: int| tok_view(v[v.len() - 1 - i]))
}
pub open spec fn cur(ts: Seq<Tok>) -> Option<SyntaxKind> { if ts.len() > 0 { Some(ts[0].0) } else { None } }
pub open spec fn is_k(ts: Seq<Tok>, k: SyntaxKind) -> bool { ts.len() > 0 && ts[0].0 == k }
pub open spec fn leaf(t: Tok) -> Tree { rowan::Tree::Tok(t.0, t.1) }
pub open spec fn node(k: SyntaxKind, ch: Seq<Tree>) -> Tree { rowan::Tree::Node(k, ch) }

pub proof fn lemma_fwd_pop(v: Seq<(SyntaxKind, String)>)
    requires v.len() > 0
    ensures fwd(v).len() == v.len(), fwd(v)[0] == tok_view(v.last()), fwd(v.drop_last()) == fwd(v).skip(1)
{
    assert(fwd(v.drop_last()) =~= fwd(v).skip(1));
}
pub proof fn lemma_fwd_reverse(v: Seq<(SyntaxKind, String)>)
    ensures fwd(v.reverse()) == toks_view(v)
{
    assert(fwd(v.reverse()) =~= toks_view(v));
}

// ---- builder frames -----------------------------------------------------------------------------------------
/// `new` is `old` with the elements `es` appended to the innermost open node; nothing else changed
pub open spec fn appended(old: rowan::BState, new: rowan::BState, es: Seq<Tree>) -> bool {
    &&& old.stack.len() > 0
    &&& new.stack.len() == old.stack.len()
    &&& new.stack.drop_last() =~= old.stack.drop_last()
    &&& new.stack.last().kind == old.stack.last().kind
    &&& new.stack.last().ch =~= old.stack.last().ch + es
    &&& new.done =~= old.done
}
/// `b` is `b0` with one more open node of kind k holding the children ch
pub open spec fn opened(b0: rowan::BState, b: rowan::BState, k: SyntaxKind, ch: Seq<Tree>) -> bool {
    &&& b.stack.len() == b0.stack.len() + 1
    &&& b.stack.drop_last() =~= b0.stack
    &&& b.stack.last().kind == k
    &&& b.stack.last().ch =~= ch
    &&& b.done =~= b0.done
}
pub proof fn lemma_appended_trans(a: rowan::BState, b: rowan::BState, c: rowan::BState, x: Seq<Tree>, y: Seq<Tree>)
    requires appended(a, b, x), appended(b, c, y)
    ensures appended(a, c, x + y)
{
    assert(a.stack.last().ch + (x + y) =~= (a.stack.last().ch + x) + y);
}
pub proof fn lemma_appended_refl(a: rowan::BState)
    requires a.stack.len() > 0
    ensures appended(a, a, Seq::empty())
{
    assert(a.stack.last().ch + Seq::<Tree>::empty() =~= a.stack.last().ch);
}

// ---- the parser as a function --------------------------------------------------------------------------------
/// skip_ws: a run of WHITESPACE / COMMENT tokens, as leaves
pub open spec fn p_skip_ws(ts: Seq<Tok>) -> (Seq<Tree>, Seq<Tok>)
    decreases ts.len()
{
    if is_k(ts, WHITESPACE) || is_k(ts, COMMENT) {
        let r = p_skip_ws(ts.skip(1));
        (seq![leaf(ts[0])] + r.0, r.1)
    } else { (Seq::empty(), ts) }
}
/// the rest of a line up to (not including) its NEWLINE
pub open spec fn p_line_rest(ts: Seq<Tok>) -> (Seq<Tree>, Seq<Tok>)
    decreases ts.len()
{
    if ts.len() > 0 && ts[0].0 != NEWLINE {
        let r = p_line_rest(ts.skip(1));
        (seq![leaf(ts[0])] + r.0, r.1)
    } else { (Seq::empty(), ts) }
}
/// one EMPTY_LINE node: a blank or comment line with its NEWLINE
pub open spec fn p_empty_line(ts: Seq<Tok>) -> (Tree, Seq<Tok>) {
    let a = p_line_rest(ts);
    if is_k(a.1, NEWLINE) { (node(EMPTY_LINE, a.0.push(leaf(a.1[0]))), a.1.skip(1)) } else { (node(EMPTY_LINE, a.0), a.1) }
}
pub open spec fn starts_blank(ts: Seq<Tok>) -> bool { is_k(ts, WHITESPACE) || is_k(ts, COMMENT) || is_k(ts, NEWLINE) }
/// skip_ws_and_newlines: EMPTY_LINE nodes while the next token is WHITESPACE / COMMENT / NEWLINE
pub open spec fn p_skip_ws_nl(ts: Seq<Tok>) -> (Seq<Tree>, Seq<Tok>)
    decreases ts.len()
{
    if starts_blank(ts) {
        let e = p_empty_line(ts);
        if e.1.len() < ts.len() { let r = p_skip_ws_nl(e.1); (seq![e.0] + r.0, r.1) } else { (seq![e.0], e.1) }
    } else { (Seq::empty(), ts) }
}
/// an ERROR node around the next token (empty at the end of the input)
pub open spec fn err_node(ts: Seq<Tok>) -> Tree { node(ERROR, if ts.len() > 0 { seq![leaf(ts[0])] } else { Seq::empty() }) }
pub open spec fn after_err(ts: Seq<Tok>) -> Seq<Tok> { if ts.len() > 0 { ts.skip(1) } else { ts } }

/// comment lines in front of an entry: (elements, rest, errors, input ended inside)
pub open spec fn p_entry_comments(ts: Seq<Tok>) -> (Seq<Tree>, Seq<Tok>, nat, bool)
    decreases ts.len()
{
    if is_k(ts, COMMENT) {
        let t1 = ts.skip(1);
        if t1.len() == 0 { (seq![leaf(ts[0])], t1, 0, true) }
        else {
            let r = p_entry_comments(t1.skip(1));
            if t1[0].0 == NEWLINE { (seq![leaf(ts[0]), leaf(t1[0])] + r.0, r.1, r.2, r.3) }
            else { (seq![leaf(ts[0]), err_node(t1)] + r.0, r.1, r.2 + 1, r.3) }
        }
    } else { (Seq::empty(), ts, 0, false) }
}
/// a token of kind k followed by skip_ws, or an ERROR node
pub open spec fn p_expect(ts: Seq<Tok>, k: SyntaxKind) -> (Seq<Tree>, Seq<Tok>, nat) {
    if is_k(ts, k) { let w = p_skip_ws(ts.skip(1)); (seq![leaf(ts[0])] + w.0, w.1, 0) }
    else { (seq![err_node(ts)], after_err(ts), 1) }
}
/// a run of WHITESPACE / VALUE tokens
pub open spec fn p_value_run(ts: Seq<Tok>) -> (Seq<Tree>, Seq<Tok>)
    decreases ts.len()
{
    if is_k(ts, WHITESPACE) || is_k(ts, VALUE) {
        let r = p_value_run(ts.skip(1));
        (seq![leaf(ts[0])] + r.0, r.1)
    } else { (Seq::empty(), ts) }
}
/// the value lines of an entry: value run, NEWLINE, and on while the next line is indented
pub open spec fn p_lines(ts: Seq<Tok>) -> (Seq<Tree>, Seq<Tok>, nat)
    decreases ts.len()
{
    let v = p_value_run(ts);
    if v.1.len() == 0 { (v.0, v.1, 0) }
    else {
        let e = if v.1[0].0 == NEWLINE { leaf(v.1[0]) } else { err_node(v.1) };
        let n: nat = if v.1[0].0 == NEWLINE { 0 } else { 1 };
        let t2 = v.1.skip(1);
        if is_k(t2, INDENT) {
            let w = p_skip_ws(t2.skip(1));
            if w.1.len() < ts.len() {
                let r = p_lines(w.1);
                (v.0 + seq![e, leaf(t2[0])] + w.0 + r.0, r.1, n + r.2)
            } else { (v.0 + seq![e, leaf(t2[0])] + w.0, w.1, n) }
        } else { (v.0 + seq![e], t2, n) }
    }
}
/// parse_entry: (elements appended to the paragraph, rest, errors)
pub open spec fn p_entry(ts: Seq<Tok>) -> (Seq<Tree>, Seq<Tok>, nat) {
    let c = p_entry_comments(ts);
    // the comment lines were the end of the paragraph (or of the input): no entry follows
    if c.3 || c.1.len() == 0 || c.1[0].0 == NEWLINE { (c.0, c.1, c.2) }
    else {
        let k = p_expect(c.1, KEY);
        let co = p_expect(k.1, COLON);
        let l = p_lines(co.1);
        (c.0.push(node(ENTRY, k.0 + co.0 + l.0)), l.1, c.2 + k.2 + co.2 + l.2)
    }
}
/// the entries of a paragraph: until a NEWLINE (blank line) or the end
pub open spec fn p_entries(ts: Seq<Tok>) -> (Seq<Tree>, Seq<Tok>, nat)
    decreases ts.len()
{
    if ts.len() > 0 && ts[0].0 != NEWLINE {
        let e = p_entry(ts);
        if e.1.len() < ts.len() { let r = p_entries(e.1); (e.0 + r.0, r.1, e.2 + r.2) } else { (e.0, e.1, e.2) }
    } else { (Seq::empty(), ts, 0) }
}
pub open spec fn p_paragraph(ts: Seq<Tok>) -> (Tree, Seq<Tok>, nat) {
    let e = p_entries(ts);
    (node(PARAGRAPH, e.0), e.1, e.2)
}
/// the children of the root
pub open spec fn p_items(ts: Seq<Tok>) -> (Seq<Tree>, nat)
    decreases ts.len()
{
    if ts.len() > 0 {
        let s = p_skip_ws_nl(ts);
        if s.1.len() > 0 {
            let p = p_paragraph(s.1);
            if p.1.len() < ts.len() { let r = p_items(p.1); (s.0.push(p.0) + r.0, p.2 + r.1) } else { (s.0.push(p.0), p.2) }
        } else { (s.0, 0) }
    } else { (Seq::empty(), 0) }
}
pub open spec fn p_root(ts: Seq<Tok>) -> (Tree, nat) {
    let i = p_items(ts);
    (node(ROOT, i.0), i.1)
}
/// the whole reader: lex from the start-of-document state, then parse
pub open spec fn parse_text(s: Seq<char>) -> (Tree, nat) {
    p_root(tokens_of(LexState { sol: true, colon_seen: false, indented: false }, s))
}

// ---- progress facts (the guards in the definitions above never fire) ---------------------------------------------
pub proof fn lemma_p_skip_ws_len(ts: Seq<Tok>)
    ensures p_skip_ws(ts).1.len() <= ts.len(), !is_k(p_skip_ws(ts).1, WHITESPACE), !is_k(p_skip_ws(ts).1, COMMENT)
    decreases ts.len()
{
    if is_k(ts, WHITESPACE) || is_k(ts, COMMENT) { lemma_p_skip_ws_len(ts.skip(1)); }
}
pub proof fn lemma_p_line_rest_len(ts: Seq<Tok>)
    ensures p_line_rest(ts).1.len() <= ts.len(), p_line_rest(ts).1.len() == 0 || p_line_rest(ts).1[0].0 == NEWLINE,
        (ts.len() > 0 && ts[0].0 != NEWLINE) ==> p_line_rest(ts).1.len() < ts.len(),
    decreases ts.len()
{
    if ts.len() > 0 && ts[0].0 != NEWLINE { lemma_p_line_rest_len(ts.skip(1)); }
}
pub proof fn lemma_p_empty_line_len(ts: Seq<Tok>)
    requires starts_blank(ts)
    ensures p_empty_line(ts).1.len() < ts.len()
{
    lemma_p_line_rest_len(ts);
}
pub proof fn lemma_p_skip_ws_nl_len(ts: Seq<Tok>)
    ensures p_skip_ws_nl(ts).1.len() <= ts.len(), !starts_blank(p_skip_ws_nl(ts).1)
    decreases ts.len()
{
    if starts_blank(ts) { lemma_p_empty_line_len(ts); lemma_p_skip_ws_nl_len(p_empty_line(ts).1); }
}
pub proof fn lemma_p_value_run_len(ts: Seq<Tok>)
    ensures p_value_run(ts).1.len() <= ts.len(), !is_k(p_value_run(ts).1, WHITESPACE), !is_k(p_value_run(ts).1, VALUE)
    decreases ts.len()
{
    if is_k(ts, WHITESPACE) || is_k(ts, VALUE) { lemma_p_value_run_len(ts.skip(1)); }
}
pub proof fn lemma_p_lines_len(ts: Seq<Tok>)
    ensures p_lines(ts).1.len() <= ts.len()
    decreases ts.len()
{
    lemma_p_value_run_len(ts);
    let v = p_value_run(ts);
    if v.1.len() > 0 {
        let t2 = v.1.skip(1);
        if is_k(t2, INDENT) {
            lemma_p_skip_ws_len(t2.skip(1));
            let w = p_skip_ws(t2.skip(1));
            lemma_p_lines_len(w.1);
        }
    }
}
pub proof fn lemma_p_entry_comments_len(ts: Seq<Tok>)
    ensures p_entry_comments(ts).1.len() <= ts.len(), is_k(ts, COMMENT) ==> p_entry_comments(ts).1.len() < ts.len(),
        !p_entry_comments(ts).3 ==> !is_k(p_entry_comments(ts).1, COMMENT),
        p_entry_comments(ts).3 ==> p_entry_comments(ts).1.len() == 0,
    decreases ts.len()
{
    if is_k(ts, COMMENT) {
        let t1 = ts.skip(1);
        if t1.len() > 0 { lemma_p_entry_comments_len(t1.skip(1)); }
    }
}
pub proof fn lemma_p_expect_len(ts: Seq<Tok>, k: SyntaxKind)
    ensures p_expect(ts, k).1.len() <= ts.len(), ts.len() > 0 ==> p_expect(ts, k).1.len() < ts.len()
{
    if is_k(ts, k) { lemma_p_skip_ws_len(ts.skip(1)); }
}
pub proof fn lemma_p_entry_len(ts: Seq<Tok>)
    ensures p_entry(ts).1.len() <= ts.len(), (ts.len() > 0 && ts[0].0 != NEWLINE) ==> p_entry(ts).1.len() < ts.len()
{
    lemma_p_entry_comments_len(ts);
    let c = p_entry_comments(ts);
    if !(c.3 || c.1.len() == 0 || c.1[0].0 == NEWLINE) {
        lemma_p_expect_len(c.1, KEY);
        let k = p_expect(c.1, KEY);
        lemma_p_expect_len(k.1, COLON);
        let co = p_expect(k.1, COLON);
        lemma_p_lines_len(co.1);
    }
}
pub proof fn lemma_p_entries_len(ts: Seq<Tok>)
    ensures p_entries(ts).1.len() <= ts.len(), (ts.len() > 0 && ts[0].0 != NEWLINE) ==> p_entries(ts).1.len() < ts.len(),
        p_entries(ts).1.len() == 0 || p_entries(ts).1[0].0 == NEWLINE,
    decreases ts.len()
{
    if ts.len() > 0 && ts[0].0 != NEWLINE {
        lemma_p_entry_len(ts);
        lemma_p_entries_len(p_entry(ts).1);
    }
}

// ---- lexer output as the parser's token vector ------------------------------------------------------------
/// the iterator->Vec glue of `lex(text).map(|(k, t)| (k, t.to_string())).collect::<Vec<_>>()`
/// (R-chain). Body verified; trusted: that std's from_fn/map/collect mean "call next until None".
pub fn vx_collect_tokens<'a>(it: lex___Iter<'a>) -> (v: Vec<(SyntaxKind, String)>)
    requires it.wf()
    ensures toks_view(v@) == tokens_of(it.state(), it.input@)
{
    let mut it = it;
    let mut v: Vec<(SyntaxKind, String)> = Vec::new();
    let ghost all = tokens_of(it.state(), it.input@);
    assert(toks_view(v@) + tokens_of(it.state(), it.input@) =~= all);
    loop
        invariant it.wf(), toks_view(v@) + tokens_of(it.state(), it.input@) == all,
        ensures toks_view(v@) == all,
        decreases it.input@.len()
    {
        let ghost st = it.state();
        let ghost inp = it.input@;
        let ghost vb = v@;
        proof { lemma_tokens_of_step(st, inp); }
        match it.next() {
            Some((k, t)) => {
                v.push((k, t.to_string()));
                proof {
                    assert(toks_view(v@) =~= toks_view(vb).push((k, t@)));
                    assert(toks_view(v@) + tokens_of(it.state(), it.input@) =~= toks_view(vb) + (seq![(k, t@)] + tokens_of(it.state(), it.input@)));
                }
            }
            None => {
                assert(toks_view(v@) + Seq::<Tok>::empty() =~= toks_view(v@));
                break;
            }
        }
    }
    v
}
/// unfolding tokens_of by one lexer step
pub proof fn lemma_tokens_of_step(st: LexState, s: Seq<char>)
    ensures
        s.len() == 0 ==> tokens_of(st, s).len() == 0,
        forall|k: SyntaxKind, t: Seq<char>, st2: LexState, s2: Seq<char>| #[trigger] lex_step(st, s, k, t, st2, s2)
            ==> tokens_of(st, s) == seq![(k, t)] + tokens_of(st2, s2),
{
    assert forall|k: SyntaxKind, t: Seq<char>, st2: LexState, s2: Seq<char>| #[trigger] lex_step(st, s, k, t, st2, s2)
        implies tokens_of(st, s) == seq![(k, t)] + tokens_of(st2, s2) by {
        let n = t.len() as int;
        assert(s.take(n) =~= t);
        assert(s.skip(n) =~= s2);
    }
}
