// ---------------------------------------------------------------------------------------------
// C03: the deb822 grammar of the statement as a generator (DocM), its text, and the theorem
//
//   theorem_wellformed_accepted:  wf_doc(d) ==> the strict reader accepts doc_text(d) (no error) and the
//                                 tree it builds exposes exactly doc_content(d)
//
// over the three contracts proved on the real code: lexer == tokens_of, parser == p_root, accessors ==
// t_paragraphs / t_items / entries_get / ... of the tree.
// ---------------------------------------------------------------------------------------------
/// a continuation line: its indentation (spaces/tabs, at least one) and its text
pub ghost struct ContM { pub indent: Seq<char>, pub text: Seq<char> }
/// a field: whole-line comments in front of it, `name`, ':', whitespace, the first value line, continuation lines
pub ghost struct FieldM {
    pub comments: Seq<Seq<char>>,
    pub name: Seq<char>,
    pub ws: Seq<char>,
    pub first: Seq<char>,
    pub conts: Seq<ContM>,
}
/// a paragraph: fields, comment lines after the last field, then the blank (None) / comment (Some) lines that follow it
pub ghost struct ParaM { pub fields: Seq<FieldM>, pub trailing: Seq<Seq<char>>, pub gap: Seq<Option<Seq<char>>> }
/// a document: blank / comment lines, then the paragraphs
pub ghost struct DocM { pub lead: Seq<Option<Seq<char>>>, pub paras: Seq<ParaM> }

// ---- well-formedness (the statement's domain) ----------------------------------------------------------------
pub open spec fn wf_comment(c: Seq<char>) -> bool { c.len() > 0 && c[0] == '#' && no_nl(c) }
pub open spec fn wf_comments(cs: Seq<Seq<char>>) -> bool { forall|i: int| 0 <= i < cs.len() ==> wf_comment(#[trigger] cs[i]) }
/// continuation text: non-empty, no leading whitespace, not beginning with '#' (an indented '#' line is a comment)
pub open spec fn wf_cont(k: ContM) -> bool {
    &&& k.indent.len() > 0 && all_indent(k.indent)
    &&& k.text.len() > 0 && no_nl(k.text) && !is_indent_s(k.text[0]) && k.text[0] != '#'
}
pub open spec fn wf_field(f: FieldM) -> bool {
    &&& wf_comments(f.comments)
    &&& valid_name(f.name)
    &&& all_indent(f.ws)
    &&& no_nl(f.first) && (f.first.len() > 0 ==> !is_indent_s(f.first[0]))
    &&& forall|i: int| 0 <= i < f.conts.len() ==> wf_cont(#[trigger] f.conts[i])
}
pub open spec fn wf_gap(g: Seq<Option<Seq<char>>>) -> bool { forall|i: int| 0 <= i < g.len() ==> ((#[trigger] g[i]) matches Some(c) ==> wf_comment(c)) }
/// comments directly in front of the first field are top-level lines; a gap begins with a blank line
pub open spec fn wf_para(p: ParaM) -> bool {
    &&& p.fields.len() > 0 && p.fields[0].comments.len() == 0
    &&& forall|i: int| 0 <= i < p.fields.len() ==> wf_field(#[trigger] p.fields[i])
    &&& wf_comments(p.trailing)
    &&& wf_gap(p.gap) && (p.gap.len() > 0 ==> p.gap[0] is None)
}
/// paragraphs are separated by at least one blank line
pub open spec fn wf_paras(ps: Seq<ParaM>) -> bool
    decreases ps.len()
{
    ps.len() == 0 || (wf_para(ps[0]) && (ps.len() > 1 ==> ps[0].gap.len() > 0) && wf_paras(ps.skip(1)))
}
pub open spec fn wf_doc(d: DocM) -> bool { wf_gap(d.lead) && wf_paras(d.paras) }

// ---- what the document says ---------------------------------------------------------------------------------------
pub open spec fn cont_texts(ks: Seq<ContM>) -> Seq<Seq<char>> { ks.map_values(|k: ContM| k.text) }
/// the value: its (non-empty) lines joined by newlines, indentation and the whitespace after the colon removed
pub open spec fn field_value(f: FieldM) -> Seq<char> {
    join_seqs((if f.first.len() > 0 { seq![f.first] } else { Seq::empty() }) + cont_texts(f.conts), seq!['\n'])
}
pub open spec fn para_content(p: ParaM) -> Seq<Pair> { p.fields.map_values(|f: FieldM| (f.name, field_value(f))) }
pub open spec fn doc_content(d: DocM) -> Seq<Seq<Pair>> { d.paras.map_values(|p: ParaM| para_content(p)) }

// ---- the text ---------------------------------------------------------------------------------------------------------
pub open spec fn comments_text(cs: Seq<Seq<char>>) -> Seq<char>
    decreases cs.len()
{
    if cs.len() == 0 { Seq::empty() } else { (cs[0] + lf()) + comments_text(cs.skip(1)) }
}
pub open spec fn conts_text(ks: Seq<ContM>) -> Seq<char>
    decreases ks.len()
{
    if ks.len() == 0 { Seq::empty() } else { (ks[0].indent + ks[0].text + lf()) + conts_text(ks.skip(1)) }
}
pub open spec fn entry_text(f: FieldM) -> Seq<char> { (f.name + colon()) + (f.ws + f.first + lf()) + conts_text(f.conts) }
pub open spec fn field_text(f: FieldM) -> Seq<char> { comments_text(f.comments) + entry_text(f) }
pub open spec fn fields_text(fs: Seq<FieldM>) -> Seq<char>
    decreases fs.len()
{
    if fs.len() == 0 { Seq::empty() } else { field_text(fs[0]) + fields_text(fs.skip(1)) }
}
pub open spec fn gap_line_text(g: Option<Seq<char>>) -> Seq<char> { match g { None => lf(), Some(c) => c + lf() } }
pub open spec fn gap_text(g: Seq<Option<Seq<char>>>) -> Seq<char>
    decreases g.len()
{
    if g.len() == 0 { Seq::empty() } else { gap_line_text(g[0]) + gap_text(g.skip(1)) }
}
pub open spec fn para_text(p: ParaM) -> Seq<char> { fields_text(p.fields) + comments_text(p.trailing) + gap_text(p.gap) }
pub open spec fn paras_text(ps: Seq<ParaM>) -> Seq<char>
    decreases ps.len()
{
    if ps.len() == 0 { Seq::empty() } else { para_text(ps[0]) + paras_text(ps.skip(1)) }
}
pub open spec fn doc_text(d: DocM) -> Seq<char> { gap_text(d.lead) + paras_text(d.paras) }

// ---- its tokens ---------------------------------------------------------------------------------------------------------
pub open spec fn comment_toks2(c: Seq<char>) -> Seq<Tok> { seq![(COMMENT, c), (NEWLINE, lf())] }
pub open spec fn comments_toks(cs: Seq<Seq<char>>) -> Seq<Tok>
    decreases cs.len()
{
    if cs.len() == 0 { Seq::empty() } else { comment_toks2(cs[0]) + comments_toks(cs.skip(1)) }
}
pub open spec fn cont_toks3(k: ContM) -> Seq<Tok> { seq![(INDENT, k.indent), (VALUE, k.text), (NEWLINE, lf())] }
pub open spec fn conts_toks(ks: Seq<ContM>) -> Seq<Tok>
    decreases ks.len()
{
    if ks.len() == 0 { Seq::empty() } else { cont_toks3(ks[0]) + conts_toks(ks.skip(1)) }
}
pub open spec fn opt_tok(k: SyntaxKind, t: Seq<char>) -> Seq<Tok> { if t.len() > 0 { seq![(k, t)] } else { Seq::empty() } }
pub open spec fn first_toks(f: FieldM) -> Seq<Tok> { opt_tok(WHITESPACE, f.ws) + opt_tok(VALUE, f.first) + seq![(NEWLINE, lf())] }
pub open spec fn entry_toks(f: FieldM) -> Seq<Tok> { seq![(KEY, f.name), (COLON, colon())] + first_toks(f) + conts_toks(f.conts) }
pub open spec fn field_toks(f: FieldM) -> Seq<Tok> { comments_toks(f.comments) + entry_toks(f) }
pub open spec fn fields_toks(fs: Seq<FieldM>) -> Seq<Tok>
    decreases fs.len()
{
    if fs.len() == 0 { Seq::empty() } else { field_toks(fs[0]) + fields_toks(fs.skip(1)) }
}
pub open spec fn gap_line_toks(g: Option<Seq<char>>) -> Seq<Tok> { match g { None => seq![(NEWLINE, lf())], Some(c) => comment_toks2(c) } }
pub open spec fn gap_toks(g: Seq<Option<Seq<char>>>) -> Seq<Tok>
    decreases g.len()
{
    if g.len() == 0 { Seq::empty() } else { gap_line_toks(g[0]) + gap_toks(g.skip(1)) }
}
pub open spec fn para_toks(p: ParaM) -> Seq<Tok> { fields_toks(p.fields) + comments_toks(p.trailing) + gap_toks(p.gap) }
pub open spec fn paras_toks(ps: Seq<ParaM>) -> Seq<Tok>
    decreases ps.len()
{
    if ps.len() == 0 { Seq::empty() } else { para_toks(ps[0]) + paras_toks(ps.skip(1)) }
}
pub open spec fn doc_toks(d: DocM) -> Seq<Tok> { gap_toks(d.lead) + paras_toks(d.paras) }

// ---- lexing --------------------------------------------------------------------------------------------------------------
pub proof fn lemma_lex_comment_line(c: Seq<char>)
    requires wf_comment(c)
    ensures lexes(S0(), c + lf(), comment_toks2(c), S0())
{
    assert forall|b: Seq<char>| #[trigger] tokens_of(S0(), (c + lf()) + b) == comment_toks2(c) + tokens_of(S0(), b) by {
        assert((c + lf()) + b =~= c + (lf() + b));
        lemma_lex_comment(S0(), c, b);
        lemma_lex_nl(S0(), b);
        assert(seq![(COMMENT, c)] + (seq![(NEWLINE, lf())] + tokens_of(S0(), b)) =~= comment_toks2(c) + tokens_of(S0(), b));
    }
}
pub proof fn lemma_lex_comments(cs: Seq<Seq<char>>)
    requires wf_comments(cs)
    ensures lexes(S0(), comments_text(cs), comments_toks(cs), S0())
    decreases cs.len()
{
    if cs.len() == 0 { lemma_lexes_empty(S0()); } else {
        assert forall|i: int| 0 <= i < cs.skip(1).len() implies wf_comment(#[trigger] cs.skip(1)[i]) by { assert(cs.skip(1)[i] == cs[i + 1]); }
        lemma_lex_comment_line(cs[0]);
        lemma_lex_comments(cs.skip(1));
        lemma_lexes_compose(S0(), cs[0] + lf(), comment_toks2(cs[0]), S0(), comments_text(cs.skip(1)), comments_toks(cs.skip(1)), S0());
    }
}
pub proof fn lemma_lex_gap(g: Seq<Option<Seq<char>>>)
    requires wf_gap(g)
    ensures lexes(S0(), gap_text(g), gap_toks(g), S0())
    decreases g.len()
{
    if g.len() == 0 { lemma_lexes_empty(S0()); } else {
        assert forall|i: int| 0 <= i < g.skip(1).len() implies ((#[trigger] g.skip(1)[i]) matches Some(c) ==> wf_comment(c)) by { assert(g.skip(1)[i] == g[i + 1]); }
        lemma_lex_gap(g.skip(1));
        match g[0] {
            None => {
                assert(lexes(S0(), lf(), seq![(NEWLINE, lf())], S0())) by {
                    assert forall|b: Seq<char>| #[trigger] tokens_of(S0(), lf() + b) == seq![(NEWLINE, lf())] + tokens_of(S0(), b) by { lemma_lex_nl(S0(), b); }
                }
            }
            Some(c) => { lemma_lex_comment_line(c); }
        }
        lemma_lexes_compose(S0(), gap_line_text(g[0]), gap_line_toks(g[0]), S0(), gap_text(g.skip(1)), gap_toks(g.skip(1)), S0());
    }
}
/// whitespace, first value line and its newline, right after "Name:"
pub proof fn lemma_lex_first(f: FieldM)
    requires wf_field(f)
    ensures lexes(SV(), f.ws + f.first + lf(), first_toks(f), S0())
{
    assert forall|b: Seq<char>| #[trigger] tokens_of(SV(), (f.ws + f.first + lf()) + b) == first_toks(f) + tokens_of(S0(), b) by {
        let r = f.first + (lf() + b);
        assert((f.ws + f.first + lf()) + b =~= f.ws + r);
        assert(r[0] == if f.first.len() > 0 { f.first[0] } else { '\n' });
        lemma_lex_nl(SV(), b);
        if f.first.len() > 0 { lemma_lex_value(SV(), f.first, b); } else { assert(r =~= lf() + b); }
        if f.ws.len() > 0 { lemma_lex_ws(SV(), f.ws, r); } else { assert(f.ws + r =~= r); }
        assert(first_toks(f) + tokens_of(S0(), b) =~= opt_tok(WHITESPACE, f.ws) + (opt_tok(VALUE, f.first) + (seq![(NEWLINE, lf())] + tokens_of(S0(), b))));
        assert(tokens_of(SV(), r) =~= opt_tok(VALUE, f.first) + (seq![(NEWLINE, lf())] + tokens_of(S0(), b)));
        assert(tokens_of(SV(), f.ws + r) =~= opt_tok(WHITESPACE, f.ws) + tokens_of(SV(), r));
    }
}
pub proof fn lemma_lex_cont(k: ContM)
    requires wf_cont(k)
    ensures lexes(S0(), k.indent + k.text + lf(), cont_toks3(k), S0())
{
    assert forall|b: Seq<char>| #[trigger] tokens_of(S0(), (k.indent + k.text + lf()) + b) == cont_toks3(k) + tokens_of(S0(), b) by {
        let r = k.text + (lf() + b);
        assert((k.indent + k.text + lf()) + b =~= k.indent + r);
        assert(r[0] == k.text[0]);
        lemma_lex_ws(S0(), k.indent, r);
        lemma_lex_value(SI(), k.text, b);
        lemma_lex_nl(SI(), b);
        assert(seq![(INDENT, k.indent)] + (seq![(VALUE, k.text)] + (seq![(NEWLINE, lf())] + tokens_of(S0(), b))) =~= cont_toks3(k) + tokens_of(S0(), b));
    }
}
pub proof fn lemma_lex_conts(ks: Seq<ContM>)
    requires forall|i: int| 0 <= i < ks.len() ==> wf_cont(#[trigger] ks[i])
    ensures lexes(S0(), conts_text(ks), conts_toks(ks), S0())
    decreases ks.len()
{
    if ks.len() == 0 { lemma_lexes_empty(S0()); } else {
        assert forall|i: int| 0 <= i < ks.skip(1).len() implies wf_cont(#[trigger] ks.skip(1)[i]) by { assert(ks.skip(1)[i] == ks[i + 1]); }
        lemma_lex_cont(ks[0]);
        lemma_lex_conts(ks.skip(1));
        lemma_lexes_compose(S0(), ks[0].indent + ks[0].text + lf(), cont_toks3(ks[0]), S0(), conts_text(ks.skip(1)), conts_toks(ks.skip(1)), S0());
    }
}
pub proof fn lemma_lex_field(f: FieldM)
    requires wf_field(f)
    ensures lexes(S0(), field_text(f), field_toks(f), S0())
{
    lemma_lex_comments(f.comments);
    lemma_lex_key_colon(f.name);
    lemma_lex_first(f);
    lemma_lex_conts(f.conts);
    let t1 = seq![(KEY, f.name), (COLON, colon())];
    lemma_lexes_compose(S0(), f.name + colon(), t1, SV(), f.ws + f.first + lf(), first_toks(f), S0());
    lemma_lexes_compose(S0(), (f.name + colon()) + (f.ws + f.first + lf()), t1 + first_toks(f), S0(), conts_text(f.conts), conts_toks(f.conts), S0());
    lemma_lexes_compose(S0(), comments_text(f.comments), comments_toks(f.comments), S0(), entry_text(f), entry_toks(f), S0());
}
pub proof fn lemma_lex_fields(fs: Seq<FieldM>)
    requires forall|i: int| 0 <= i < fs.len() ==> wf_field(#[trigger] fs[i])
    ensures lexes(S0(), fields_text(fs), fields_toks(fs), S0())
    decreases fs.len()
{
    if fs.len() == 0 { lemma_lexes_empty(S0()); } else {
        assert forall|i: int| 0 <= i < fs.skip(1).len() implies wf_field(#[trigger] fs.skip(1)[i]) by { assert(fs.skip(1)[i] == fs[i + 1]); }
        lemma_lex_field(fs[0]);
        lemma_lex_fields(fs.skip(1));
        lemma_lexes_compose(S0(), field_text(fs[0]), field_toks(fs[0]), S0(), fields_text(fs.skip(1)), fields_toks(fs.skip(1)), S0());
    }
}
pub proof fn lemma_lex_para(p: ParaM)
    requires wf_para(p)
    ensures lexes(S0(), para_text(p), para_toks(p), S0())
{
    lemma_lex_fields(p.fields);
    lemma_lex_comments(p.trailing);
    lemma_lex_gap(p.gap);
    lemma_lexes_compose(S0(), fields_text(p.fields), fields_toks(p.fields), S0(), comments_text(p.trailing), comments_toks(p.trailing), S0());
    lemma_lexes_compose(S0(), fields_text(p.fields) + comments_text(p.trailing), fields_toks(p.fields) + comments_toks(p.trailing), S0(), gap_text(p.gap), gap_toks(p.gap), S0());
}
pub proof fn lemma_lex_paras(ps: Seq<ParaM>)
    requires wf_paras(ps)
    ensures lexes(S0(), paras_text(ps), paras_toks(ps), S0())
    decreases ps.len()
{
    if ps.len() == 0 { lemma_lexes_empty(S0()); } else {
        lemma_lex_para(ps[0]);
        lemma_lex_paras(ps.skip(1));
        lemma_lexes_compose(S0(), para_text(ps[0]), para_toks(ps[0]), S0(), paras_text(ps.skip(1)), paras_toks(ps.skip(1)), S0());
    }
}
/// the tokens of a well-formed document
pub proof fn lemma_lex_doc(d: DocM)
    requires wf_doc(d)
    ensures tokens_of(S0(), doc_text(d)) == doc_toks(d)
{
    lemma_lex_gap(d.lead);
    lemma_lex_paras(d.paras);
    lemma_lexes_compose(S0(), gap_text(d.lead), gap_toks(d.lead), S0(), paras_text(d.paras), paras_toks(d.paras), S0());
    let e = Seq::<char>::empty();
    assert(doc_text(d) + e =~= doc_text(d));
    assert(tokens_of(S0(), doc_text(d) + e) == doc_toks(d) + tokens_of(S0(), e));
    assert(doc_toks(d) + tokens_of(S0(), e) =~= doc_toks(d));
}
