// ---------------------------------------------------------------------------------------------
// C03: the deb822 grammar of the statement as a generator (DocM), its text, and the theorem
//
//   theorem_wellformed_accepted:  wf_doc(d) ==> the strict reader accepts doc_text(d) (no error) and the
//                                 tree it builds exposes exactly doc_content(d)
//
// over the three contracts proved on the real code: lexer == tokens_of, parser == p_root, accessors ==
// t_paragraphs / t_items / entries_get / ... of the tree.
// ---------------------------------------------------------------------------------------------
/// a continuation line: its indentation (spaces/tabs, at least one) and its text
pub ghost struct ContM { pub indent: Seq<char>, pub text: Seq<char> }
/// a field: whole-line comments in front of it, `name`, ':', whitespace, the first value line, continuation lines
pub ghost struct FieldM {
    pub comments: Seq<Seq<char>>,
    pub name: Seq<char>,
    pub ws: Seq<char>,
    pub first: Seq<char>,
    pub conts: Seq<ContM>,
}
/// a paragraph: fields, comment lines after the last field, then the blank (None) / comment (Some) lines that follow it
pub ghost struct ParaM { pub fields: Seq<FieldM>, pub trailing: Seq<Seq<char>>, pub gap: Seq<Option<Seq<char>>> }
/// a document: blank / comment lines, then the paragraphs
pub ghost struct DocM { pub lead: Seq<Option<Seq<char>>>, pub paras: Seq<ParaM> }

// ---- well-formedness (the statement's domain) ----------------------------------------------------------------
pub open spec fn wf_comment(c: Seq<char>) -> bool { c.len() > 0 && c[0] == '#' && no_nl(c) }
pub open spec fn wf_comments(cs: Seq<Seq<char>>) -> bool { forall|i: int| 0 <= i < cs.len() ==> wf_comment(#[trigger] cs[i]) }
/// continuation text: non-empty, no leading whitespace, not beginning with '#' (an indented '#' line is a comment)
pub open spec fn wf_cont(k: ContM) -> bool {
    &&& k.indent.len() > 0 && all_indent(k.indent)
    &&& k.text.len() > 0 && no_nl(k.text) && !is_indent_s(k.text[0]) && k.text[0] != '#'
}
pub open spec fn wf_field(f: FieldM) -> bool {
    &&& wf_comments(f.comments)
    &&& valid_name(f.name)
    &&& all_indent(f.ws)
    &&& no_nl(f.first) && (f.first.len() > 0 ==> !is_indent_s(f.first[0]))
    &&& forall|i: int| 0 <= i < f.conts.len() ==> wf_cont(#[trigger] f.conts[i])
}
pub open spec fn wf_gap(g: Seq<Option<Seq<char>>>) -> bool { forall|i: int| 0 <= i < g.len() ==> ((#[trigger] g[i]) matches Some(c) ==> wf_comment(c)) }
/// comments directly in front of the first field are top-level lines; a gap begins with a blank line
pub open spec fn wf_para(p: ParaM) -> bool {
    &&& p.fields.len() > 0 && p.fields[0].comments.len() == 0
    &&& forall|i: int| 0 <= i < p.fields.len() ==> wf_field(#[trigger] p.fields[i])
    &&& wf_comments(p.trailing)
    &&& wf_gap(p.gap) && (p.gap.len() > 0 ==> p.gap[0] is None)
}
/// paragraphs are separated by at least one blank line
pub open spec fn wf_paras(ps: Seq<ParaM>) -> bool
    decreases ps.len()
{
    ps.len() == 0 || (wf_para(ps[0]) && (ps.len() > 1 ==> ps[0].gap.len() > 0) && wf_paras(ps.skip(1)))
}
pub open spec fn wf_doc(d: DocM) -> bool { wf_gap(d.lead) && wf_paras(d.paras) }

// ---- what the document says ---------------------------------------------------------------------------------------
pub open spec fn cont_texts(ks: Seq<ContM>) -> Seq<Seq<char>> { ks.map_values(|k: ContM| k.text) }
/// the value: its (non-empty) lines joined by newlines, indentation and the whitespace after the colon removed
pub open spec fn field_value(f: FieldM) -> Seq<char> {
    join_seqs((if f.first.len() > 0 { seq![f.first] } else { Seq::empty() }) + cont_texts(f.conts), seq!['\n'])
}
pub open spec fn para_content(p: ParaM) -> Seq<Pair> { p.fields.map_values(|f: FieldM| (f.name, field_value(f))) }
pub open spec fn doc_content(d: DocM) -> Seq<Seq<Pair>> { d.paras.map_values(|p: ParaM| para_content(p)) }

// ---- the text ---------------------------------------------------------------------------------------------------------
pub open spec fn comments_text(cs: Seq<Seq<char>>) -> Seq<char>
    decreases cs.len()
{
    if cs.len() == 0 { Seq::empty() } else { (cs[0] + lf()) + comments_text(cs.skip(1)) }
}
pub open spec fn conts_text(ks: Seq<ContM>) -> Seq<char>
    decreases ks.len()
{
    if ks.len() == 0 { Seq::empty() } else { (ks[0].indent + ks[0].text + lf()) + conts_text(ks.skip(1)) }
}
pub open spec fn entry_text(f: FieldM) -> Seq<char> { (f.name + colon()) + (f.ws + f.first + lf()) + conts_text(f.conts) }
pub open spec fn field_text(f: FieldM) -> Seq<char> { comments_text(f.comments) + entry_text(f) }
pub open spec fn fields_text(fs: Seq<FieldM>) -> Seq<char>
    decreases fs.len()
{
    if fs.len() == 0 { Seq::empty() } else { field_text(fs[0]) + fields_text(fs.skip(1)) }
}
pub open spec fn gap_line_text(g: Option<Seq<char>>) -> Seq<char> { match g { None => lf(), Some(c) => c + lf() } }
pub open spec fn gap_text(g: Seq<Option<Seq<char>>>) -> Seq<char>
    decreases g.len()
{
    if g.len() == 0 { Seq::empty() } else { gap_line_text(g[0]) + gap_text(g.skip(1)) }
}
pub open spec fn para_text(p: ParaM) -> Seq<char> { fields_text(p.fields) + comments_text(p.trailing) + gap_text(p.gap) }
pub open spec fn paras_text(ps: Seq<ParaM>) -> Seq<char>
    decreases ps.len()
{
    if ps.len() == 0 { Seq::empty() } else { para_text(ps[0]) + paras_text(ps.skip(1)) }
}
pub open spec fn doc_text(d: DocM) -> Seq<char> { gap_text(d.lead) + paras_text(d.paras) }

// ---- its tokens ---------------------------------------------------------------------------------------------------------
pub open spec fn comment_toks2(c: Seq<char>) -> Seq<Tok> { seq![(COMMENT, c), (NEWLINE, lf())] }
pub open spec fn comments_toks(cs: Seq<Seq<char>>) -> Seq<Tok>
    decreases cs.len()
{
    if cs.len() == 0 { Seq::empty() } else { comment_toks2(cs[0]) + comments_toks(cs.skip(1)) }
}
pub open spec fn cont_toks3(k: ContM) -> Seq<Tok> { seq![(INDENT, k.indent), (VALUE, k.text), (NEWLINE, lf())] }
pub open spec fn conts_toks(ks: Seq<ContM>) -> Seq<Tok>
    decreases ks.len()
{
    if ks.len() == 0 { Seq::empty() } else { cont_toks3(ks[0]) + conts_toks(ks.skip(1)) }
}
pub open spec fn opt_tok(k: SyntaxKind, t: Seq<char>) -> Seq<Tok> { if t.len() > 0 { seq![(k, t)] } else { Seq::empty() } }
pub open spec fn first_toks(f: FieldM) -> Seq<Tok> { opt_tok(WHITESPACE, f.ws) + opt_tok(VALUE, f.first) + seq![(NEWLINE, lf())] }
pub open spec fn entry_toks(f: FieldM) -> Seq<Tok> { seq![(KEY, f.name), (COLON, colon())] + first_toks(f) + conts_toks(f.conts) }
pub open spec fn field_toks(f: FieldM) -> Seq<Tok> { comments_toks(f.comments) + entry_toks(f) }
pub open spec fn fields_toks(fs: Seq<FieldM>) -> Seq<Tok>
    decreases fs.len()
{
    if fs.len() == 0 { Seq::empty() } else { field_toks(fs[0]) + fields_toks(fs.skip(1)) }
}
pub open spec fn gap_line_toks(g: Option<Seq<char>>) -> Seq<Tok> { match g { None => seq![(NEWLINE, lf())], Some(c) => comment_toks2(c) } }
pub open spec fn gap_toks(g: Seq<Option<Seq<char>>>) -> Seq<Tok>
    decreases g.len()
{
    if g.len() == 0 { Seq::empty() } else { gap_line_toks(g[0]) + gap_toks(g.skip(1)) }
}
pub open spec fn para_toks(p: ParaM) -> Seq<Tok> { fields_toks(p.fields) + comments_toks(p.trailing) + gap_toks(p.gap) }
pub open spec fn paras_toks(ps: Seq<ParaM>) -> Seq<Tok>
    decreases ps.len()
{
    if ps.len() == 0 { Seq::empty() } else { para_toks(ps[0]) + paras_toks(ps.skip(1)) }
}
pub open spec fn doc_toks(d: DocM) -> Seq<Tok> { gap_toks(d.lead) + paras_toks(d.paras) }

// ---- lexing --------------------------------------------------------------------------------------------------------------
pub proof fn lemma_lex_comment_line(c: Seq<char>)
    requires wf_comment(c)
    ensures lexes(S0(), c + lf(), comment_toks2(c), S0())
{
    assert forall|b: Seq<char>| #[trigger] tokens_of(S0(), (c + lf()) + b) == comment_toks2(c) + tokens_of(S0(), b) by {
        assert((c + lf()) + b =~= c + (lf() + b));
        lemma_lex_comment(S0(), c, b);
        lemma_lex_nl(S0(), b);
        assert(seq![(COMMENT, c)] + (seq![(NEWLINE, lf())] + tokens_of(S0(), b)) =~= comment_toks2(c) + tokens_of(S0(), b));
    }
}
pub proof fn lemma_lex_comments(cs: Seq<Seq<char>>)
    requires wf_comments(cs)
    ensures lexes(S0(), comments_text(cs), comments_toks(cs), S0())
    decreases cs.len()
{
    if cs.len() == 0 { lemma_lexes_empty(S0()); } else {
        assert forall|i: int| 0 <= i < cs.skip(1).len() implies wf_comment(#[trigger] cs.skip(1)[i]) by { assert(cs.skip(1)[i] == cs[i + 1]); }
        lemma_lex_comment_line(cs[0]);
        lemma_lex_comments(cs.skip(1));
        lemma_lexes_compose(S0(), cs[0] + lf(), comment_toks2(cs[0]), S0(), comments_text(cs.skip(1)), comments_toks(cs.skip(1)), S0());
    }
}
pub proof fn lemma_lex_gap(g: Seq<Option<Seq<char>>>)
    requires wf_gap(g)
    ensures lexes(S0(), gap_text(g), gap_toks(g), S0())
    decreases g.len()
{
    if g.len() == 0 { lemma_lexes_empty(S0()); } else {
        assert forall|i: int| 0 <= i < g.skip(1).len() implies ((#[trigger] g.skip(1)[i]) matches Some(c) ==> wf_comment(c)) by { assert(g.skip(1)[i] == g[i + 1]); }
        lemma_lex_gap(g.skip(1));
        match g[0] {
            None => {
                assert(lexes(S0(), lf(), seq![(NEWLINE, lf())], S0())) by {
                    assert forall|b: Seq<char>| #[trigger] tokens_of(S0(), lf() + b) == seq![(NEWLINE, lf())] + tokens_of(S0(), b) by { lemma_lex_nl(S0(), b); }
                }
            }
            Some(c) => { lemma_lex_comment_line(c); }
        }
        lemma_lexes_compose(S0(), gap_line_text(g[0]), gap_line_toks(g[0]), S0(), gap_text(g.skip(1)), gap_toks(g.skip(1)), S0());
    }
}
/// whitespace, first value line and its newline, right after "Name:"
pub proof fn lemma_lex_first(f: FieldM)
    requires wf_field(f)
    ensures lexes(SV(), f.ws + f.first + lf(), first_toks(f), S0())
{
    assert forall|b: Seq<char>| #[trigger] tokens_of(SV(), (f.ws + f.first + lf()) + b) == first_toks(f) + tokens_of(S0(), b) by {
        let r = f.first + (lf() + b);
        assert((f.ws + f.first + lf()) + b =~= f.ws + r);
        assert(r[0] == if f.first.len() > 0 { f.first[0] } else { '\n' });
        lemma_lex_nl(SV(), b);
        if f.first.len() > 0 { lemma_lex_value(SV(), f.first, b); } else { assert(r =~= lf() + b); }
        if f.ws.len() > 0 { lemma_lex_ws(SV(), f.ws, r); } else { assert(f.ws + r =~= r); }
        assert(first_toks(f) + tokens_of(S0(), b) =~= opt_tok(WHITESPACE, f.ws) + (opt_tok(VALUE, f.first) + (seq![(NEWLINE, lf())] + tokens_of(S0(), b))));
        assert(tokens_of(SV(), r) =~= opt_tok(VALUE, f.first) + (seq![(NEWLINE, lf())] + tokens_of(S0(), b)));
        assert(tokens_of(SV(), f.ws + r) =~= opt_tok(WHITESPACE, f.ws) + tokens_of(SV(), r));
    }
}
pub proof fn lemma_lex_cont(k: ContM)
    requires wf_cont(k)
    ensures lexes(S0(), k.indent + k.text + lf(), cont_toks3(k), S0())
{
    assert forall|b: Seq<char>| #[trigger] tokens_of(S0(), (k.indent + k.text + lf()) + b) == cont_toks3(k) + tokens_of(S0(), b) by {
        let r = k.text + (lf() + b);
        assert((k.indent + k.text + lf()) + b =~= k.indent + r);
        assert(r[0] == k.text[0]);
        lemma_lex_ws(S0(), k.indent, r);
        lemma_lex_value(SI(), k.text, b);
        lemma_lex_nl(SI(), b);
        assert(seq![(INDENT, k.indent)] + (seq![(VALUE, k.text)] + (seq![(NEWLINE, lf())] + tokens_of(S0(), b))) =~= cont_toks3(k) + tokens_of(S0(), b));
    }
}
pub proof fn lemma_lex_conts(ks: Seq<ContM>)
    requires forall|i: int| 0 <= i < ks.len() ==> wf_cont(#[trigger] ks[i])
    ensures lexes(S0(), conts_text(ks), conts_toks(ks), S0())
    decreases ks.len()
{
    if ks.len() == 0 { lemma_lexes_empty(S0()); } else {
        assert forall|i: int| 0 <= i < ks.skip(1).len() implies wf_cont(#[trigger] ks.skip(1)[i]) by { assert(ks.skip(1)[i] == ks[i + 1]); }
        lemma_lex_cont(ks[0]);
        lemma_lex_conts(ks.skip(1));
        lemma_lexes_compose(S0(), ks[0].indent + ks[0].text + lf(), cont_toks3(ks[0]), S0(), conts_text(ks.skip(1)), conts_toks(ks.skip(1)), S0());
    }
}
pub proof fn lemma_lex_field(f: FieldM)
    requires wf_field(f)
    ensures lexes(S0(), field_text(f), field_toks(f), S0())
{
    lemma_lex_comments(f.comments);
    lemma_lex_key_colon(f.name);
    lemma_lex_first(f);
    lemma_lex_conts(f.conts);
    let t1 = seq![(KEY, f.name), (COLON, colon())];
    lemma_lexes_compose(S0(), f.name + colon(), t1, SV(), f.ws + f.first + lf(), first_toks(f), S0());
    lemma_lexes_compose(S0(), (f.name + colon()) + (f.ws + f.first + lf()), t1 + first_toks(f), S0(), conts_text(f.conts), conts_toks(f.conts), S0());
    lemma_lexes_compose(S0(), comments_text(f.comments), comments_toks(f.comments), S0(), entry_text(f), entry_toks(f), S0());
}
pub proof fn lemma_lex_fields(fs: Seq<FieldM>)
    requires forall|i: int| 0 <= i < fs.len() ==> wf_field(#[trigger] fs[i])
    ensures lexes(S0(), fields_text(fs), fields_toks(fs), S0())
    decreases fs.len()
{
    if fs.len() == 0 { lemma_lexes_empty(S0()); } else {
        assert forall|i: int| 0 <= i < fs.skip(1).len() implies wf_field(#[trigger] fs.skip(1)[i]) by { assert(fs.skip(1)[i] == fs[i + 1]); }
        lemma_lex_field(fs[0]);
        lemma_lex_fields(fs.skip(1));
        lemma_lexes_compose(S0(), field_text(fs[0]), field_toks(fs[0]), S0(), fields_text(fs.skip(1)), fields_toks(fs.skip(1)), S0());
    }
}
pub proof fn lemma_lex_para(p: ParaM)
    requires wf_para(p)
    ensures lexes(S0(), para_text(p), para_toks(p), S0())
{
    lemma_lex_fields(p.fields);
    lemma_lex_comments(p.trailing);
    lemma_lex_gap(p.gap);
    lemma_lexes_compose(S0(), fields_text(p.fields), fields_toks(p.fields), S0(), comments_text(p.trailing), comments_toks(p.trailing), S0());
    lemma_lexes_compose(S0(), fields_text(p.fields) + comments_text(p.trailing), fields_toks(p.fields) + comments_toks(p.trailing), S0(), gap_text(p.gap), gap_toks(p.gap), S0());
}
pub proof fn lemma_lex_paras(ps: Seq<ParaM>)
    requires wf_paras(ps)
    ensures lexes(S0(), paras_text(ps), paras_toks(ps), S0())
    decreases ps.len()
{
    if ps.len() == 0 { lemma_lexes_empty(S0()); } else {
        lemma_lex_para(ps[0]);
        lemma_lex_paras(ps.skip(1));
        lemma_lexes_compose(S0(), para_text(ps[0]), para_toks(ps[0]), S0(), paras_text(ps.skip(1)), paras_toks(ps.skip(1)), S0());
    }
}
/// the tokens of a well-formed document
pub proof fn lemma_lex_doc(d: DocM)
    requires wf_doc(d)
    ensures tokens_of(S0(), doc_text(d)) == doc_toks(d)
{
    lemma_lex_gap(d.lead);
    lemma_lex_paras(d.paras);
    lemma_lexes_compose(S0(), gap_text(d.lead), gap_toks(d.lead), S0(), paras_text(d.paras), paras_toks(d.paras), S0());
    let e = Seq::<char>::empty();
    assert(doc_text(d) + e =~= doc_text(d));
    assert(tokens_of(S0(), doc_text(d) + e) == doc_toks(d) + tokens_of(S0(), e));
    assert(doc_toks(d) + tokens_of(S0(), e) =~= doc_toks(d));
}

// ---- the tree ----------------------------------------------------------------------------------------------------------
pub open spec fn leaves(ts: Seq<Tok>) -> Seq<Tree> { ts.map_values(|t: Tok| leaf(t)) }
pub open spec fn entry_tree(f: FieldM) -> Tree { node(ENTRY, leaves(entry_toks(f))) }
pub open spec fn field_elems(f: FieldM) -> Seq<Tree> { leaves(comments_toks(f.comments)).push(entry_tree(f)) }
pub open spec fn fields_elems(fs: Seq<FieldM>) -> Seq<Tree>
    decreases fs.len()
{
    if fs.len() == 0 { Seq::empty() } else { field_elems(fs[0]) + fields_elems(fs.skip(1)) }
}
pub open spec fn para_tree(p: ParaM) -> Tree { node(PARAGRAPH, fields_elems(p.fields) + leaves(comments_toks(p.trailing))) }
pub open spec fn gap_line_tree(g: Option<Seq<char>>) -> Tree { node(EMPTY_LINE, leaves(gap_line_toks(g))) }
pub open spec fn gap_trees(g: Seq<Option<Seq<char>>>) -> Seq<Tree>
    decreases g.len()
{
    if g.len() == 0 { Seq::empty() } else { seq![gap_line_tree(g[0])] + gap_trees(g.skip(1)) }
}
pub open spec fn paras_trees(ps: Seq<ParaM>) -> Seq<Tree>
    decreases ps.len()
{
    if ps.len() == 0 { Seq::empty() } else { (seq![para_tree(ps[0])] + gap_trees(ps[0].gap)) + paras_trees(ps.skip(1)) }
}
pub open spec fn doc_tree(d: DocM) -> Tree { node(ROOT, gap_trees(d.lead) + paras_trees(d.paras)) }

pub proof fn lemma_leaves_add(a: Seq<Tok>, b: Seq<Tok>)
    ensures leaves(a + b) == leaves(a) + leaves(b)
{
    assert(leaves(a + b) =~= leaves(a) + leaves(b));
}

// ---- parsing the tokens ---------------------------------------------------------------------------------------------
/// the next token does not continue an entry
pub open spec fn not_indent(t: Seq<Tok>) -> bool { t.len() == 0 || t[0].0 != INDENT }
/// the next token ends a paragraph
pub open spec fn para_end(t: Seq<Tok>) -> bool { t.len() == 0 || t[0].0 == NEWLINE }

pub proof fn lemma_parse_comments(cs: Seq<Seq<char>>, t: Seq<Tok>)
    ensures
        p_entry_comments(comments_toks(cs) + t).0 == leaves(comments_toks(cs)) + p_entry_comments(t).0,
        p_entry_comments(comments_toks(cs) + t).1 == p_entry_comments(t).1,
        p_entry_comments(comments_toks(cs) + t).2 == p_entry_comments(t).2,
        p_entry_comments(comments_toks(cs) + t).3 == p_entry_comments(t).3,
    decreases cs.len()
{
    if cs.len() == 0 {
        assert(comments_toks(cs) + t =~= t);
        assert(leaves(comments_toks(cs)) + p_entry_comments(t).0 =~= p_entry_comments(t).0);
    } else {
        let rest = comments_toks(cs.skip(1)) + t;
        let ts = comments_toks(cs) + t;
        lemma_parse_comments(cs.skip(1), t);
        assert(ts =~= comment_toks2(cs[0]) + rest);
        assert(ts[0] == (COMMENT, cs[0]));
        let t1 = ts.skip(1);
        assert(t1[0] == (NEWLINE, lf()));
        assert(t1.skip(1) =~= rest);
        lemma_leaves_add(comment_toks2(cs[0]), comments_toks(cs.skip(1)));
        assert(leaves(comment_toks2(cs[0])) =~= seq![leaf(ts[0]), leaf(t1[0])]);
        assert(leaves(comments_toks(cs)) + p_entry_comments(t).0 =~= seq![leaf(ts[0]), leaf(t1[0])] + (leaves(comments_toks(cs.skip(1))) + p_entry_comments(t).0));
    }
}
/// value lines: an optional VALUE, NEWLINE, then the continuation lines
pub proof fn lemma_parse_lines(v: Seq<Tok>, ks: Seq<ContM>, t: Seq<Tok>)
    requires not_indent(t), v.len() == 0 || (v.len() == 1 && v[0].0 == VALUE)
    ensures p_lines(v + seq![(NEWLINE, lf())] + conts_toks(ks) + t) == (leaves(v + seq![(NEWLINE, lf())] + conts_toks(ks)), t, 0nat)
    decreases ks.len()
{
    let nl = seq![(NEWLINE, lf())];
    let ts = v + nl + conts_toks(ks) + t;
    let after = nl + (conts_toks(ks) + t);
    // the value run
    assert(ts =~= v + after);
    assert(after[0].0 == NEWLINE);
    if v.len() == 1 {
        assert(ts[0] == v[0]);
        assert(ts.skip(1) =~= after);
        assert(p_value_run(after) == (Seq::<Tree>::empty(), after));
        assert(p_value_run(ts) == (seq![leaf(v[0])] + Seq::<Tree>::empty(), after));
        assert(leaves(v) =~= seq![leaf(v[0])] + Seq::<Tree>::empty());
    } else {
        assert(ts =~= after);
        assert(leaves(v) =~= Seq::<Tree>::empty());
    }
    assert(p_value_run(ts) == (leaves(v), after));
    let t2 = after.skip(1);
    assert(t2 =~= conts_toks(ks) + t);
    if ks.len() == 0 {
        assert(t2 =~= t);
        assert(leaves(v + nl + conts_toks(ks)) =~= leaves(v) + seq![leaf(after[0])]);
    } else {
        let k = ks[0];
        let rest = conts_toks(ks.skip(1)) + t;
        assert(t2 =~= cont_toks3(k) + rest);
        assert(t2[0] == (INDENT, k.indent));
        let t3 = t2.skip(1);
        assert(t3[0] == (VALUE, k.text));
        assert(p_skip_ws(t3) == (Seq::<Tree>::empty(), t3));
        let v2 = seq![(VALUE, k.text)];
        assert(t3 =~= v2 + nl + conts_toks(ks.skip(1)) + t);
        lemma_parse_lines(v2, ks.skip(1), t);
        let r = p_lines(t3);
        assert(t3.len() < ts.len());
        assert(p_lines(ts) == (leaves(v) + seq![leaf(after[0]), leaf(t2[0])] + Seq::<Tree>::empty() + r.0, r.1, 0 + r.2));
        assert(leaves(v + nl + conts_toks(ks)) =~= leaves(v) + seq![leaf(after[0]), leaf(t2[0])] + Seq::<Tree>::empty() + leaves(v2 + nl + conts_toks(ks.skip(1))));
    }
}
pub proof fn lemma_parse_entry(f: FieldM, t: Seq<Tok>)
    requires not_indent(t), f.name.len() > 0
    ensures p_entry(field_toks(f) + t) == (field_elems(f), t, 0nat)
{
    let nl = seq![(NEWLINE, lf())];
    let et = entry_toks(f) + t;
    lemma_parse_comments(f.comments, et);
    assert(field_toks(f) + t =~= comments_toks(f.comments) + et);
    assert(et[0] == (KEY, f.name));
    assert(p_entry_comments(et) == (Seq::<Tree>::empty(), et, 0nat, false));
    let c = p_entry_comments(field_toks(f) + t);
    assert(c.0 =~= leaves(comments_toks(f.comments)));
    assert(c.1 == et);
    // key
    let e1 = et.skip(1);
    assert(e1[0] == (COLON, colon()));
    assert(p_skip_ws(e1) == (Seq::<Tree>::empty(), e1));
    let k = p_expect(et, KEY);
    assert(k.0 =~= seq![leaf(et[0])] && k.1 == e1 && k.2 == 0);
    // colon and the whitespace after it
    let e2 = e1.skip(1);
    let vt = opt_tok(VALUE, f.first);
    let tail = vt + nl + conts_toks(f.conts) + t;
    assert(e2 =~= opt_tok(WHITESPACE, f.ws) + tail);
    assert(tail[0].0 == VALUE || tail[0].0 == NEWLINE);
    assert(p_skip_ws(tail) == (Seq::<Tree>::empty(), tail));
    if f.ws.len() > 0 {
        assert(e2[0] == (WHITESPACE, f.ws));
        assert(e2.skip(1) =~= tail);
        assert(p_skip_ws(e2) == (seq![leaf(e2[0])] + Seq::<Tree>::empty(), tail));
    } else {
        assert(e2 =~= tail);
    }
    let co = p_expect(e1, COLON);
    assert(co.0 =~= seq![leaf(e1[0])] + leaves(opt_tok(WHITESPACE, f.ws)));
    assert(co.1 == tail && co.2 == 0);
    // the value lines
    lemma_parse_lines(vt, f.conts, t);
    let l = p_lines(tail);
    assert(l == (leaves(vt + nl + conts_toks(f.conts)), t, 0nat));
    assert(k.0 + co.0 + l.0 =~= leaves(entry_toks(f))) by {
        assert(entry_toks(f) =~= seq![(KEY, f.name), (COLON, colon())] + opt_tok(WHITESPACE, f.ws) + (vt + nl + conts_toks(f.conts)));
    }
}
pub proof fn lemma_parse_fields(fs: Seq<FieldM>, tr: Seq<Seq<char>>, t: Seq<Tok>)
    requires para_end(t), forall|i: int| 0 <= i < fs.len() ==> (#[trigger] fs[i]).name.len() > 0
    ensures p_entries(fields_toks(fs) + comments_toks(tr) + t) == (fields_elems(fs) + leaves(comments_toks(tr)), t, 0nat)
    decreases fs.len()
{
    let ts = fields_toks(fs) + comments_toks(tr) + t;
    if fs.len() == 0 {
        assert(ts =~= comments_toks(tr) + t);
        assert(fields_elems(fs) + leaves(comments_toks(tr)) =~= leaves(comments_toks(tr)));
        assert(p_entry_comments(t) == (Seq::<Tree>::empty(), t, 0nat, false));
        if tr.len() == 0 {
            assert(comments_toks(tr) + t =~= t);
            assert(leaves(comments_toks(tr)) =~= Seq::<Tree>::empty());
        } else {
            assert(ts[0] == (COMMENT, tr[0])) by { assert(comments_toks(tr) =~= comment_toks2(tr[0]) + comments_toks(tr.skip(1))); }
            lemma_parse_comments(tr, t);
            let c = p_entry_comments(ts);
            assert(c.0 =~= leaves(comments_toks(tr)));
            assert(p_entry(ts) == (c.0, t, 0nat));
            assert(p_entries(t) == (Seq::<Tree>::empty(), t, 0nat));
            assert(t.len() < ts.len());
            assert(c.0 + Seq::<Tree>::empty() =~= c.0);
        }
    } else {
        let f = fs[0];
        let rest = fields_toks(fs.skip(1)) + comments_toks(tr) + t;
        assert(ts =~= field_toks(f) + rest);
        // the next token after a field is a COMMENT, a KEY, a NEWLINE or the end: never INDENT
        assert(not_indent(rest)) by {
            if fs.len() > 1 {
                let g = fs[1];
                assert(fields_toks(fs.skip(1)) =~= field_toks(g) + fields_toks(fs.skip(1).skip(1)));
                if g.comments.len() > 0 { assert(comments_toks(g.comments) =~= comment_toks2(g.comments[0]) + comments_toks(g.comments.skip(1))); assert(rest[0].0 == COMMENT); }
                else { assert(comments_toks(g.comments) =~= Seq::<Tok>::empty()); assert(rest[0].0 == KEY); }
            } else {
                assert(fields_toks(fs.skip(1)) =~= Seq::<Tok>::empty());
                if tr.len() > 0 { assert(comments_toks(tr) =~= comment_toks2(tr[0]) + comments_toks(tr.skip(1))); assert(rest[0].0 == COMMENT); }
                else { assert(comments_toks(tr) =~= Seq::<Tok>::empty()); assert(rest =~= t); }
            }
        }
        lemma_parse_entry(f, rest);
        assert forall|i: int| 0 <= i < fs.skip(1).len() implies (#[trigger] fs.skip(1)[i]).name.len() > 0 by { assert(fs.skip(1)[i] == fs[i + 1]); }
        lemma_parse_fields(fs.skip(1), tr, t);
        // the first token of a field is a COMMENT or its KEY
        assert(ts.len() > 0 && ts[0].0 != NEWLINE) by {
            if f.comments.len() > 0 { assert(comments_toks(f.comments) =~= comment_toks2(f.comments[0]) + comments_toks(f.comments.skip(1))); assert(ts[0].0 == COMMENT); }
            else { assert(comments_toks(f.comments) =~= Seq::<Tok>::empty()); assert(ts[0].0 == KEY); }
        }
        assert(rest.len() < ts.len());
        assert(field_elems(f) + (fields_elems(fs.skip(1)) + leaves(comments_toks(tr))) =~= fields_elems(fs) + leaves(comments_toks(tr)));
    }
}
pub proof fn lemma_parse_gap(g: Seq<Option<Seq<char>>>, t: Seq<Tok>)
    requires !starts_blank(t)
    ensures p_skip_ws_nl(gap_toks(g) + t) == (gap_trees(g), t)
    decreases g.len()
{
    let ts = gap_toks(g) + t;
    if g.len() == 0 {
        assert(ts =~= t);
    } else {
        let rest = gap_toks(g.skip(1)) + t;
        lemma_parse_gap(g.skip(1), t);
        assert(ts =~= gap_line_toks(g[0]) + rest);
        match g[0] {
            None => {
                assert(ts[0] == (NEWLINE, lf()));
                assert(ts.skip(1) =~= rest);
                assert(p_line_rest(ts) == (Seq::<Tree>::empty(), ts));
                assert(leaves(gap_line_toks(g[0])) =~= Seq::<Tree>::empty().push(leaf(ts[0])));
                assert(p_empty_line(ts) == (gap_line_tree(g[0]), rest));
            }
            Some(c) => {
                assert(ts[0] == (COMMENT, c));
                let t1 = ts.skip(1);
                assert(t1[0] == (NEWLINE, lf()));
                assert(t1.skip(1) =~= rest);
                assert(p_line_rest(t1) == (Seq::<Tree>::empty(), t1));
                assert(p_line_rest(ts) == (seq![leaf(ts[0])] + Seq::<Tree>::empty(), t1));
                assert(leaves(gap_line_toks(g[0])) =~= (seq![leaf(ts[0])] + Seq::<Tree>::empty()).push(leaf(t1[0])));
                assert(p_empty_line(ts) == (gap_line_tree(g[0]), rest));
            }
        }
        assert(starts_blank(ts));
        assert(rest.len() < ts.len());
    }
}
/// the first token of a paragraph is the KEY of its first field
pub proof fn lemma_para_head(p: ParaM, t: Seq<Tok>)
    requires wf_para(p)
    ensures (para_toks(p) + t).len() > 0, (para_toks(p) + t)[0].0 == KEY
{
    let f = p.fields[0];
    assert(comments_toks(f.comments) =~= Seq::<Tok>::empty());
    assert(fields_toks(p.fields) =~= field_toks(f) + fields_toks(p.fields.skip(1)));
    assert(field_toks(f)[0] == (KEY, f.name));
}
pub proof fn lemma_parse_items(g: Seq<Option<Seq<char>>>, ps: Seq<ParaM>)
    requires wf_paras(ps)
    ensures p_items(gap_toks(g) + paras_toks(ps)) == (gap_trees(g) + paras_trees(ps), 0nat)
    decreases ps.len()
{
    let ts = gap_toks(g) + paras_toks(ps);
    if ps.len() == 0 {
        assert(ts =~= gap_toks(g) + Seq::<Tok>::empty());
        lemma_parse_gap(g, Seq::<Tok>::empty());
        assert(gap_trees(g) + paras_trees(ps) =~= gap_trees(g));
        if ts.len() == 0 {
            assert(g.len() == 0) by { if g.len() > 0 { assert(gap_toks(g) =~= gap_line_toks(g[0]) + gap_toks(g.skip(1))); } }
        }
    } else {
        let p = ps[0];
        let pt = paras_toks(ps);
        lemma_para_head(p, paras_toks(ps.skip(1)));
        assert(pt =~= para_toks(p) + paras_toks(ps.skip(1)));
        assert(!starts_blank(pt));
        lemma_parse_gap(g, pt);
        let after = gap_toks(p.gap) + paras_toks(ps.skip(1));
        assert(pt =~= fields_toks(p.fields) + comments_toks(p.trailing) + after);
        assert(para_end(after)) by {
            if p.gap.len() > 0 { assert(gap_toks(p.gap) =~= gap_line_toks(p.gap[0]) + gap_toks(p.gap.skip(1))); assert(after[0].0 == NEWLINE); }
            else { assert(ps.len() == 1); assert(paras_toks(ps.skip(1)) =~= Seq::<Tok>::empty()); assert(gap_toks(p.gap) =~= Seq::<Tok>::empty()); assert(after.len() == 0); }
        }
        assert forall|i: int| 0 <= i < p.fields.len() implies (#[trigger] p.fields[i]).name.len() > 0 by { assert(wf_field(p.fields[i])); }
        lemma_parse_fields(p.fields, p.trailing, after);
        assert(p_paragraph(pt) == (para_tree(p), after, 0nat));
        lemma_parse_items(p.gap, ps.skip(1));
        assert(ts.len() > 0);
        assert(after.len() < ts.len());
        assert(gap_trees(g).push(para_tree(p)) + (gap_trees(p.gap) + paras_trees(ps.skip(1))) =~= gap_trees(g) + paras_trees(ps));
    }
}
/// the strict reader accepts a well-formed document and builds exactly doc_tree
pub proof fn lemma_parse_doc(d: DocM)
    requires wf_doc(d)
    ensures parse_text(doc_text(d)) == (doc_tree(d), 0nat)
{
    lemma_lex_doc(d);
    lemma_parse_items(d.lead, d.paras);
}

/// the domain is inhabited (non-vacuity witness for the theorems below)
pub proof fn lemma_wf_doc_inhabited()
    ensures exists|d: DocM| wf_doc(d) && d.paras.len() == 1 && d.lead.len() == 2 && d.paras[0].fields[0].conts.len() == 1
{
    let f = FieldM { comments: Seq::empty(), name: seq!['A'], ws: seq![' '], first: seq!['b'], conts: seq![ContM { indent: seq![' '], text: seq!['c'] }] };
    let p = ParaM { fields: seq![f], trailing: seq![seq!['#', 'x']], gap: seq![None, Some(seq!['#'])] };
    let d = DocM { lead: seq![Some(seq!['#', 'y']), None], paras: seq![p] };
    assert(wf_field(f));
    assert(wf_para(p));
    assert(seq![p].skip(1) =~= Seq::<ParaM>::empty());
    assert(wf_paras(seq![p].skip(1)));
    assert(wf_paras(seq![p]));
    assert(wf_doc(d));
}

// ---- what the accessors see in that tree ------------------------------------------------------------------------------
// (generic tree lemmas: content_spec.rs)

// ---- an entry ----
pub proof fn lemma_conts_values(ks: Seq<ContM>)
    ensures texts(kind_filter(leaves(conts_toks(ks)), VALUE)) == cont_texts(ks)
    decreases ks.len()
{
    if ks.len() == 0 {
        assert(leaves(conts_toks(ks)) =~= Seq::<Tree>::empty());
        assert(texts(kind_filter(leaves(conts_toks(ks)), VALUE)) =~= cont_texts(ks));
    } else {
        lemma_conts_values(ks.skip(1));
        let k = ks[0];
        lemma_leaves_add(cont_toks3(k), conts_toks(ks.skip(1)));
        lemma_kind_filter_add(leaves(cont_toks3(k)), leaves(conts_toks(ks.skip(1))), VALUE);
        let l3 = leaves(cont_toks3(k));
        assert(l3 =~= seq![leaf((INDENT, k.indent)), leaf((VALUE, k.text)), leaf((NEWLINE, lf()))]);
        lemma_kind3(leaf((INDENT, k.indent)), leaf((VALUE, k.text)), leaf((NEWLINE, lf())));
        assert(kind_filter(l3, VALUE) =~= seq![leaf((VALUE, k.text))]);
        assert(texts(seq![leaf((VALUE, k.text))] + kind_filter(leaves(conts_toks(ks.skip(1))), VALUE))
            =~= seq![k.text] + texts(kind_filter(leaves(conts_toks(ks.skip(1))), VALUE)));
        assert(cont_texts(ks) =~= seq![k.text] + cont_texts(ks.skip(1)));
    }
}
pub proof fn lemma_entry_tree(f: FieldM)
    ensures
        rowan::tree_kind(entry_tree(f)) == ENTRY,
        t_key(entry_tree(f)) == Some(f.name),
        t_value(entry_tree(f)) == field_value(f),
{
    let ts = entry_toks(f);
    let ls = leaves(ts);
    assert(all_toks(ls));
    lemma_child_nodes_of_toks(ls);
    assert(ts[0] == (KEY, f.name));
    assert(ls[0] == leaf(ts[0]));
    assert(first_kind(ls, KEY) == Some(ls[0]));
    // the VALUE tokens
    let nl = seq![(NEWLINE, lf())];
    let head = seq![(KEY, f.name), (COLON, colon())];
    let a = leaves(head); let b = leaves(opt_tok(WHITESPACE, f.ws)); let c = leaves(opt_tok(VALUE, f.first)); let d = leaves(nl); let e = leaves(conts_toks(f.conts));
    assert(ls =~= a + b + c + d + e);
    lemma_kind_filter_add(a + b + c + d, e, VALUE);
    lemma_kind_filter_add(a + b + c, d, VALUE);
    lemma_kind_filter_add(a + b, c, VALUE);
    lemma_kind_filter_add(a, b, VALUE);
    assert forall|i: int| 0 <= i < a.len() implies rowan::tree_kind(#[trigger] a[i]) != VALUE by {}
    lemma_kind_filter_none(a, VALUE);
    assert forall|i: int| 0 <= i < b.len() implies rowan::tree_kind(#[trigger] b[i]) != VALUE by {}
    lemma_kind_filter_none(b, VALUE);
    assert forall|i: int| 0 <= i < d.len() implies rowan::tree_kind(#[trigger] d[i]) != VALUE by {}
    lemma_kind_filter_none(d, VALUE);
    assert forall|i: int| 0 <= i < c.len() implies rowan::tree_kind(#[trigger] c[i]) == VALUE by {}
    lemma_kind_filter_all(c, VALUE);
    lemma_conts_values(f.conts);
    let e0 = Seq::<Tree>::empty();
    assert(kind_filter(ls, VALUE) =~= c + kind_filter(e, VALUE)) by {
        assert(e0 + e0 + c + e0 + kind_filter(e, VALUE) =~= c + kind_filter(e, VALUE));
    }
    assert(texts(c + kind_filter(e, VALUE)) =~= texts(c) + texts(kind_filter(e, VALUE)));
    assert(texts(c) =~= if f.first.len() > 0 { seq![f.first] } else { Seq::<Seq<char>>::empty() });
}

// ---- a paragraph ----
pub open spec fn entry_trees(fs: Seq<FieldM>) -> Seq<Tree> { fs.map_values(|f: FieldM| entry_tree(f)) }

pub proof fn lemma_fields_entries(fs: Seq<FieldM>)
    ensures rowan::child_nodes(fields_elems(fs)) == entry_trees(fs)
    decreases fs.len()
{
    if fs.len() == 0 {
        assert(rowan::child_nodes(fields_elems(fs)) =~= entry_trees(fs));
    } else {
        lemma_fields_entries(fs.skip(1));
        let f = fs[0];
        let lc = leaves(comments_toks(f.comments));
        assert(all_toks(lc));
        lemma_child_nodes_of_toks(lc);
        assert(field_elems(f) =~= lc + seq![entry_tree(f)]);
        assert(all_nodes(seq![entry_tree(f)]));
        lemma_child_nodes_of_nodes(seq![entry_tree(f)]);
        lemma_child_nodes_add(lc, seq![entry_tree(f)]);
        lemma_child_nodes_add(field_elems(f), fields_elems(fs.skip(1)));
        assert(Seq::<Tree>::empty() + seq![entry_tree(f)] + entry_trees(fs.skip(1)) =~= entry_trees(fs));
    }
}
pub proof fn lemma_entries_items(fs: Seq<FieldM>)
    ensures entries_items(entry_trees(fs)) == fs.map_values(|f: FieldM| (f.name, field_value(f)))
    decreases fs.len()
{
    let es = entry_trees(fs);
    if fs.len() == 0 {
        assert(entries_items(es) =~= fs.map_values(|f: FieldM| (f.name, field_value(f))));
    } else {
        lemma_entries_items(fs.drop_last());
        assert(es.drop_last() =~= entry_trees(fs.drop_last()));
        assert(es.last() == entry_tree(fs.last()));
        lemma_entry_tree(fs.last());
        assert(entries_items(es) =~= fs.map_values(|f: FieldM| (f.name, field_value(f))));
    }
}
pub proof fn lemma_para_tree(p: ParaM)
    ensures rowan::tree_kind(para_tree(p)) == PARAGRAPH, t_items(para_tree(p)) == para_content(p)
{
    let ch = fields_elems(p.fields) + leaves(comments_toks(p.trailing));
    let lt = leaves(comments_toks(p.trailing));
    assert(all_toks(lt));
    lemma_child_nodes_of_toks(lt);
    lemma_child_nodes_add(fields_elems(p.fields), lt);
    lemma_fields_entries(p.fields);
    let es = entry_trees(p.fields);
    assert(rowan::child_nodes(ch) =~= es);
    assert forall|i: int| 0 <= i < es.len() implies rowan::tree_kind(#[trigger] es[i]) == ENTRY by {}
    lemma_kind_filter_all(es, ENTRY);
    lemma_entries_items(p.fields);
}

// ---- the document ----
pub open spec fn para_trees(ps: Seq<ParaM>) -> Seq<Tree> { ps.map_values(|p: ParaM| para_tree(p)) }

pub proof fn lemma_gap_trees_nodes(g: Seq<Option<Seq<char>>>)
    ensures all_nodes(gap_trees(g)), kind_filter(gap_trees(g), PARAGRAPH) == Seq::<Tree>::empty()
    decreases g.len()
{
    if g.len() > 0 {
        lemma_gap_trees_nodes(g.skip(1));
        lemma_kind_filter_add(seq![gap_line_tree(g[0])], gap_trees(g.skip(1)), PARAGRAPH);
        lemma_kind_filter_single(gap_line_tree(g[0]), PARAGRAPH);
        assert(Seq::<Tree>::empty() + Seq::<Tree>::empty() =~= Seq::<Tree>::empty());
    }
}
pub proof fn lemma_paras_trees(ps: Seq<ParaM>)
    ensures all_nodes(paras_trees(ps)), kind_filter(paras_trees(ps), PARAGRAPH) == para_trees(ps)
    decreases ps.len()
{
    if ps.len() == 0 {
        assert(kind_filter(paras_trees(ps), PARAGRAPH) =~= para_trees(ps));
    } else {
        lemma_paras_trees(ps.skip(1));
        lemma_gap_trees_nodes(ps[0].gap);
        let a = seq![para_tree(ps[0])];
        let b = gap_trees(ps[0].gap);
        lemma_kind_filter_add(a + b, paras_trees(ps.skip(1)), PARAGRAPH);
        lemma_kind_filter_add(a, b, PARAGRAPH);
        lemma_kind_filter_single(para_tree(ps[0]), PARAGRAPH);
        assert(a + Seq::<Tree>::empty() + para_trees(ps.skip(1)) =~= para_trees(ps));
    }
}
pub proof fn lemma_doc_tree(d: DocM)
    ensures rowan::tree_kind(doc_tree(d)) == ROOT, t_content(doc_tree(d)) == doc_content(d)
{
    let ch = gap_trees(d.lead) + paras_trees(d.paras);
    lemma_gap_trees_nodes(d.lead);
    lemma_paras_trees(d.paras);
    assert(all_nodes(ch));
    lemma_child_nodes_of_nodes(ch);
    lemma_kind_filter_add(gap_trees(d.lead), paras_trees(d.paras), PARAGRAPH);
    assert(t_paragraphs(doc_tree(d)) =~= para_trees(d.paras));
    assert forall|i: int| 0 <= i < d.paras.len() implies t_items(#[trigger] para_trees(d.paras)[i]) == para_content(d.paras[i]) by { lemma_para_tree(d.paras[i]); }
    assert(t_content(doc_tree(d)) =~= doc_content(d));
}

// ---- the theorem --------------------------------------------------------------------------------------------------------
/// C03, acceptance clause: the strict reader accepts every well-formed document without error, and the tree it
/// builds exposes exactly the document's paragraphs, field names in file order and values
pub proof fn theorem_wellformed_accepted(d: DocM)
    requires wf_doc(d)
    ensures
        parse_text(doc_text(d)).1 == 0,
        rowan::tree_kind(parse_text(doc_text(d)).0) == ROOT,
        t_content(parse_text(doc_text(d)).0) == doc_content(d),
{
    lemma_parse_doc(d);
    lemma_doc_tree(d);
}
