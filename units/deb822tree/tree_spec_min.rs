// the vocabulary of tree_spec.rs that does not depend on the lexer (shared with unit deb822edit)
pub type Tok = (SyntaxKind, Seq<char>);
pub type Tree = rowan::Tree;
pub open spec fn leaf(t: Tok) -> Tree { rowan::Tree::Tok(t.0, t.1) }
pub open spec fn node(k: SyntaxKind, ch: Seq<Tree>) -> Tree { rowan::Tree::Node(k, ch) }
