// ---------------------------------------------------------------------------------------------
// C03, rejection clause: a line that is neither field, continuation, comment nor blank makes the strict reader fail.
//
//   theorem_bad_line_rejected: wf_doc(d), bad_line(l), r empty or beginning with a newline  ==>
//        parse_text(doc_text(d) + l + r).1 >= 1        (whatever follows the line)
//
// d is any well-formed document (its last paragraph may still be open: the bad line may sit right after a field or a
// comment), l is a non-empty line that does not begin with a blank or '#' and contains no ':' - it cannot be a field.
// ---------------------------------------------------------------------------------------------
pub open spec fn bad_line(l: Seq<char>) -> bool {
    &&& l.len() > 0 && no_nl(l)
    &&& !is_indent_s(l[0]) && l[0] != '#'
    &&& forall|i: int| 0 <= i < l.len() ==> #[trigger] l[i] != ':'
}
/// the tokens of a bad line (and what follows): they cannot start an entry without an error
pub open spec fn bad_toks(b: Seq<Tok>) -> bool {
    &&& b.len() > 0
    &&& (b[0].0 == ERROR || (b[0].0 == KEY && !is_k(p_skip_ws(b.skip(1)).1, COLON)))
}
pub proof fn lemma_run_key_bounds(s: Seq<char>)
    ensures 0 <= run_key(s) <= s.len(), (s.len() > 0 && is_key_char_s(s[0])) ==> run_key(s) >= 1,
        forall|i: int| 0 <= i < run_key(s) ==> is_key_char_s(#[trigger] s[i]),
        run_key(s) < s.len() ==> !is_key_char_s(s[run_key(s)]),
    decreases s.len()
{
    if s.len() > 0 && is_key_char_s(s[0]) {
        lemma_run_key_bounds(s.skip(1));
        let k = run_key(s.skip(1));
        assert forall|i: int| 0 <= i < k + 1 implies is_key_char_s(#[trigger] s[i]) by { if i > 0 { assert(s[i] == s.skip(1)[i - 1]); } }
        if k + 1 < s.len() { assert(s[k + 1] == s.skip(1)[k]); }
    }
}
pub proof fn lemma_run_indent_bounds(s: Seq<char>)
    ensures 0 <= run_indent(s) <= s.len(), (s.len() > 0 && is_indent_s(s[0])) ==> run_indent(s) >= 1,
        run_indent(s) < s.len() ==> !is_indent_s(s[run_indent(s)]),
        forall|i: int| 0 <= i < run_indent(s) ==> is_indent_s(#[trigger] s[i]),
    decreases s.len()
{
    if s.len() > 0 && is_indent_s(s[0]) {
        lemma_run_indent_bounds(s.skip(1));
        let k = run_indent(s.skip(1));
        assert forall|i: int| 0 <= i < k + 1 implies is_indent_s(#[trigger] s[i]) by { if i > 0 { assert(s[i] == s.skip(1)[i - 1]); } }
        if k + 1 < s.len() { assert(s[k + 1] == s.skip(1)[k]); }
    }
}
pub proof fn lemma_run_not_nl_bounds(s: Seq<char>)
    ensures 0 <= run_not_nl(s) <= s.len(), (s.len() > 0 && !is_newline_s(s[0])) ==> run_not_nl(s) >= 1
    decreases s.len()
{
    if s.len() > 0 && !is_newline_s(s[0]) { lemma_run_not_nl_bounds(s.skip(1)); }
}
/// in the middle of a line (no colon seen yet, not at its start): the next token, after blanks, is a COLON only if
/// the next non-blank character is ':'
pub proof fn lemma_no_colon_after_key(s: Seq<char>)
    requires s.len() == 0 || s[0] == '\n' || s[0] == '\r' || !is_key_char_s(s[0]),
        forall|i: int| 0 <= i < s.len() && (forall|j: int| 0 <= j < i ==> !is_newline_s(#[trigger] s[j])) ==> #[trigger] s[i] != ':',
    ensures !is_k(p_skip_ws(tokens_of(SK(), s)).1, COLON)
{
    let st = SK();
    if s.len() > 0 {
        let c = s[0];
        assert(c != ':');
        if is_newline_s(c) {
            assert(lex_fn(st, s).0 == NEWLINE);
            let ts = tokens_of(st, s);
            assert(ts.len() > 0 && ts[0].0 == NEWLINE);
            assert(p_skip_ws(ts) == (Seq::<Tree>::empty(), ts));
        } else if is_indent_s(c) {
            lemma_run_indent_bounds(s);
            let n = run_indent(s);
            let r = s.skip(n);
            assert(tokens_of(st, s) == seq![(WHITESPACE, s.take(n))] + tokens_of(st, r));
            let ts = tokens_of(st, s);
            assert(ts[0].0 == WHITESPACE);
            assert(ts.skip(1) =~= tokens_of(st, r));
            // after the blanks: not a blank, not ':'
            if r.len() > 0 {
                assert(r[0] == s[n]);
                assert(r[0] != ':') by { assert forall|j: int| 0 <= j < n implies !is_newline_s(#[trigger] s[j]) by {} }
                let k = lex_fn(st, r).0;
                assert(k != COLON && k != WHITESPACE && k != COMMENT);
                if is_newline_s(r[0]) { } else { lemma_run_not_nl_bounds(r); }
                let tr = tokens_of(st, r);
                assert(tr.len() > 0 && tr[0].0 == k);
                assert(p_skip_ws(tr) == (Seq::<Tree>::empty(), tr));
                assert(p_skip_ws(ts).1 == tr);
            } else {
                assert(tokens_of(st, r) =~= Seq::<Tok>::empty());
                assert(p_skip_ws(ts.skip(1)) == (Seq::<Tree>::empty(), ts.skip(1)));
                assert(p_skip_ws(ts).1 =~= Seq::<Tok>::empty());
            }
        } else {
            // VALUE to the end of the line
            lemma_run_not_nl_bounds(s);
            assert(lex_fn(st, s).0 == VALUE);
            let ts = tokens_of(st, s);
            assert(ts.len() > 0 && ts[0].0 == VALUE);
            assert(p_skip_ws(ts) == (Seq::<Tree>::empty(), ts));
        }
    } else {
        assert(tokens_of(st, s) =~= Seq::<Tok>::empty());
    }
}
/// the tokens of a bad line at the start of a line
pub proof fn lemma_bad_line_toks(l: Seq<char>, r: Seq<char>)
    requires bad_line(l), r.len() == 0 || r[0] == '\n'
    ensures bad_toks(tokens_of(S0(), l + r))
{
    let s = l + r;
    let c = s[0];
    assert(c == l[0]);
    assert(c != ':' && !is_newline_s(c));
    if is_initial_key_char_s(c) {
        lemma_run_key_bounds(s);
        let k = run_key(s);
        let rest = s.skip(k);
        let b = tokens_of(S0(), s);
        assert(b == seq![(KEY, s.take(k))] + tokens_of(SK(), rest));
        assert(b[0].0 == KEY);
        assert(b.skip(1) =~= tokens_of(SK(), rest));
        // no ':' before the end of the line in what follows the key
        assert forall|i: int| 0 <= i < rest.len() && (forall|j: int| 0 <= j < i ==> !is_newline_s(#[trigger] rest[j])) implies #[trigger] rest[i] != ':' by {
            let p = i + k;
            assert(rest[i] == s[p]);
            if p < l.len() { assert(s[p] == l[p]); }
            else {
                // beyond the line: r begins with a newline, so position l.len() - k of rest is a newline before or at i
                let q = l.len() - k;
                assert(rest[q] == s[l.len() as int]);
                assert(s[l.len() as int] == r[0]);
                if q < i { assert(!is_newline_s(rest[q])); } else { }
            }
        }
        if rest.len() > 0 { assert(rest[0] == s[k]); }
        lemma_no_colon_after_key(rest);
    } else {
        let b = tokens_of(S0(), s);
        assert(lex_fn(S0(), s).0 == ERROR);
        assert(b.len() > 0 && b[0].0 == ERROR);
    }
}
/// an entry that begins with those tokens records an error
pub proof fn lemma_bad_entry(cs: Seq<Seq<char>>, b: Seq<Tok>)
    requires bad_toks(b)
    ensures p_entry(comments_toks(cs) + b).2 >= 1, p_entries(comments_toks(cs) + b).2 >= 1
{
    lemma_parse_comments(cs, b);
    let ts = comments_toks(cs) + b;
    let c = p_entry_comments(ts);
    assert(p_entry_comments(b) == (Seq::<Tree>::empty(), b, 0nat, false));
    assert(c.1 == b && !c.3);
    let k = p_expect(b, KEY);
    if b[0].0 == ERROR { assert(k.2 == 1); } else {
        assert(k.1 == p_skip_ws(b.skip(1)).1);
        let co = p_expect(k.1, COLON);
        assert(co.2 == 1);
    }
    assert(p_entry(ts).2 >= 1);
    // the paragraph loop calls p_entry first
    assert(ts.len() > 0 && ts[0].0 != NEWLINE) by {
        if cs.len() > 0 { assert(comments_toks(cs) =~= comment_toks2(cs[0]) + comments_toks(cs.skip(1))); assert(ts[0].0 == COMMENT); }
        else { assert(comments_toks(cs) =~= Seq::<Tok>::empty()); assert(ts =~= b); }
    }
}
/// fields followed by anything that does not continue the last one: the errors are those of what follows
pub proof fn lemma_parse_fields_then(fs: Seq<FieldM>, u: Seq<Tok>)
    requires not_indent(u), forall|i: int| 0 <= i < fs.len() ==> (#[trigger] fs[i]).name.len() > 0
    ensures p_entries(fields_toks(fs) + u).2 == p_entries(u).2
    decreases fs.len()
{
    let ts = fields_toks(fs) + u;
    if fs.len() == 0 { assert(ts =~= u); } else {
        let f = fs[0];
        let rest = fields_toks(fs.skip(1)) + u;
        assert(ts =~= field_toks(f) + rest);
        assert(not_indent(rest)) by {
            if fs.len() > 1 {
                let g = fs[1];
                assert(fields_toks(fs.skip(1)) =~= field_toks(g) + fields_toks(fs.skip(1).skip(1)));
                if g.comments.len() > 0 { assert(comments_toks(g.comments) =~= comment_toks2(g.comments[0]) + comments_toks(g.comments.skip(1))); assert(rest[0].0 == COMMENT); }
                else { assert(comments_toks(g.comments) =~= Seq::<Tok>::empty()); assert(rest[0].0 == KEY); }
            } else {
                assert(fields_toks(fs.skip(1)) =~= Seq::<Tok>::empty());
                assert(rest =~= u);
            }
        }
        lemma_parse_entry(f, rest);
        assert forall|i: int| 0 <= i < fs.skip(1).len() implies (#[trigger] fs.skip(1)[i]).name.len() > 0 by { assert(fs.skip(1)[i] == fs[i + 1]); }
        lemma_parse_fields_then(fs.skip(1), u);
        assert(ts.len() > 0 && ts[0].0 != NEWLINE) by {
            if f.comments.len() > 0 { assert(comments_toks(f.comments) =~= comment_toks2(f.comments[0]) + comments_toks(f.comments.skip(1))); assert(ts[0].0 == COMMENT); }
            else { assert(comments_toks(f.comments) =~= Seq::<Tok>::empty()); assert(ts[0].0 == KEY); }
        }
        assert(rest.len() < ts.len());
    }
}
/// a document prefix followed by the tokens of a bad line: at least one error
pub proof fn lemma_items_then_bad(g: Seq<Option<Seq<char>>>, ps: Seq<ParaM>, b: Seq<Tok>)
    requires wf_paras(ps), bad_toks(b)
    ensures p_items(gap_toks(g) + paras_toks(ps) + b).1 >= 1
    decreases ps.len()
{
    let ts = gap_toks(g) + paras_toks(ps) + b;
    assert(!starts_blank(b));
    if ps.len() == 0 {
        assert(ts =~= gap_toks(g) + b);
        lemma_parse_gap(g, b);
        lemma_bad_entry(Seq::empty(), b);
        assert(comments_toks(Seq::<Seq<char>>::empty()) + b =~= b);
        lemma_p_entries_len(b);
        assert(ts.len() > 0);
        let s = p_skip_ws_nl(ts);
        assert(s.1 == b);
        let p = p_paragraph(b);
        assert(p.2 >= 1);
        lemma_gap_toks_len(g);
    } else {
        let p0 = ps[0];
        let pt = paras_toks(ps) + b;
        lemma_para_head(p0, paras_toks(ps.skip(1)) + b);
        assert(pt =~= para_toks(p0) + (paras_toks(ps.skip(1)) + b));
        assert(!starts_blank(pt));
        assert(ts =~= gap_toks(g) + pt);
        lemma_parse_gap(g, pt);
        assert forall|i: int| 0 <= i < p0.fields.len() implies (#[trigger] p0.fields[i]).name.len() > 0 by { assert(wf_field(p0.fields[i])); }
        lemma_gap_toks_len(g);
        if p0.gap.len() > 0 {
            // a closed paragraph: exactly as in a complete document, then the rest
            let after = gap_toks(p0.gap) + (paras_toks(ps.skip(1)) + b);
            assert(pt =~= fields_toks(p0.fields) + comments_toks(p0.trailing) + after);
            assert(gap_toks(p0.gap) =~= gap_line_toks(p0.gap[0]) + gap_toks(p0.gap.skip(1)));
            assert(after[0].0 == NEWLINE);
            lemma_parse_fields(p0.fields, p0.trailing, after);
            assert(p_paragraph(pt) == (para_tree(p0), after, 0nat));
            lemma_items_then_bad(p0.gap, ps.skip(1), b);
            assert(after =~= gap_toks(p0.gap) + paras_toks(ps.skip(1)) + b);
            assert(after.len() < ts.len());
        } else {
            // the last paragraph is still open: the bad line follows its fields and comment lines
            assert(ps.len() == 1);
            assert(paras_toks(ps.skip(1)) =~= Seq::<Tok>::empty());
            assert(gap_toks(p0.gap) =~= Seq::<Tok>::empty());
            let u = comments_toks(p0.trailing) + b;
            assert(pt =~= fields_toks(p0.fields) + u);
            assert(not_indent(u)) by {
                if p0.trailing.len() > 0 { assert(comments_toks(p0.trailing) =~= comment_toks2(p0.trailing[0]) + comments_toks(p0.trailing.skip(1))); assert(u[0].0 == COMMENT); }
                else { assert(comments_toks(p0.trailing) =~= Seq::<Tok>::empty()); assert(u =~= b); }
            }
            lemma_parse_fields_then(p0.fields, u);
            lemma_bad_entry(p0.trailing, b);
            assert(p_paragraph(pt).2 >= 1);
            lemma_p_entries_len(pt);
        }
    }
}
pub proof fn lemma_gap_toks_len(g: Seq<Option<Seq<char>>>)
    ensures gap_toks(g).len() >= g.len()
    decreases g.len()
{
    if g.len() > 0 { lemma_gap_toks_len(g.skip(1)); }
}
/// C03, rejection clause
pub proof fn theorem_bad_line_rejected(d: DocM, l: Seq<char>, r: Seq<char>)
    requires wf_doc(d), bad_line(l), r.len() == 0 || r[0] == '\n'
    ensures parse_text(doc_text(d) + l + r).1 >= 1
{
    lemma_lex_gap(d.lead);
    lemma_lex_paras(d.paras);
    lemma_lexes_compose(S0(), gap_text(d.lead), gap_toks(d.lead), S0(), paras_text(d.paras), paras_toks(d.paras), S0());
    let b = tokens_of(S0(), l + r);
    assert(doc_text(d) + l + r =~= doc_text(d) + (l + r));
    assert(tokens_of(S0(), doc_text(d) + (l + r)) == doc_toks(d) + b);
    lemma_bad_line_toks(l, r);
    lemma_items_then_bad(d.lead, d.paras, b);
    assert(doc_toks(d) + b =~= gap_toks(d.lead) + paras_toks(d.paras) + b);
}
