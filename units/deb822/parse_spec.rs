// C01 (deb822 part): unit-specific specification

impl Deb822 {
    /// the text of the document's syntax tree
    pub closed spec fn text(&self) -> Seq<char> { self.0.text_spec() }
}

/// the iterator->Vec glue of `lex(text).map(|(k, t)| (k, t.to_string())).collect::<Vec<_>>()`
/// (R-chain). Body verified; trusted: that std's from_fn/map/collect mean "call next until None".
pub fn vx_collect_tokens<'a>(it: lex___Iter<'a>) -> (v: Vec<(SyntaxKind, String)>)
    requires it.wf()
    ensures fwd_text(v@) == it.input@
{
    let mut it = it;
    let mut v: Vec<(SyntaxKind, String)> = Vec::new();
    let ghost src = it.input@;
    assert(fwd_text(v@) + it.input@ =~= src);
    loop
        invariant it.wf(), fwd_text(v@) + it.input@ == src,
        ensures fwd_text(v@) == src,
        decreases it.input@.len()
    {
        let ghost before = it.input@;
        let ghost vb = v@;
        match it.next() {
            Some((k, t)) => {
                v.push((k, t.to_string()));
                proof {
                    assert(v@.drop_last() =~= vb);
                    assert(fwd_text(v@) == fwd_text(vb) + t@);
                    assert(fwd_text(v@) + it.input@ =~= fwd_text(vb) + (t@ + it.input@));
                }
            }
            None => {
                assert(fwd_text(v@) + it.input@ =~= fwd_text(v@));
                break;
            }
        }
    }
    v
}
