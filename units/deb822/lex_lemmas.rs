// ---------------------------------------------------------------------------------------------
// Lexing lemmas shared by the round-trip (C08) and grammar (C03) theorems: what `tokens_of` (spec.rs, the
// function the real lexer is proved to compute) yields on the building blocks of a deb822 text.
// Verified on every run; nothing trusted.
// ---------------------------------------------------------------------------------------------
/// a valid field name: key characters only, not starting with '-' or '#'
pub open spec fn valid_name(n: Seq<char>) -> bool {
    &&& n.len() > 0
    &&& is_initial_key_char_s(n[0]) && n[0] != '#'
    &&& forall|i: int| 0 <= i < n.len() ==> is_key_char_s(#[trigger] n[i])
}
pub open spec fn no_nl(l: Seq<char>) -> bool { forall|i: int| 0 <= i < l.len() ==> !is_newline_s(#[trigger] l[i]) }
// ---- lexer states ----------------------------------------------------------------------------------------
pub open spec fn S0() -> LexState { LexState { sol: true, colon_seen: false, indented: false } }
pub open spec fn SK() -> LexState { LexState { sol: false, colon_seen: false, indented: false } }
pub open spec fn SV() -> LexState { LexState { sol: false, colon_seen: true, indented: false } }
pub open spec fn SI() -> LexState { LexState { sol: true, colon_seen: false, indented: true } }

// ---- lexing the printed text ----------------------------------------------------------------------------
/// text a, lexed from state st, gives exactly toks and leaves state st2 — whatever follows
pub open spec fn lexes(st: LexState, a: Seq<char>, toks: Seq<Tok>, st2: LexState) -> bool {
    forall|b: Seq<char>| #[trigger] tokens_of(st, a + b) == toks + tokens_of(st2, b)
}
pub proof fn lemma_lexes_compose(st: LexState, a1: Seq<char>, t1: Seq<Tok>, st2: LexState, a2: Seq<char>, t2: Seq<Tok>, st3: LexState)
    requires lexes(st, a1, t1, st2), lexes(st2, a2, t2, st3)
    ensures lexes(st, a1 + a2, t1 + t2, st3)
{
    assert forall|b: Seq<char>| #[trigger] tokens_of(st, (a1 + a2) + b) == (t1 + t2) + tokens_of(st3, b) by {
        assert((a1 + a2) + b =~= a1 + (a2 + b));
        assert(tokens_of(st, a1 + (a2 + b)) == t1 + tokens_of(st2, a2 + b));
        assert(tokens_of(st2, a2 + b) == t2 + tokens_of(st3, b));
        assert((t1 + t2) + tokens_of(st3, b) =~= t1 + (t2 + tokens_of(st3, b)));
    }
}
pub proof fn lemma_lexes_empty(st: LexState)
    ensures lexes(st, Seq::empty(), Seq::empty(), st)
{
    assert forall|b: Seq<char>| #[trigger] tokens_of(st, Seq::<char>::empty() + b) == Seq::<Tok>::empty() + tokens_of(st, b) by {
        assert(Seq::<char>::empty() + b =~= b);
        assert(Seq::<Tok>::empty() + tokens_of(st, b) =~= tokens_of(st, b));
    }
}
pub proof fn lemma_lex_nl(st: LexState, b: Seq<char>)
    ensures tokens_of(st, lf() + b) == seq![(NEWLINE, lf())] + tokens_of(S0(), b)
{
    let s = lf() + b;
    assert(s[0] == '\n');
    assert(s.take(1) =~= lf());
    assert(s.skip(1) =~= b);
}
/// a maximal run of spaces/tabs is one INDENT (at the start of a line) or WHITESPACE token
pub open spec fn all_indent(w: Seq<char>) -> bool { forall|i: int| 0 <= i < w.len() ==> is_indent_s(#[trigger] w[i]) }
pub proof fn lemma_lex_ws(st: LexState, w: Seq<char>, r: Seq<char>)
    requires w.len() > 0, all_indent(w), r.len() > 0, !is_indent_s(r[0])
    ensures tokens_of(st, w + r) == seq![(if st.sol { INDENT } else { WHITESPACE }, w)]
        + tokens_of(if st.sol { LexState { indented: true, ..st } } else { st }, r)
{
    broadcast use group_lex_runs;
    let s = w + r;
    let n = w.len() as int;
    assert(s[0] == w[0]);
    assert(s[n] == r[0]);
    assert forall|j: int| 0 <= j < n implies is_indent_s(#[trigger] s[j]) by { assert(s[j] == w[j]); }
    assert(is_indent_run(s, n));
    assert(s.take(n) =~= w);
    assert(s.skip(n) =~= r);
}
/// a comment line "#...\n" at the start of a line (indented or not)
pub proof fn lemma_lex_comment(st: LexState, c: Seq<char>, b: Seq<char>)
    requires c.len() > 0, c[0] == '#', no_nl(c), st.sol
    ensures tokens_of(st, c + (lf() + b)) == seq![(COMMENT, c)] + tokens_of(LexState { sol: true, colon_seen: false, ..st }, lf() + b)
{
    broadcast use group_lex_runs;
    let s = c + (lf() + b);
    let n = c.len() as int;
    assert(s[0] == '#');
    assert(s[n] == '\n');
    assert forall|j: int| 0 <= j < n implies !is_newline_s(#[trigger] s[j]) by { assert(s[j] == c[j]); }
    assert(is_not_nl_run(s, n));
    assert(s.take(n) =~= c);
    assert(s.skip(n) =~= lf() + b);
}
pub proof fn lemma_lex_sp(st: LexState, r: Seq<char>)
    requires r.len() > 0, !is_indent_s(r[0])
    ensures tokens_of(st, sp() + r) == seq![(if st.sol { INDENT } else { WHITESPACE }, sp())]
        + tokens_of(if st.sol { LexState { indented: true, ..st } } else { st }, r)
{
    broadcast use group_lex_runs;
    let s = sp() + r;
    assert(s[0] == ' ');
    assert(s[1] == r[0]);
    assert(is_indent_run(s, 1));
    assert(s.take(1) =~= sp());
    assert(s.skip(1) =~= r);
}
pub proof fn lemma_lex_value(st: LexState, l: Seq<char>, b: Seq<char>)
    requires
        l.len() > 0, no_nl(l), !is_indent_s(l[0]),
        !(l[0] == ':' && !st.colon_seen && !st.indented),
        !(l[0] == '#' && st.sol),
        !(is_initial_key_char_s(l[0]) && st.sol && !st.indented),
        !st.sol || st.indented,
    ensures tokens_of(st, l + (lf() + b)) == seq![(VALUE, l)] + tokens_of(st, lf() + b)
{
    broadcast use group_lex_runs;
    let s = l + (lf() + b);
    let n = l.len() as int;
    assert(s[0] == l[0]);
    assert(!is_newline_s(l[0]));
    assert(s[n] == '\n');
    assert forall|j: int| 0 <= j < n implies !is_newline_s(#[trigger] s[j]) by { assert(s[j] == l[j]); }
    assert(is_not_nl_run(s, n));
    assert(s.take(n) =~= l);
    assert(s.skip(n) =~= lf() + b);
}
/// "Name:" at the start of a line
pub proof fn lemma_lex_key_colon(name: Seq<char>)
    requires valid_name(name)
    ensures lexes(S0(), name + colon(), seq![(KEY, name), (COLON, colon())], SV())
{
    broadcast use group_lex_runs;
    assert forall|b: Seq<char>| #[trigger] tokens_of(S0(), (name + colon()) + b) == seq![(KEY, name), (COLON, colon())] + tokens_of(SV(), b) by {
        let s = (name + colon()) + b;
        let n = name.len() as int;
        assert(s[0] == name[0]);
        assert(s[n] == ':');
        assert forall|j: int| 0 <= j < n implies is_key_char_s(#[trigger] s[j]) by { assert(s[j] == name[j]); }
        assert(is_key_run(s, n));
        assert(s.take(n) =~= name);
        let s1 = s.skip(n);
        assert(s1 =~= colon() + b);
        assert(tokens_of(S0(), s) == seq![(KEY, name)] + tokens_of(SK(), s1));
        assert(s1[0] == ':');
        assert(s1.take(1) =~= colon());
        assert(s1.skip(1) =~= b);
        assert(tokens_of(SK(), s1) == seq![(COLON, colon())] + tokens_of(SV(), b));
        assert(seq![(KEY, name)] + (seq![(COLON, colon())] + tokens_of(SV(), b)) =~= seq![(KEY, name), (COLON, colon())] + tokens_of(SV(), b));
    }
}
