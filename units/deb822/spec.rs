// ---------------------------------------------------------------------------------------------
// deb822(5) token grammar, written from the statements of C01/C03 (not from the code).
// ---------------------------------------------------------------------------------------------

pub open spec fn is_indent_s(c: char) -> bool { c == ' ' || c == '\t' }
pub open spec fn is_newline_s(c: char) -> bool { c == '\n' || c == '\r' }
/// printable US-ASCII except space and colon
pub open spec fn is_key_char_s(c: char) -> bool { '!' <= c && c <= '~' && c != ':' }
pub open spec fn is_initial_key_char_s(c: char) -> bool { is_key_char_s(c) && c != '-' }

/// abstract lexer state: at the start of a line? has this line's colon been seen? is the line indented?
pub struct LexState {
    pub sol: bool,
    pub colon_seen: bool,
    pub indented: bool,
}

/// length of the maximal prefix of s made of space/tab, of key characters, of non-newline characters
pub open spec fn run_indent(s: Seq<char>) -> int
    decreases s.len()
{
    if s.len() > 0 && is_indent_s(s[0]) { 1 + run_indent(s.skip(1)) } else { 0 }
}
pub open spec fn run_key(s: Seq<char>) -> int
    decreases s.len()
{
    if s.len() > 0 && is_key_char_s(s[0]) { 1 + run_key(s.skip(1)) } else { 0 }
}
pub open spec fn run_not_nl(s: Seq<char>) -> int
    decreases s.len()
{
    if s.len() > 0 && !is_newline_s(s[0]) { 1 + run_not_nl(s.skip(1)) } else { 0 }
}

/// n is the length of the maximal prefix of s made of space/tab (key chars, non-newline chars)
pub open spec fn is_indent_run(s: Seq<char>, n: int) -> bool {
    &&& 0 <= n <= s.len()
    &&& forall|j: int| 0 <= j < n ==> is_indent_s(#[trigger] s[j])
    &&& (n == s.len() || !is_indent_s(s[n]))
}
pub open spec fn is_key_run(s: Seq<char>, n: int) -> bool {
    &&& 0 <= n <= s.len()
    &&& forall|j: int| 0 <= j < n ==> is_key_char_s(#[trigger] s[j])
    &&& (n == s.len() || !is_key_char_s(s[n]))
}
pub open spec fn is_not_nl_run(s: Seq<char>, n: int) -> bool {
    &&& 0 <= n <= s.len()
    &&& forall|j: int| 0 <= j < n ==> !is_newline_s(#[trigger] s[j])
    &&& (n == s.len() || is_newline_s(s[n]))
}

/// the run functions compute exactly "the maximal run" (and a maximal run is unique)
pub broadcast proof fn lemma_run_indent(s: Seq<char>)
    ensures is_indent_run(s, #[trigger] run_indent(s)),
        forall|n: int| #[trigger] is_indent_run(s, n) ==> n == run_indent(s),
    decreases s.len()
{
    if s.len() > 0 && is_indent_s(s[0]) {
        lemma_run_indent(s.skip(1));
        let r = run_indent(s.skip(1));
        assert forall|j: int| 0 <= j < r + 1 implies is_indent_s(#[trigger] s[j]) by { if j > 0 { assert(s[j] == s.skip(1)[j - 1]); } }
        if r + 1 < s.len() { assert(s[r + 1] == s.skip(1)[r]); }
        assert forall|n: int| is_indent_run(s, n) implies n == run_indent(s) by {
            if n == 0 { assert(!is_indent_s(s[0])); } else {
                assert forall|j: int| 0 <= j < n - 1 implies is_indent_s(#[trigger] s.skip(1)[j]) by { assert(s.skip(1)[j] == s[j + 1]); }
                if n < s.len() { assert(s.skip(1)[n - 1] == s[n]); }
                assert(is_indent_run(s.skip(1), n - 1));
            }
        }
    } else {
        assert forall|n: int| is_indent_run(s, n) implies n == run_indent(s) by { if n > 0 { assert(is_indent_s(s[0])); } }
    }
}
pub broadcast proof fn lemma_run_key(s: Seq<char>)
    ensures is_key_run(s, #[trigger] run_key(s)),
        forall|n: int| #[trigger] is_key_run(s, n) ==> n == run_key(s),
    decreases s.len()
{
    if s.len() > 0 && is_key_char_s(s[0]) {
        lemma_run_key(s.skip(1));
        let r = run_key(s.skip(1));
        assert forall|j: int| 0 <= j < r + 1 implies is_key_char_s(#[trigger] s[j]) by { if j > 0 { assert(s[j] == s.skip(1)[j - 1]); } }
        if r + 1 < s.len() { assert(s[r + 1] == s.skip(1)[r]); }
        assert forall|n: int| is_key_run(s, n) implies n == run_key(s) by {
            if n == 0 { assert(!is_key_char_s(s[0])); } else {
                assert forall|j: int| 0 <= j < n - 1 implies is_key_char_s(#[trigger] s.skip(1)[j]) by { assert(s.skip(1)[j] == s[j + 1]); }
                if n < s.len() { assert(s.skip(1)[n - 1] == s[n]); }
                assert(is_key_run(s.skip(1), n - 1));
            }
        }
    } else {
        assert forall|n: int| is_key_run(s, n) implies n == run_key(s) by { if n > 0 { assert(is_key_char_s(s[0])); } }
    }
}
pub broadcast proof fn lemma_run_not_nl(s: Seq<char>)
    ensures is_not_nl_run(s, #[trigger] run_not_nl(s)),
        forall|n: int| #[trigger] is_not_nl_run(s, n) ==> n == run_not_nl(s),
    decreases s.len()
{
    if s.len() > 0 && !is_newline_s(s[0]) {
        lemma_run_not_nl(s.skip(1));
        let r = run_not_nl(s.skip(1));
        assert forall|j: int| 0 <= j < r + 1 implies !is_newline_s(#[trigger] s[j]) by { if j > 0 { assert(s[j] == s.skip(1)[j - 1]); } }
        if r + 1 < s.len() { assert(s[r + 1] == s.skip(1)[r]); }
        assert forall|n: int| is_not_nl_run(s, n) implies n == run_not_nl(s) by {
            if n == 0 { assert(is_newline_s(s[0])); } else {
                assert forall|j: int| 0 <= j < n - 1 implies !is_newline_s(#[trigger] s.skip(1)[j]) by { assert(s.skip(1)[j] == s[j + 1]); }
                if n < s.len() { assert(s.skip(1)[n - 1] == s[n]); }
                assert(is_not_nl_run(s.skip(1), n - 1));
            }
        }
    } else {
        assert forall|n: int| is_not_nl_run(s, n) implies n == run_not_nl(s) by { if n > 0 { assert(!is_newline_s(s[0])); } }
    }
}

/// One lexer step as a function: kind, length in chars and next state of the token at the front of the
/// non-empty text s (deb822(5) token grammar, from the statements of C01/C03)
pub open spec fn lex_fn(st: LexState, s: Seq<char>) -> (SyntaxKind, int, LexState) {
    let c = s[0];
    if c == ':' && !st.colon_seen && !st.indented { (SyntaxKind::COLON, 1, LexState { colon_seen: true, ..st }) }
    else if is_newline_s(c) { (SyntaxKind::NEWLINE, 1, LexState { sol: true, colon_seen: false, indented: false }) }
    else if is_indent_s(c) {
        if st.sol { (SyntaxKind::INDENT, run_indent(s), LexState { indented: true, ..st }) } else { (SyntaxKind::WHITESPACE, run_indent(s), st) }
    }
    else if c == '#' && st.sol { (SyntaxKind::COMMENT, run_not_nl(s), LexState { sol: true, colon_seen: false, ..st }) }
    else if is_initial_key_char_s(c) && st.sol && !st.indented { (SyntaxKind::KEY, run_key(s), LexState { sol: false, ..st }) }
    else if !st.sol || st.indented { (SyntaxKind::VALUE, run_not_nl(s), st) }
    else { (SyntaxKind::ERROR, 1, st) }
}

/// One lexer step on non-empty input s from state st yields token (k, t), leaves s2 and state st2.
pub open spec fn lex_step(st: LexState, s: Seq<char>, k: SyntaxKind, t: Seq<char>, st2: LexState, s2: Seq<char>) -> bool {
    &&& s.len() > 0
    &&& t.len() > 0
    &&& s =~= t + s2
    &&& (k, t.len() as int, st2) == lex_fn(st, s)
}

pub type Tok = (SyntaxKind, Seq<char>);

/// the whole token sequence of a text
pub open spec fn tokens_of(st: LexState, s: Seq<char>) -> Seq<(SyntaxKind, Seq<char>)>
    decreases s.len()
{
    if s.len() == 0 { Seq::empty() }
    else {
        let (k, n, st2) = lex_fn(st, s);
        if n <= 0 || n > s.len() { Seq::empty() } else { seq![(k, s.take(n))] + tokens_of(st2, s.skip(n)) }
    }
}

pub broadcast group group_lex_runs {
    lemma_run_indent,
    lemma_run_key,
    lemma_run_not_nl,
}

impl<'a> lex___Iter<'a> {
    pub open spec fn state(&self) -> LexState {
        LexState { sol: self.start_of_line, colon_seen: self.colon_count != 0, indented: self.indent > 0 }
    }
    /// representation invariant of the iterator
    pub open spec fn wf(&self) -> bool {
        0 <= self.colon_count <= 1
    }
}
