// ---------------------------------------------------------------------------------------------
// deb822(5) token grammar, written from the statements of C01/C03 (not from the code).
// ---------------------------------------------------------------------------------------------

pub open spec fn is_indent_s(c: char) -> bool { c == ' ' || c == '\t' }
pub open spec fn is_newline_s(c: char) -> bool { c == '\n' || c == '\r' }
/// printable US-ASCII except space and colon
pub open spec fn is_key_char_s(c: char) -> bool { '!' <= c && c <= '~' && c != ':' }
pub open spec fn is_initial_key_char_s(c: char) -> bool { is_key_char_s(c) && c != '-' }

/// abstract lexer state: at the start of a line? has this line's colon been seen? is the line indented?
pub struct LexState {
    pub sol: bool,
    pub colon_seen: bool,
    pub indented: bool,
}

/// n is the length of the maximal prefix of s whose chars all satisfy p
pub open spec fn is_run(s: Seq<char>, p: spec_fn(char) -> bool, n: int) -> bool {
    &&& 0 <= n <= s.len()
    &&& forall|j: int| 0 <= j < n ==> p(#[trigger] s[j])
    &&& (n == s.len() || !p(s[n]))
}

/// One lexer step on non-empty input s from state st yields token (k, t), leaves s2 and state st2.
pub open spec fn lex_step(st: LexState, s: Seq<char>, k: SyntaxKind, t: Seq<char>, st2: LexState, s2: Seq<char>) -> bool {
    &&& s.len() > 0
    &&& t.len() > 0
    &&& s =~= t + s2
    &&& {
        let c = s[0];
        let n = t.len() as int;
        if c == ':' && !st.colon_seen {
            k == SyntaxKind::COLON && n == 1 && st2 == (LexState { colon_seen: true, ..st })
        } else if is_newline_s(c) {
            k == SyntaxKind::NEWLINE && n == 1 && st2 == (LexState { sol: true, colon_seen: false, indented: false })
        } else if is_indent_s(c) {
            is_run(s, |c: char| is_indent_s(c), n) && (
                if st.sol { k == SyntaxKind::INDENT && st2 == (LexState { indented: true, ..st }) }
                else { k == SyntaxKind::WHITESPACE && st2 == st })
        } else if c == '#' && st.sol {
            k == SyntaxKind::COMMENT && is_run(s, |c: char| !is_newline_s(c), n)
                && st2 == (LexState { sol: true, colon_seen: false, ..st })
        } else if is_initial_key_char_s(c) && st.sol && !st.indented {
            k == SyntaxKind::KEY && is_run(s, |c: char| is_key_char_s(c), n) && st2 == (LexState { sol: false, ..st })
        } else if !st.sol || st.indented {
            k == SyntaxKind::VALUE && is_run(s, |c: char| !is_newline_s(c), n) && st2 == st
        } else {
            k == SyntaxKind::ERROR && n == 1 && st2 == st
        }
    }
}

impl<'a> lex___Iter<'a> {
    pub open spec fn state(&self) -> LexState {
        LexState { sol: self.start_of_line, colon_seen: self.colon_count != 0, indented: self.indent > 0 }
    }
    /// representation invariant of the iterator
    pub open spec fn wf(&self) -> bool {
        0 <= self.colon_count <= 1
    }
}
