// ---------------------------------------------------------------------------------------------
// C09: relationship-field lexer and parser — specification vocabulary of the unit
// ---------------------------------------------------------------------------------------------

pub open spec fn is_ws_s(c: char) -> bool { c == ' ' || c == '\t' || c == '\r' }
pub open spec fn is_ident_s(c: char) -> bool {
    ('0' <= c && c <= '9') || ('a' <= c && c <= 'z') || ('A' <= c && c <= 'Z') || c == '-' || c == '.' || c == '+' || c == '~'
}

/// kind of the one-character delimiter tokens
pub open spec fn delim_kind(c: char) -> Option<SyntaxKind> {
    if c == ':' { Some(COLON) } else if c == '|' { Some(PIPE) } else if c == ',' { Some(COMMA) }
    else if c == '(' { Some(L_PARENS) } else if c == ')' { Some(R_PARENS) }
    else if c == '[' { Some(L_BRACKET) } else if c == ']' { Some(R_BRACKET) }
    else if c == '!' { Some(NOT) } else if c == '$' { Some(DOLLAR) }
    else if c == '{' { Some(L_CURLY) } else if c == '}' { Some(R_CURLY) }
    else if c == '<' { Some(L_ANGLE) } else if c == '>' { Some(R_ANGLE) }
    else if c == '=' { Some(EQUAL) } else if c == '\n' { Some(NEWLINE) }
    else { None }
}

/// n is the length of the maximal prefix of s whose chars all satisfy p
pub open spec fn is_run(s: Seq<char>, p: spec_fn(char) -> bool, n: int) -> bool {
    &&& 0 <= n <= s.len()
    &&& forall|j: int| 0 <= j < n ==> p(#[trigger] s[j])
    &&& (n == s.len() || !p(s[n]))
}

/// one lexer step: token (k, t) is cut from the front of s, leaving s2
pub open spec fn rel_lex_step(s: Seq<char>, k: SyntaxKind, t: Seq<char>, s2: Seq<char>) -> bool {
    &&& s.len() > 0
    &&& t.len() > 0
    &&& s =~= t + s2
    &&& {
        let c = s[0];
        let n = t.len() as int;
        match delim_kind(c) {
            Some(d) => k == d && n == 1,
            None =>
                if is_ws_s(c) { k == WHITESPACE && is_run(s, |c: char| is_ws_s(c), n) }
                else if is_ident_s(c) { k == IDENT && is_run(s, |c: char| is_ident_s(c), n) }
                else { k == ERROR && n == 1 }
        }
    }
}

