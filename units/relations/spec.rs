// C09: parser part of the unit's specification

/// first kind on the stack that is not WHITESPACE/NEWLINE (the stack's last element is next)
pub open spec fn peek_spec(toks: Seq<(SyntaxKind, String)>) -> Option<SyntaxKind>
    decreases toks.len()
{
    if toks.len() == 0 { None }
    else if toks.last().0 == WHITESPACE || toks.last().0 == NEWLINE { peek_spec(toks.drop_last()) }
    else { Some(toks.last().0) }
}

impl Relations {
    /// the text of the field's syntax tree
    pub closed spec fn text(&self) -> Seq<char> { self.0.text_spec() }
}

