/// glue for `lexer.by_ref().collect::<Vec<_>>()` (R-chain): call next() until None. Body verified.
pub fn vx_collect_lexer_fn<'a>(l: Lexer<'a>) -> (v: Vec<(SyntaxKind, String)>)
    ensures rtoks_view(v@) == rel_tokens_of(l.input@)
{
    let mut l = l;
    let mut v: Vec<(SyntaxKind, String)> = Vec::new();
    let ghost all = rel_tokens_of(l.input@);
    assert(rtoks_view(v@) + rel_tokens_of(l.input@) =~= all);
    loop
        invariant rtoks_view(v@) + rel_tokens_of(l.input@) == all,
        ensures rtoks_view(v@) == all,
        decreases l.input@.len()
    {
        let ghost vb = v@;
        let ghost inp = l.input@;
        match l.next() {
            Some((k, t)) => {
                let ghost tt = t@;
                v.push((k, t));
                proof {
                    lemma_rel_step_is_fn(inp, k, tt, l.input@);
                    assert(rtoks_view(v@) =~= rtoks_view(vb).push((k, tt)));
                    assert(rtoks_view(v@) + rel_tokens_of(l.input@) =~= rtoks_view(vb) + (seq![(k, tt)] + rel_tokens_of(l.input@)));
                }
            }
            None => {
                assert(rtoks_view(v@) + Seq::<RTok>::empty() =~= rtoks_view(v@));
                break;
            }
        }
    }
    v
}
