// ---------------------------------------------------------------------------------------------
// The relationship-field lexer as a function: rel_tokens_of(text). The real lexer is proved (lex.vspec)
// to cut at every step a token satisfying rel_lex_step; a maximal run is unique, so that step is rel_lex_fn.
// ---------------------------------------------------------------------------------------------
pub type RTok = (SyntaxKind, Seq<char>);

pub open spec fn run_ws(s: Seq<char>) -> int
    decreases s.len()
{
    if s.len() > 0 && is_ws_s(s[0]) { 1 + run_ws(s.skip(1)) } else { 0 }
}
pub open spec fn run_ident(s: Seq<char>) -> int
    decreases s.len()
{
    if s.len() > 0 && is_ident_s(s[0]) { 1 + run_ident(s.skip(1)) } else { 0 }
}
/// kind and length of the token at the front of a non-empty text
pub open spec fn rel_lex_fn(s: Seq<char>) -> (SyntaxKind, int) {
    let c = s[0];
    match delim_kind(c) {
        Some(d) => (d, 1),
        None => if is_ws_s(c) { (WHITESPACE, run_ws(s)) } else if is_ident_s(c) { (IDENT, run_ident(s)) } else { (ERROR, 1) },
    }
}
pub open spec fn rel_tokens_of(s: Seq<char>) -> Seq<RTok>
    decreases s.len()
{
    if s.len() == 0 { Seq::empty() }
    else {
        let (k, n) = rel_lex_fn(s);
        if n <= 0 || n > s.len() { Seq::empty() } else { seq![(k, s.take(n))] + rel_tokens_of(s.skip(n)) }
    }
}
pub open spec fn rtok_view(t: (SyntaxKind, String)) -> RTok { (t.0, t.1@) }
pub open spec fn rtoks_view(v: Seq<(SyntaxKind, String)>) -> Seq<RTok> { v.map_values(|t: (SyntaxKind, String)| rtok_view(t)) }

pub proof fn lemma_run_ws_unique(s: Seq<char>, p: spec_fn(char) -> bool, n: int)
    requires is_run(s, p, n), forall|c: char| p(c) == is_ws_s(c)
    ensures n == run_ws(s)
    decreases s.len()
{
    if s.len() > 0 && is_ws_s(s[0]) {
        assert(p(s[0]));
        if n == 0 { assert(!p(s[0])); }
        let r = s.skip(1);
        assert forall|j: int| 0 <= j < n - 1 implies p(#[trigger] r[j]) by { assert(r[j] == s[j + 1]); }
        if n < s.len() { assert(r[n - 1] == s[n]); }
        lemma_run_ws_unique(r, p, n - 1);
    } else if s.len() > 0 {
        if n > 0 { assert(p(s[0])); }
    }
}
pub proof fn lemma_run_ident_unique(s: Seq<char>, p: spec_fn(char) -> bool, n: int)
    requires is_run(s, p, n), forall|c: char| p(c) == is_ident_s(c)
    ensures n == run_ident(s)
    decreases s.len()
{
    if s.len() > 0 && is_ident_s(s[0]) {
        assert(p(s[0]));
        if n == 0 { assert(!p(s[0])); }
        let r = s.skip(1);
        assert forall|j: int| 0 <= j < n - 1 implies p(#[trigger] r[j]) by { assert(r[j] == s[j + 1]); }
        if n < s.len() { assert(r[n - 1] == s[n]); }
        lemma_run_ident_unique(r, p, n - 1);
    } else if s.len() > 0 {
        if n > 0 { assert(p(s[0])); }
    }
}
/// a lexer step is the function
pub proof fn lemma_rel_step_is_fn(s: Seq<char>, k: SyntaxKind, t: Seq<char>, s2: Seq<char>)
    requires rel_lex_step(s, k, t, s2)
    ensures rel_lex_fn(s) == (k, t.len() as int), rel_tokens_of(s) == seq![(k, t)] + rel_tokens_of(s2)
{
    let c = s[0];
    let n = t.len() as int;
    if delim_kind(c) is None {
        if is_ws_s(c) { lemma_run_ws_unique(s, |c: char| is_ws_s(c), n); }
        else if is_ident_s(c) { lemma_run_ident_unique(s, |c: char| is_ident_s(c), n); }
    }
    assert(s.take(n) =~= t);
    assert(s.skip(n) =~= s2);
}
