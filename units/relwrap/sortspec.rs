// ---- C13, entry level: the alternatives of the result are the alternatives of the input, sorted, in canonical text --------
pub open spec fn perm_vals(s: Seq<RelV>, p: Seq<int>) -> Seq<RelV> { Seq::new(p.len(), |i: int| s[p[i]]) }
pub open spec fn vals_sorted(s: Seq<RelV>) -> bool {
    forall|i: int, j: int| 0 <= i < j < s.len() ==> rel_order(#[trigger] s[i], #[trigger] s[j]) != core::cmp::Ordering::Greater
}
pub open spec fn vals_texts(s: Seq<RelV>) -> Seq<Seq<char>> { s.map_values(|v: RelV| rel_text(v)) }
/// what Entry::wrap_and_sort returns, in terms of the input's alternatives
pub open spec fn sorted_entry_text(vals: Seq<RelV>, text: Seq<char>) -> bool {
    exists|p: Seq<int>| #![auto] is_perm(p, vals.len() as int) && vals_sorted(perm_vals(vals, p))
        && text == join_seqs(vals_texts(perm_vals(vals, p)), seq![' ', '|', ' '])
}
