// ---- C13, entry level: the alternatives of the result are the alternatives of the input, sorted, in canonical text --------
pub open spec fn perm_vals(s: Seq<RelV>, p: Seq<int>) -> Seq<RelV> { Seq::new(p.len(), |i: int| s[p[i]]) }
pub open spec fn vals_sorted(s: Seq<RelV>) -> bool {
    forall|i: int, j: int| 0 <= i < j < s.len() ==> rel_order(#[trigger] s[i], #[trigger] s[j]) != core::cmp::Ordering::Greater
}
pub open spec fn vals_texts(s: Seq<RelV>) -> Seq<Seq<char>> { s.map_values(|v: RelV| rel_text(v)) }
/// what Entry::wrap_and_sort returns, in terms of the input's alternatives
pub open spec fn sorted_entry_text(vals: Seq<RelV>, text: Seq<char>) -> bool {
    exists|p: Seq<int>| #![auto] is_perm(p, vals.len() as int) && vals_sorted(perm_vals(vals, p))
        && text == join_seqs(vals_texts(perm_vals(vals, p)), seq![' ', '|', ' '])
}
// ---- C13, field level ------------------------------------------------------------------------------------------------------------
pub uninterp spec fn ents(r: Relations) -> Seq<Entry>;
pub open spec fn ents_vals(es: Seq<Entry>) -> Seq<Seq<RelV>> { es.map_values(|e: Entry| accs(rels(e))) }
pub open spec fn entry_text(w: Seq<RelV>) -> Seq<char> { join_seqs(vals_texts(w), seq![' ', '|', ' ']) }
/// w is v rearranged into sorted order
pub open spec fn entry_norm(v: Seq<RelV>, w: Seq<RelV>) -> bool {
    exists|q: Seq<int>| #![auto] is_perm(q, v.len() as int) && w == perm_vals(v, q) && vals_sorted(w)
}
/// the sorted rearrangement an Entry::wrap_and_sort result shows (a choice among ties)
pub open spec fn norm_of(v: Seq<RelV>, text: Seq<char>) -> Seq<RelV> {
    perm_vals(v, choose|p: Seq<int>| #![auto] is_perm(p, v.len() as int) && vals_sorted(perm_vals(v, p)) && text == join_seqs(vals_texts(perm_vals(v, p)), seq![' ', '|', ' ']))
}
pub proof fn lemma_norm_of(v: Seq<RelV>, text: Seq<char>)
    requires sorted_entry_text(v, text)
    ensures entry_norm(v, norm_of(v, text)), text == entry_text(norm_of(v, text))
{
    let p = choose|p: Seq<int>| #![auto] is_perm(p, v.len() as int) && vals_sorted(perm_vals(v, p)) && text == join_seqs(vals_texts(perm_vals(v, p)), seq![' ', '|', ' ']);
    assert(is_perm(p, v.len() as int) && norm_of(v, text) == perm_vals(v, p) && vals_sorted(perm_vals(v, p)));
}
pub open spec fn entries_sorted(ws: Seq<Seq<RelV>>) -> bool {
    forall|i: int, j: int| 0 <= i < j < ws.len() ==> entry_order(#[trigger] ws[i], #[trigger] ws[j]) != core::cmp::Ordering::Greater
}
/// ws: the entries vs, each rearranged into sorted order, rearranged (by p) into sorted order
pub open spec fn field_norm(vs: Seq<Seq<RelV>>, ws: Seq<Seq<RelV>>, p: Seq<int>) -> bool {
    &&& is_perm(p, vs.len() as int)
    &&& ws.len() == vs.len()
    &&& forall|i: int| 0 <= i < ws.len() ==> entry_norm(vs[p[i]], #[trigger] ws[i])
    &&& entries_sorted(ws)
}
/// the SUBSTVAR nodes among the children, in order
pub open spec fn subst_nodes(ch: Seq<SyntaxNode>) -> Seq<SyntaxNode>
    decreases ch.len()
{
    if ch.len() == 0 { Seq::empty() }
    else if ch.last().kind_spec() == SyntaxKind::SUBSTVAR { subst_nodes(ch.drop_last()).push(ch.last()) }
    else { subst_nodes(ch.drop_last()) }
}
pub open spec fn node_texts(ns: Seq<SyntaxNode>) -> Seq<Seq<char>> { ns.map_values(|n: SyntaxNode| n.text_spec()) }
pub open spec fn entry_texts_of(ws: Seq<Seq<RelV>>) -> Seq<Seq<char>> { ws.map_values(|w: Seq<RelV>| entry_text(w)) }
/// what Relations::wrap_and_sort returns: the normalised entries, then the substitution variables (rearranged), joined by ', '
pub open spec fn sorted_field_text(vs: Seq<Seq<RelV>>, subs: Seq<SyntaxNode>, text: Seq<char>) -> bool {
    exists|ws: Seq<Seq<RelV>>, p: Seq<int>, ss: Seq<SyntaxNode>, q: Seq<int>| #![auto]
        field_norm(vs, ws, p) && permuted(subs, ss, q) && text == join_seqs(entry_texts_of(ws) + node_texts(ss), seq![',', ' '])
}
pub proof fn lemma_somes_subst(ch: Seq<SyntaxNode>, outs: Seq<Option<Substvar>>)
    requires
        outs.len() == ch.len(),
        forall|i: int| 0 <= i < ch.len() ==> #[trigger] outs[i] == (if ch[i].kind_spec() == SyntaxKind::SUBSTVAR { Some(Substvar(ch[i])) } else { None::<Substvar> }),
    ensures
        somes(outs).len() == subst_nodes(ch).len(),
        forall|i: int| 0 <= i < subst_nodes(ch).len() ==> (#[trigger] somes(outs)[i]).0 == subst_nodes(ch)[i],
    decreases ch.len()
{
    if ch.len() > 0 { lemma_somes_subst(ch.drop_last(), outs.drop_last()); }
}
// ---- C14, conversion clause: the lossy value made from a lossless relation is what the accessors report -----------------------
pub open spec fn lossy_view(r: lossy::Relation) -> RelV {
    RelV {
        name: r.name@,
        archqual: match r.archqual { Some(q) => Some(q@), None => None },
        version: r.version,
        archs: match r.architectures { Some(a) => Some(strs_view(a@)), None => None },
        profiles: groups_view(r.profiles@),
    }
}
