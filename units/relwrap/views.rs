pub open spec fn prof_view(p: dc_relations::BuildProfile) -> ProfV {
    match p { dc_relations::BuildProfile::Enabled(s) => (false, s@), dc_relations::BuildProfile::Disabled(s) => (true, s@) }
}
pub open spec fn group_view(g: Seq<dc_relations::BuildProfile>) -> Seq<ProfV> { g.map_values(|p: dc_relations::BuildProfile| prof_view(p)) }
pub open spec fn groups_view(gs: Seq<Vec<dc_relations::BuildProfile>>) -> Seq<Seq<ProfV>> { gs.map_values(|g: Vec<dc_relations::BuildProfile>| group_view(g@)) }

/// join of the first i+1 pieces in terms of the first i
pub proof fn lemma_join_take(l: Seq<Seq<char>>, sep: Seq<char>, i: int)
    requires 0 <= i < l.len()
    ensures join_seqs(l.take(i + 1), sep) == if i == 0 { l[0] } else { join_seqs(l.take(i), sep) + sep + l[i] }
{
    assert(l.take(i + 1).drop_last() =~= l.take(i));
    assert(l.take(i + 1).last() == l[i]);
    if i == 0 { assert(l.take(1)[0] == l[0]); }
}

pub open spec fn rel_texts(v: Seq<Relation>) -> Seq<Seq<char>> { v.map_values(|r: Relation| r.0.text_spec()) }
pub open spec fn entry_texts(v: Seq<Entry>) -> Seq<Seq<char>> { v.map_values(|e: Entry| e.0.text_spec()) }
