// TRUSTED declarations of unit relwrap (reported as assumptions in the evidence)
/// `Relation: Ord` - what `Vec<Relation>::sort()` compares with - is rel_order over the accessors' values: this IS the
/// proved contract of `impl Ord for Relation::cmp` in unit relord (same spec function), restated for the sort model
impl VxSortOrd for Relation {
    open spec fn sort_ord(a: Relation, b: Relation) -> core::cmp::Ordering { rel_order(acc(a), acc(b)) }
}
/// `Entry: Ord`: the proved contract of `impl Ord for Entry::cmp` in unit relord
impl VxSortOrd for Entry {
    open spec fn sort_ord(a: Entry, b: Entry) -> core::cmp::Ordering { entry_order(accs(rels(a)), accs(rels(b))) }
}
/// ASSUMED (C10's theorem covers name and qualifier only): a relation handle whose text is the canonical text of v
/// reports v through its accessors - i.e. the canonical text reads back
#[verifier::external_body]
pub proof fn axiom_canonical_reads_back(res: Relation, v: RelV)
    requires res.0.text_spec() == rel_text(v)
    ensures acc(res) == v
{}
/// ASSUMED (the same reading-back fact at entry level): an entry handle whose text is the ' | '-join of the canonical
/// texts of vals has alternatives that report vals
#[verifier::external_body]
pub proof fn axiom_canonical_entry_reads_back(res: Entry, vals: Seq<RelV>)
    requires res.0.text_spec() == entry_text(vals)
    ensures accs(rels(res)) == vals
{}
/// `Display for Substvar`: some text of the node (only used as a sort key)
impl VxDisplay for Substvar {
    uninterp spec fn display_spec(&self) -> Seq<char>;
}
/// ASSUMED: two live vectors of pointer-sized handles together hold at most usize::MAX elements (they occupy disjoint
/// memory of one address space), so `enumerate()` over their chain cannot overflow its counter
#[verifier::external_body]
pub proof fn axiom_handle_vecs_fit(a: &Vec<Entry>, b: &Vec<Substvar>)
    ensures a@.len() + b@.len() <= usize::MAX
{}
