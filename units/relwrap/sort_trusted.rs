// TRUSTED declarations of unit relwrap (reported as assumptions in the evidence)
/// `Relation: Ord` - what `Vec<Relation>::sort()` compares with - is rel_order over the accessors' values: this IS the
/// proved contract of `impl Ord for Relation::cmp` in unit relord (same spec function), restated for the sort model
impl VxSortOrd for Relation {
    open spec fn sort_ord(a: Relation, b: Relation) -> core::cmp::Ordering { rel_order(acc(a), acc(b)) }
}
/// `Entry: Ord`: the proved contract of `impl Ord for Entry::cmp` in unit relord
impl VxSortOrd for Entry {
    open spec fn sort_ord(a: Entry, b: Entry) -> core::cmp::Ordering { entry_order(accs(rels(a)), accs(rels(b))) }
}
/// ASSUMED (C10's theorem covers name and qualifier only): a relation handle whose text is the canonical text of v
/// reports v through its accessors - i.e. the canonical text reads back
#[verifier::external_body]
pub proof fn axiom_canonical_reads_back(res: Relation, v: RelV)
    requires res.0.text_spec() == rel_text(v)
    ensures acc(res) == v
{}
