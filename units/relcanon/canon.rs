// ---------------------------------------------------------------------------------------------
// C10 / C14 (second clause), on the canonical text: a relationship field written in the lossy printer's form
// (rel_text of valid components, alternatives joined by " | ", entries by ", ") is accepted by the strict
// lossless reader without error, and the tree exposes the same entries, alternatives, names and qualifiers.
// ---------------------------------------------------------------------------------------------
/// tokens with the same continuation after optional whitespace
pub open spec fn ws_equiv(a: Seq<RTok>, b: Seq<RTok>) -> bool { q_ws(a).1 == q_ws(b).1 }

pub proof fn lemma_q_ws_idem(ts: Seq<RTok>)
    ensures q_ws(q_ws(ts).1) == (Seq::<Tree>::empty(), q_ws(ts).1)
    decreases ts.len()
{
    if ts.len() > 0 && is_wsk(ts[0].0) { lemma_q_ws_idem(ts.skip(1)); }
}
/// a single space followed by a token that is not whitespace
pub proof fn lemma_q_ws_space(b: Seq<char>)
    requires no_ws_start(b), b.len() == 0 || b[0] != '\n'
    ensures
        rel_tokens_of(seq![' '] + b) == seq![(WHITESPACE, seq![' '])] + rel_tokens_of(b),
        q_ws(rel_tokens_of(seq![' '] + b)) == (seq![leaf((WHITESPACE, seq![' ']))], rel_tokens_of(b)),
        q_ws(rel_tokens_of(b)) == (Seq::<Tree>::empty(), rel_tokens_of(b)),
{
    lemma_lex_space(b);
    lemma_no_ws_head(b);
    let t = rel_tokens_of(seq![' '] + b);
    assert(t.skip(1) =~= rel_tokens_of(b));
    assert(seq![leaf(t[0])] + Seq::<Tree>::empty() =~= seq![leaf((WHITESPACE, seq![' ']))]);
}
/// the first token of a text that does not begin with a blank is not a blank token
pub proof fn lemma_no_ws_head(b: Seq<char>)
    requires no_ws_start(b), b.len() == 0 || b[0] != '\n'
    ensures rel_tokens_of(b).len() == 0 || !is_wsk(rel_tokens_of(b)[0].0), q_ws(rel_tokens_of(b)) == (Seq::<Tree>::empty(), rel_tokens_of(b))
{
    if b.len() > 0 {
        let (k, n) = rel_lex_fn(b);
        assert(k != WHITESPACE && k != NEWLINE) by {
            let c = b[0];
            match delim_kind(c) { Some(d) => { assert(d != NEWLINE); } None => {} }
        }
        lemma_lex_fn_bounds(b);
    }
}
pub proof fn lemma_lex_fn_bounds(s: Seq<char>)
    requires s.len() > 0
    ensures 1 <= rel_lex_fn(s).1 <= s.len()
{
    let c = s[0];
    if delim_kind(c) is None {
        if is_ws_s(c) { lemma_run_ws_bounds(s); } else if is_ident_s(c) { lemma_run_ident_bounds2(s); }
    }
}
pub proof fn lemma_run_ws_bounds(t: Seq<char>)
    ensures 0 <= run_ws(t) <= t.len(), (t.len() > 0 && is_ws_s(t[0])) ==> run_ws(t) >= 1
    decreases t.len()
{
    if t.len() > 0 && is_ws_s(t[0]) { lemma_run_ws_bounds(t.skip(1)); }
}
pub proof fn lemma_run_ident_bounds2(t: Seq<char>)
    ensures 0 <= run_ident(t) <= t.len(), (t.len() > 0 && is_ident_s(t[0])) ==> run_ident(t) >= 1
    decreases t.len()
{
    if t.len() > 0 && is_ident_s(t[0]) { lemma_run_ident_bounds2(t.skip(1)); }
}
