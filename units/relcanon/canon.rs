// ---------------------------------------------------------------------------------------------
// C10 / C14 (second clause), on the canonical text: a relationship field written in the lossy printer's form
// (rel_text of valid components, alternatives joined by " | ", entries by ", ") is accepted by the strict
// lossless reader without error, and the tree exposes the same entries, alternatives, names and qualifiers.
// ---------------------------------------------------------------------------------------------
/// tokens with the same continuation after optional whitespace
pub open spec fn ws_equiv(a: Seq<RTok>, b: Seq<RTok>) -> bool { q_ws(a).1 == q_ws(b).1 }

pub proof fn lemma_q_ws_idem(ts: Seq<RTok>)
    ensures q_ws(q_ws(ts).1) == (Seq::<Tree>::empty(), q_ws(ts).1)
    decreases ts.len()
{
    if ts.len() > 0 && is_wsk(ts[0].0) { lemma_q_ws_idem(ts.skip(1)); }
}
/// a single space followed by a token that is not whitespace
pub proof fn lemma_q_ws_space(b: Seq<char>)
    requires no_ws_start(b), b.len() == 0 || b[0] != '\n'
    ensures
        rel_tokens_of(seq![' '] + b) == seq![(WHITESPACE, seq![' '])] + rel_tokens_of(b),
        q_ws(rel_tokens_of(seq![' '] + b)) == (seq![leaf((WHITESPACE, seq![' ']))], rel_tokens_of(b)),
        q_ws(rel_tokens_of(b)) == (Seq::<Tree>::empty(), rel_tokens_of(b)),
{
    lemma_lex_space(b);
    lemma_no_ws_head(b);
    let t = rel_tokens_of(seq![' '] + b);
    assert(t.skip(1) =~= rel_tokens_of(b));
    assert(seq![leaf(t[0])] + Seq::<Tree>::empty() =~= seq![leaf((WHITESPACE, seq![' ']))]);
}
/// the first token of a text that does not begin with a blank is not a blank token
pub proof fn lemma_no_ws_head(b: Seq<char>)
    requires no_ws_start(b), b.len() == 0 || b[0] != '\n'
    ensures rel_tokens_of(b).len() == 0 || !is_wsk(rel_tokens_of(b)[0].0), q_ws(rel_tokens_of(b)) == (Seq::<Tree>::empty(), rel_tokens_of(b))
{
    if b.len() > 0 {
        let (k, n) = rel_lex_fn(b);
        assert(k != WHITESPACE && k != NEWLINE) by {
            let c = b[0];
            match delim_kind(c) { Some(d) => { assert(d != NEWLINE); } None => {} }
        }
        lemma_lex_fn_bounds(b);
    }
}
pub proof fn lemma_lex_fn_bounds(s: Seq<char>)
    requires s.len() > 0
    ensures 1 <= rel_lex_fn(s).1 <= s.len()
{
    let c = s[0];
    if delim_kind(c) is None {
        if is_ws_s(c) { lemma_run_ws_bounds(s); } else if is_ident_s(c) { lemma_run_ident_bounds2(s); }
    }
}
pub proof fn lemma_run_ws_bounds(t: Seq<char>)
    ensures 0 <= run_ws(t) <= t.len(), (t.len() > 0 && is_ws_s(t[0])) ==> run_ws(t) >= 1
    decreases t.len()
{
    if t.len() > 0 && is_ws_s(t[0]) { lemma_run_ws_bounds(t.skip(1)); }
}
pub proof fn lemma_run_ident_bounds2(t: Seq<char>)
    ensures 0 <= run_ident(t) <= t.len(), (t.len() > 0 && is_ident_s(t[0])) ==> run_ident(t) >= 1
    decreases t.len()
{
    if t.len() > 0 && is_ident_s(t[0]) { lemma_run_ident_bounds2(t.skip(1)); }
}

// ---- the domain: valid components, and a version that begins with a name character (every Debian version does) -----
pub open spec fn valid_rel_ll(v: RelV) -> bool {
    valid_rel(v) && (v.version matches Some(cv) ==> is_ident_s(version_text(cv.1)[0]))
}
/// what may follow a relation: the end, " | ...", or ", ..."
pub open spec fn sep_start(t: Seq<char>) -> bool {
    t.len() == 0 || t[0] == ',' || (t.len() > 1 && t[0] == ' ' && t[1] == '|')
}
pub open spec fn sep_kind(k: Option<SyntaxKind>) -> bool { k is None || k == Some(PIPE) || k == Some(COMMA) }

pub proof fn lemma_sep_peek(t: Seq<char>)
    requires sep_start(t)
    ensures sep_kind(q_peek(rel_tokens_of(t)))
{
    if t.len() == 0 { }
    else if t[0] == ',' {
        assert(t =~= seq![','] + t.skip(1));
        lemma_lex_delim(',', t.skip(1));
        let x = rel_tokens_of(t);
        assert(x[0].0 == COMMA);
        assert(q_ws(x) == (Seq::<Tree>::empty(), x));
    } else {
        let b = t.skip(1);
        assert(t =~= seq![' '] + b);
        assert(b[0] == '|');
        lemma_q_ws_space(b);
        assert(b =~= seq!['|'] + b.skip(1));
        lemma_lex_delim('|', b.skip(1));
        assert(rel_tokens_of(b)[0].0 == PIPE);
    }
}
/// " " + delimiter + rest: after the blank, the delimiter token
pub proof fn lemma_q_space_delim(c: char, b: Seq<char>)
    requires delim_kind(c) is Some, c != '\n'
    ensures
        q_ws(rel_tokens_of(seq![' ', c] + b)).1 == seq![(delim_kind(c)->Some_0, seq![c])] + rel_tokens_of(b),
        q_peek(rel_tokens_of(seq![' ', c] + b)) == delim_kind(c),
{
    let r = seq![c] + b;
    assert(seq![' ', c] + b =~= seq![' '] + r);
    assert(r[0] == c);
    lemma_q_ws_space(r);
    lemma_lex_delim(c, b);
}

// ---- the tails of a printed relation followed by t ---------------------------------------------------------------------------
pub open spec fn tl3(v: RelV, t: Seq<char>) -> Seq<char> { groups_text(v.profiles) + t }
pub open spec fn tl2(v: RelV, t: Seq<char>) -> Seq<char> { archs_part(v.archs) + tl3(v, t) }
pub open spec fn tl1(v: RelV, t: Seq<char>) -> Seq<char> { version_part(v.version) + tl2(v, t) }
pub open spec fn tl0(v: RelV, t: Seq<char>) -> Seq<char> { archqual_text(v.archqual) + tl1(v, t) }

pub proof fn lemma_groups_front(g: Seq<ProfV>, rest: Seq<Seq<ProfV>>)
    ensures groups_text(seq![g] + rest) == seq![' ', '<'] + group_text(g) + seq!['>'] + groups_text(rest)
    decreases rest.len()
{
    let gs = seq![g] + rest;
    if rest.len() == 0 {
        assert(gs.drop_last() =~= Seq::<Seq<ProfV>>::empty());
        assert(gs.last() == g);
        assert(groups_text(gs.drop_last()) =~= Seq::<char>::empty());
        assert(groups_text(rest) =~= Seq::<char>::empty());
        assert(groups_text(gs) =~= seq![' ', '<'] + group_text(g) + seq!['>'] + groups_text(rest));
    } else {
        lemma_groups_front(g, rest.drop_last());
        assert(gs.drop_last() =~= seq![g] + rest.drop_last());
        assert(gs.last() == rest.last());
        assert(groups_text(gs) =~= seq![' ', '<'] + group_text(g) + seq!['>'] + groups_text(rest));
    }
}
pub proof fn lemma_group_front(p: ProfV, rest: Seq<ProfV>)
    ensures group_text(seq![p] + rest) == if rest.len() == 0 { prof_text(p) } else { prof_text(p) + seq![' '] + group_text(rest) }
    decreases rest.len()
{
    let g = seq![p] + rest;
    if rest.len() == 0 { assert(g =~= seq![p]); }
    else if rest.len() == 1 {
        assert(g.drop_last() =~= seq![p]);
        assert(g.last() == rest[0]);
        assert(group_text(g.drop_last()) == prof_text(p));
    } else {
        lemma_group_front(p, rest.drop_last());
        assert(g.drop_last() =~= seq![p] + rest.drop_last());
        assert(g.last() == rest.last());
        assert(group_text(g) =~= prof_text(p) + seq![' '] + group_text(rest));
    }
}
/// what comes next (after blanks) in each tail
pub proof fn lemma_tail_peeks(v: RelV, t: Seq<char>)
    requires valid_rel(v), sep_start(t)
    ensures
        q_peek(rel_tokens_of(tl3(v, t))) == if v.profiles.len() > 0 { Some(L_ANGLE) } else { q_peek(rel_tokens_of(t)) },
        q_peek(rel_tokens_of(tl2(v, t))) == if v.archs is Some { Some(L_BRACKET) } else { q_peek(rel_tokens_of(tl3(v, t))) },
        q_peek(rel_tokens_of(tl1(v, t))) == if v.version is Some { Some(L_PARENS) } else { q_peek(rel_tokens_of(tl2(v, t))) },
        sep_kind(q_peek(rel_tokens_of(t))),
        tl0(v, t).len() == 0 || !is_ident_s(tl0(v, t)[0]),
        tl1(v, t).len() == 0 || !is_ident_s(tl1(v, t)[0]),
{
    lemma_sep_peek(t);
    if v.profiles.len() > 0 {
        let g = v.profiles[0]; let rest = v.profiles.skip(1);
        assert(v.profiles =~= seq![g] + rest);
        lemma_groups_front(g, rest);
        let inner = group_text(g) + seq!['>'] + groups_text(rest) + t;
        assert(tl3(v, t) =~= seq![' ', '<'] + inner);
        lemma_q_space_delim('<', inner);
    } else {
        assert(groups_text(v.profiles) =~= Seq::<char>::empty());
        assert(tl3(v, t) =~= t);
    }
    match v.archs {
        Some(l) => {
            let inner = join_seqs(l, seq![' ']) + seq![']'] + tl3(v, t);
            assert(tl2(v, t) =~= seq![' ', '['] + inner);
            lemma_q_space_delim('[', inner);
        }
        None => { assert(tl2(v, t) =~= tl3(v, t)); }
    }
    match v.version {
        Some(cv) => {
            let inner = vconstraint_text(cv.0) + seq![' '] + version_text(cv.1) + seq![')'] + tl2(v, t);
            assert(tl1(v, t) =~= seq![' ', '('] + inner);
            lemma_q_space_delim('(', inner);
        }
        None => { assert(tl1(v, t) =~= tl2(v, t)); }
    }
    match v.archqual {
        Some(q) => { assert(tl0(v, t)[0] == ':'); }
        None => { assert(tl0(v, t) =~= tl1(v, t)); }
    }
}

// ---- version -------------------------------------------------------------------------------------------------------------------
pub open spec fn is_op_char(c: char) -> bool { c == '<' || c == '>' || c == '=' }
pub proof fn lemma_q_ops(t: Seq<char>, b: Seq<char>)
    requires forall|i: int| 0 <= i < t.len() ==> is_op_char(#[trigger] t[i]), b.len() > 0, b[0] == ' ', no_ws_start(b.skip(1)), b.len() == 1 || b[1] != '\n'
    ensures q_ops(rel_tokens_of(t + b)).1 == rel_tokens_of(b)
    decreases t.len()
{
    if t.len() == 0 {
        assert(t + b =~= b);
        assert(b =~= seq![' '] + b.skip(1));
        lemma_q_ws_space(b.skip(1));
        assert(rel_tokens_of(b)[0].0 == WHITESPACE);
    } else {
        let c = t[0];
        let r = t.skip(1);
        assert(t + b =~= seq![c] + (r + b));
        lemma_lex_delim(c, r + b);
        assert forall|i: int| 0 <= i < r.len() implies is_op_char(#[trigger] r[i]) by { assert(r[i] == t[i + 1]); }
        lemma_q_ops(r, b);
        let ts = rel_tokens_of(t + b);
        assert(ts.skip(1) =~= rel_tokens_of(r + b));
    }
}
pub proof fn lemma_vconstraint_ops(c: dc_relations::VersionConstraint)
    ensures forall|i: int| 0 <= i < vconstraint_text(c).len() ==> is_op_char(#[trigger] vconstraint_text(c)[i]), vconstraint_text(c).len() > 0
{
    reveal_strlit(">="); reveal_strlit("<="); reveal_strlit("="); reveal_strlit(">>"); reveal_strlit("<<");
}
pub proof fn lemma_run_ident_bounds(t: Seq<char>)
    ensures
        0 <= run_ident(t) <= t.len(),
        forall|i: int| 0 <= i < run_ident(t) ==> is_ident_s(#[trigger] t[i]),
        run_ident(t) < t.len() ==> !is_ident_s(t[run_ident(t)]),
        (t.len() > 0 && is_ident_s(t[0])) ==> run_ident(t) >= 1,
    decreases t.len()
{
    if t.len() > 0 && is_ident_s(t[0]) {
        lemma_run_ident_bounds(t.skip(1));
        let k = run_ident(t.skip(1));
        assert forall|i: int| 0 <= i < k + 1 implies is_ident_s(#[trigger] t[i]) by { if i > 0 { assert(t[i] == t.skip(1)[i - 1]); } }
        if k + 1 < t.len() { assert(t[k + 1] == t.skip(1)[k]); }
    }
}
/// version text (name characters and ':') followed by ')': consumed entirely by q_vrest
pub proof fn lemma_q_vrest(t: Seq<char>, b: Seq<char>)
    requires forall|i: int| 0 <= i < t.len() ==> (is_ident_s(#[trigger] t[i]) || t[i] == ':'), b.len() > 0, b[0] == ')'
    ensures q_vrest(rel_tokens_of(t + b)).1 == rel_tokens_of(b)
    decreases t.len()
{
    if t.len() == 0 {
        assert(t + b =~= b);
        assert(b =~= seq![')'] + b.skip(1));
        lemma_lex_delim(')', b.skip(1));
        assert(rel_tokens_of(b)[0].0 == R_PARENS);
    } else if t[0] == ':' {
        let r = t.skip(1);
        assert(t + b =~= seq![':'] + (r + b));
        lemma_lex_delim(':', r + b);
        assert forall|i: int| 0 <= i < r.len() implies (is_ident_s(#[trigger] r[i]) || r[i] == ':') by { assert(r[i] == t[i + 1]); }
        lemma_q_vrest(r, b);
        let ts = rel_tokens_of(t + b);
        assert(ts[0].0 == COLON);
        assert(ts.skip(1) =~= rel_tokens_of(r + b));
    } else {
        let k = run_ident(t);
        lemma_run_ident_bounds(t);
        let x = t.take(k);
        let r = t.skip(k);
        assert(t + b =~= x + (r + b));
        assert(no_ident_start(r + b)) by { if r.len() > 0 { assert((r + b)[0] == t[k]); } else { assert((r + b)[0] == b[0]); } }
        assert(ident_str(x)) by { assert forall|i: int| 0 <= i < x.len() implies is_ident_s(#[trigger] x[i]) by { assert(x[i] == t[i]); } }
        lemma_lex_ident(x, r + b);
        assert forall|i: int| 0 <= i < r.len() implies (is_ident_s(#[trigger] r[i]) || r[i] == ':') by { assert(r[i] == t[i + k]); }
        lemma_q_vrest(r, b);
        let ts = rel_tokens_of(t + b);
        assert(ts[0].0 == IDENT);
        assert(ts.skip(1) =~= rel_tokens_of(r + b));
    }
}
/// " (op version)" + b, reached after blanks: one VERSION node, no error, b is what remains
pub proof fn lemma_q_version_stage(c: dc_relations::VersionConstraint, v: debversion::Version, b: Seq<char>, x: Seq<RTok>)
    requires version_ok(v), is_ident_s(version_text(v)[0]), q_ws(x).1 == q_ws(rel_tokens_of(version_part(Some((c, v))) + b)).1
    ensures
        q_opt_version(x).1 == rel_tokens_of(b), q_opt_version(x).2 == 0,
        q_opt_version(x).0.len() >= 1, q_opt_version(x).0.last() is Node && rowan::tree_kind(q_opt_version(x).0.last()) == VERSION,
        q_opt_version(x).0.drop_last() == q_ws(x).0,
{
    let ct = vconstraint_text(c);
    let vt = version_text(v);
    let b2 = seq![')'] + b;
    let b1 = seq![' '] + (vt + b2);
    let inner = ct + b1;
    assert(version_part(Some((c, v))) + b =~= seq![' ', '('] + inner);
    lemma_q_space_delim('(', inner);
    let y = q_ws(x).1;
    assert(y == seq![(L_PARENS, seq!['('])] + rel_tokens_of(inner));
    assert(y[0].0 == L_PARENS);
    assert(y.skip(1) =~= rel_tokens_of(inner));
    lemma_vconstraint_ops(c);
    // no blank after '('
    assert(inner[0] == ct[0]);
    assert(inner =~= seq![inner[0]] + inner.skip(1));
    lemma_lex_delim(inner[0], inner.skip(1));
    assert(rel_tokens_of(inner)[0].0 != WHITESPACE && rel_tokens_of(inner)[0].0 != NEWLINE);
    assert(q_ws(rel_tokens_of(inner)) == (Seq::<Tree>::empty(), rel_tokens_of(inner)));
    // operator
    assert(b1.skip(1) =~= vt + b2);
    assert(b1.skip(1)[0] == vt[0]);
    assert(b1[1] == vt[0]);
    lemma_q_ops(ct, b1);
    // blank, then the version
    lemma_q_ws_space(vt + b2);
    assert((vt + b2)[0] == vt[0]);
    let k = run_ident(vt);
    lemma_run_ident_bounds(vt);
    let xi = vt.take(k); let r = vt.skip(k);
    assert(ident_str(xi)) by { assert forall|i: int| 0 <= i < xi.len() implies is_ident_s(#[trigger] xi[i]) by { assert(xi[i] == vt[i]); } }
    assert(no_ident_start(r + b2)) by { if r.len() > 0 { assert((r + b2)[0] == vt[k]); } else { assert((r + b2)[0] == ')'); } }
    lemma_lex_ident(xi, r + b2);
    assert(vt + b2 =~= xi + (r + b2));
    let tv = rel_tokens_of(vt + b2);
    assert(tv[0].0 == IDENT);
    assert(tv.skip(1) =~= rel_tokens_of(r + b2));
    assert forall|i: int| 0 <= i < r.len() implies (is_ident_s(#[trigger] r[i]) || r[i] == ':') by { assert(r[i] == vt[i + k]); }
    lemma_q_vrest(r, b2);
    // ')'
    lemma_lex_delim(')', b);
    let t2 = rel_tokens_of(b2);
    assert(t2[0].0 == R_PARENS);
    assert(t2.skip(1) =~= rel_tokens_of(b));
    // assemble
    let qv = q_version(y);
    assert(qv.1 == rel_tokens_of(b) && qv.2 == 0);
    assert(q_peek(x) == Some(L_PARENS));
    let res = q_opt_version(x);
    assert(res.0 =~= q_ws(x).0 + seq![qv.0]);
    assert(res.0.drop_last() =~= q_ws(x).0);
}

// ---- architecture list ---------------------------------------------------------------------------------------------------------
/// the inside of "[...]": the architectures joined by one blank, then ']'
pub proof fn lemma_q_archs(l: Seq<Seq<char>>, b: Seq<char>)
    requires forall|i: int| 0 <= i < l.len() ==> arch_ok(#[trigger] l[i])
    ensures
        q_archs(rel_tokens_of(join_seqs(l, seq![' ']) + seq![']'] + b)).1 == rel_tokens_of(b),
        q_archs(rel_tokens_of(join_seqs(l, seq![' ']) + seq![']'] + b)).2 == 0,
    decreases l.len()
{
    let close = seq![']'] + b;
    if l.len() == 0 {
        assert(join_seqs(l, seq![' ']) + seq![']'] + b =~= close);
        lemma_lex_delim(']', b);
        let ts = rel_tokens_of(close);
        assert(ts[0].0 == R_BRACKET);
        assert(q_ws(ts) == (Seq::<Tree>::empty(), ts));
        assert(ts.skip(1) =~= rel_tokens_of(b));
    } else {
        let a = l[0];
        let rest = l.skip(1);
        assert(l =~= seq![a] + rest);
        assert forall|i: int| 0 <= i < rest.len() implies arch_ok(#[trigger] rest[i]) by { assert(rest[i] == l[i + 1]); }
        // what follows this architecture: ']' or " next"
        let after: Seq<char> = if rest.len() == 0 { close } else { seq![' '] + (join_seqs(rest, seq![' ']) + seq![']'] + b) };
        if rest.len() == 0 {
            assert(join_seqs(l, seq![' ']) == a);
            assert(join_seqs(l, seq![' ']) + seq![']'] + b =~= a + after);
        } else {
            lemma_join_front(a, rest, seq![' ']);
            assert(join_seqs(l, seq![' ']) + seq![']'] + b =~= a + after);
        }
        assert(no_ident_start(after));
        lemma_q_archs(rest, b);
        let tail = join_seqs(rest, seq![' ']) + seq![']'] + b;
        // tokens of `after`: for the non-empty rest, one blank then the tail; q_archs skips it
        let ta = rel_tokens_of(after);
        if rest.len() > 0 {
            assert(no_ws_start(tail) && tail[0] != '\n') by {
                let r0 = rest[0];
                if rest.len() == 1 { assert(join_seqs(rest, seq![' ']) == r0); } else { lemma_join_front(r0, rest.skip(1), seq![' ']); assert(rest =~= seq![r0] + rest.skip(1)); }
                assert(tail[0] == r0[0]);
                if !ident_str(r0) { assert(r0[0] == '!'); }
            }
            lemma_q_ws_space(tail);
            assert(q_ws(ta).1 == rel_tokens_of(tail));
        } else {
            assert(after =~= tail);
        }
        assert(q_archs(ta).1 == rel_tokens_of(b) && q_archs(ta).2 == 0) by {
            if rest.len() > 0 {
                // q_archs(ta): blanks, then as q_archs(tokens(tail)) which has no leading blank
                lemma_no_ws_head(tail);
                lemma_q_archs_skip_ws(ta);
            }
        }
        // this architecture: IDENT, or NOT IDENT
        let ts = rel_tokens_of(a + after);
        if ident_str(a) {
            lemma_lex_ident(a, after);
            assert(ts[0].0 == IDENT);
            assert(q_ws(ts) == (Seq::<Tree>::empty(), ts));
            assert(ts.skip(1) =~= ta);
        } else {
            let n = a.skip(1);
            assert(a + after =~= seq!['!'] + (n + after));
            lemma_lex_delim('!', n + after);
            lemma_lex_ident(n, after);
            assert(ts[0].0 == NOT);
            assert(q_ws(ts) == (Seq::<Tree>::empty(), ts));
            let t1 = ts.skip(1);
            assert(t1 =~= rel_tokens_of(n + after));
            assert(t1[0].0 == IDENT);
            assert(q_ws(t1) == (Seq::<Tree>::empty(), t1));
            assert(t1.skip(1) =~= ta);
            lemma_q_ws_len(t1);
            assert(q_archs(t1).1 == q_archs(ta).1 && q_archs(t1).2 == q_archs(ta).2);
        }
        lemma_q_ws_len(ts);
        assert(q_archs(ts).1 == q_archs(ta).1 && q_archs(ts).2 == q_archs(ta).2);
        assert(rel_tokens_of(join_seqs(l, seq![' ']) + seq![']'] + b) == ts);
    }
}
/// q_archs only depends on what follows the leading blanks
pub proof fn lemma_q_archs_skip_ws(ts: Seq<RTok>)
    ensures q_archs(ts).1 == q_archs(q_ws(ts).1).1, q_archs(ts).2 == q_archs(q_ws(ts).1).2
{
    lemma_q_ws_idem(ts);
    lemma_q_ws_len(ts);
    let t = q_ws(ts).1;
    lemma_q_ws_len(t);
}
pub proof fn lemma_q_archs_stage(l: Seq<Seq<char>>, b: Seq<char>, x: Seq<RTok>)
    requires forall|i: int| 0 <= i < l.len() ==> arch_ok(#[trigger] l[i]), q_ws(x).1 == q_ws(rel_tokens_of(archs_part(Some(l)) + b)).1
    ensures
        q_opt_archs(x).1 == rel_tokens_of(b), q_opt_archs(x).2 == 0,
        q_opt_archs(x).0.len() >= 1, q_opt_archs(x).0.last() is Node && rowan::tree_kind(q_opt_archs(x).0.last()) == ARCHITECTURES,
        q_opt_archs(x).0.drop_last() == q_ws(x).0,
{
    let inner = join_seqs(l, seq![' ']) + seq![']'] + b;
    assert(archs_part(Some(l)) + b =~= seq![' ', '['] + inner);
    lemma_q_space_delim('[', inner);
    let y = q_ws(x).1;
    assert(y[0].0 == L_BRACKET);
    assert(y.skip(1) =~= rel_tokens_of(inner));
    lemma_q_archs(l, b);
    let res = q_opt_archs(x);
    let a = q_archs(y.skip(1));
    assert(res.0 =~= q_ws(x).0 + seq![node(ARCHITECTURES, seq![leaf(y[0])] + a.0)]);
    assert(res.0.drop_last() =~= q_ws(x).0);
}

// ---- restriction lists ------------------------------------------------------------------------------------------------------------
pub proof fn lemma_q_profs_skip_ws(ts: Seq<RTok>)
    ensures q_profs(ts).1 == q_profs(q_ws(ts).1).1, q_profs(ts).2 == q_profs(q_ws(ts).1).2
{
    lemma_q_ws_idem(ts);
    lemma_q_ws_len(ts);
    let t = q_ws(ts).1;
    lemma_q_ws_len(t);
    if t.len() > 0 && t[0].0 == NOT { lemma_q_ws_len(t.skip(1)); }
}
/// the inside of "<...>": the terms separated by one blank, then '>'
pub proof fn lemma_q_profs(g: Seq<ProfV>, b: Seq<char>)
    requires group_ok(g)
    ensures
        q_profs(rel_tokens_of(group_text(g) + seq!['>'] + b)).1 == rel_tokens_of(b),
        q_profs(rel_tokens_of(group_text(g) + seq!['>'] + b)).2 == 0,
    decreases g.len()
{
    let p = g[0];
    let rest = g.skip(1);
    assert(g =~= seq![p] + rest);
    lemma_group_front(p, rest);
    let close = seq!['>'] + b;
    let tail = group_text(rest) + seq!['>'] + b;
    let after: Seq<char> = if rest.len() == 0 { close } else { seq![' '] + tail };
    assert(group_text(g) + seq!['>'] + b =~= prof_text(p) + after);
    assert(no_ident_start(after));
    let ta = rel_tokens_of(after);
    // what follows this term
    if rest.len() == 0 {
        lemma_lex_delim('>', b);
        assert(ta[0].0 == R_ANGLE);
        assert(q_ws(ta) == (Seq::<Tree>::empty(), ta));
        assert(ta.skip(1) =~= rel_tokens_of(b));
        assert(q_profs(ta).1 == rel_tokens_of(b) && q_profs(ta).2 == 0);
    } else {
        assert forall|i: int| 0 <= i < rest.len() implies ident_str((#[trigger] rest[i]).1) by { assert(rest[i] == g[i + 1]); }
        lemma_q_profs(rest, b);
        assert(no_ws_start(tail) && tail[0] != '\n') by {
            let q = rest[0];
            lemma_group_front(q, rest.skip(1));
            assert(rest =~= seq![q] + rest.skip(1));
            assert(tail[0] == prof_text(q)[0]);
            if q.0 { assert(prof_text(q)[0] == '!'); } else { assert(prof_text(q)[0] == q.1[0]); }
        }
        lemma_q_ws_space(tail);
        lemma_q_profs_skip_ws(ta);
        assert(q_profs(ta).1 == rel_tokens_of(b) && q_profs(ta).2 == 0);
    }
    // this term: IDENT, or NOT IDENT
    let ts = rel_tokens_of(prof_text(p) + after);
    if p.0 {
        assert(prof_text(p) + after =~= seq!['!'] + (p.1 + after));
        lemma_lex_delim('!', p.1 + after);
        lemma_lex_ident(p.1, after);
        assert(ts[0].0 == NOT);
        assert(q_ws(ts) == (Seq::<Tree>::empty(), ts));
        let t1 = ts.skip(1);
        assert(t1 =~= rel_tokens_of(p.1 + after));
        assert(t1[0].0 == IDENT);
        assert(q_ws(t1) == (Seq::<Tree>::empty(), t1));
        assert(t1.skip(1) =~= ta);
        lemma_q_ws_len(t1);
        let e = q_expect(t1, IDENT);
        assert(e.1 == ta && e.2 == 0);
        lemma_tokens_shrink(p.1, after);
    } else {
        lemma_lex_ident(p.1, after);
        assert(ts[0].0 == IDENT);
        assert(q_ws(ts) == (Seq::<Tree>::empty(), ts));
        assert(ts.skip(1) =~= ta);
    }
    lemma_q_ws_len(ts);
}
/// (helper for the guard in q_profs) nothing to prove beyond lengths
pub proof fn lemma_tokens_shrink(a: Seq<char>, b: Seq<char>) { }

/// all restriction lists, then t
pub proof fn lemma_q_profiles(gs: Seq<Seq<ProfV>>, t: Seq<char>, x: Seq<RTok>)
    requires
        forall|i: int| 0 <= i < gs.len() ==> group_ok(#[trigger] gs[i]), sep_start(t),
        q_ws(x).1 == q_ws(rel_tokens_of(groups_text(gs) + t)).1,
    ensures
        q_profiles(x).2 == 0, ws_equiv(q_profiles(x).1, rel_tokens_of(t)),
        forall|i: int| 0 <= i < q_profiles(x).0.len() ==> (#[trigger] q_profiles(x).0[i]) is Tok || rowan::tree_kind(q_profiles(x).0[i]) == PROFILES,
    decreases gs.len()
{
    lemma_sep_peek(t);
    if gs.len() == 0 {
        assert(groups_text(gs) =~= Seq::<char>::empty());
        assert(groups_text(gs) + t =~= t);
        assert(q_peek(x) == q_peek(rel_tokens_of(t)));
        assert(q_profiles(x) == (Seq::<Tree>::empty(), x, 0nat));
    } else {
        let g = gs[0];
        let rest = gs.skip(1);
        assert(gs =~= seq![g] + rest);
        lemma_groups_front(g, rest);
        let after = groups_text(rest) + t;
        let inner = group_text(g) + seq!['>'] + after;
        assert(groups_text(gs) + t =~= seq![' ', '<'] + inner);
        lemma_q_space_delim('<', inner);
        let y = q_ws(x).1;
        assert(y[0].0 == L_ANGLE);
        assert(y.skip(1) =~= rel_tokens_of(inner));
        assert(group_text(g) + seq!['>'] + after =~= inner);
        lemma_q_profs(g, after);
        let p = q_profs(y.skip(1));
        assert(p.1 == rel_tokens_of(after) && p.2 == 0);
        assert forall|i: int| 0 <= i < rest.len() implies group_ok(#[trigger] rest[i]) by { assert(rest[i] == gs[i + 1]); }
        lemma_q_profiles(rest, t, rel_tokens_of(after));
        // the guard: the rest is shorter than x
        lemma_q_ws_len(x);
        lemma_q_profs_len(y.skip(1));
        assert(p.1.len() < x.len());
        let r = q_profiles(p.1);
        let res = q_profiles(x);
        assert(res == (q_ws(x).0 + seq![node(PROFILES, seq![leaf(y[0])] + p.0)] + r.0, r.1, p.2 + r.2));
        lemma_q_ws_toks(x);
        assert forall|i: int| 0 <= i < res.0.len() implies (#[trigger] res.0[i]) is Tok || rowan::tree_kind(res.0[i]) == PROFILES by {
            let w0 = q_ws(x).0;
            if i < w0.len() { assert(res.0[i] == w0[i]); }
            else if i == w0.len() { }
            else { assert(res.0[i] == r.0[i - w0.len() - 1]); }
        }
    }
}
/// the leaves q_ws produces are tokens
pub proof fn lemma_q_ws_toks(ts: Seq<RTok>)
    ensures forall|i: int| 0 <= i < q_ws(ts).0.len() ==> (#[trigger] q_ws(ts).0[i]) is Tok
    decreases ts.len()
{
    if ts.len() > 0 && is_wsk(ts[0].0) {
        lemma_q_ws_toks(ts.skip(1));
        let r = q_ws(ts.skip(1));
        assert forall|i: int| 0 <= i < q_ws(ts).0.len() implies (#[trigger] q_ws(ts).0[i]) is Tok by {
            if i > 0 { assert(q_ws(ts).0[i] == r.0[i - 1]); }
        }
    }
}

// ---- child nodes of concatenations -----------------------------------------------------------------------------------------------
pub proof fn lemma_child_nodes_add(a: Seq<Tree>, b: Seq<Tree>)
    ensures rowan::child_nodes(a + b) == rowan::child_nodes(a) + rowan::child_nodes(b)
    decreases b.len()
{
    if b.len() == 0 {
        assert(a + b =~= a);
        assert(rowan::child_nodes(a) + rowan::child_nodes(b) =~= rowan::child_nodes(a));
    } else {
        lemma_child_nodes_add(a, b.drop_last());
        assert((a + b).drop_last() =~= a + b.drop_last());
        assert((a + b).last() == b.last());
        assert(rowan::child_nodes(a + b) =~= rowan::child_nodes(a) + rowan::child_nodes(b));
    }
}
/// no element is an ARCHQUAL node
pub open spec fn no_aq(s: Seq<Tree>) -> bool { forall|i: int| 0 <= i < s.len() ==> (#[trigger] s[i]) is Tok || rowan::tree_kind(s[i]) != ARCHQUAL }
pub proof fn lemma_no_aq_child_nodes(s: Seq<Tree>)
    requires no_aq(s)
    ensures forall|j: int| 0 <= j < rowan::child_nodes(s).len() ==> rowan::tree_kind(#[trigger] rowan::child_nodes(s)[j]) != ARCHQUAL
    decreases s.len()
{
    if s.len() > 0 {
        let d = s.drop_last();
        assert forall|i: int| 0 <= i < d.len() implies (#[trigger] d[i]) is Tok || rowan::tree_kind(d[i]) != ARCHQUAL by { assert(d[i] == s[i]); }
        lemma_no_aq_child_nodes(d);
        assert(s.last() is Tok || rowan::tree_kind(s.last()) != ARCHQUAL);
        let cn = rowan::child_nodes(s);
        assert forall|j: int| 0 <= j < cn.len() implies rowan::tree_kind(#[trigger] cn[j]) != ARCHQUAL by {
            if j < rowan::child_nodes(d).len() { assert(cn[j] == rowan::child_nodes(d)[j]); }
        }
    }
}
pub proof fn lemma_no_aq_add(a: Seq<Tree>, b: Seq<Tree>)
    requires no_aq(a), no_aq(b)
    ensures no_aq(a + b)
{
    assert forall|i: int| 0 <= i < (a + b).len() implies (#[trigger] (a + b)[i]) is Tok || rowan::tree_kind((a + b)[i]) != ARCHQUAL by {
        if i < a.len() { assert((a + b)[i] == a[i]); } else { assert((a + b)[i] == b[i - a.len()]); }
    }
}

// ---- one relation ---------------------------------------------------------------------------------------------------------------------
pub proof fn lemma_child_nodes_single(x: Tree)
    ensures rowan::child_nodes(seq![x]) == if x is Node { seq![x] } else { Seq::<Tree>::empty() }
{
    let s = seq![x];
    assert(s.drop_last() =~= Seq::<Tree>::empty());
    assert(rowan::child_nodes(s.drop_last()) =~= Seq::<Tree>::empty());
    assert(s.last() == x);
    if x is Node { assert(rowan::child_nodes(s) =~= seq![x]); } else { assert(rowan::child_nodes(s) =~= Seq::<Tree>::empty()); }
}
pub open spec fn all_tok(s: Seq<Tree>) -> bool { forall|i: int| 0 <= i < s.len() ==> (#[trigger] s[i]) is Tok }
pub open spec fn aq_node(q: Seq<char>) -> Tree { node(ARCHQUAL, seq![leaf((COLON, seq![':'])), leaf((IDENT, q))]) }

/// what follows the name: `:qualifier` or nothing
pub proof fn lemma_stage_after_name(v: RelV, t: Seq<char>)
    requires valid_rel_ll(v), sep_start(t)
    ensures ({
        let a = q_after_name(rel_tokens_of(tl0(v, t)));
        &&& a.2 == 0
        &&& q_ws(a.1).1 == q_ws(rel_tokens_of(tl1(v, t))).1
        &&& match v.archqual { Some(q) => a.0.len() >= 1 && a.0[0] == aq_node(q) && all_tok(a.0.skip(1)), None => all_tok(a.0) }
    })
{
    lemma_tail_peeks(v, t);
    let t0 = tl0(v, t); let t1 = tl1(v, t);
    let x0 = rel_tokens_of(t0);
    let a = q_after_name(x0);
    lemma_q_ws_idem(rel_tokens_of(t1));
    lemma_q_ws_toks(x0);
    lemma_q_ws_toks(rel_tokens_of(t1));
    match v.archqual {
        Some(q) => {
            assert(t0 =~= seq![':'] + (q + t1));
            lemma_lex_delim(':', q + t1);
            lemma_lex_ident(q, t1);
            assert(x0[0] == (COLON, seq![':']));
            assert(q_ws(x0) == (Seq::<Tree>::empty(), x0));
            let y1 = x0.skip(1);
            assert(y1 =~= rel_tokens_of(q + t1));
            assert(y1[0] == (IDENT, q));
            assert(q_ws(y1) == (Seq::<Tree>::empty(), y1));
            assert(y1.skip(1) =~= rel_tokens_of(t1));
            let w3 = q_ws(rel_tokens_of(t1));
            let aqn = node(ARCHQUAL, seq![leaf(x0[0])] + Seq::<Tree>::empty() + seq![leaf(y1[0])]);
            assert(seq![leaf(x0[0])] + Seq::<Tree>::empty() + seq![leaf(y1[0])] =~= seq![leaf((COLON, seq![':'])), leaf((IDENT, q))]);
            assert(a == (Seq::<Tree>::empty() + seq![aqn] + w3.0, w3.1, 0nat));
            assert(a.0 =~= seq![aqn] + w3.0);
            assert(a.0.skip(1) =~= w3.0);
        }
        None => {
            assert(t0 =~= t1);
            assert(a.0.len() == 0 || a.0 == q_ws(x0).0);
        }
    }
}
/// version, architectures, restriction lists
pub proof fn lemma_stage_rest(v: RelV, t: Seq<char>, x: Seq<RTok>)
    requires valid_rel_ll(v), sep_start(t), q_ws(x).1 == q_ws(rel_tokens_of(tl1(v, t))).1
    ensures ({
        let vv = q_opt_version(x); let ar = q_opt_archs(vv.1); let p = q_profiles(ar.1);
        &&& vv.2 + ar.2 + p.2 == 0
        &&& ws_equiv(p.1, rel_tokens_of(t))
        &&& no_aq(vv.0 + ar.0 + p.0)
    })
{
    lemma_tail_peeks(v, t);
    let t1 = tl1(v, t); let t2 = tl2(v, t); let t3 = tl3(v, t);
    let vv = q_opt_version(x);
    lemma_q_ws_toks(x);
    match v.version {
        Some(cv) => { lemma_q_version_stage(cv.0, cv.1, t2, x); }
        None => { assert(t1 =~= t2); assert(q_peek(x) == q_peek(rel_tokens_of(t2))); assert(vv == (Seq::<Tree>::empty(), x, 0nat)); }
    }
    assert(vv.2 == 0 && q_ws(vv.1).1 == q_ws(rel_tokens_of(t2)).1);
    assert(no_aq(vv.0)) by {
        if v.version is Some { assert forall|i: int| 0 <= i < vv.0.len() implies (#[trigger] vv.0[i]) is Tok || rowan::tree_kind(vv.0[i]) != ARCHQUAL by { if i < vv.0.len() - 1 { assert(vv.0[i] == vv.0.drop_last()[i]); } } }
    }
    let ar = q_opt_archs(vv.1);
    lemma_q_ws_toks(vv.1);
    match v.archs {
        Some(l) => { lemma_q_archs_stage(l, t3, vv.1); }
        None => { assert(t2 =~= t3); assert(q_peek(vv.1) == q_peek(rel_tokens_of(t3))); assert(ar == (Seq::<Tree>::empty(), vv.1, 0nat)); }
    }
    assert(ar.2 == 0 && q_ws(ar.1).1 == q_ws(rel_tokens_of(t3)).1);
    assert(no_aq(ar.0)) by {
        if v.archs is Some { assert forall|i: int| 0 <= i < ar.0.len() implies (#[trigger] ar.0[i]) is Tok || rowan::tree_kind(ar.0[i]) != ARCHQUAL by { if i < ar.0.len() - 1 { assert(ar.0[i] == ar.0.drop_last()[i]); } } }
    }
    lemma_q_profiles(v.profiles, t, ar.1);
    let p = q_profiles(ar.1);
    assert(no_aq(p.0));
    lemma_no_aq_add(vv.0, ar.0);
    lemma_no_aq_add(vv.0 + ar.0, p.0);
}
pub open spec fn rel_ok_result(r: (Tree, Seq<RTok>, nat), v: RelV, t: Seq<char>) -> bool {
    &&& r.2 == 0
    &&& ws_equiv(r.1, rel_tokens_of(t))
    &&& r.0 is Node && rowan::tree_kind(r.0) == RELATION
    &&& t_name(r.0) == Some(v.name)
    &&& t_archqual(r.0) == v.archqual
}
pub proof fn lemma_q_relation(v: RelV, t: Seq<char>)
    requires valid_rel_ll(v), sep_start(t)
    ensures rel_ok_result(q_relation(rel_tokens_of(rel_text(v) + t)), v, t)
{
    lemma_tail_peeks(v, t);
    let t0 = tl0(v, t);
    assert(rel_text(v) + t =~= v.name + t0);
    lemma_lex_ident(v.name, t0);
    let ts = rel_tokens_of(rel_text(v) + t);
    let x0 = rel_tokens_of(t0);
    assert(ts[0] == (IDENT, v.name));
    assert(ts.skip(1) =~= x0);
    let n = q_expect(ts, IDENT);
    assert(n == (leaf(ts[0]), x0, 0nat));
    lemma_stage_after_name(v, t);
    let a = q_after_name(x0);
    lemma_stage_rest(v, t, a.1);
    let vv = q_opt_version(a.1); let ar = q_opt_archs(vv.1); let p = q_profiles(ar.1);
    let tailp = vv.0 + ar.0 + p.0;
    let r = q_relation(ts);
    let ch = seq![n.0] + a.0 + vv.0 + ar.0 + p.0;
    assert(r == (node(RELATION, ch), p.1, n.2 + a.2 + vv.2 + ar.2 + p.2));
    assert(ch[0] == leaf(ts[0]));
    assert(first_tok(ch, IDENT) == Some(ch[0]));
    assert(ch =~= (seq![n.0] + a.0) + tailp);
    lemma_archqual_of(n.0, a.0, tailp, v.archqual);
}
/// the ARCHQUAL lookup over [name] + after-name part + the rest
pub proof fn lemma_archqual_of(n0: Tree, a0: Seq<Tree>, tailp: Seq<Tree>, aq: Option<Seq<char>>)
    requires
        n0 is Tok, no_aq(tailp),
        match aq { Some(q) => a0.len() >= 1 && a0[0] == aq_node(q) && all_tok(a0.skip(1)), None => all_tok(a0) },
    ensures t_archqual(node(RELATION, (seq![n0] + a0) + tailp)) == aq
{
    let ch = (seq![n0] + a0) + tailp;
    lemma_no_aq_child_nodes(tailp);
    lemma_child_nodes_add(seq![n0] + a0, tailp);
    lemma_child_nodes_add(seq![n0], a0);
    lemma_child_nodes_single(n0);
    let cn = rowan::child_nodes(ch);
    match aq {
        Some(q) => {
            let aqn = a0[0];
            let w3 = a0.skip(1);
            assert(a0 =~= seq![aqn] + w3);
            lemma_child_nodes_add(seq![aqn], w3);
            lemma_child_nodes_single(aqn);
            assert(cn =~= (seq![aqn] + rowan::child_nodes(w3)) + rowan::child_nodes(tailp));
            assert(cn[0] == aqn);
            assert(first_kind(cn, ARCHQUAL) == Some(aqn));
            let ach = rowan::tree_children(aqn);
            assert(ach[1] is Tok && rowan::tree_kind(ach[1]) == IDENT && rowan::tree_text(ach[1]) == q);
            assert(first_tok(ach.skip(1), IDENT) == Some(ach[1])) by { assert(ach.skip(1)[0] == ach[1]); }
            assert(first_tok(ach, IDENT) == Some(ach[1]));
        }
        None => {
            assert(no_aq(a0));
            lemma_no_aq_child_nodes(a0);
            assert(cn =~= rowan::child_nodes(a0) + rowan::child_nodes(tailp));
            assert forall|j: int| 0 <= j < cn.len() implies rowan::tree_kind(#[trigger] cn[j]) != ARCHQUAL by {
                if j < rowan::child_nodes(a0).len() { assert(cn[j] == rowan::child_nodes(a0)[j]); } else { assert(cn[j] == rowan::child_nodes(tailp)[j - rowan::child_nodes(a0).len()]); }
            }
            lemma_first_kind_none(cn, ARCHQUAL);
        }
    }
}

// ---- alternatives, entries, the field ------------------------------------------------------------------------------------------------
pub open spec fn alts_text(rs: Seq<RelV>) -> Seq<char>
    decreases rs.len()
{
    if rs.len() == 0 { Seq::empty() }
    else if rs.len() == 1 { rel_text(rs[0]) }
    else { rel_text(rs[0]) + seq![' ', '|', ' '] + alts_text(rs.skip(1)) }
}
pub open spec fn field_text(es: Seq<Seq<RelV>>) -> Seq<char>
    decreases es.len()
{
    if es.len() == 0 { Seq::empty() }
    else if es.len() == 1 { alts_text(es[0]) }
    else { alts_text(es[0]) + seq![',', ' '] + field_text(es.skip(1)) }
}
pub open spec fn valid_alts(rs: Seq<RelV>) -> bool { rs.len() > 0 && forall|i: int| 0 <= i < rs.len() ==> valid_rel_ll(#[trigger] rs[i]) }
pub open spec fn valid_field(es: Seq<Seq<RelV>>) -> bool { forall|i: int| 0 <= i < es.len() ==> valid_alts(#[trigger] es[i]) }

pub proof fn lemma_kind_filter_add(a: Seq<Tree>, b: Seq<Tree>, k: SyntaxKind)
    ensures kind_filter(a + b, k) == kind_filter(a, k) + kind_filter(b, k)
    decreases b.len()
{
    if b.len() == 0 {
        assert(a + b =~= a);
        assert(kind_filter(a, k) + kind_filter(b, k) =~= kind_filter(a, k));
    } else {
        lemma_kind_filter_add(a, b.drop_last(), k);
        assert((a + b).drop_last() =~= a + b.drop_last());
        assert((a + b).last() == b.last());
        assert(kind_filter(a + b, k) =~= kind_filter(a, k) + kind_filter(b, k));
    }
}
pub proof fn lemma_kind_filter_single(x: Tree, k: SyntaxKind)
    ensures kind_filter(seq![x], k) == if rowan::tree_kind(x) == k { seq![x] } else { Seq::<Tree>::empty() }
{
    let s = seq![x];
    assert(s.drop_last() =~= Seq::<Tree>::empty());
    assert(kind_filter(s.drop_last(), k) =~= Seq::<Tree>::empty());
    assert(s.last() == x);
    if rowan::tree_kind(x) == k { assert(kind_filter(s, k) =~= seq![x]); } else { assert(kind_filter(s, k) =~= Seq::<Tree>::empty()); }
}
pub proof fn lemma_child_nodes_toks(s: Seq<Tree>)
    requires all_tok(s)
    ensures rowan::child_nodes(s) == Seq::<Tree>::empty()
    decreases s.len()
{
    if s.len() > 0 {
        assert forall|i: int| 0 <= i < s.drop_last().len() implies (#[trigger] s.drop_last()[i]) is Tok by { assert(s.drop_last()[i] == s[i]); }
        lemma_child_nodes_toks(s.drop_last());
        assert(s.last() is Tok);
    }
}
/// the RELATION children expose the alternatives' names and qualifiers
pub open spec fn rels_ok(elems: Seq<Tree>, rs: Seq<RelV>) -> bool {
    let r = kind_filter(rowan::child_nodes(elems), RELATION);
    &&& r.len() == rs.len()
    &&& forall|j: int| 0 <= j < rs.len() ==> t_name(#[trigger] r[j]) == Some(rs[j].name) && t_archqual(r[j]) == rs[j].archqual
}
pub proof fn lemma_alts_sep(rs: Seq<RelV>, t: Seq<char>)
    requires rs.len() > 0, t.len() == 0 || t[0] == ','
    ensures rs.len() > 1 ==> sep_start(seq![' ', '|', ' '] + alts_text(rs.skip(1)) + t), sep_start(t)
{
    if rs.len() > 1 {
        let s = seq![' ', '|', ' '] + alts_text(rs.skip(1)) + t;
        assert(s[0] == ' ' && s[1] == '|');
    }
}
pub proof fn lemma_q_alts(rs: Seq<RelV>, t: Seq<char>)
    requires valid_alts(rs), t.len() == 0 || t[0] == ','
    ensures ({
        let x = q_alts(rel_tokens_of(alts_text(rs) + t));
        &&& x.2 == 0 && ws_equiv(x.1, rel_tokens_of(t)) && rels_ok(x.0, rs)
    })
    decreases rs.len()
{
    let v = rs[0];
    let rest = rs.skip(1);
    lemma_alts_sep(rs, t);
    let tt: Seq<char> = if rs.len() == 1 { t } else { seq![' ', '|', ' '] + alts_text(rest) + t };
    assert(alts_text(rs) + t =~= rel_text(v) + tt);
    lemma_q_relation(v, tt);
    let ts = rel_tokens_of(alts_text(rs) + t);
    let r = q_relation(ts);
    let w = q_ws(r.1);
    lemma_q_ws_toks(r.1);
    lemma_child_nodes_single(r.0);
    lemma_kind_filter_single(r.0, RELATION);
    if rs.len() == 1 {
        lemma_sep_peek(t);
        // COMMA or the end
        let x = q_alts(ts);
        if q_peek(r.1) == Some(COMMA) { assert(x == (seq![r.0], r.1, r.2)); }
        else {
            assert(q_peek(r.1) is None) by { if t.len() > 0 { assert(t =~= seq![','] + t.skip(1)); lemma_lex_delim(',', t.skip(1)); lemma_no_ws_head(t); } }
            assert(x == (seq![r.0] + w.0, w.1, r.2));
            lemma_q_ws_idem(r.1);
            lemma_child_nodes_add(seq![r.0], w.0);
            lemma_child_nodes_toks(w.0);
            assert(rowan::child_nodes(x.0) =~= seq![r.0]);
        }
        assert(kind_filter(rowan::child_nodes(x.0), RELATION) =~= seq![r.0]);
        assert(rs =~= seq![v]);
    } else {
        assert forall|i: int| 0 <= i < rest.len() implies valid_rel_ll(#[trigger] rest[i]) by { assert(rest[i] == rs[i + 1]); }
        let after = alts_text(rest) + t;
        assert(tt =~= seq![' ', '|'] + (seq![' '] + after));
        lemma_q_space_delim('|', seq![' '] + after);
        // w.1 = [PIPE] + tokens(" " + after)
        assert(w.1 == seq![(PIPE, seq!['|'])] + rel_tokens_of(seq![' '] + after));
        assert(q_peek(r.1) == Some(PIPE));
        let t1 = w.1.skip(1);
        assert(t1 =~= rel_tokens_of(seq![' '] + after));
        // after starts with a name
        assert(no_ws_start(after) && after[0] != '\n') by {
            let v1 = rest[0];
            assert(valid_rel_ll(v1));
            assert(after[0] == v1.name[0]) by {
                if rest.len() == 1 { assert(alts_text(rest) == rel_text(v1)); } else { }
                assert(rel_text(v1)[0] == v1.name[0]);
            }
        }
        lemma_q_ws_space(after);
        let w2 = q_ws(t1);
        assert(w2.1 == rel_tokens_of(after));
        lemma_q_alts(rest, t);
        let x2 = q_alts(w2.1);
        lemma_q_ws_len(r.1);
        lemma_tokens_nonempty_rel(v, tt);
        let x = q_alts(ts);
        assert(w2.1.len() < ts.len()) by { lemma_q_relation_len(ts); lemma_q_ws_len(t1); }
        assert(x == (seq![r.0] + w.0 + seq![leaf(w.1[0])] + w2.0 + x2.0, x2.1, r.2 + x2.2));
        // the RELATION nodes: this one, then those of the rest
        lemma_q_ws_toks(t1);
        let mid = w.0 + seq![leaf(w.1[0])] + w2.0;
        assert(all_tok(mid));
        lemma_child_nodes_toks(mid);
        assert(x.0 =~= (seq![r.0] + mid) + x2.0);
        lemma_child_nodes_add(seq![r.0] + mid, x2.0);
        lemma_child_nodes_add(seq![r.0], mid);
        let cn2 = rowan::child_nodes(x2.0);
        assert(rowan::child_nodes(x.0) =~= seq![r.0] + cn2);
        lemma_kind_filter_add(seq![r.0], cn2, RELATION);
        let k2 = kind_filter(cn2, RELATION);
        let kk = kind_filter(rowan::child_nodes(x.0), RELATION);
        assert(kk =~= seq![r.0] + k2);
        assert forall|j: int| 0 <= j < rs.len() implies t_name(#[trigger] kk[j]) == Some(rs[j].name) && t_archqual(kk[j]) == rs[j].archqual by {
            if j > 0 { assert(kk[j] == k2[j - 1]); assert(rs[j] == rest[j - 1]); }
        }
    }
}
/// q_relation never returns more tokens than it got, and fewer when there were any
pub proof fn lemma_q_relation_len(ts: Seq<RTok>)
    ensures q_relation(ts).1.len() <= ts.len()
{
    let n = q_expect(ts, IDENT);
    let a = q_after_name(n.1);
    lemma_q_ws_len(n.1);
    let w = q_ws(n.1);
    if q_peek(n.1) == Some(COLON) { lemma_q_ws_len(w.1.skip(1)); let e = q_expect(q_ws(w.1.skip(1)).1, IDENT); lemma_q_ws_len(e.1); }
    let v = q_opt_version(a.1);
    lemma_q_ws_len(a.1);
    if q_peek(a.1) == Some(L_PARENS) {
        let y = q_ws(a.1).1;
        lemma_q_ws_len(y.skip(1));
        let o = q_ops(q_ws(y.skip(1)).1); lemma_q_ops_len(q_ws(y.skip(1)).1);
        lemma_q_ws_len(o.1);
        let w2 = q_ws(o.1);
        if is_k(w2.1, IDENT) { lemma_q_vrest_len(w2.1.skip(1)); }
    }
    let ar = q_opt_archs(v.1);
    lemma_q_ws_len(v.1);
    if q_peek(v.1) == Some(L_BRACKET) { lemma_q_archs_len(q_ws(v.1).1.skip(1)); }
    lemma_q_profiles_len(ar.1);
}
pub proof fn lemma_q_profiles_len(ts: Seq<RTok>)
    ensures q_profiles(ts).1.len() <= ts.len()
    decreases ts.len()
{
    if q_peek(ts) == Some(L_ANGLE) {
        lemma_q_ws_len(ts);
        let w = q_ws(ts);
        lemma_q_profs_len(w.1.skip(1));
        let p = q_profs(w.1.skip(1));
        if p.1.len() < ts.len() { lemma_q_profiles_len(p.1); }
    }
}
pub proof fn lemma_tokens_nonempty_rel(v: RelV, t: Seq<char>) { }

/// the ENTRY children of the root expose the entries
pub open spec fn entries_ok(items: Seq<Tree>, es: Seq<Seq<RelV>>) -> bool {
    let e = kind_filter(rowan::child_nodes(items), ENTRY);
    &&& e.len() == es.len()
    &&& forall|i: int| 0 <= i < es.len() ==> rels_ok(rowan::tree_children(#[trigger] e[i]), es[i])
}
/// a field begins with a package name
pub proof fn lemma_field_head(es: Seq<Seq<RelV>>)
    requires valid_field(es), es.len() > 0
    ensures field_text(es).len() > 0, is_ident_s(field_text(es)[0])
{
    let rs = es[0];
    assert(valid_alts(rs));
    let v = rs[0];
    assert(valid_rel_ll(v));
    assert(rel_text(v)[0] == v.name[0]);
    assert(alts_text(rs)[0] == v.name[0]);
}
pub proof fn lemma_ident_head_tok(s: Seq<char>)
    requires s.len() > 0, is_ident_s(s[0])
    ensures rel_tokens_of(s).len() > 0, rel_tokens_of(s)[0].0 == IDENT
{
    lemma_run_ident_bounds(s);
}
pub proof fn lemma_q_items(es: Seq<Seq<RelV>>)
    requires valid_field(es)
    ensures q_items(rel_tokens_of(field_text(es)), false).1 == 0, entries_ok(q_items(rel_tokens_of(field_text(es)), false).0, es)
    decreases es.len()
{
    let ts = rel_tokens_of(field_text(es));
    if es.len() == 0 {
        assert(field_text(es) =~= Seq::<char>::empty());
        assert(ts =~= Seq::<RTok>::empty());
        assert(rowan::child_nodes(Seq::<Tree>::empty()) =~= Seq::<Tree>::empty());
        assert(kind_filter(Seq::<Tree>::empty(), ENTRY) =~= Seq::<Tree>::empty());
    } else {
        let rs = es[0];
        let rest = es.skip(1);
        assert(valid_alts(rs));
        assert forall|i: int| 0 <= i < rest.len() implies valid_alts(#[trigger] rest[i]) by { assert(rest[i] == es[i + 1]); }
        lemma_field_head(es);
        lemma_ident_head_tok(field_text(es));
        let t: Seq<char> = if es.len() == 1 { Seq::empty() } else { seq![',', ' '] + field_text(rest) };
        assert(field_text(es) =~= alts_text(rs) + t);
        lemma_q_alts(rs, t);
        // q_entry: no blanks in front of the first name
        assert(q_ws(ts) == (Seq::<Tree>::empty(), ts));
        let al = q_alts(ts);
        let en = q_entry(ts);
        assert(en == (Seq::<Tree>::empty() + seq![node(ENTRY, al.0)], al.1, al.2));
        let item = q_item(ts, false);
        let w = q_ws(en.1);
        lemma_q_ws_toks(en.1);
        lemma_child_nodes_single(node(ENTRY, al.0));
        lemma_kind_filter_single(node(ENTRY, al.0), ENTRY);
        lemma_child_nodes_toks(w.0);
        if es.len() == 1 {
            assert(rel_tokens_of(t) =~= Seq::<RTok>::empty());
            assert(w.1.len() == 0);
            assert(item == (en.0 + w.0, w.1, en.2));
            let items = q_items(ts, false);
            assert(items == (item.0, item.2));
            lemma_child_nodes_add(en.0, w.0);
            assert(en.0 =~= seq![node(ENTRY, al.0)]);
            assert(rowan::child_nodes(items.0) =~= seq![node(ENTRY, al.0)]);
            assert(kind_filter(rowan::child_nodes(items.0), ENTRY) =~= seq![node(ENTRY, al.0)]);
        } else {
            let ft = field_text(rest);
            assert(t =~= seq![','] + (seq![' '] + ft));
            lemma_lex_delim(',', seq![' '] + ft);
            lemma_no_ws_head(t);
            // w.1 = tokens(t) = [COMMA] + tokens(" " + rest)
            assert(w.1 == rel_tokens_of(t));
            assert(w.1[0].0 == COMMA);
            let t1 = w.1.skip(1);
            assert(t1 =~= rel_tokens_of(seq![' '] + ft));
            lemma_field_head(rest);
            lemma_q_ws_space(ft);
            let w2 = q_ws(t1);
            assert(w2.1 == rel_tokens_of(ft));
            lemma_q_ws_toks(t1);
            assert(item == (en.0 + w.0 + seq![leaf(w.1[0])] + w2.0, w2.1, en.2 + 0));
            lemma_q_items(rest);
            let r = q_items(w2.1, false);
            lemma_ident_head_tok(ft);
            lemma_q_ws_len(en.1); lemma_q_ws_len(t1);
            lemma_q_alts_len(ts);
            assert(item.1.len() > 0 && item.1.len() < ts.len());
            let items = q_items(ts, false);
            assert(items == (item.0 + r.0, item.2 + r.1));
            // ENTRY nodes: this one, then those of the rest
            let mid = w.0 + seq![leaf(w.1[0])] + w2.0;
            assert(all_tok(mid));
            lemma_child_nodes_toks(mid);
            assert(en.0 =~= seq![node(ENTRY, al.0)]);
            assert(items.0 =~= (seq![node(ENTRY, al.0)] + mid) + r.0);
            lemma_child_nodes_add(seq![node(ENTRY, al.0)] + mid, r.0);
            lemma_child_nodes_add(seq![node(ENTRY, al.0)], mid);
            let cn2 = rowan::child_nodes(r.0);
            assert(rowan::child_nodes(items.0) =~= seq![node(ENTRY, al.0)] + cn2);
            lemma_kind_filter_add(seq![node(ENTRY, al.0)], cn2, ENTRY);
            let k2 = kind_filter(cn2, ENTRY);
            let kk = kind_filter(rowan::child_nodes(items.0), ENTRY);
            assert(kk =~= seq![node(ENTRY, al.0)] + k2);
            assert forall|i: int| 0 <= i < es.len() implies rels_ok(rowan::tree_children(#[trigger] kk[i]), es[i]) by {
                if i > 0 { assert(kk[i] == k2[i - 1]); assert(es[i] == rest[i - 1]); }
            }
        }
    }
}
pub proof fn lemma_q_alts_len(ts: Seq<RTok>)
    ensures q_alts(ts).1.len() <= ts.len()
    decreases ts.len()
{
    lemma_q_relation_len(ts);
    let r = q_relation(ts);
    lemma_q_ws_len(r.1);
    let w = q_ws(r.1);
    let p = q_peek(r.1);
    if p == Some(COMMA) || p is None { }
    else if p == Some(PIPE) {
        lemma_q_ws_len(w.1.skip(1));
        let w2 = q_ws(w.1.skip(1));
        if w2.1.len() < ts.len() { lemma_q_alts_len(w2.1); }
    } else {
        let e = q_err(w.1);
        if e.1.len() < ts.len() { lemma_q_alts_len(e.1); }
    }
}

// ---- the theorem ----------------------------------------------------------------------------------------------------------------------
/// C10 on the canonical text (and the second clause of C14): a field of entries of alternatives of valid relations,
/// written as the lossy printer writes it, is accepted by the strict lossless reader without error, and its tree
/// exposes the same entries, the same alternatives in each, and each relation's name and architecture qualifier
pub proof fn theorem_canonical_field_accepted(es: Seq<Seq<RelV>>)
    requires valid_field(es)
    ensures
        parse_rel_text(field_text(es), false).1 == 0,
        rowan::tree_kind(parse_rel_text(field_text(es), false).0) == ROOT,
        t_entries(parse_rel_text(field_text(es), false).0).len() == es.len(),
        forall|i: int| 0 <= i < es.len() ==> rels_ok(rowan::tree_children(#[trigger] t_entries(parse_rel_text(field_text(es), false).0)[i]), es[i]),
{
    let ts = rel_tokens_of(field_text(es));
    lemma_q_items(es);
    if es.len() > 0 { lemma_field_head(es); lemma_ident_head_tok(field_text(es)); }
    else { assert(field_text(es) =~= Seq::<char>::empty()); assert(ts =~= Seq::<RTok>::empty()); }
    assert(q_ws(ts) == (Seq::<Tree>::empty(), ts));
    let it = q_items(ts, false);
    let root = q_root(ts, false);
    assert(root.0 == node(ROOT, Seq::<Tree>::empty() + it.0));
    assert(Seq::<Tree>::empty() + it.0 =~= it.0);
}
/// the domain is inhabited
pub proof fn lemma_valid_field_inhabited(ver: debversion::Version)
    requires version_ok(ver), is_ident_s(version_text(ver)[0])
    ensures exists|es: Seq<Seq<RelV>>| valid_field(es) && es.len() == 2 && es[0].len() == 2
{
    let a = RelV { name: seq!['a'], archqual: Some(seq!['x']), version: Some((dc_relations::VersionConstraint::Equal, ver)), archs: Some(seq![seq!['!', 'b']]), profiles: seq![seq![(true, seq!['p'])]] };
    let b = RelV { name: seq!['b'], archqual: None, version: None, archs: None, profiles: Seq::empty() };
    assert(seq!['!', 'b'].skip(1) =~= seq!['b']);
    assert(arch_ok(seq!['!', 'b']));
    assert(group_ok(seq![(true, seq!['p'])]));
    assert(valid_rel_ll(a));
    assert(valid_rel_ll(b));
    let es = seq![seq![a, b], seq![b]];
    assert(valid_alts(seq![a, b]));
    assert(valid_alts(seq![b]));
    assert(valid_field(es));
}
