// ---- DEP-3 Forwarded: "no", "not-needed", anything else is a reference ----
pub open spec fn forwarded_text(v: dep3_fields::Forwarded) -> Seq<char> {
    match v {
        dep3_fields::Forwarded::No => "no"@,
        dep3_fields::Forwarded::NotNeeded => "not-needed"@,
        dep3_fields::Forwarded::Yes(s) => s@,
    }
}
pub open spec fn forwarded_parse_is(t: Seq<char>, v: dep3_fields::Forwarded) -> bool {
    if t == "no"@ { v is No } else if t == "not-needed"@ { v is NotNeeded } else { v is Yes && v->Yes_0@ == t }
}
pub open spec fn forwarded_eq(a: dep3_fields::Forwarded, b: dep3_fields::Forwarded) -> bool {
    match (a, b) {
        (dep3_fields::Forwarded::No, dep3_fields::Forwarded::No) => true,
        (dep3_fields::Forwarded::NotNeeded, dep3_fields::Forwarded::NotNeeded) => true,
        (dep3_fields::Forwarded::Yes(x), dep3_fields::Forwarded::Yes(y)) => x@ == y@,
        _ => false,
    }
}
pub proof fn forwarded_roundtrip(v: dep3_fields::Forwarded, w: dep3_fields::Forwarded)
    requires
        v is Yes ==> v->Yes_0@ != "no"@ && v->Yes_0@ != "not-needed"@,
        forwarded_parse_is(forwarded_text(v), w),
    ensures forwarded_eq(v, w)
{
    reveal_strlit("no"); reveal_strlit("not-needed");
    assert("no"@.len() != "not-needed"@.len());
}
pub proof fn forwarded_roundtrip_all_values(v: dep3_fields::Forwarded, w: dep3_fields::Forwarded)
    requires forwarded_parse_is(forwarded_text(v), w),
    ensures forwarded_eq(v, w)
{
    reveal_strlit("no"); reveal_strlit("not-needed");
    assert("no"@.len() != "not-needed"@.len());
}
pub proof fn forwarded_canonical(t: Seq<char>, v: dep3_fields::Forwarded)
    requires forwarded_parse_is(t, v)
    ensures forwarded_text(v) == t
{
}

// ---- DEP-3 Origin / Applied-Upstream: "commit:<id>" or free text ----
pub open spec fn commit_prefix() -> Seq<char> { "commit:"@ }

pub open spec fn origin_text(v: dep3_fields::Origin) -> Seq<char> {
    match v {
        dep3_fields::Origin::Commit(s) => commit_prefix() + s@,
        dep3_fields::Origin::Other(s) => s@,
    }
}
pub open spec fn origin_parse_is(t: Seq<char>, v: dep3_fields::Origin) -> bool {
    if is_prefix(commit_prefix(), t) { v is Commit && v->Commit_0@ == t.skip(commit_prefix().len() as int) }
    else { v is Other && v->Other_0@ == t }
}
pub open spec fn origin_eq(a: dep3_fields::Origin, b: dep3_fields::Origin) -> bool {
    match (a, b) {
        (dep3_fields::Origin::Commit(x), dep3_fields::Origin::Commit(y)) => x@ == y@,
        (dep3_fields::Origin::Other(x), dep3_fields::Origin::Other(y)) => x@ == y@,
        _ => false,
    }
}
pub proof fn lemma_prefix_concat(p: Seq<char>, s: Seq<char>)
    ensures is_prefix(p, p + s), (p + s).skip(p.len() as int) == s
{
    assert((p + s).take(p.len() as int) =~= p);
    assert((p + s).skip(p.len() as int) =~= s);
}
pub proof fn origin_roundtrip(v: dep3_fields::Origin, w: dep3_fields::Origin)
    requires
        v is Other ==> !is_prefix(commit_prefix(), v->Other_0@),
        origin_parse_is(origin_text(v), w),
    ensures origin_eq(v, w)
{
    if v is Commit { lemma_prefix_concat(commit_prefix(), v->Commit_0@); }
}
pub proof fn origin_roundtrip_all_values(v: dep3_fields::Origin, w: dep3_fields::Origin)
    requires origin_parse_is(origin_text(v), w),
    ensures origin_eq(v, w)
{
    if v is Commit { lemma_prefix_concat(commit_prefix(), v->Commit_0@); }
}
pub proof fn origin_canonical(t: Seq<char>, v: dep3_fields::Origin)
    requires origin_parse_is(t, v)
    ensures origin_text(v) == t
{
    if is_prefix(commit_prefix(), t) {
        assert(t.take(commit_prefix().len() as int) + t.skip(commit_prefix().len() as int) =~= t);
    }
}

pub open spec fn applied_text(v: dep3_fields::AppliedUpstream) -> Seq<char> {
    match v {
        dep3_fields::AppliedUpstream::Commit(s) => commit_prefix() + s@,
        dep3_fields::AppliedUpstream::Other(s) => s@,
    }
}
pub open spec fn applied_parse_is(t: Seq<char>, v: dep3_fields::AppliedUpstream) -> bool {
    if is_prefix(commit_prefix(), t) { v is Commit && v->Commit_0@ == t.skip(commit_prefix().len() as int) }
    else { v is Other && v->Other_0@ == t }
}
pub open spec fn applied_eq(a: dep3_fields::AppliedUpstream, b: dep3_fields::AppliedUpstream) -> bool {
    match (a, b) {
        (dep3_fields::AppliedUpstream::Commit(x), dep3_fields::AppliedUpstream::Commit(y)) => x@ == y@,
        (dep3_fields::AppliedUpstream::Other(x), dep3_fields::AppliedUpstream::Other(y)) => x@ == y@,
        _ => false,
    }
}
pub proof fn applied_roundtrip(v: dep3_fields::AppliedUpstream, w: dep3_fields::AppliedUpstream)
    requires
        v is Other ==> !is_prefix(commit_prefix(), v->Other_0@),
        applied_parse_is(applied_text(v), w),
    ensures applied_eq(v, w)
{
    if v is Commit { lemma_prefix_concat(commit_prefix(), v->Commit_0@); }
}
pub proof fn applied_roundtrip_all_values(v: dep3_fields::AppliedUpstream, w: dep3_fields::AppliedUpstream)
    requires applied_parse_is(applied_text(v), w),
    ensures applied_eq(v, w)
{
    if v is Commit { lemma_prefix_concat(commit_prefix(), v->Commit_0@); }
}
pub proof fn applied_canonical(t: Seq<char>, v: dep3_fields::AppliedUpstream)
    requires applied_parse_is(t, v)
    ensures applied_text(v) == t
{
    if is_prefix(commit_prefix(), t) {
        assert(t.take(commit_prefix().len() as int) + t.skip(commit_prefix().len() as int) =~= t);
    }
}

// ---- DEP-3 Origin field: "[<category>, ]<origin>" ---------------------------------------------------
impl VxDisplay for dep3_fields::OriginCategory {
    open spec fn display_spec(&self) -> Seq<char> { origincat_text(*self) }
}
impl VxDisplay for dep3_fields::Origin {
    open spec fn display_spec(&self) -> Seq<char> { origin_text(*self) }
}
pub open spec fn comma_sp() -> Seq<char> { ", "@ }

/// printing: the category keyword and ", " when there is a category, then the origin
pub open spec fn origin_field_text(cat: Option<dep3_fields::OriginCategory>, o: dep3_fields::Origin) -> Seq<char> {
    (match cat { Some(c) => origincat_text(c) + comma_sp(), None => Seq::<char>::empty() }) + origin_text(o)
}
/// reading: the text before the first ", " (or the whole text) is a category keyword => category
pub open spec fn origin_field_parse_is(s: Seq<char>, cat: Option<dep3_fields::OriginCategory>, o: dep3_fields::Origin) -> bool {
    let pieces = splitn2_spec(s, comma_sp());
    match origincat_parse(pieces[0]) {
        Some(c) => cat == Some(c) && origin_parse_is(if pieces.len() > 1 { pieces[1] } else { Seq::<char>::empty() }, o),
        None => cat is None && origin_parse_is(s, o),
    }
}

pub open spec fn no_comma(a: Seq<char>) -> bool { forall|i: int| 0 <= i < a.len() ==> a[i] != ',' }

/// the first ", " in `a ++ ", " ++ b` is right after a, when a has no comma
pub proof fn lemma_find_comma_sp(a: Seq<char>, b: Seq<char>)
    requires no_comma(a)
    ensures find_sub(a + comma_sp() + b, comma_sp()) == a.len()
    decreases a.len()
{
    reveal_strlit(", ");
    let s = a + comma_sp() + b;
    if a.len() == 0 {
        assert(s.take(2) =~= comma_sp());
    } else {
        assert(s[0] == a[0]);
        assert(!is_prefix(comma_sp(), s)) by {
            if comma_sp().len() <= s.len() { assert(s.take(2)[0] == s[0]); assert(comma_sp()[0] == ','); }
        }
        assert(s.skip(1) =~= a.skip(1) + comma_sp() + b);
        assert(no_comma(a.skip(1))) by { assert forall|i: int| 0 <= i < a.skip(1).len() implies a.skip(1)[i] != ',' by { assert(a.skip(1)[i] == a[i + 1]); } }
        lemma_find_comma_sp(a.skip(1), b);
    }
}
pub proof fn lemma_origincat_no_comma(c: dep3_fields::OriginCategory)
    ensures no_comma(origincat_text(c))
{
    reveal_strlit("backport"); reveal_strlit("vendor"); reveal_strlit("upstream"); reveal_strlit("other");
}
/// value -> text -> value for the Origin field when a category is given
pub proof fn origin_field_roundtrip_with_category(c: dep3_fields::OriginCategory, o: dep3_fields::Origin, c2: Option<dep3_fields::OriginCategory>, o2: dep3_fields::Origin)
    requires
        o is Other ==> !is_prefix(commit_prefix(), o->Other_0@),
        origin_field_parse_is(origin_field_text(Some(c), o), c2, o2),
    ensures c2 == Some(c), origin_eq(o, o2)
{
    let a = origincat_text(c);
    let ot = origin_text(o);
    lemma_origincat_no_comma(c);
    lemma_find_comma_sp(a, ot);
    reveal_strlit(", ");
    let s = a + comma_sp() + ot;
    assert(s.take(a.len() as int) =~= a);
    assert(s.skip(a.len() as int + 2) =~= ot);
    origincat_roundtrip(c);
    origin_roundtrip(o, o2);
}
/// ... and without a category, as long as the origin text does not itself begin with a category keyword
pub proof fn origin_field_roundtrip_without_category(o: dep3_fields::Origin, c2: Option<dep3_fields::OriginCategory>, o2: dep3_fields::Origin)
    requires
        o is Other ==> !is_prefix(commit_prefix(), o->Other_0@),
        origincat_parse(splitn2_spec(origin_text(o), comma_sp())[0]) is None,
        origin_field_parse_is(origin_field_text(None, o), c2, o2),
    ensures c2 is None, origin_eq(o, o2)
{
    assert(Seq::<char>::empty() + origin_text(o) =~= origin_text(o));
    origin_roundtrip(o, o2);
}
/// the same for every (category, origin) value — see known-findings.txt
pub proof fn origin_field_roundtrip_all_values(c: Option<dep3_fields::OriginCategory>, o: dep3_fields::Origin, c2: Option<dep3_fields::OriginCategory>, o2: dep3_fields::Origin)
    requires
        o is Other ==> !is_prefix(commit_prefix(), o->Other_0@),
        origin_field_parse_is(origin_field_text(c, o), c2, o2),
    ensures c2 == c, origin_eq(o, o2)
{
    match c {
        Some(cc) => { origin_field_roundtrip_with_category(cc, o, c2, o2); }
        None => { assert(Seq::<char>::empty() + origin_text(o) =~= origin_text(o)); }
    }
}

