// C18: helper lemmas shared by the hand-written codec specs
/// a one-char prefix test is a test of the first char
pub proof fn lemma_prefix1(c: char, t: Seq<char>)
    ensures is_prefix(seq![c], t) <==> (t.len() > 0 && t[0] == c)
{
    if t.len() > 0 {
        assert(t.take(1) =~= seq![t[0]]);
        assert(seq![t[0]][0] == t[0]);
        assert(seq![c][0] == c);
    }
}

/// an occurrence found by find_sub lies inside the text
pub proof fn lemma_find_sub_bounds(s: Seq<char>, p: Seq<char>)
    ensures find_sub(s, p) >= 0 ==> find_sub(s, p) + p.len() <= s.len(), find_sub(s, p) >= -1
    decreases s.len()
{
    if is_prefix(p, s) {
    } else if s.len() == 0 {
    } else {
        lemma_find_sub_bounds(s.skip(1), p);
    }
}

