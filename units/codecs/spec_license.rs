// ---- DEP-5 License: "name", "\ntext" or "name\ntext" (first line is the short name) ----
pub open spec fn nl() -> Seq<char> { seq!['\n'] }

pub open spec fn license_text(v: license::License) -> Seq<char> {
    match v {
        license::License::Name(n) => n@,
        license::License::Text(t) => nl() + t@,
        license::License::Named(n, t) => n@ + nl() + t@,
    }
}
pub open spec fn license_parse_is(s: Seq<char>, v: license::License) -> bool {
    let i = find_sub(s, nl());
    if i < 0 { v is Name && v->Name_0@ == s }
    else if i == 0 { v is Text && v->Text_0@ == s.skip(1) }
    else { v is Named && v->Named_0@ == s.take(i) && v->Named_1@ == s.skip(i + 1) }
}
pub open spec fn license_eq(a: license::License, b: license::License) -> bool {
    match (a, b) {
        (license::License::Name(x), license::License::Name(y)) => x@ == y@,
        (license::License::Text(x), license::License::Text(y)) => x@ == y@,
        (license::License::Named(x, t), license::License::Named(y, u)) => x@ == y@ && t@ == u@,
        _ => false,
    }
}
pub open spec fn no_nl(s: Seq<char>) -> bool { forall|i: int| 0 <= i < s.len() ==> s[i] != '\n' }

pub proof fn lemma_find_nl_none(s: Seq<char>)
    requires no_nl(s)
    ensures find_sub(s, nl()) < 0
    decreases s.len()
{
    if s.len() > 0 {
        assert(s.take(1)[0] == s[0]);
        assert(no_nl(s.skip(1))) by { assert forall|i: int| 0 <= i < s.skip(1).len() implies s.skip(1)[i] != '\n' by { assert(s.skip(1)[i] == s[i + 1]); } }
        lemma_find_nl_none(s.skip(1));
    }
}
pub proof fn lemma_find_nl_at(a: Seq<char>, b: Seq<char>)
    requires no_nl(a)
    ensures find_sub(a + nl() + b, nl()) == a.len()
    decreases a.len()
{
    let s = a + nl() + b;
    if a.len() == 0 {
        assert(s.take(1) =~= nl());
    } else {
        assert(s.take(1)[0] == a[0]);
        assert(s.skip(1) =~= a.skip(1) + nl() + b);
        assert(no_nl(a.skip(1))) by { assert forall|i: int| 0 <= i < a.skip(1).len() implies a.skip(1)[i] != '\n' by { assert(a.skip(1)[i] == a[i + 1]); } }
        lemma_find_nl_at(a.skip(1), b);
    }
}
/// value -> text -> value for licences whose short name is one non-empty line
pub proof fn license_roundtrip(v: license::License, w: license::License)
    requires
        v is Name ==> no_nl(v->Name_0@),
        v is Named ==> no_nl(v->Named_0@) && v->Named_0@.len() > 0,
        license_parse_is(license_text(v), w),
    ensures license_eq(v, w)
{
    match v {
        license::License::Name(n) => { lemma_find_nl_none(n@); }
        license::License::Text(t) => {
            lemma_find_nl_at(Seq::<char>::empty(), t@);
            assert(Seq::<char>::empty() + nl() + t@ =~= nl() + t@);
            assert((nl() + t@).skip(1) =~= t@);
        }
        license::License::Named(n, t) => {
            lemma_find_nl_at(n@, t@);
            assert((n@ + nl() + t@).take(n@.len() as int) =~= n@);
            assert((n@ + nl() + t@).skip(n@.len() as int + 1) =~= t@);
        }
    }
}
pub proof fn license_roundtrip_all_values(v: license::License, w: license::License)
    requires license_parse_is(license_text(v), w),
    ensures license_eq(v, w)
{
}

