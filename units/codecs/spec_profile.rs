// ---- BuildProfile: "name" enabled, "!name" disabled ----
pub open spec fn profile_text(v: dc_relations::BuildProfile) -> Seq<char> {
    match v {
        dc_relations::BuildProfile::Enabled(s) => s@,
        dc_relations::BuildProfile::Disabled(s) => seq!['!'] + s@,
    }
}
/// structural description of a parse result (String contents compared through views)
pub open spec fn profile_parse_is(t: Seq<char>, v: dc_relations::BuildProfile) -> bool {
    if t.len() > 0 && t[0] == '!' { v is Disabled && v->Disabled_0@ == t.skip(1) }
    else { v is Enabled && v->Enabled_0@ == t }
}
pub open spec fn profile_eq(a: dc_relations::BuildProfile, b: dc_relations::BuildProfile) -> bool {
    match (a, b) {
        (dc_relations::BuildProfile::Enabled(x), dc_relations::BuildProfile::Enabled(y)) => x@ == y@,
        (dc_relations::BuildProfile::Disabled(x), dc_relations::BuildProfile::Disabled(y)) => x@ == y@,
        _ => false,
    }
}
/// value -> text -> value for profile names that do not themselves begin with '!'
pub proof fn profile_roundtrip(v: dc_relations::BuildProfile, w: dc_relations::BuildProfile)
    requires
        v is Enabled ==> !(v->Enabled_0@.len() > 0 && v->Enabled_0@[0] == '!'),
        profile_parse_is(profile_text(v), w),
    ensures profile_eq(v, w)
{
    match v {
        dc_relations::BuildProfile::Enabled(s) => {}
        dc_relations::BuildProfile::Disabled(s) => { assert((seq!['!'] + s@).skip(1) =~= s@); }
    }
}
/// the same for *every* value of the type (statement as worded) — see known-findings.txt
pub proof fn profile_roundtrip_all_values(v: dc_relations::BuildProfile, w: dc_relations::BuildProfile)
    requires profile_parse_is(profile_text(v), w),
    ensures profile_eq(v, w)
{
    match v {
        dc_relations::BuildProfile::Enabled(s) => {}
        dc_relations::BuildProfile::Disabled(s) => { assert((seq!['!'] + s@).skip(1) =~= s@); }
    }
}
pub proof fn profile_canonical(t: Seq<char>, v: dc_relations::BuildProfile)
    requires profile_parse_is(t, v)
    ensures profile_text(v) == t
{
    if t.len() > 0 && t[0] == '!' { assert(seq!['!'] + t.skip(1) =~= t); }
}

