// ---- Urgency: keywords are matched case-insensitively, printed in lower case ----
pub open spec fn urgency_text(v: dc_fields::Urgency) -> Seq<char> {
    match v {
        dc_fields::Urgency::Low => "low"@,
        dc_fields::Urgency::Medium => "medium"@,
        dc_fields::Urgency::High => "high"@,
        dc_fields::Urgency::Emergency => "emergency"@,
        dc_fields::Urgency::Critical => "critical"@,
    }
}
pub open spec fn urgency_parse(s: Seq<char>) -> Option<dc_fields::Urgency> {
    let l = lower_spec(s);
    if l == "low"@ { Some(dc_fields::Urgency::Low) }
    else if l == "medium"@ { Some(dc_fields::Urgency::Medium) }
    else if l == "high"@ { Some(dc_fields::Urgency::High) }
    else if l == "emergency"@ { Some(dc_fields::Urgency::Emergency) }
    else if l == "critical"@ { Some(dc_fields::Urgency::Critical) }
    else { None }
}
pub proof fn urgency_keywords()
    ensures
        "low"@ != "medium"@, "low"@ != "high"@, "low"@ != "emergency"@, "low"@ != "critical"@,
        "medium"@ != "high"@, "medium"@ != "emergency"@, "medium"@ != "critical"@,
        "high"@ != "emergency"@, "high"@ != "critical"@, "emergency"@ != "critical"@,
        no_upper_ascii_only("low"@), no_upper_ascii_only("medium"@), no_upper_ascii_only("high"@),
        no_upper_ascii_only("emergency"@), no_upper_ascii_only("critical"@),
{
    reveal_strlit("low"); reveal_strlit("medium"); reveal_strlit("high"); reveal_strlit("emergency"); reveal_strlit("critical");
    assert("low"@.len() != "medium"@.len()); assert("low"@.len() != "high"@.len());
    assert("low"@.len() != "emergency"@.len()); assert("low"@.len() != "critical"@.len());
    assert("medium"@.len() != "high"@.len()); assert("medium"@.len() != "emergency"@.len()); assert("medium"@.len() != "critical"@.len());
    assert("high"@.len() != "emergency"@.len()); assert("high"@.len() != "critical"@.len());
    assert("emergency"@.len() != "critical"@.len());
}
pub proof fn urgency_roundtrip(v: dc_fields::Urgency)
    ensures urgency_parse(urgency_text(v)) == Some(v)
{
    urgency_keywords();
    axiom_lower_identity(urgency_text(v));
}
pub proof fn urgency_canonical(s: Seq<char>, v: dc_fields::Urgency)
    requires no_upper_ascii_only(s), urgency_parse(s) == Some(v)
    ensures urgency_text(v) == s
{
    urgency_keywords();
    axiom_lower_identity(s);
}

