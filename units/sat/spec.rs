// ---------------------------------------------------------------------------------------------
// C12: dependency satisfaction, written from the statement.
// ---------------------------------------------------------------------------------------------
use debversion::vcmp;

/// the five Debian relation operators over the sign of compare(installed, required)
pub open spec fn op_holds(vc: VersionConstraint, c: int) -> bool {
    match vc {
        VersionConstraint::LessThan => c < 0,
        VersionConstraint::LessThanEqual => c <= 0,
        VersionConstraint::Equal => c == 0,
        VersionConstraint::GreaterThan => c > 0,
        VersionConstraint::GreaterThanEqual => c >= 0,
    }
}

/// one alternative is satisfied: its package is installed and, if versioned, the installed version
/// stands in the stated relation to the required one
pub open spec fn rel_sat<L: VersionLookup>(name: Seq<char>, ver: Option<(VersionConstraint, Version)>, installed: L) -> bool {
    match installed.lookup_spec(name) {
        None => false,
        Some(a) => match ver {
            None => true,
            Some(cv) => op_holds(cv.0, vcmp(&a, &cv.1)),
        },
    }
}

/// an entry (list of alternatives) is satisfied when some alternative is
pub open spec fn lossy_entry_sat<L: VersionLookup>(e: Seq<lossy::Relation>, installed: L) -> bool {
    exists|j: int| 0 <= j < e.len() && rel_sat((#[trigger] e[j]).name@, e[j].version, installed)
}
/// a field is satisfied when every entry is
pub open spec fn lossy_field_sat<L: VersionLookup>(f: Seq<Vec<lossy::Relation>>, installed: L) -> bool {
    forall|i: int| 0 <= i < f.len() ==> lossy_entry_sat((#[trigger] f[i])@, installed)
}
pub open spec fn ll_entry_sat<L: VersionLookup>(e: Seq<ll_model::Relation>, installed: L) -> bool {
    exists|j: int| 0 <= j < e.len() && rel_sat((#[trigger] e[j]).name_spec(), e[j].version_spec(), installed)
}
pub open spec fn ll_field_sat<L: VersionLookup>(f: Seq<ll_model::Entry>, installed: L) -> bool {
    forall|i: int| 0 <= i < f.len() ==> ll_entry_sat((#[trigger] f[i]).rels(), installed)
}
