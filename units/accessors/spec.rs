// ---------------------------------------------------------------------------------------------
// C15, hand-written part: glue between `.parse()` / `{}` and the verified DEP-3 codecs
// ---------------------------------------------------------------------------------------------
impl VxFromStr for dep3_fields::Forwarded {
    type VxErr = &'static str;
    open spec fn parse_rel(s: Seq<char>, v: dep3_fields::Forwarded) -> bool { forwarded_parse_is(s, v) }
    open spec fn parse_err(s: Seq<char>) -> bool { false }
    fn vx_from_str(s: &str) -> (r: Result<dep3_fields::Forwarded, &'static str>) { dep3_fields::Forwarded::from_str(s) }
}
impl VxFromStr for dep3_fields::AppliedUpstream {
    type VxErr = &'static str;
    open spec fn parse_rel(s: Seq<char>, v: dep3_fields::AppliedUpstream) -> bool { applied_parse_is(s, v) }
    open spec fn parse_err(s: Seq<char>) -> bool { false }
    fn vx_from_str(s: &str) -> (r: Result<dep3_fields::AppliedUpstream, &'static str>) { dep3_fields::AppliedUpstream::from_str(s) }
}
impl VxDisplay for dep3_fields::Forwarded {
    open spec fn display_spec(&self) -> Seq<char> { forwarded_text(*self) }
}
impl VxDisplay for dep3_fields::AppliedUpstream {
    open spec fn display_spec(&self) -> Seq<char> { applied_text(*self) }
}

// ---- DEP-3 author / description (documented as combinations of two fields) --------------------------
pub open spec fn author_of(l: Seq<(Seq<char>, Seq<char>)>) -> Option<Seq<char>> {
    match list_get(l, "Author"@) { Some(v) => Some(v), None => list_get(l, "From"@) }
}
/// the field holding the description: Description, else Subject
pub open spec fn descr_of(l: Seq<(Seq<char>, Seq<char>)>) -> Option<Seq<char>> {
    match list_get(l, "Description"@) { Some(v) => Some(v), None => list_get(l, "Subject"@) }
}
/// first line of a text / everything after the first LF ("" if there is none)
pub open spec fn first_line_of(t: Seq<char>) -> Seq<char> {
    let i = find_sub(t, seq!['\n']);
    if i < 0 { t } else { t.take(i) }
}
pub open spec fn after_first_line(t: Seq<char>) -> Seq<char> {
    let i = find_sub(t, seq!['\n']);
    if i < 0 { Seq::empty() } else { t.skip(i + 1) }
}
pub open spec fn opt_str_is(r: Option<String>, v: Option<Seq<char>>) -> bool {
    match v { Some(t) => r is Some && r->Some_0@ == t, None => r is None }
}

pub open spec fn nl1() -> Seq<char> { seq!['\n'] }

/// searching for a one-char pattern is scanning for that char
pub proof fn lemma_find_char(s: Seq<char>, c: char)
    ensures find_sub(s, seq![c]) == find_char(s, c), -1 <= find_char(s, c) < s.len() || (s.len() == 0 && find_char(s, c) == -1)
    decreases s.len()
{
    lemma_prefix1(c, s);
    if s.len() > 0 && s[0] != c {
        lemma_find_char(s.skip(1), c);
    }
}
/// the first piece of `split(c)` is the text before the first c
pub proof fn lemma_split_char_first(s: Seq<char>, c: char)
    ensures
        split_char(s, c).len() >= 1,
        split_char(s, c)[0] == (if find_sub(s, seq![c]) < 0 { s } else { s.take(find_sub(s, seq![c])) }),
{
    lemma_find_char(s, c);
}
/// a, then c, then b: the first c is right after a when a has none
pub proof fn lemma_find_char_concat(a: Seq<char>, c: char, b: Seq<char>)
    requires find_sub(a, seq![c]) < 0
    ensures find_sub(a + seq![c] + b, seq![c]) == a.len()
    decreases a.len()
{
    let s = a + seq![c] + b;
    lemma_prefix1(c, s);
    lemma_prefix1(c, a);
    if a.len() == 0 {
        assert(s[0] == c);
    } else {
        assert(s[0] == a[0]);
        assert(a[0] != c);
        assert(s.skip(1) =~= a.skip(1) + seq![c] + b);
        lemma_find_char_concat(a.skip(1), c, b);
    }
}
pub proof fn lemma_first_line_of_join(a: Seq<char>, b: Seq<char>)
    requires find_sub(a, nl1()) < 0
    ensures first_line_of(a + nl1() + b) == a, after_first_line(a + nl1() + b) == b
{
    lemma_find_char_concat(a, '\n', b);
    let s = a + nl1() + b;
    assert(s.take(a.len() as int) =~= a);
    assert(s.skip(a.len() as int + 1) =~= b);
}
pub proof fn lemma_lines_rejoin(t: Seq<char>)
    ensures find_sub(t, nl1()) >= 0 ==> t == first_line_of(t) + nl1() + after_first_line(t), find_sub(first_line_of(t), nl1()) < 0
    decreases t.len()
{
    lemma_find_sub_bounds(t, nl1());
    let i = find_sub(t, nl1());
    if i >= 0 {
        lemma_find_sub_at(t, nl1());
        assert(t =~= t.take(i) + nl1() + t.skip(i + 1));
    }
    lemma_first_line_no_nl(t);
}
/// at the index found, the pattern is a prefix of the rest
pub proof fn lemma_find_sub_at(s: Seq<char>, p: Seq<char>)
    ensures find_sub(s, p) >= 0 ==> is_prefix(p, s.skip(find_sub(s, p)))
    decreases s.len()
{
    if is_prefix(p, s) {
        assert(s.skip(0) =~= s);
    } else if s.len() > 0 {
        lemma_find_sub_at(s.skip(1), p);
        lemma_find_sub_bounds(s.skip(1), p);
        let r = find_sub(s.skip(1), p);
        if r >= 0 { assert(s.skip(1).skip(r) =~= s.skip(r + 1)); }
    }
}
pub proof fn lemma_first_line_no_nl(t: Seq<char>)
    ensures find_sub(first_line_of(t), nl1()) < 0
    decreases t.len()
{
    lemma_prefix1('\n', t);
    if t.len() > 0 && t[0] != '\n' {
        lemma_first_line_no_nl(t.skip(1));
        lemma_find_sub_bounds(t.skip(1), nl1());
        let r = find_sub(t.skip(1), nl1());
        let fl = first_line_of(t);
        if r >= 0 {
            assert(fl =~= seq![t[0]] + t.skip(1).take(r));
        } else {
            assert(fl == t);
        }
        lemma_prefix1('\n', fl);
        assert(fl.skip(1) =~= first_line_of(t.skip(1)));
    } else if t.len() > 0 {
        assert(first_line_of(t) =~= Seq::<char>::empty());
    }
}

// ---- Control: binary paragraphs -------------------------------------------------------------------
pub open spec fn has_package(p: Seq<(Seq<char>, Seq<char>)>) -> bool { first_idx(p, "Package"@) >= 0 }
pub open spec fn binary_views(s: Seq<control::Binary>) -> Seq<Seq<(Seq<char>, Seq<char>)>> { s.map_values(|b: control::Binary| b.0@) }
pub open spec fn para_views(s: Seq<deb822_lossless::Paragraph>) -> Seq<Seq<(Seq<char>, Seq<char>)>> { s.map_values(|x: deb822_lossless::Paragraph| x@) }
