// ---------------------------------------------------------------------------------------------
// C20 (structural clause, control files): paragraphs are assigned to the source / binary roles by their
// distinguishing fields; documents violating the structural rules are rejected.
// ---------------------------------------------------------------------------------------------
pub open spec fn has_field(p: FieldList, name: Seq<char>) -> bool { first_idx(p, name) >= 0 }
pub open spec fn is_binary(p: FieldList) -> bool { has_field(p, "Package"@) }
pub open spec fn is_source(p: FieldList) -> bool { !has_field(p, "Package"@) && has_field(p, "Source"@) }
/// number of source paragraphs among the first n
pub open spec fn count_src(ps: Seq<FieldList>, n: int) -> int
    decreases n
{
    if n <= 0 { 0 } else { count_src(ps, n - 1) + if is_source(ps[n - 1]) { 1int } else { 0int } }
}
/// the binary paragraphs among the first n, in order
pub open spec fn bin_list(ps: Seq<FieldList>, n: int) -> Seq<FieldList>
    decreases n
{
    if n <= 0 { Seq::empty() } else if is_binary(ps[n - 1]) { bin_list(ps, n - 1).push(ps[n - 1]) } else { bin_list(ps, n - 1) }
}
pub open spec fn bin_origins(v: Seq<Binary>) -> Seq<FieldList> { v.map_values(|b: Binary| b.origin()) }
pub open spec fn all_classified(ps: Seq<FieldList>, n: int) -> bool { forall|i: int| 0 <= i < n ==> is_binary(#[trigger] ps[i]) || is_source(ps[i]) }
/// the first source paragraph among the first n
pub open spec fn first_src(ps: Seq<FieldList>, n: int) -> FieldList
    decreases n
{
    if n <= 0 { Seq::empty() } else if count_src(ps, n - 1) == 0 && is_source(ps[n - 1]) { ps[n - 1] } else { first_src(ps, n - 1) }
}
pub proof fn lemma_count_nonneg(ps: Seq<FieldList>, n: int)
    ensures count_src(ps, n) >= 0
    decreases n
{
    if n > 0 { lemma_count_nonneg(ps, n - 1); }
}

// ---- copyright files: header first, then Files / License paragraphs ----------------------------------------------
pub open spec fn is_files(p: FieldList) -> bool { has_field(p, "Files"@) }
pub open spec fn is_license(p: FieldList) -> bool { !has_field(p, "Files"@) && has_field(p, "License"@) }
/// the Files paragraphs among paragraphs 1..n, in order
pub open spec fn files_list(ps: Seq<FieldList>, n: int) -> Seq<FieldList>
    decreases n
{
    if n <= 1 { Seq::empty() } else if is_files(ps[n - 1]) { files_list(ps, n - 1).push(ps[n - 1]) } else { files_list(ps, n - 1) }
}
pub open spec fn lic_list(ps: Seq<FieldList>, n: int) -> Seq<FieldList>
    decreases n
{
    if n <= 1 { Seq::empty() } else if is_license(ps[n - 1]) { lic_list(ps, n - 1).push(ps[n - 1]) } else { lic_list(ps, n - 1) }
}
pub open spec fn files_origins(v: Seq<FilesParagraph>) -> Seq<FieldList> { v.map_values(|b: FilesParagraph| b.origin()) }
pub open spec fn lic_origins(v: Seq<LicenseParagraph>) -> Seq<FieldList> { v.map_values(|b: LicenseParagraph| b.origin()) }
pub open spec fn rest_classified(ps: Seq<FieldList>, n: int) -> bool { forall|i: int| 1 <= i < n ==> is_files(#[trigger] ps[i]) || is_license(ps[i]) }
pub open spec fn format_gate(s: Seq<char>) -> bool { "Format:"@.len() <= s.len() && s.take("Format:"@.len() as int) == "Format:"@ }
