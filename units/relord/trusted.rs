// TRUSTED declarations of unit relord (reported as assumptions in the evidence)
/// #[derive(PartialOrd, Ord)] on the field-less enum VersionConstraint: by some rank of the variant (TRUSTED)
pub uninterp spec fn vc_rank(c: dc_relations::VersionConstraint) -> int;
impl VxOrd for dc_relations::VersionConstraint {
    open spec fn ord_spec(&self, other: &Self) -> core::cmp::Ordering { int_ord(vc_rank(*self) - vc_rank(*other)) }
    #[verifier::external_body]
    fn vx_cmp_m(&self, other: &Self) -> (r: core::cmp::Ordering) { unimplemented!() }
}

