// the handles' abstract values (shared by units relord and relwrap)
/// abstract value of a Relation handle (what its accessors report) and the relation handles of an Entry handle
pub uninterp spec fn acc(r: Relation) -> RelV;
pub uninterp spec fn rels(e: Entry) -> Seq<Relation>;
pub open spec fn accs(s: Seq<Relation>) -> Seq<RelV> { s.map_values(|r: Relation| acc(r)) }

pub proof fn lemma_accs_skip(s: Seq<Relation>)
    requires s.len() > 0
    ensures accs(s.skip(1)) == accs(s).skip(1), accs(s)[0] == acc(s[0]), accs(s).len() == s.len()
{
    assert(accs(s.skip(1)) =~= accs(s).skip(1));
}

