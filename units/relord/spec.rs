// ---------------------------------------------------------------------------------------------
// C13 "sorted": the order the lossless relation handles are sorted by (impl Ord for Relation / Entry), as spec
// functions over what the accessors report, and the proof that it is a consistent order (a total preorder), which is
// what makes "sorted" and "sorting again changes nothing" meaningful.
// ---------------------------------------------------------------------------------------------
pub type VerV = (dc_relations::VersionConstraint, debversion::Version);
/// operator first, then the version in Debian version order
pub open spec fn ver_order(a: VerV, b: VerV) -> core::cmp::Ordering {
    if int_ord(vc_rank(a.0) - vc_rank(b.0)) != core::cmp::Ordering::Equal { int_ord(vc_rank(a.0) - vc_rank(b.0)) }
    else { int_ord(debversion::vcmp(&a.1, &b.1)) }
}
/// a relation sorts by package name, then unversioned before versioned, then by operator and Debian version
pub open spec fn rel_order(a: RelV, b: RelV) -> core::cmp::Ordering {
    if str_ord(a.name, b.name) != core::cmp::Ordering::Equal { str_ord(a.name, b.name) }
    else {
        match (a.version, b.version) {
            (Some(x), Some(y)) => ver_order(x, y),
            (Some(_), None) => core::cmp::Ordering::Greater,
            (None, Some(_)) => core::cmp::Ordering::Less,
            (None, None) => core::cmp::Ordering::Equal,
        }
    }
}
/// an entry sorts by its alternatives, lexicographically; a proper prefix sorts first
pub open spec fn entry_order(s: Seq<RelV>, t: Seq<RelV>) -> core::cmp::Ordering { lex_seq(|a: RelV, b: RelV| rel_order(a, b), s, t) }

// ---- the order is consistent -----------------------------------------------------------------------------------
pub proof fn lemma_char_ord_preorder()
    ensures total_preorder(|x: char, y: char| char_ord(x, y))
{
    let k = |x: char, y: char| char_ord(x, y);
    assert forall|a: char, b: char| #[trigger] k(b, a) == ord_flip(k(a, b)) by {}
    assert forall|a: char, b: char, d: char| #[trigger] ole(k, a, b) && #[trigger] ole(k, b, d) implies ole(k, a, d) by {}
}
pub proof fn lemma_version_preorder()
    ensures total_preorder(|a: debversion::Version, b: debversion::Version| int_ord(debversion::vcmp(&a, &b)))
{
    let k = |a: debversion::Version, b: debversion::Version| int_ord(debversion::vcmp(&a, &b));
    assert forall|a: debversion::Version, b: debversion::Version| #[trigger] k(b, a) == ord_flip(k(a, b)) by { axiom_vcmp_antisym(&a, &b); }
    assert forall|a: debversion::Version, b: debversion::Version, d: debversion::Version| #[trigger] ole(k, a, b) && #[trigger] ole(k, b, d) implies ole(k, a, d) by {
        axiom_vcmp_trans(&a, &b, &d);
    }
}
/// THEOREM (C13, "sorted" is well defined): the order of relations is a total preorder ...
pub proof fn theorem_rel_order_consistent()
    ensures total_preorder(|a: RelV, b: RelV| rel_order(a, b))
{
    let chars = |x: char, y: char| char_ord(x, y);
    let names = seq_ord(chars);
    let vcs = |a: dc_relations::VersionConstraint, b: dc_relations::VersionConstraint| int_ord(vc_rank(a) - vc_rank(b));
    let vers = |a: debversion::Version, b: debversion::Version| int_ord(debversion::vcmp(&a, &b));
    let verv = lex2(vcs, vers);
    let optv = opt_ord(verv);
    let pair = lex2(names, optv);
    let key = |r: RelV| (r.name, r.version);
    let comp = by_key(pair, key);
    lemma_char_ord_preorder();
    lemma_seq_ord(chars);
    lemma_int_key_preorder(|c: dc_relations::VersionConstraint| vc_rank(c));
    assert(total_preorder(vcs)) by {
        let k2 = |a: dc_relations::VersionConstraint, b: dc_relations::VersionConstraint| int_ord((|c: dc_relations::VersionConstraint| vc_rank(c))(a) - (|c: dc_relations::VersionConstraint| vc_rank(c))(b));
        assert forall|a: dc_relations::VersionConstraint, b: dc_relations::VersionConstraint| #[trigger] vcs(b, a) == ord_flip(vcs(a, b)) by {}
        assert forall|a: dc_relations::VersionConstraint, b: dc_relations::VersionConstraint, d: dc_relations::VersionConstraint| #[trigger] ole(vcs, a, b) && #[trigger] ole(vcs, b, d) implies ole(vcs, a, d) by {}
    }
    lemma_version_preorder();
    lemma_lex2(vcs, vers);
    lemma_opt_ord(verv);
    lemma_lex2(names, optv);
    lemma_by_key(pair, key);
    let k = |a: RelV, b: RelV| rel_order(a, b);
    assert forall|a: RelV, b: RelV| #[trigger] k(a, b) == comp(a, b) by {
        assert(names(a.name, b.name) == str_ord(a.name, b.name));
    }
    assert forall|a: RelV, b: RelV| #[trigger] k(b, a) == ord_flip(k(a, b)) by { assert(comp(b, a) == ord_flip(comp(a, b))); }
    assert forall|a: RelV, b: RelV, d: RelV| #[trigger] ole(k, a, b) && #[trigger] ole(k, b, d) implies ole(k, a, d) by {
        assert(ole(comp, a, b) && ole(comp, b, d));
        assert(ole(comp, a, d));
    }
}
/// ... and so is the order of entries
pub proof fn theorem_entry_order_consistent()
    ensures total_preorder(|s: Seq<RelV>, t: Seq<RelV>| entry_order(s, t))
{
    let r = |a: RelV, b: RelV| rel_order(a, b);
    theorem_rel_order_consistent();
    lemma_seq_ord(r);
    let k = |s: Seq<RelV>, t: Seq<RelV>| entry_order(s, t);
    let c = seq_ord(r);
    assert forall|a: Seq<RelV>, b: Seq<RelV>| #[trigger] k(b, a) == ord_flip(k(a, b)) by { assert(c(b, a) == ord_flip(c(a, b))); }
    assert forall|a: Seq<RelV>, b: Seq<RelV>, d: Seq<RelV>| #[trigger] ole(k, a, b) && #[trigger] ole(k, b, d) implies ole(k, a, d) by {
        assert(ole(c, a, b) && ole(c, b, d));
        assert(ole(c, a, d));
    }
}
