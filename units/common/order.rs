// ---------------------------------------------------------------------------------------------
// Order theory for comparison functions (spec_fn(T, T) -> Ordering): what "a consistent order" means and that
// it survives the constructions the relation ordering uses (key projection, lexicographic pair, None-first option,
// lexicographic sequence). Everything here is proved.
// ---------------------------------------------------------------------------------------------
/// consequences used below: Equal is a congruence and strictness is kept
pub proof fn lemma_preorder_strict<T>(c: spec_fn(T, T) -> core::cmp::Ordering, a: T, b: T, d: T)
    requires total_preorder(c), ole(c, a, b), ole(c, b, d)
    ensures
        ole(c, a, d),
        (c(a, b) == core::cmp::Ordering::Less || c(b, d) == core::cmp::Ordering::Less) ==> c(a, d) == core::cmp::Ordering::Less,
{
    assert(ole(c, a, d));
    if c(a, d) == core::cmp::Ordering::Equal {
        assert(c(d, a) == ord_flip(c(a, d)));
        assert(ole(c, d, a));
        // d <= a <= b  and  b <= d <= a
        assert(ole(c, d, b));
        assert(ole(c, b, a));
        assert(c(b, a) == ord_flip(c(a, b)));
        assert(c(d, b) == ord_flip(c(b, d)));
    }
}
pub open spec fn by_key<K, T>(c: spec_fn(K, K) -> core::cmp::Ordering, key: spec_fn(T) -> K) -> spec_fn(T, T) -> core::cmp::Ordering {
    |a: T, b: T| c(key(a), key(b))
}
pub proof fn lemma_by_key<K, T>(c: spec_fn(K, K) -> core::cmp::Ordering, key: spec_fn(T) -> K)
    requires total_preorder(c)
    ensures total_preorder(by_key(c, key))
{
    let k = by_key(c, key);
    assert forall|a: T, b: T| #[trigger] k(b, a) == ord_flip(k(a, b)) by { assert(c(key(b), key(a)) == ord_flip(c(key(a), key(b)))); }
    assert forall|a: T, b: T, d: T| #[trigger] ole(k, a, b) && #[trigger] ole(k, b, d) implies ole(k, a, d) by {
        assert(ole(c, key(a), key(b)) && ole(c, key(b), key(d)));
    }
}
pub open spec fn lex2<A, B>(c1: spec_fn(A, A) -> core::cmp::Ordering, c2: spec_fn(B, B) -> core::cmp::Ordering) -> spec_fn((A, B), (A, B)) -> core::cmp::Ordering {
    |x: (A, B), y: (A, B)| if c1(x.0, y.0) != core::cmp::Ordering::Equal { c1(x.0, y.0) } else { c2(x.1, y.1) }
}
pub proof fn lemma_lex2<A, B>(c1: spec_fn(A, A) -> core::cmp::Ordering, c2: spec_fn(B, B) -> core::cmp::Ordering)
    requires total_preorder(c1), total_preorder(c2)
    ensures total_preorder(lex2(c1, c2))
{
    let k = lex2(c1, c2);
    assert forall|x: (A, B), y: (A, B)| #[trigger] k(y, x) == ord_flip(k(x, y)) by {
        assert(c1(y.0, x.0) == ord_flip(c1(x.0, y.0)));
        assert(c2(y.1, x.1) == ord_flip(c2(x.1, y.1)));
    }
    assert forall|x: (A, B), y: (A, B), z: (A, B)| #[trigger] ole(k, x, y) && #[trigger] ole(k, y, z) implies ole(k, x, z) by {
        assert(ole(c1, x.0, y.0) && ole(c1, y.0, z.0));
        lemma_preorder_strict(c1, x.0, y.0, z.0);
        if c1(x.0, z.0) == core::cmp::Ordering::Equal {
            // then both steps are Equal on the first component
            assert(c1(x.0, y.0) == core::cmp::Ordering::Equal && c1(y.0, z.0) == core::cmp::Ordering::Equal);
            assert(ole(c2, x.1, y.1) && ole(c2, y.1, z.1));
        }
    }
}
/// None sorts before Some
pub open spec fn opt_ord<T>(c: spec_fn(T, T) -> core::cmp::Ordering) -> spec_fn(Option<T>, Option<T>) -> core::cmp::Ordering {
    |x: Option<T>, y: Option<T>| match (x, y) {
        (Some(a), Some(b)) => c(a, b),
        (Some(_), None) => core::cmp::Ordering::Greater,
        (None, Some(_)) => core::cmp::Ordering::Less,
        (None, None) => core::cmp::Ordering::Equal,
    }
}
pub proof fn lemma_opt_ord<T>(c: spec_fn(T, T) -> core::cmp::Ordering)
    requires total_preorder(c)
    ensures total_preorder(opt_ord(c))
{
    let k = opt_ord(c);
    assert forall|x: Option<T>, y: Option<T>| #[trigger] k(y, x) == ord_flip(k(x, y)) by {
        if x is Some && y is Some { assert(c(y->Some_0, x->Some_0) == ord_flip(c(x->Some_0, y->Some_0))); }
    }
    assert forall|x: Option<T>, y: Option<T>, z: Option<T>| #[trigger] ole(k, x, y) && #[trigger] ole(k, y, z) implies ole(k, x, z) by {
        if x is Some && y is Some && z is Some { assert(ole(c, x->Some_0, y->Some_0) && ole(c, y->Some_0, z->Some_0)); }
    }
}
pub open spec fn seq_ord<T>(c: spec_fn(T, T) -> core::cmp::Ordering) -> spec_fn(Seq<T>, Seq<T>) -> core::cmp::Ordering {
    |s: Seq<T>, t: Seq<T>| lex_seq(c, s, t)
}
pub proof fn lemma_lex_seq_flip<T>(c: spec_fn(T, T) -> core::cmp::Ordering, s: Seq<T>, t: Seq<T>)
    requires total_preorder(c)
    ensures lex_seq(c, t, s) == ord_flip(lex_seq(c, s, t))
    decreases s.len()
{
    if s.len() > 0 && t.len() > 0 {
        assert(c(t[0], s[0]) == ord_flip(c(s[0], t[0])));
        lemma_lex_seq_flip(c, s.skip(1), t.skip(1));
    }
}
pub proof fn lemma_lex_seq_trans<T>(c: spec_fn(T, T) -> core::cmp::Ordering, s: Seq<T>, t: Seq<T>, u: Seq<T>)
    requires total_preorder(c), lex_seq(c, s, t) != core::cmp::Ordering::Greater, lex_seq(c, t, u) != core::cmp::Ordering::Greater
    ensures lex_seq(c, s, u) != core::cmp::Ordering::Greater
    decreases s.len()
{
    if s.len() > 0 && t.len() > 0 && u.len() > 0 {
        assert(ole(c, s[0], t[0]) && ole(c, t[0], u[0]));
        lemma_preorder_strict(c, s[0], t[0], u[0]);
        if c(s[0], u[0]) == core::cmp::Ordering::Equal {
            assert(c(s[0], t[0]) == core::cmp::Ordering::Equal && c(t[0], u[0]) == core::cmp::Ordering::Equal);
            lemma_lex_seq_trans(c, s.skip(1), t.skip(1), u.skip(1));
        }
    }
}
pub proof fn lemma_seq_ord<T>(c: spec_fn(T, T) -> core::cmp::Ordering)
    requires total_preorder(c)
    ensures total_preorder(seq_ord(c))
{
    let k = seq_ord(c);
    assert forall|s: Seq<T>, t: Seq<T>| #[trigger] k(t, s) == ord_flip(k(s, t)) by { lemma_lex_seq_flip(c, s, t); }
    assert forall|s: Seq<T>, t: Seq<T>, u: Seq<T>| #[trigger] ole(k, s, t) && #[trigger] ole(k, t, u) implies ole(k, s, u) by { lemma_lex_seq_trans(c, s, t, u); }
}
pub proof fn lemma_int_key_preorder<T>(rank: spec_fn(T) -> int)
    ensures total_preorder(|a: T, b: T| int_ord(rank(a) - rank(b)))
{
    let k = |a: T, b: T| int_ord(rank(a) - rank(b));
    assert forall|a: T, b: T| #[trigger] k(b, a) == ord_flip(k(a, b)) by {}
    assert forall|a: T, b: T, d: T| #[trigger] ole(k, a, b) && #[trigger] ole(k, b, d) implies ole(k, a, d) by {}
}
