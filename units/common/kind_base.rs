// shared, kind-agnostic pieces of units/deb822tree/content_spec.rs (copied mechanically by name) for units over another SyntaxKind
pub type Tree = rowan::Tree;
/// the trees of kind k, in order
pub open spec fn kind_filter(ts: Seq<Tree>, k: SyntaxKind) -> Seq<Tree>
    decreases ts.len()
{
    if ts.len() == 0 { Seq::empty() }
    else if rowan::tree_kind(ts.last()) == k { kind_filter(ts.drop_last(), k).push(ts.last()) }
    else { kind_filter(ts.drop_last(), k) }
}
/// positions (among all children) of the child nodes of kind k, in order
/// the children that are tokens, in order
pub open spec fn child_toks(ch: Seq<Tree>) -> Seq<Tree>
    decreases ch.len()
{
    if ch.len() == 0 { Seq::empty() }
    else if ch.last() is Tok { child_toks(ch.drop_last()).push(ch.last()) }
    else { child_toks(ch.drop_last()) }
}
pub open spec fn kind_positions(ch: Seq<Tree>, k: SyntaxKind) -> Seq<int>
    decreases ch.len()
{
    if ch.len() == 0 { Seq::empty() }
    else if ch.last() is Node && rowan::tree_kind(ch.last()) == k { kind_positions(ch.drop_last(), k).push(ch.len() - 1) }
    else { kind_positions(ch.drop_last(), k) }
}
pub open spec fn all_nodes(ts: Seq<Tree>) -> bool { forall|i: int| 0 <= i < ts.len() ==> (#[trigger] ts[i]) is Node }
pub open spec fn all_toks(ts: Seq<Tree>) -> bool { forall|i: int| 0 <= i < ts.len() ==> (#[trigger] ts[i]) is Tok }
pub proof fn lemma_child_nodes_add(a: Seq<Tree>, b: Seq<Tree>)
    ensures rowan::child_nodes(a + b) == rowan::child_nodes(a) + rowan::child_nodes(b)
    decreases b.len()
{
    if b.len() == 0 {
        assert(a + b =~= a);
        assert(rowan::child_nodes(a) + rowan::child_nodes(b) =~= rowan::child_nodes(a));
    } else {
        lemma_child_nodes_add(a, b.drop_last());
        assert((a + b).drop_last() =~= a + b.drop_last());
        assert((a + b).last() == b.last());
        assert(rowan::child_nodes(a + b) =~= rowan::child_nodes(a) + rowan::child_nodes(b));
    }
}
pub proof fn lemma_kind_filter_add(a: Seq<Tree>, b: Seq<Tree>, k: SyntaxKind)
    ensures kind_filter(a + b, k) == kind_filter(a, k) + kind_filter(b, k)
    decreases b.len()
{
    if b.len() == 0 {
        assert(a + b =~= a);
        assert(kind_filter(a, k) + kind_filter(b, k) =~= kind_filter(a, k));
    } else {
        lemma_kind_filter_add(a, b.drop_last(), k);
        assert((a + b).drop_last() =~= a + b.drop_last());
        assert((a + b).last() == b.last());
        assert(kind_filter(a + b, k) =~= kind_filter(a, k) + kind_filter(b, k));
    }
}
pub proof fn lemma_child_nodes_of_nodes(ts: Seq<Tree>)
    requires all_nodes(ts)
    ensures rowan::child_nodes(ts) == ts, child_toks(ts) == Seq::<Tree>::empty()
    decreases ts.len()
{
    if ts.len() > 0 {
        assert forall|i: int| 0 <= i < ts.drop_last().len() implies (#[trigger] ts.drop_last()[i]) is Node by { assert(ts.drop_last()[i] == ts[i]); }
        lemma_child_nodes_of_nodes(ts.drop_last());
        assert(ts.last() is Node);
        assert(rowan::child_nodes(ts) =~= ts);
    } else {
        assert(rowan::child_nodes(ts) =~= ts);
    }
}
pub proof fn lemma_child_nodes_of_toks(ts: Seq<Tree>)
    requires all_toks(ts)
    ensures rowan::child_nodes(ts) == Seq::<Tree>::empty(), child_toks(ts) == ts
    decreases ts.len()
{
    if ts.len() > 0 {
        assert forall|i: int| 0 <= i < ts.drop_last().len() implies (#[trigger] ts.drop_last()[i]) is Tok by { assert(ts.drop_last()[i] == ts[i]); }
        lemma_child_nodes_of_toks(ts.drop_last());
        assert(ts.last() is Tok);
        assert(child_toks(ts) =~= ts);
    } else {
        assert(child_toks(ts) =~= ts);
    }
}
pub proof fn lemma_kind_filter_single(a: Tree, k: SyntaxKind)
    ensures kind_filter(seq![a], k) == if rowan::tree_kind(a) == k { seq![a] } else { Seq::<Tree>::empty() }
{
    let s = seq![a];
    assert(s.drop_last() =~= Seq::<Tree>::empty());
    assert(kind_filter(s.drop_last(), k) =~= Seq::<Tree>::empty());
    assert(s.last() == a);
    if rowan::tree_kind(a) == k { assert(kind_filter(s, k) =~= seq![a]); } else { assert(kind_filter(s, k) =~= Seq::<Tree>::empty()); }
}
