// word lists and line lists: text -> list -> text facts for the custom (de)serialisers of C16; all proved
/// THEOREM (word lists): tokens without white space, joined by ONE white-space character, split back into the tokens
pub proof fn theorem_words_roundtrip(l: Seq<Seq<char>>, c: char)
    requires is_unicode_ws(c), forall|i: int| 0 <= i < l.len() ==> ws_free(#[trigger] l[i])
    ensures ws_tokens(join_seqs(l, seq![c])) == l
    decreases l.len()
{
    let e = Seq::<char>::empty();
    if l.len() == 0 {
        lemma_ws_tokens_empty();
        assert(ws_tokens(e) =~= l);
    } else if l.len() == 1 {
        lemma_ws_tokens_empty();
        assert(l[0] + e =~= l[0]);
        lemma_ws_tokens_cons(l[0], e);
        assert(seq![l[0]] + Seq::<Seq<char>>::empty() =~= l);
    } else {
        let r = l.skip(1);
        assert(forall|i: int| 0 <= i < r.len() ==> ws_free(#[trigger] r[i])) by { assert forall|i: int| 0 <= i < r.len() implies ws_free(#[trigger] r[i]) by { assert(r[i] == l[i + 1]); } }
        theorem_words_roundtrip(r, c);
        assert(seq![l[0]] + r =~= l);
        lemma_join_front(l[0], r, seq![c]);
        let tail = join_seqs(r, seq![c]);
        assert(l[0] + seq![c] + tail =~= l[0] + (seq![c] + tail));
        assert((seq![c] + tail)[0] == c);
        lemma_ws_tokens_cons(l[0], seq![c] + tail);
        lemma_ws_tokens_ws1(c, tail);
    }
}

// ---- line lists ------------------------------------------------------------------------------------------------------
pub open spec fn has_char(s: Seq<char>, c: char) -> bool { exists|i: int| 0 <= i < s.len() && s[i] == c }
/// the non-empty pieces, in order (`.filter(|s| !s.is_empty())`)
pub open spec fn drop_empty(ps: Seq<Seq<char>>) -> Seq<Seq<char>>
    decreases ps.len()
{
    if ps.len() == 0 { Seq::empty() } else if ps[0].len() == 0 { drop_empty(ps.skip(1)) } else { seq![ps[0]] + drop_empty(ps.skip(1)) }
}
/// str::lines(): pieces ended by '\n' (a '\r' in front of that '\n' is dropped too); a last piece without line ending
/// counts if it is not empty
pub open spec fn lines_spec(s: Seq<char>) -> Seq<Seq<char>>
    decreases s.len()
{
    if s.len() == 0 { Seq::empty() } else {
        let i = find_char(s, '\n');
        if i < 0 || i >= s.len() { seq![s] } else {
            let line = s.take(i);
            let line2 = if line.len() > 0 && line.last() == '\r' { line.drop_last() } else { line };
            seq![line2] + lines_spec(s.skip(i + 1))
        }
    }
}
pub proof fn lemma_find_char_absent(s: Seq<char>, c: char)
    requires !has_char(s, c)
    ensures find_char(s, c) == -1
    decreases s.len()
{
    if s.len() > 0 {
        assert(s[0] != c);
        assert(!has_char(s.skip(1), c)) by { if has_char(s.skip(1), c) { let i = choose|i: int| 0 <= i < s.skip(1).len() && s.skip(1)[i] == c; assert(s[i + 1] == c); } }
        lemma_find_char_absent(s.skip(1), c);
    }
}
pub proof fn lemma_find_char_after(a: Seq<char>, c: char, rest: Seq<char>)
    requires !has_char(a, c)
    ensures find_char(a + seq![c] + rest, c) == a.len()
    decreases a.len()
{
    let s = a + seq![c] + rest;
    if a.len() == 0 {
        assert(s[0] == c);
    } else {
        assert(s[0] == a[0]);
        assert(a[0] != c);
        assert(s.skip(1) =~= a.skip(1) + seq![c] + rest);
        assert(!has_char(a.skip(1), c)) by { if has_char(a.skip(1), c) { let i = choose|i: int| 0 <= i < a.skip(1).len() && a.skip(1)[i] == c; assert(a[i + 1] == c); } }
        lemma_find_char_after(a.skip(1), c, rest);
    }
}
pub open spec fn line_ok(a: Seq<char>) -> bool { a.len() > 0 && !has_char(a, '\n') }
/// THEOREM (line lists, `.split('\n').filter(non-empty)`): non-empty lines without '\n', joined by '\n', split back into the lines
pub proof fn theorem_lines_ne_roundtrip(l: Seq<Seq<char>>)
    requires forall|i: int| 0 <= i < l.len() ==> line_ok(#[trigger] l[i])
    ensures drop_empty(split_char(join_seqs(l, seq!['\n']), '\n')) == l
    decreases l.len()
{
    let e = Seq::<char>::empty();
    if l.len() == 0 {
        assert(find_char(e, '\n') == -1);
        assert(split_char(e, '\n') =~= seq![e]);
        assert(seq![e].skip(1) =~= Seq::<Seq<char>>::empty());
        assert(drop_empty(Seq::<Seq<char>>::empty()) =~= Seq::<Seq<char>>::empty());
        assert(seq![e][0].len() == 0);
        assert(drop_empty(seq![e]) == drop_empty(seq![e].skip(1)));
        assert(drop_empty(seq![e]) =~= l);
    } else if l.len() == 1 {
        lemma_find_char_absent(l[0], '\n');
        assert(split_char(l[0], '\n') =~= seq![l[0]]);
        assert(seq![l[0]].skip(1) =~= Seq::<Seq<char>>::empty());
        assert(drop_empty(Seq::<Seq<char>>::empty()) =~= Seq::<Seq<char>>::empty());
        assert(seq![l[0]][0] == l[0] && line_ok(l[0]));
        assert(drop_empty(seq![l[0]]) == seq![l[0]] + drop_empty(seq![l[0]].skip(1)));
        assert(drop_empty(seq![l[0]]) =~= l);
    } else {
        let r = l.skip(1);
        assert forall|i: int| 0 <= i < r.len() implies line_ok(#[trigger] r[i]) by { assert(r[i] == l[i + 1]); }
        theorem_lines_ne_roundtrip(r);
        assert(seq![l[0]] + r =~= l);
        lemma_join_front(l[0], r, seq!['\n']);
        let tail = join_seqs(r, seq!['\n']);
        let s = l[0] + seq!['\n'] + tail;
        lemma_find_char_after(l[0], '\n', tail);
        assert(s.take(l[0].len() as int) =~= l[0]);
        assert(s.skip(l[0].len() as int + 1) =~= tail);
        let ps = split_char(s, '\n');
        assert(ps == seq![l[0]] + split_char(tail, '\n'));
        assert(ps[0] == l[0]);
        assert(ps.skip(1) =~= split_char(tail, '\n'));
    }
}
pub open spec fn line_ok_cr(a: Seq<char>) -> bool { a.len() > 0 && !has_char(a, '\n') && a.last() != '\r' }
/// THEOREM (line lists, `str::lines()`): non-empty lines without '\n' that do not end in '\r', joined by '\n', read back as the lines
pub proof fn theorem_lines_roundtrip(l: Seq<Seq<char>>)
    requires forall|i: int| 0 <= i < l.len() ==> line_ok_cr(#[trigger] l[i])
    ensures lines_spec(join_seqs(l, seq!['\n'])) == l
    decreases l.len()
{
    if l.len() == 0 {
        assert(lines_spec(Seq::<char>::empty()) =~= l);
    } else if l.len() == 1 {
        lemma_find_char_absent(l[0], '\n');
        assert(lines_spec(l[0]) =~= l);
    } else {
        let r = l.skip(1);
        assert forall|i: int| 0 <= i < r.len() implies line_ok_cr(#[trigger] r[i]) by { assert(r[i] == l[i + 1]); }
        theorem_lines_roundtrip(r);
        assert(seq![l[0]] + r =~= l);
        lemma_join_front(l[0], r, seq!['\n']);
        let tail = join_seqs(r, seq!['\n']);
        let s = l[0] + seq!['\n'] + tail;
        lemma_find_char_after(l[0], '\n', tail);
        assert(s.take(l[0].len() as int) =~= l[0]);
        assert(s.skip(l[0].len() as int + 1) =~= tail);
    }
}
