// shared one-character texts
pub open spec fn sp() -> Seq<char> { seq![' '] }
pub open spec fn lf() -> Seq<char> { seq!['\n'] }
pub open spec fn colon() -> Seq<char> { seq![':'] }
