// facts about str::split_whitespace (ws_tokens) on texts built from whitespace-free tokens; all proved
pub open spec fn ws_free(t: Seq<char>) -> bool { t.len() > 0 && forall|i: int| 0 <= i < t.len() ==> !is_unicode_ws(#[trigger] t[i]) }
pub open spec fn sp1() -> Seq<char> { seq![' '] }

// ---- facts about split_whitespace on space-joined tokens ------------------------------------------
pub proof fn lemma_prefix_while_token(t: Seq<char>, rest: Seq<char>)
    requires ws_free(t), rest.len() == 0 || is_unicode_ws(rest[0])
    ensures prefix_while(t + rest, |c: char| !is_unicode_ws(c)) == t.len()
    decreases t.len()
{
    let p = |c: char| !is_unicode_ws(c);
    let s = t + rest;
    assert(s[0] == t[0]);
    if t.len() == 1 {
        assert(s.skip(1) =~= rest);
        assert(prefix_while(rest, p) == 0);
    } else {
        assert(s.skip(1) =~= t.skip(1) + rest);
        assert(ws_free(t.skip(1))) by { assert forall|i: int| 0 <= i < t.skip(1).len() implies !is_unicode_ws(#[trigger] t.skip(1)[i]) by { assert(t.skip(1)[i] == t[i + 1]); } }
        lemma_prefix_while_token(t.skip(1), rest);
    }
}
/// a token followed by end of text, or by a space and more text
pub proof fn lemma_ws_tokens_cons(t: Seq<char>, rest: Seq<char>)
    requires ws_free(t), rest.len() == 0 || is_unicode_ws(rest[0])
    ensures ws_tokens(t + rest) == seq![t] + ws_tokens(rest)
{
    let s = t + rest;
    assert(s[0] == t[0]);
    assert(trim_start_spec(s) == s);
    lemma_prefix_while_token(t, rest);
    assert(s.take(t.len() as int) =~= t);
    assert(s.skip(t.len() as int) =~= rest);
}
pub proof fn lemma_ws_tokens_space(rest: Seq<char>)
    ensures ws_tokens(sp1() + rest) == ws_tokens(rest)
    decreases rest.len()
{
    let s = sp1() + rest;
    assert(s[0] == ' ');
    assert(s.skip(1) =~= rest);
    assert(trim_start_spec(s) == trim_start_spec(rest));
    lemma_trim_start_len(rest);
}
pub proof fn lemma_trim_start_len(s: Seq<char>)
    ensures trim_start_spec(s).len() <= s.len(), ws_tokens(s) == ws_tokens(trim_start_spec(s))
    decreases s.len()
{
    if s.len() > 0 && is_unicode_ws(s[0]) {
        lemma_trim_start_len(s.skip(1));
        lemma_trim_start_idem(s.skip(1));
    } else {
    }
    lemma_trim_start_idem(s);
}
pub proof fn lemma_trim_start_idem(s: Seq<char>)
    ensures trim_start_spec(trim_start_spec(s)) == trim_start_spec(s), trim_start_spec(s).len() <= s.len()
    decreases s.len()
{
    if s.len() > 0 && is_unicode_ws(s[0]) { lemma_trim_start_idem(s.skip(1)); }
}
pub proof fn lemma_ws_tokens_empty()
    ensures ws_tokens(Seq::<char>::empty()) == Seq::<Seq<char>>::empty()
{
}

/// one white-space character in front changes nothing
pub proof fn lemma_ws_tokens_ws1(c: char, rest: Seq<char>)
    requires is_unicode_ws(c)
    ensures ws_tokens(seq![c] + rest) == ws_tokens(rest)
{
    let s = seq![c] + rest;
    assert(s[0] == c);
    assert(s.skip(1) =~= rest);
    assert(trim_start_spec(s) == trim_start_spec(rest));
    lemma_trim_start_len(rest);
    lemma_trim_start_len(s);
}
