// ---------------------------------------------------------------------------------------------
// shared: the child nodes of one kind among a node's children (generic in the kind k): list view, child positions,
// prefix counts. (The PARAGRAPH instance lives in units/deb822paras/paras_spec.rs; this is the same development with
// the kind as a parameter.) Needs kind_filter / kind_positions / lemma_child_nodes_add / lemma_kind_filter_add.
// ---------------------------------------------------------------------------------------------
pub open spec fn is_kind(t: Tree, k: SyntaxKind) -> bool { t is Node && rowan::tree_kind(t) == k }
pub open spec fn ch_kind(ch: Seq<Tree>, k: SyntaxKind) -> Seq<Tree> { kind_filter(rowan::child_nodes(ch), k) }
pub proof fn lemma_ch_kind_add(a: Seq<Tree>, b: Seq<Tree>, k: SyntaxKind)
    ensures ch_kind(a + b, k) == ch_kind(a, k) + ch_kind(b, k)
{
    lemma_child_nodes_add(a, b);
    lemma_kind_filter_add(rowan::child_nodes(a), rowan::child_nodes(b), k);
}
pub proof fn lemma_ch_kind_unfold(ch: Seq<Tree>, k: SyntaxKind)
    requires ch.len() > 0
    ensures ch_kind(ch, k) == if is_kind(ch.last(), k) { ch_kind(ch.drop_last(), k).push(ch.last()) } else { ch_kind(ch.drop_last(), k) }
{
    let dl = ch.drop_last();
    if ch.last() is Node {
        assert(rowan::child_nodes(ch) == rowan::child_nodes(dl).push(ch.last()));
        assert(rowan::child_nodes(ch).drop_last() =~= rowan::child_nodes(dl));
    }
}
pub proof fn lemma_ch_kind_one(t: Tree, k: SyntaxKind)
    ensures ch_kind(seq![t], k) == if is_kind(t, k) { seq![t] } else { Seq::<Tree>::empty() }
{
    let s = seq![t];
    lemma_ch_kind_unfold(s, k);
    assert(s.drop_last() =~= Seq::<Tree>::empty());
    assert(rowan::child_nodes(Seq::<Tree>::empty()) =~= Seq::<Tree>::empty());
    assert(ch_kind(Seq::<Tree>::empty(), k) =~= Seq::<Tree>::empty());
    assert(ch_kind(s.drop_last(), k) =~= Seq::<Tree>::empty());
    if is_kind(t, k) { assert(Seq::<Tree>::empty().push(t) =~= seq![t]); }
}
pub proof fn lemma_kind_positions_len(ch: Seq<Tree>, k: SyntaxKind)
    ensures kind_positions(ch, k).len() == ch_kind(ch, k).len()
    decreases ch.len()
{
    if ch.len() > 0 {
        lemma_ch_kind_unfold(ch, k);
        lemma_kind_positions_len(ch.drop_last(), k);
    } else {
        assert(rowan::child_nodes(ch) =~= Seq::<Tree>::empty());
        assert(ch_kind(ch, k) =~= Seq::<Tree>::empty());
    }
}
/// the j-th paragraph sits at child position kind_positions(ch, k)[j]
pub proof fn lemma_kind_position(ch: Seq<Tree>, j: int, k: SyntaxKind)
    requires 0 <= j < ch_kind(ch, k).len()
    ensures
        kind_positions(ch, k).len() == ch_kind(ch, k).len(),
        0 <= kind_positions(ch, k)[j] < ch.len(),
        ch[kind_positions(ch, k)[j]] == ch_kind(ch, k)[j],
        is_kind(ch[kind_positions(ch, k)[j]], k),
        ch_kind(ch.take(kind_positions(ch, k)[j]), k).len() == j,
    decreases ch.len()
{
    lemma_kind_positions_len(ch, k);
    if ch.len() > 0 {
        let dl = ch.drop_last();
        lemma_ch_kind_unfold(ch, k);
        lemma_kind_positions_len(dl, k);
        if is_kind(ch.last(), k) && j == ch_kind(dl, k).len() {
            assert(kind_positions(ch, k)[j] == ch.len() - 1);
            assert(ch.take(ch.len() - 1) =~= dl);
        } else {
            lemma_kind_position(dl, j, k);
            let pos = kind_positions(dl, k)[j];
            assert(kind_positions(ch, k)[j] == pos);
            assert(ch[pos] == dl[pos]);
            assert(ch.take(pos) =~= dl.take(pos));
        }
    }
}
/// a paragraph child preceded by j paragraphs is the j-th paragraph
pub proof fn lemma_kind_position_of(ch: Seq<Tree>, i: int, k: SyntaxKind)
    requires 0 <= i < ch.len(), is_kind(ch[i], k)
    ensures
        ch_kind(ch.take(i), k).len() < kind_positions(ch, k).len(),
        kind_positions(ch, k)[ch_kind(ch.take(i), k).len() as int] == i,
    decreases ch.len()
{
    let dl = ch.drop_last();
    lemma_kind_positions_len(dl, k);
    if i == ch.len() - 1 {
        assert(ch.take(i) =~= dl);
    } else {
        assert(dl[i] == ch[i]);
        lemma_kind_position_of(dl, i, k);
        assert(ch.take(i) =~= dl.take(i));
    }
}
/// the paragraphs among the first i children are no more than all paragraphs
pub proof fn lemma_kind_prefix_len(ch: Seq<Tree>, i: int, k: SyntaxKind)
    requires 0 <= i <= ch.len()
    ensures ch_kind(ch.take(i), k).len() <= ch_kind(ch, k).len()
{
    lemma_ch_kind_add(ch.take(i), ch.skip(i), k);
    assert(ch.take(i) + ch.skip(i) =~= ch);
}
pub proof fn lemma_kind_take_step(ch: Seq<Tree>, i: int, k: SyntaxKind)
    requires 0 <= i < ch.len()
    ensures ch_kind(ch.take(i + 1), k) == if is_kind(ch[i], k) { ch_kind(ch.take(i), k).push(ch[i]) } else { ch_kind(ch.take(i), k) }
{
    let t = ch.take(i + 1);
    lemma_ch_kind_unfold(t, k);
    assert(t.drop_last() =~= ch.take(i));
    assert(t.last() == ch[i]);
}
/// children that are not paragraphs do not count
pub proof fn lemma_skip_nonkind(ch: Seq<Tree>, a: int, b: int, k: SyntaxKind)
    requires 0 <= a <= b <= ch.len(), forall|j: int| a <= j < b ==> !is_kind(#[trigger] ch[j], k)
    ensures ch_kind(ch.skip(a), k) == ch_kind(ch.skip(b), k)
    decreases b - a
{
    if a < b {
        lemma_skip_nonkind(ch, a + 1, b, k);
        lemma_ch_kind_add(seq![ch[a]], ch.skip(a + 1), k);
        assert(seq![ch[a]] + ch.skip(a + 1) =~= ch.skip(a));
        lemma_ch_kind_one(ch[a], k);
        assert(Seq::<Tree>::empty() + ch_kind(ch.skip(a + 1), k) =~= ch_kind(ch.skip(a + 1), k));
    }
}
pub proof fn lemma_kind_filter_le(ts: Seq<Tree>, k: SyntaxKind)
    ensures kind_filter(ts, k).len() <= ts.len()
    decreases ts.len()
{
    if ts.len() > 0 { lemma_kind_filter_le(ts.drop_last(), k); }
}
/// no child nodes: no paragraphs
pub proof fn lemma_no_nodes_no_kind(ch: Seq<Tree>, k: SyntaxKind)
    requires rowan::child_nodes(ch).len() == 0
    ensures ch_kind(ch, k).len() == 0, forall|i: int| 0 <= i < ch.len() ==> !is_kind(#[trigger] ch[i], k)
    decreases ch.len()
{
    assert(rowan::child_nodes(ch) =~= Seq::<Tree>::empty());
    assert(ch_kind(ch, k) =~= Seq::<Tree>::empty());
    if ch.len() > 0 {
        if ch.last() is Node {
            assert(rowan::child_nodes(ch).len() > 0);
        } else {
            lemma_no_nodes_no_kind(ch.drop_last(), k);
            assert forall|i: int| 0 <= i < ch.len() implies !is_kind(#[trigger] ch[i], k) by {
                if i < ch.len() - 1 { assert(ch.drop_last()[i] == ch[i]); }
            }
        }
    }
}

