// ---------------------------------------------------------------------------------------------
// TRUSTED prelude: rowan_green_model.rs - the green-tree (immutable, functional) editing API of rowan 0.16 used by the
// lossless relations editor: `node.green()`, `GreenToken::new`, `GreenNode::splice_children` (a Vec::splice on the
// children: every element of the range is replaced), `SyntaxNode::replace_with` (for a root node: the replacement
// itself). Extends prelude/rowan_tree_model.rs (ghost `Tree` values).
// ---------------------------------------------------------------------------------------------
#[verifier::external_body]
pub struct GreenToken { _p: () }
impl GreenToken {
    pub uninterp spec fn tree(&self) -> rowan::Tree;
    #[verifier::external_body]
    pub fn new(kind: rowan::SyntaxKind, text: &str) -> (r: Self)
        ensures r.tree() == rowan::Tree::Tok(kind.of(), text@)
    { unimplemented!() }
}
pub type GreenElement = rowan::NodeOrToken<GreenNode, GreenToken>;
pub open spec fn gelem_tree(e: GreenElement) -> rowan::Tree {
    match e { rowan::NodeOrToken::Node(n) => n.tree(), rowan::NodeOrToken::Token(t) => t.tree() }
}
pub open spec fn gelems_trees(es: Seq<GreenElement>) -> Seq<rowan::Tree> { es.map_values(|e: GreenElement| gelem_tree(e)) }

impl VxInto<GreenElement> for GreenNode {
    open spec fn into_ok(self, r: GreenElement) -> bool { r == rowan::NodeOrToken::<GreenNode, GreenToken>::Node(self) }
    fn vx_into(self) -> (r: GreenElement) { rowan::NodeOrToken::Node(self) }
}

/// whether the handle points at the root of its tree (a ROOT-kind node of the relations grammar always does)
pub uninterp spec fn is_root(n: rowan::SyntaxNode) -> bool;

/// R-method-map: `node.green()` (Cow<GreenNodeData>) => the green subtree as a GreenNode
#[verifier::external_body]
pub fn vx_green(n: &rowan::SyntaxNode) -> (r: GreenNode)
    ensures r.tree() == n.tree()
{ unimplemented!() }

/// R-method-map: `green.splice_children(range, new)`: functional; `children.splice(range, new)`, panics out of bounds
#[verifier::external_body]
pub fn vx_green_splice(g: &GreenNode, range: core::ops::Range<usize>, new: Vec<GreenElement>) -> (r: GreenNode)
    requires g.tree() is Node, range.start <= range.end <= rowan::tree_children(g.tree()).len()
    ensures r.tree() == rowan::Tree::Node(rowan::tree_kind(g.tree()),
        rowan::tree_children(g.tree()).take(range.start as int) + gelems_trees(new@) + rowan::tree_children(g.tree()).skip(range.end as int))
{ unimplemented!() }

/// R-method-map: `node.replace_with(green)`: the green root of the tree in which `node` is replaced; for a root: `green`
#[verifier::external_body]
pub fn vx_replace_with(n: &rowan::SyntaxNode, g: GreenNode) -> (r: GreenNode)
    requires rowan::tree_kind(g.tree()) == rowan::tree_kind(n.tree())   // rowan asserts equal kinds
    ensures is_root(*n) ==> r.tree() == g.tree()
{ unimplemented!() }

/// a new mutable root is a root
#[verifier::external_body]
pub fn vx_new_root_mut(g: GreenNode) -> (r: rowan::SyntaxNode)
    ensures r.tree() == g.tree(), is_root(r)
{ unimplemented!() }
