// ---------------------------------------------------------------------------------------------
// TRUSTED prelude: derive_model.rs - the paragraph trait the derived conversions are generic over (unit derive16).
// `step`, `Op` are defined in units/derive16/ops_spec.rs (step(l, Set(k, v)) == list_set(l, k, v),
// step(l, Remove(k)) == list_remove(l, k)).
// ---------------------------------------------------------------------------------------------
pub type Pair = (Seq<char>, Seq<char>);

/// (opaque while the generated code is checked: only lemma_pairs_empty / lemma_pairs_push speak about it)
#[verifier::opaque]
pub open spec fn pairs_view(v: Seq<(String, String)>) -> Seq<Pair> { v.map_values(|p: (String, String)| (p.0@, p.1@)) }

/// R-trait (unit derive16): deb822_lossless::convert::Deb822LikeParagraph with its list view
pub trait Deb822LikeParagraph: Sized {
    spec fn view(&self) -> Seq<Pair>;

    fn get(&self, key: &str) -> (r: Option<String>)
        ensures match list_get(self@, key@) { Some(v) => r is Some && r->Some_0@ == v, None => r is None };

    fn set(&mut self, key: &str, value: &str)
        ensures final(self)@ == step(old(self)@, Op::Set(key@, value@));    // == list_set(old, key, value)

    fn remove(&mut self, key: &str)
        ensures final(self)@ == step(old(self)@, Op::Remove(key@));          // == list_remove(old, key)
}

/// R-chain: `fields.into_iter().collect()` (P: FromIterator<(String, String)>): the paragraph lists the pairs in order
#[verifier::external_body]
pub fn vx_collect_para<P: Deb822LikeParagraph>(fields: Vec<(String, String)>) -> (r: P)
    ensures r@ == pairs_view(fields@)
{ unimplemented!() }


// ---- reading side (FromDeb822): R-derive-from targets -------------------------------------------------------------
/// the text of `format!(F, K)` (one argument) ...
pub uninterp spec fn fmt_msg1(f: Seq<char>, k: Seq<char>) -> Seq<char>;
/// ... and "e is `format!(F, K, <the Display text of some error>)`" (two arguments)
pub uninterp spec fn names_field(e: Seq<char>, f: Seq<char>, k: Seq<char>) -> bool;

/// "the message names the field": it is some format string applied to the field's name first (the wording is not part of
/// the property; that the format string shows its first argument is outside the model - the stand-in checks the text)
pub open spec fn msg_names(e: Seq<char>, k: Seq<char>) -> bool {
    exists|f: Seq<char>| #![trigger fmt_msg1(f, k)] #![trigger names_field(e, f, k)] e == fmt_msg1(f, k) || names_field(e, f, k)
}

/// `O.ok_or_else(|| format!(F, K))`
#[verifier::external_body]
pub fn vx_ok_or_fmt<T>(o: Option<T>, f: &str, k: &str) -> (r: Result<T, String>)
    ensures match o { Some(v) => r == Ok::<T, String>(v), None => r is Err && r->Err_0@ == fmt_msg1(f@, k@) }
{ unimplemented!() }

/// `R.map_err(|e| format!(F, K, e))`
#[verifier::external_body]
pub fn vx_map_err_fmt<T, E>(x: Result<T, E>, f: &str, k: &str) -> (r: Result<T, String>)
    ensures match x { Ok(v) => r == Ok::<T, String>(v), Err(_) => r is Err && names_field(r->Err_0@, f@, k@) }
{ unimplemented!() }

/// `std::str::FromStr::from_str(&s)` with s: String (deref coercion to &str)
pub fn vx_parse_string<T: VxFromStr>(s: &String) -> (r: Result<T, T::VxErr>)
    ensures match r { Ok(v) => T::parse_rel(s@, v) && !T::parse_err(s@), Err(_) => T::parse_err(s@) }
{
    T::vx_from_str(s.as_str())
}

/// `String: FromStr` is the identity and never fails
impl VxFromStr for String {
    type VxErr = VxOpaqueErr;
    open spec fn parse_rel(s: Seq<char>, v: String) -> bool { v@ == s }
    open spec fn parse_err(s: Seq<char>) -> bool { false }
    #[verifier::external_body]
    fn vx_from_str(s: &str) -> (r: Result<String, VxOpaqueErr>) { unimplemented!() }
}
/// `bool: FromStr` accepts exactly "true" and "false"
impl VxFromStr for bool {
    type VxErr = VxOpaqueErr;
    open spec fn parse_rel(s: Seq<char>, v: bool) -> bool { (v && s == "true"@) || (!v && s == "false"@) }
    open spec fn parse_err(s: Seq<char>) -> bool { s != "true"@ && s != "false"@ }
    #[verifier::external_body]
    fn vx_from_str(s: &str) -> (r: Result<bool, VxOpaqueErr>) { unimplemented!() }
}

// ---- defined std codecs and value extensionality (used by the per-field round-trip proofs) -------------------------------
/// `bool: Display` writes "true" / "false"
pub open spec fn bool_text(b: bool) -> Seq<char> { if b { "true"@ } else { "false"@ } }
/// ASSUMED: a String is determined by its characters, a Vec<String> by its elements' characters (nothing else of these
/// values is observable through PartialEq, which is what "an equal value" refers to)
#[verifier::external_body]
pub proof fn axiom_string_ext(a: String, b: String)
    requires a@ == b@
    ensures a == b
{}
#[verifier::external_body]
pub proof fn axiom_vec_string_ext(a: Vec<String>, b: Vec<String>)
    requires strings_view(a@) == strings_view(b@)
    ensures a == b
{}
pub proof fn lemma_views_same(x: Seq<String>)
    ensures strs_view(x) == strings_view(x)
{
    assert(strs_view(x) =~= strings_view(x));
}
