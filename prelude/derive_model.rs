// ---------------------------------------------------------------------------------------------
// TRUSTED prelude: derive_model.rs - the paragraph trait the derived conversions are generic over (unit derive16).
// `step`, `Op` are defined in units/derive16/ops_spec.rs (step(l, Set(k, v)) == list_set(l, k, v),
// step(l, Remove(k)) == list_remove(l, k)).
// ---------------------------------------------------------------------------------------------
pub type Pair = (Seq<char>, Seq<char>);

/// (opaque while the generated code is checked: only lemma_pairs_empty / lemma_pairs_push speak about it)
#[verifier::opaque]
pub open spec fn pairs_view(v: Seq<(String, String)>) -> Seq<Pair> { v.map_values(|p: (String, String)| (p.0@, p.1@)) }

/// R-trait (unit derive16): deb822_lossless::convert::Deb822LikeParagraph with its list view
pub trait Deb822LikeParagraph: Sized {
    spec fn view(&self) -> Seq<Pair>;

    fn get(&self, key: &str) -> (r: Option<String>)
        ensures match list_get(self@, key@) { Some(v) => r is Some && r->Some_0@ == v, None => r is None };

    fn set(&mut self, key: &str, value: &str)
        ensures final(self)@ == step(old(self)@, Op::Set(key@, value@));    // == list_set(old, key, value)

    fn remove(&mut self, key: &str)
        ensures final(self)@ == step(old(self)@, Op::Remove(key@));          // == list_remove(old, key)
}

/// R-chain: `fields.into_iter().collect()` (P: FromIterator<(String, String)>): the paragraph lists the pairs in order
#[verifier::external_body]
pub fn vx_collect_para<P: Deb822LikeParagraph>(fields: Vec<(String, String)>) -> (r: P)
    ensures r@ == pairs_view(fields@)
{ unimplemented!() }

