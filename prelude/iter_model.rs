// ---------------------------------------------------------------------------------------------
// TRUSTED prelude: iter_model.rs — the closed table of iterator chains (R-iter).
// Each combinator's contract is the operational meaning of that exact chain: `any` returns true iff the
// predicate returned true on some element, and false only after it returned false on every element
// (call_ensures is what is known about one call's result; it is an implication, not an equivalence).
// ---------------------------------------------------------------------------------------------

/// R-iter: `X.iter().all(f)` on a Vec/slice => `vx_slice_all(X.as_slice(), f)`
#[verifier::external_body]
pub fn vx_slice_all<T, F: Fn(&T) -> bool>(s: &[T], f: F) -> (r: bool)
    requires forall|i: int| 0 <= i < s@.len() ==> call_requires(f, (&#[trigger] s@[i],))
    ensures
        r ==> forall|i: int| 0 <= i < s@.len() ==> call_ensures(f, (&#[trigger] s@[i],), true),
        !r ==> exists|i: int| 0 <= i < s@.len() && call_ensures(f, (&#[trigger] s@[i],), false),
{ s.iter().all(f) }

/// R-iter: `X.iter().any(f)` => `vx_slice_any(X.as_slice(), f)`
#[verifier::external_body]
pub fn vx_slice_any<T, F: Fn(&T) -> bool>(s: &[T], f: F) -> (r: bool)
    requires forall|i: int| 0 <= i < s@.len() ==> call_requires(f, (&#[trigger] s@[i],))
    ensures
        r ==> exists|i: int| 0 <= i < s@.len() && call_ensures(f, (&#[trigger] s@[i],), true),
        !r ==> forall|i: int| 0 <= i < s@.len() ==> call_ensures(f, (&#[trigger] s@[i],), false),
{ s.iter().any(f) }

/// an iterator handed out by an unverified accessor or built by the adapters below, as the sequence it
/// will yield. Adapter contracts are operational: they say what the closure *returned* on each element
/// (call_ensures), which pins the result down for closures whose ensures determine their result.
#[verifier::external_body]
#[verifier::reject_recursive_types(T)]
pub struct VxIter<T> { it: Box<dyn Iterator<Item = T>> }

/// the closure's answers, one per element (skolem functions of the adapter contracts)
pub uninterp spec fn filter_answers<T>(before: Seq<T>, after: Seq<T>) -> Seq<bool>;
pub uninterp spec fn filter_map_answers<T, U>(before: Seq<T>, after: Seq<U>) -> Seq<Option<U>>;

/// the elements of s at which keep is true, in order
pub open spec fn keep_where<T>(s: Seq<T>, keep: Seq<bool>) -> Seq<T>
    decreases s.len()
{
    if s.len() == 0 || keep.len() != s.len() { Seq::empty() }
    else if keep.last() { keep_where(s.drop_last(), keep.drop_last()).push(s.last()) }
    else { keep_where(s.drop_last(), keep.drop_last()) }
}
/// the Some(..) contents of outs, in order
pub open spec fn somes<U>(outs: Seq<Option<U>>) -> Seq<U>
    decreases outs.len()
{
    if outs.len() == 0 { Seq::empty() }
    else if outs.last() is Some { somes(outs.drop_last()).push(outs.last()->Some_0) }
    else { somes(outs.drop_last()) }
}

impl<T> VxIter<T> {
    pub uninterp spec fn view(&self) -> Seq<T>;

    #[verifier::external_body]
    pub fn next(&mut self) -> (r: Option<T>)
        ensures
            old(self)@.len() == 0 ==> r is None && final(self)@ == old(self)@,
            old(self)@.len() > 0 ==> r == Some(old(self)@[0]) && final(self)@ == old(self)@.skip(1),
    { unimplemented!() }

    /// Iterator::all
    #[verifier::external_body]
    pub fn all<F: Fn(T) -> bool>(self, f: F) -> (r: bool)
        requires forall|i: int| 0 <= i < self@.len() ==> call_requires(f, (#[trigger] self@[i],))
        ensures
            r ==> forall|i: int| 0 <= i < self@.len() ==> call_ensures(f, (#[trigger] self@[i],), true),
            !r ==> exists|i: int| 0 <= i < self@.len() && call_ensures(f, (#[trigger] self@[i],), false),
    { unimplemented!() }

    /// Iterator::any
    #[verifier::external_body]
    pub fn any<F: Fn(T) -> bool>(self, f: F) -> (r: bool)
        requires forall|i: int| 0 <= i < self@.len() ==> call_requires(f, (#[trigger] self@[i],))
        ensures
            r ==> exists|i: int| 0 <= i < self@.len() && call_ensures(f, (#[trigger] self@[i],), true),
            !r ==> forall|i: int| 0 <= i < self@.len() ==> call_ensures(f, (#[trigger] self@[i],), false),
    { unimplemented!() }

    /// Iterator::filter (predicate takes a reference)
    #[verifier::external_body]
    pub fn filter<F: Fn(&T) -> bool>(self, f: F) -> (r: VxIter<T>)
        requires forall|i: int| 0 <= i < self@.len() ==> call_requires(f, (&#[trigger] self@[i],))
        ensures
            filter_answers(self@, r@).len() == self@.len(),
            forall|i: int| 0 <= i < self@.len() ==> call_ensures(f, (&self@[i],), #[trigger] filter_answers(self@, r@)[i]),
            r@ == keep_where(self@, filter_answers(self@, r@)),
    { unimplemented!() }

    /// Iterator::filter_map
    #[verifier::external_body]
    pub fn filter_map<U, F: Fn(T) -> Option<U>>(self, f: F) -> (r: VxIter<U>)
        requires forall|i: int| 0 <= i < self@.len() ==> call_requires(f, (#[trigger] self@[i],))
        ensures
            filter_map_answers(self@, r@).len() == self@.len(),
            forall|i: int| 0 <= i < self@.len() ==> call_ensures(f, (self@[i],), #[trigger] filter_map_answers(self@, r@)[i]),
            r@ == somes(filter_map_answers(self@, r@)),
    { unimplemented!() }

    /// Iterator::map
    #[verifier::external_body]
    pub fn map<U, F: Fn(T) -> U>(self, f: F) -> (r: VxIter<U>)
        requires forall|i: int| 0 <= i < self@.len() ==> call_requires(f, (#[trigger] self@[i],))
        ensures
            r@.len() == self@.len(),
            forall|i: int| 0 <= i < self@.len() ==> call_ensures(f, (self@[i],), #[trigger] r@[i]),
    { unimplemented!() }

    /// Iterator::find (predicate takes a reference): first element on which it returned true
    #[verifier::external_body]
    pub fn find<F: Fn(&T) -> bool>(&mut self, f: F) -> (r: Option<T>)
        requires forall|i: int| 0 <= i < old(self)@.len() ==> call_requires(f, (&#[trigger] old(self)@[i],))
        ensures
            match r {
                Some(e) => exists|i: int| 0 <= i < old(self)@.len() && e == #[trigger] old(self)@[i]
                    && call_ensures(f, (&old(self)@[i],), true)
                    && (forall|j: int| 0 <= j < i ==> call_ensures(f, (&#[trigger] old(self)@[j],), false))
                    && final(self)@ == old(self)@.skip(i + 1),
                None => final(self)@.len() == 0 && forall|j: int| 0 <= j < old(self)@.len() ==> call_ensures(f, (&#[trigger] old(self)@[j],), false),
            }
    { unimplemented!() }

    /// Iterator::find_map: the first Some(..) the closure returns (it returned None on every earlier element)
    #[verifier::external_body]
    pub fn find_map<U, F: Fn(T) -> Option<U>>(&mut self, f: F) -> (r: Option<U>)
        requires forall|i: int| 0 <= i < old(self)@.len() ==> call_requires(f, (#[trigger] old(self)@[i],))
        ensures
            match r {
                Some(u) => exists|i: int| 0 <= i < old(self)@.len()
                    && call_ensures(f, (#[trigger] old(self)@[i],), Some(u))
                    && (forall|j: int| 0 <= j < i ==> call_ensures(f, (#[trigger] old(self)@[j],), None::<U>))
                    && final(self)@ == old(self)@.skip(i + 1),
                None => final(self)@.len() == 0 && forall|j: int| 0 <= j < old(self)@.len() ==> call_ensures(f, (#[trigger] old(self)@[j],), None::<U>),
            }
    { unimplemented!() }

    /// Iterator::nth
    #[verifier::external_body]
    pub fn nth(&mut self, n: usize) -> (r: Option<T>)
        ensures
            n < old(self)@.len() ==> r == Some(old(self)@[n as int]) && final(self)@ == old(self)@.skip(n + 1),
            n >= old(self)@.len() ==> r is None && final(self)@.len() == 0,
    { unimplemented!() }

    /// Iterator::last
    #[verifier::external_body]
    pub fn last(self) -> (r: Option<T>)
        ensures self@.len() == 0 ==> r is None, self@.len() > 0 ==> r == Some(self@.last())
    { unimplemented!() }

    /// Iterator::count
    #[verifier::external_body]
    pub fn count(self) -> (r: usize)
        ensures r == self@.len()
    { unimplemented!() }

    /// Iterator::chain
    #[verifier::external_body]
    pub fn chain(self, other: VxIter<T>) -> (r: VxIter<T>)
        ensures r@ == self@ + other@
    { unimplemented!() }

    /// Iterator::collect::<Vec<_>>()
    #[verifier::external_body]
    pub fn collect_vec(self) -> (r: Vec<T>)
        ensures r@ == self@
    { unimplemented!() }
}

/// R-iter: `X.iter().filter(f).last()`: the last element on which the predicate returned true
#[verifier::external_body]
pub fn vx_slice_filter_last<'a, T, F: Fn(&&'a T) -> bool>(s: &'a [T], f: F) -> (r: Option<&'a T>)
    requires forall|i: int| 0 <= i < s@.len() ==> call_requires(f, (&&#[trigger] s@[i],))
    ensures
        match r {
            Some(e) => exists|i: int| 0 <= i < s@.len() && *e == #[trigger] s@[i]
                && call_ensures(f, (&&s@[i],), true)
                && (forall|j: int| i < j < s@.len() ==> call_ensures(f, (&&#[trigger] s@[j],), false)),
            None => forall|j: int| 0 <= j < s@.len() ==> call_ensures(f, (&&#[trigger] s@[j],), false),
        }
{ unimplemented!() }

/// R-iter: `X.iter().find(f)`: the first element on which the predicate returned true
#[verifier::external_body]
pub fn vx_slice_find<'a, T, F: Fn(&&'a T) -> bool>(s: &'a [T], f: F) -> (r: Option<&'a T>)
    requires forall|i: int| 0 <= i < s@.len() ==> call_requires(f, (&&#[trigger] s@[i],))
    ensures
        match r {
            Some(e) => exists|i: int| 0 <= i < s@.len() && *e == #[trigger] s@[i]
                && call_ensures(f, (&&s@[i],), true)
                && (forall|j: int| 0 <= j < i ==> call_ensures(f, (&&#[trigger] s@[j],), false)),
            None => forall|j: int| 0 <= j < s@.len() ==> call_ensures(f, (&&#[trigger] s@[j],), false),
        }
{ unimplemented!() }

// ---- verified lemmas about the adapter vocabulary (nothing trusted below) ---------------------------

/// keep_where with the predicate's answers is Seq::filter
pub proof fn lemma_keep_where_is_filter<T>(s: Seq<T>, keep: Seq<bool>, p: spec_fn(T) -> bool)
    requires keep.len() == s.len(), forall|i: int| 0 <= i < s.len() ==> keep[i] == p(#[trigger] s[i])
    ensures keep_where(s, keep) == s.filter(p)
    decreases s.len()
{
    reveal(Seq::filter);
    if s.len() == 0 {
        assert(keep_where(s, keep) =~= s.filter(p));
    } else {
        assert forall|i: int| 0 <= i < s.drop_last().len() implies keep.drop_last()[i] == p(#[trigger] s.drop_last()[i]) by { assert(s.drop_last()[i] == s[i]); }
        lemma_keep_where_is_filter(s.drop_last(), keep.drop_last(), p);
    }
}
/// keep_where commutes with taking views
pub proof fn lemma_keep_where_map<T, U>(s: Seq<T>, keep: Seq<bool>, f: spec_fn(T) -> U)
    requires keep.len() == s.len()
    ensures keep_where(s, keep).map_values(f) == keep_where(s.map_values(f), keep)
    decreases s.len()
{
    if s.len() == 0 {
        assert(keep_where(s, keep).map_values(f) =~= keep_where(s.map_values(f), keep));
    } else {
        lemma_keep_where_map(s.drop_last(), keep.drop_last(), f);
        assert(s.map_values(f).drop_last() =~= s.drop_last().map_values(f));
        assert(s.map_values(f).last() == f(s.last()));
        if keep.last() {
            assert(keep_where(s, keep).map_values(f) =~= keep_where(s.drop_last(), keep.drop_last()).map_values(f).push(f(s.last())));
        }
        assert(keep_where(s, keep).map_values(f) =~= keep_where(s.map_values(f), keep));
    }
}
/// every element of a filtered sequence satisfies the predicate and the filtered sequence is a subsequence:
/// index correspondence used for "last matching paragraph in file order"
pub proof fn lemma_filter_all<T>(s: Seq<T>, p: spec_fn(T) -> bool)
    ensures forall|k: int| 0 <= k < s.filter(p).len() ==> p(#[trigger] s.filter(p)[k])
    decreases s.len()
{
    reveal(Seq::filter);
    if s.len() > 0 { lemma_filter_all(s.drop_last(), p); }
}

/// Seq::filter unfolded from the front
pub proof fn lemma_filter_front<T>(s: Seq<T>, p: spec_fn(T) -> bool)
    requires s.len() > 0
    ensures s.filter(p) == (if p(s[0]) { seq![s[0]] + s.skip(1).filter(p) } else { s.skip(1).filter(p) })
    decreases s.len()
{
    reveal(Seq::filter);
    if s.len() == 1 {
        assert(s.drop_last() =~= Seq::<T>::empty());
        assert(s.skip(1) =~= Seq::<T>::empty());
        assert(s.filter(p) =~= (if p(s[0]) { seq![s[0]] + s.skip(1).filter(p) } else { s.skip(1).filter(p) }));
    } else {
        lemma_filter_front(s.drop_last(), p);
        assert(s.drop_last().skip(1) =~= s.skip(1).drop_last());
        assert(s.skip(1).last() == s.last());
        assert(s.drop_last()[0] == s[0]);
        assert(s.filter(p) =~= (if p(s[0]) { seq![s[0]] + s.skip(1).filter(p) } else { s.skip(1).filter(p) }));
    }
}
/// index of the last true in a boolean vector; -1 if none
pub open spec fn last_true(keep: Seq<bool>) -> int
    decreases keep.len()
{
    if keep.len() == 0 { -1 } else if keep.last() { keep.len() - 1 } else { last_true(keep.drop_last()) }
}
pub proof fn lemma_last_true(keep: Seq<bool>)
    ensures
        -1 <= last_true(keep) < keep.len(),
        last_true(keep) >= 0 ==> keep[last_true(keep)] && forall|j: int| last_true(keep) < j < keep.len() ==> !#[trigger] keep[j],
        last_true(keep) < 0 ==> forall|j: int| 0 <= j < keep.len() ==> !#[trigger] keep[j],
    decreases keep.len()
{
    if keep.len() > 0 && !keep.last() {
        lemma_last_true(keep.drop_last());
        assert forall|j: int| last_true(keep) < j < keep.len() implies !#[trigger] keep[j] by { if j < keep.len() - 1 { assert(keep.drop_last()[j] == keep[j]); } }
        if last_true(keep) < 0 {
            assert forall|j: int| 0 <= j < keep.len() implies !#[trigger] keep[j] by { if j < keep.len() - 1 { assert(keep.drop_last()[j] == keep[j]); } }
        }
    }
}
/// the last element kept by keep_where is the element at the last true position
pub proof fn lemma_keep_where_last<T>(s: Seq<T>, keep: Seq<bool>)
    requires keep.len() == s.len()
    ensures
        last_true(keep) < 0 ==> keep_where(s, keep).len() == 0,
        last_true(keep) >= 0 ==> keep_where(s, keep).len() > 0 && keep_where(s, keep).last() == s[last_true(keep)],
    decreases s.len()
{
    if s.len() > 0 {
        lemma_keep_where_last(s.drop_last(), keep.drop_last());
        lemma_last_true(keep);
    }
}

/// R-method-map `v.into_iter()` / R-forvec `for x in v`: a Vec consumed by value yields its elements in order
#[verifier::external_body]
pub fn vx_vec_into_iter<T>(v: Vec<T>) -> (r: VxIter<T>)
    ensures r@ == v@, r@.len() <= usize::MAX   // a Vec holds at most usize::MAX elements
{ unimplemented!() }

/// R-chain target of `IT.collect::<Vec<_>>()` on a VxIter
pub fn vx_collect_vec<T>(it: VxIter<T>) -> (r: Vec<T>)
    ensures r@ == it@
{
    it.collect_vec()
}

/// concatenation of a list of strings (Iterator<Item = String>::collect::<String>())
pub open spec fn concat_strs(l: Seq<String>) -> Seq<char>
    decreases l.len()
{
    if l.len() == 0 { Seq::empty() } else { concat_strs(l.drop_last()) + l.last()@ }
}
/// `it.collect::<String>()`
#[verifier::external_body]
pub fn vx_collect_string(it: VxIter<String>) -> (r: String)
    ensures r@ == concat_strs(it@)
{ unimplemented!() }
