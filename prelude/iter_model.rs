// ---------------------------------------------------------------------------------------------
// TRUSTED prelude: iter_model.rs — the closed table of iterator chains (R-iter).
// Each combinator's contract is the operational meaning of that exact chain: `any` returns true iff the
// predicate returned true on some element, and false only after it returned false on every element
// (call_ensures is what is known about one call's result; it is an implication, not an equivalence).
// ---------------------------------------------------------------------------------------------

/// R-iter: `X.iter().all(f)` on a Vec/slice => `vx_slice_all(X.as_slice(), f)`
#[verifier::external_body]
pub fn vx_slice_all<T, F: Fn(&T) -> bool>(s: &[T], f: F) -> (r: bool)
    requires forall|i: int| 0 <= i < s@.len() ==> call_requires(f, (&#[trigger] s@[i],))
    ensures
        r ==> forall|i: int| 0 <= i < s@.len() ==> call_ensures(f, (&#[trigger] s@[i],), true),
        !r ==> exists|i: int| 0 <= i < s@.len() && call_ensures(f, (&#[trigger] s@[i],), false),
{ s.iter().all(f) }

/// R-iter: `X.iter().any(f)` => `vx_slice_any(X.as_slice(), f)`
#[verifier::external_body]
pub fn vx_slice_any<T, F: Fn(&T) -> bool>(s: &[T], f: F) -> (r: bool)
    requires forall|i: int| 0 <= i < s@.len() ==> call_requires(f, (&#[trigger] s@[i],))
    ensures
        r ==> exists|i: int| 0 <= i < s@.len() && call_ensures(f, (&#[trigger] s@[i],), true),
        !r ==> forall|i: int| 0 <= i < s@.len() ==> call_ensures(f, (&#[trigger] s@[i],), false),
{ s.iter().any(f) }

/// an iterator handed out by an unverified accessor, as the sequence it will yield
#[verifier::external_body]
#[verifier::reject_recursive_types(T)]
pub struct VxIter<T> { it: Box<dyn Iterator<Item = T>> }

impl<T> VxIter<T> {
    pub uninterp spec fn view(&self) -> Seq<T>;

    /// R-iter: `IT.all(f)`
    #[verifier::external_body]
    pub fn all<F: Fn(T) -> bool>(self, f: F) -> (r: bool)
        requires forall|i: int| 0 <= i < self@.len() ==> call_requires(f, (#[trigger] self@[i],))
        ensures
            r ==> forall|i: int| 0 <= i < self@.len() ==> call_ensures(f, (#[trigger] self@[i],), true),
            !r ==> exists|i: int| 0 <= i < self@.len() && call_ensures(f, (#[trigger] self@[i],), false),
    { unimplemented!() }

    /// R-iter: `IT.any(f)`
    #[verifier::external_body]
    pub fn any<F: Fn(T) -> bool>(self, f: F) -> (r: bool)
        requires forall|i: int| 0 <= i < self@.len() ==> call_requires(f, (#[trigger] self@[i],))
        ensures
            r ==> exists|i: int| 0 <= i < self@.len() && call_ensures(f, (#[trigger] self@[i],), true),
            !r ==> forall|i: int| 0 <= i < self@.len() ==> call_ensures(f, (#[trigger] self@[i],), false),
    { unimplemented!() }
}

/// R-iter: `X.iter().filter(f).last()`: the last element on which the predicate returned true
#[verifier::external_body]
pub fn vx_slice_filter_last<'a, T, F: Fn(&&'a T) -> bool>(s: &'a [T], f: F) -> (r: Option<&'a T>)
    requires forall|i: int| 0 <= i < s@.len() ==> call_requires(f, (&&#[trigger] s@[i],))
    ensures
        match r {
            Some(e) => exists|i: int| 0 <= i < s@.len() && *e == #[trigger] s@[i]
                && call_ensures(f, (&&s@[i],), true)
                && (forall|j: int| i < j < s@.len() ==> call_ensures(f, (&&#[trigger] s@[j],), false)),
            None => forall|j: int| 0 <= j < s@.len() ==> call_ensures(f, (&&#[trigger] s@[j],), false),
        }
{ unimplemented!() }

/// R-iter: `X.iter().find(f)`: the first element on which the predicate returned true
#[verifier::external_body]
pub fn vx_slice_find<'a, T, F: Fn(&&'a T) -> bool>(s: &'a [T], f: F) -> (r: Option<&'a T>)
    requires forall|i: int| 0 <= i < s@.len() ==> call_requires(f, (&&#[trigger] s@[i],))
    ensures
        match r {
            Some(e) => exists|i: int| 0 <= i < s@.len() && *e == #[trigger] s@[i]
                && call_ensures(f, (&&s@[i],), true)
                && (forall|j: int| 0 <= j < i ==> call_ensures(f, (&&#[trigger] s@[j],), false)),
            None => forall|j: int| 0 <= j < s@.len() ==> call_ensures(f, (&&#[trigger] s@[j],), false),
        }
{ unimplemented!() }
