// ---------------------------------------------------------------------------------------------
// prelude: list_model.rs — a paragraph as an ordered list of (name, value) pairs and the four
// list operations of the statements of C04/C08/C15 (verified definitions and lemmas, nothing trusted).
// ---------------------------------------------------------------------------------------------

/// index of the first field called `name`, or -1
pub open spec fn first_idx(l: Seq<(Seq<char>, Seq<char>)>, name: Seq<char>) -> int
    decreases l.len()
{
    if l.len() == 0 { -1 }
    else if l[0].0 == name { 0 }
    else { let r = first_idx(l.skip(1), name); if r < 0 { -1 } else { r + 1 } }
}

pub proof fn lemma_first_idx(l: Seq<(Seq<char>, Seq<char>)>, name: Seq<char>)
    ensures
        -1 <= first_idx(l, name) < l.len(),
        first_idx(l, name) >= 0 ==> l[first_idx(l, name)].0 == name,
        forall|j: int| 0 <= j < l.len() && (j < first_idx(l, name) || first_idx(l, name) < 0) ==> (#[trigger] l[j]).0 != name,
    decreases l.len()
{
    if l.len() > 0 && l[0].0 != name {
        lemma_first_idx(l.skip(1), name);
        let r = first_idx(l.skip(1), name);
        assert forall|j: int| 0 <= j < l.len() && (j < first_idx(l, name) || first_idx(l, name) < 0) implies (#[trigger] l[j]).0 != name by {
            if j > 0 { assert(l[j] == l.skip(1)[j - 1]); }
        }
    }
}

/// i is the first index whose name matches
pub proof fn lemma_first_idx_is(l: Seq<(Seq<char>, Seq<char>)>, name: Seq<char>, i: int)
    requires 0 <= i < l.len(), l[i].0 == name, forall|j: int| 0 <= j < i ==> (#[trigger] l[j]).0 != name
    ensures first_idx(l, name) == i
    decreases i
{
    if i > 0 {
        assert(l[0].0 != name);
        assert(l.skip(1)[i - 1] == l[i]);
        assert forall|j: int| 0 <= j < i - 1 implies (#[trigger] l.skip(1)[j]).0 != name by { assert(l.skip(1)[j] == l[j + 1]); }
        lemma_first_idx_is(l.skip(1), name, i - 1);
    }
}
pub proof fn lemma_first_idx_none(l: Seq<(Seq<char>, Seq<char>)>, name: Seq<char>)
    requires forall|j: int| 0 <= j < l.len() ==> (#[trigger] l[j]).0 != name
    ensures first_idx(l, name) == -1
    decreases l.len()
{
    if l.len() > 0 {
        assert(l[0].0 != name);
        assert forall|j: int| 0 <= j < l.skip(1).len() implies (#[trigger] l.skip(1)[j]).0 != name by { assert(l.skip(1)[j] == l[j + 1]); }
        lemma_first_idx_none(l.skip(1), name);
    }
}

// ---- the statement's four list operations ----
pub open spec fn list_get(l: Seq<(Seq<char>, Seq<char>)>, name: Seq<char>) -> Option<Seq<char>> {
    if first_idx(l, name) >= 0 { Some(l[first_idx(l, name)].1) } else { None }
}
pub open spec fn list_insert(l: Seq<(Seq<char>, Seq<char>)>, name: Seq<char>, value: Seq<char>) -> Seq<(Seq<char>, Seq<char>)> {
    l.push((name, value))
}
pub open spec fn list_set(l: Seq<(Seq<char>, Seq<char>)>, name: Seq<char>, value: Seq<char>) -> Seq<(Seq<char>, Seq<char>)> {
    if first_idx(l, name) >= 0 { l.update(first_idx(l, name), (name, value)) } else { l.push((name, value)) }
}
/// all fields of that name removed, everything else in order
pub open spec fn list_remove(l: Seq<(Seq<char>, Seq<char>)>, name: Seq<char>) -> Seq<(Seq<char>, Seq<char>)> {
    l.filter(|f: (Seq<char>, Seq<char>)| f.0 != name)
}


// ---- consequences used by C15 (what a setter writes, its getter reads; nothing else moves) ----------

pub proof fn lemma_get_after_set(l: Seq<(Seq<char>, Seq<char>)>, name: Seq<char>, value: Seq<char>)
    ensures
        list_get(list_set(l, name, value), name) == Some(value),
        forall|other: Seq<char>| other != name ==> list_get(list_set(l, name, value), other) == list_get(l, other),
        first_idx(l, name) >= 0 ==> list_set(l, name, value).len() == l.len(),
        first_idx(l, name) < 0 ==> list_set(l, name, value).len() == l.len() + 1,
{
    lemma_first_idx(l, name);
    let s = list_set(l, name, value);
    let i = first_idx(l, name);
    if i >= 0 {
        assert forall|j: int| 0 <= j < i implies (#[trigger] s[j]).0 != name by { assert(s[j] == l[j]); }
        lemma_first_idx_is(s, name, i);
    } else {
        assert forall|j: int| 0 <= j < l.len() implies (#[trigger] s[j]).0 != name by { assert(s[j] == l[j]); }
        lemma_first_idx_is(s, name, l.len() as int);
    }
    assert forall|other: Seq<char>| other != name implies list_get(s, other) == list_get(l, other) by {
        lemma_first_idx(l, other);
        let k = first_idx(l, other);
        if k >= 0 {
            assert forall|j: int| 0 <= j < k implies (#[trigger] s[j]).0 != other by {
                if j == i { } else { assert(s[j] == l[j]); }
            }
            assert(s[k].0 == other) by { if k == i { } else { assert(s[k] == l[k]); } }
            lemma_first_idx_is(s, other, k);
            assert(s[k].1 == l[k].1) by { if k == i { assert(l[k].0 == name); } else { assert(s[k] == l[k]); } }
        } else {
            assert forall|j: int| 0 <= j < s.len() implies (#[trigger] s[j]).0 != other by {
                if j < l.len() { if j == i { } else { assert(s[j] == l[j]); } }
            }
            lemma_first_idx_none(s, other);
        }
    }
}
