// ---------------------------------------------------------------------------------------------
// TRUSTED prelude: rowan_tree_display_model.rs - `Display` of rowan handles in the TREE model (the text of the subtree).
// A separate file: only the accessor unit relversion prints handles, and extra trait impls in the shared tree model
// changed solver behaviour of unrelated proofs (unit deb822edit ran out of its resource limit).
// ---------------------------------------------------------------------------------------------
/// `Display for SyntaxElement` (NodeOrToken) writes the text of the node or token
impl VxDisplay for rowan::SyntaxElement {
    open spec fn display_spec(&self) -> Seq<char> { rowan::tree_text(rowan::elem_tree(*self)) }
}
/// `Display for SyntaxNode` writes the text of the subtree
impl VxDisplay for rowan::SyntaxNode {
    open spec fn display_spec(&self) -> Seq<char> { rowan::tree_text(self.tree()) }
}

