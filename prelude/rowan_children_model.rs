// ---------------------------------------------------------------------------------------------
// TRUSTED prelude: rowan_children_model.rs - `SyntaxNode::children()` for the TEXT-level rowan model (rowan_model.rs): the
// child nodes as an abstract sequence of handles. Separate file because it needs VxIter (iter_model.rs), which most units
// of the text-level model do not include.
// ---------------------------------------------------------------------------------------------
impl rowan::SyntaxNode {
    pub uninterp spec fn child_nodes_spec(&self) -> Seq<rowan::SyntaxNode>;
    #[verifier::external_body]
    pub fn children(&self) -> (r: VxIter<rowan::SyntaxNode>)
        ensures r@ == self.child_nodes_spec()
    { unimplemented!() }
}
