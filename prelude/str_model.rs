// ---------------------------------------------------------------------------------------------
// prelude: str_model.rs — chars <-> bytes for `str`, on top of vstd::string / vstd::utf8.
//
// TRUSTED here: only the `external_body` / `assume_specification` items (str::find, char
// classification). Everything written as `proof fn` is verified by Verus on every run.
// ---------------------------------------------------------------------------------------------

/// byte offset of the ci-th char of s in its UTF-8 encoding
pub open spec fn byte_off(s: Seq<char>, ci: int) -> int {
    encode_utf8(s.take(ci)).len() as int
}

pub proof fn lemma_bytes_split(s: Seq<char>, ci: int)
    requires 0 <= ci <= s.len()
    ensures
        encode_utf8(s) == encode_utf8(s.take(ci)) + encode_utf8(s.skip(ci)),
        0 <= byte_off(s, ci) <= encode_utf8(s).len(),
        encode_utf8(s).subrange(0, byte_off(s, ci)) == encode_utf8(s.take(ci)),
        encode_utf8(s).subrange(byte_off(s, ci), encode_utf8(s).len() as int) == encode_utf8(s.skip(ci)),
{
    assert(s =~= s.take(ci) + s.skip(ci));
    encode_utf8_concat(s.take(ci), s.skip(ci));
    let a = encode_utf8(s.take(ci));
    let b = encode_utf8(s.skip(ci));
    assert((a + b).subrange(0, a.len() as int) =~= a);
    assert((a + b).subrange(a.len() as int, (a + b).len() as int) =~= b);
}

/// the offset of a char index is a char boundary
pub proof fn lemma_byte_off_boundary(s: Seq<char>, ci: int)
    requires 0 <= ci <= s.len()
    ensures is_char_boundary(encode_utf8(s), byte_off(s, ci))
{
    lemma_bytes_split(s, ci);
    let a = encode_utf8(s.take(ci));
    let b = encode_utf8(s.skip(ci));
    let bytes = encode_utf8(s);
    encode_utf8_valid_utf8(s);
    encode_utf8_valid_utf8(s.skip(ci));
    if ci == s.len() {
        assert(s.take(ci) =~= s);
        is_char_boundary_start_end_of_seq(bytes);
    } else {
        // b is non-empty valid UTF-8, so its first byte is a leading byte
        lemma_encode_nonempty(s.skip(ci));
        is_char_boundary_start_end_of_seq(b);
        is_char_boundary_iff_is_leading_byte(b, 0);
        assert(bytes[a.len() as int] == b[0]);
        is_char_boundary_iff_is_leading_byte(bytes, a.len() as int);
    }
}

pub proof fn lemma_encode_nonempty(s: Seq<char>)
    requires s.len() > 0
    ensures encode_utf8(s).len() > 0
{
    lemma_encode_utf8_len_strictly_monotonic(s, 0, s.len() as int);
    assert(s.subrange(0, s.len() as int) =~= s);
}

pub proof fn lemma_byte_off_mono(s: Seq<char>, i: int, j: int)
    requires 0 <= i < j <= s.len()
    ensures byte_off(s, i) < byte_off(s, j)
{
    lemma_encode_utf8_len_strictly_monotonic(s, i, j);
    assert(s.subrange(0, i) =~= s.take(i));
    assert(s.subrange(0, j) =~= s.take(j));
}

pub proof fn lemma_byte_off_ends(s: Seq<char>)
    ensures byte_off(s, 0) == 0, byte_off(s, s.len() as int) == encode_utf8(s).len()
{
    assert(s.take(0) =~= Seq::<char>::empty());
    assert(s.take(s.len() as int) =~= s);
    reveal_with_fuel(encode_utf8, 1);
}

/// encode_utf8 is injective (decode is its inverse)
pub proof fn lemma_encode_inj(a: Seq<char>, b: Seq<char>)
    requires encode_utf8(a) == encode_utf8(b)
    ensures a == b
{
    encode_utf8_decode_utf8(a);
    encode_utf8_decode_utf8(b);
}

/// splitting a str at the byte offset of char index ci splits its chars at ci
pub proof fn lemma_split_views(s: &str, a: &str, b: &str, ci: int)
    requires
        0 <= ci <= s@.len(),
        a.spec_bytes() == s.spec_bytes().subrange(0, byte_off(s@, ci)),
        b.spec_bytes() == s.spec_bytes().subrange(byte_off(s@, ci), s.spec_bytes().len() as int),
    ensures a@ == s@.take(ci), b@ == s@.skip(ci)
{
    lemma_bytes_split(s@, ci);
    lemma_encode_inj(a@, s@.take(ci));
    lemma_encode_inj(b@, s@.skip(ci));
}

/// an ASCII first char occupies exactly one byte
pub proof fn lemma_ascii_first(s: Seq<char>)
    requires s.len() > 0, (s[0] as u32) < 0x80
    ensures byte_off(s, 1) == 1, encode_utf8(s)[0] == s[0] as u8, encode_utf8(s).len() >= 1
{
    let first = s.take(1);
    assert(first =~= seq![s[0]]);
    assert(is_ascii_chars(first));
    is_ascii_chars_encode_utf8(first);
    lemma_bytes_split(s, 1);
}

// ---- TRUSTED: std functions without a vstd specification ------------------------------------

/// R-method-map: `s.find(pred)` => `vx_str_find(s, pred)` for `s: &str` and a char predicate.
/// std: "Returns the byte index of the first character of this string slice that matches the pattern."
#[verifier::external_body]
pub fn vx_str_find<F: Fn(char) -> bool>(s: &str, pred: F) -> (r: Option<usize>)
    requires forall|c: char| call_requires(pred, (c,))
    ensures
        match r {
            Some(i) => exists|ci: int| 0 <= ci < s@.len() && i as int == byte_off(s@, ci)
                && call_ensures(pred, (s@[ci],), true)
                && (forall|j: int| 0 <= j < ci ==> call_ensures(pred, (#[trigger] s@[j],), false)),
            None => forall|j: int| 0 <= j < s@.len() ==> call_ensures(pred, (#[trigger] s@[j],), false),
        }
{ s.find(pred) }

pub assume_specification [char::is_ascii_graphic] (c: &char) -> (r: bool)
    ensures r == ('!' <= *c && *c <= '~');

// ---- verified wrappers (bodies are checked by Verus; they only repackage vstd's byte-level specs) ----

/// `s.spec_bytes()` is the UTF-8 encoding of `s@` (vstd axiom), so its length is the offset of the end
pub broadcast proof fn lemma_len_is_byte_off(s: &str)
    ensures #[trigger] s.spec_bytes().len() == byte_off(s@, s@.len() as int)
{
    lemma_byte_off_ends(s@);
}

/// R-method-map: `s.split_at(mid)` => `vx_split_at(s, mid)`. The body *is* `s.split_at(mid)`; the
/// contract restates vstd's byte-level one at the level of chars.
pub fn vx_split_at<'a>(s: &'a str, mid: usize) -> (r: (&'a str, &'a str))
    requires exists|ci: int| 0 <= ci <= s@.len() && mid as int == #[trigger] byte_off(s@, ci)
    ensures
        forall|ci: int| 0 <= ci <= s@.len() && mid as int == #[trigger] byte_off(s@, ci)
            ==> r.0@ == s@.take(ci) && r.1@ == s@.skip(ci) && s@ == r.0@ + r.1@,
        r.0.spec_bytes().len() == mid,
{
    proof {
        let ci = choose|ci: int| 0 <= ci <= s@.len() && mid as int == #[trigger] byte_off(s@, ci);
        lemma_byte_off_boundary(s@, ci);
        lemma_bytes_split(s@, ci);
    }
    let r = s.split_at(mid);
    proof {
        axiom_str_len_fits(s);
        assert forall|ci: int| 0 <= ci <= s@.len() && mid as int == #[trigger] byte_off(s@, ci)
            implies r.0@ == s@.take(ci) && r.1@ == s@.skip(ci) && s@ == r.0@ + r.1@ by {
            lemma_split_views(s, r.0, r.1, ci);
            assert(s@ =~= s@.take(ci) + s@.skip(ci));
        }
    }
    r
}

/// TRUSTED: `&s[a..]` on a str (std: panics if `a` is not on a char boundary or is past the end;
/// otherwise the suffix starting at byte `a`). vstd's own spec of str range indexing is not usable
/// from outside vstd in this Verus build, so the byte-level contract is stated here.
#[verifier::external_body]
pub fn vx_str_from_raw<'a>(s: &'a str, a: usize) -> (r: &'a str)
    requires a <= s.spec_bytes().len(), is_char_boundary(s.spec_bytes(), a as int)
    ensures r.spec_bytes() == s.spec_bytes().subrange(a as int, s.spec_bytes().len() as int)
{ &s[a..] }

/// R-strslice: `&s[a..]` => `vx_str_from(s, a)`: verified char-level wrapper of the above.
pub fn vx_str_from<'a>(s: &'a str, a: usize) -> (r: &'a str)
    requires exists|ci: int| 0 <= ci <= s@.len() && a as int == #[trigger] byte_off(s@, ci)
    ensures
        forall|ci: int| 0 <= ci <= s@.len() && a as int == #[trigger] byte_off(s@, ci)
            ==> r@ == s@.skip(ci),
{
    proof {
        let ci = choose|ci: int| 0 <= ci <= s@.len() && a as int == #[trigger] byte_off(s@, ci);
        lemma_byte_off_boundary(s@, ci);
        lemma_bytes_split(s@, ci);
    }
    let r = vx_str_from_raw(s, a);
    proof {
        assert forall|ci: int| 0 <= ci <= s@.len() && a as int == #[trigger] byte_off(s@, ci)
            implies r@ == s@.skip(ci) by {
            lemma_bytes_split(s@, ci);
            lemma_encode_inj(r@, s@.skip(ci));
        }
    }
    r
}

/// offset facts used at call sites (broadcast so that no positional hint is needed)
pub broadcast proof fn lemma_byte_off_pos(s: Seq<char>, ci: int)
    requires 0 <= ci <= s.len()
    ensures (#[trigger] byte_off(s, ci) > 0) == (ci > 0), byte_off(s, ci) >= ci
    decreases ci
{
    lemma_byte_off_ends(s);
    if ci > 0 {
        lemma_byte_off_mono(s, 0, ci);
        lemma_byte_off_pos(s, ci - 1);
        lemma_byte_off_mono(s, ci - 1, ci);
    }
}

pub broadcast proof fn lemma_ascii_first_b(s: Seq<char>)
    requires s.len() > 0, (s[0] as u32) < 0x80
    ensures #[trigger] byte_off(s, 1) == 1
{
    lemma_ascii_first(s);
}

/// the first char occupies `len_utf8` bytes
pub broadcast proof fn lemma_first_char_off(s: Seq<char>)
    requires s.len() > 0
    ensures #[trigger] byte_off(s, 1) == encode_scalar(s[0] as u32).len(), 1 <= byte_off(s, 1) <= 4
{
    let f = s.take(1);
    assert(f.drop_first() =~= Seq::<char>::empty());
    assert(f[0] == s[0]);
    reveal_with_fuel(encode_utf8, 2);
    assert(encode_utf8(f) =~= encode_scalar(s[0] as u32));
    char_is_scalar(s[0]);
}

/// TRUSTED: a str never holds more than usize::MAX bytes (Rust allocations are limited to isize::MAX),
/// so `str::len()` (specified by vstd as `spec_bytes().len() as usize`) is the exact byte length.
#[verifier::external_body]
pub broadcast proof fn axiom_str_len_fits(s: &str)
    ensures #[trigger] s.spec_bytes().len() <= usize::MAX
{
}

pub broadcast group group_str_model {
    axiom_str_len_fits,
    lemma_len_is_byte_off,
    lemma_byte_off_pos,
    lemma_ascii_first_b,
    lemma_first_char_off,
}
