// ---------------------------------------------------------------------------------------------
// prelude: parser_common.rs — text-conservation frame of the two rowan-based parsers (verified
// definitions only; needs token_text.rs, rowan_model.rs and the unit's extracted `Parser`).
// ---------------------------------------------------------------------------------------------
pub type SyntaxNode = rowan::SyntaxNode;

impl Parser {
    /// all text the parser is responsible for: what the builder already holds, then the stack
    pub open spec fn all_text(&self) -> Seq<char> {
        self.builder@.text + stack_text(self.tokens@)
    }
}

/// Frame of every parser method: the set of open nodes is restored, no character is lost, invented or
/// reordered, the stack only shrinks, recorded errors only grow.
pub open spec fn parser_step(old: Parser, new: Parser) -> bool {
    &&& new.builder@.depth == old.builder@.depth
    &&& new.builder@.tops == old.builder@.tops
    &&& new.builder@.root_kind == old.builder@.root_kind
    &&& new.all_text() == old.all_text()
    &&& new.tokens@.len() <= old.tokens@.len()
    &&& new.errors@.len() >= old.errors@.len()
}

/// like parser_step, but k more nodes are open than at entry
pub open spec fn parser_mid(old: Parser, new: Parser, k: nat) -> bool {
    &&& new.builder@.depth == old.builder@.depth + k
    &&& new.builder@.tops == old.builder@.tops
    &&& new.builder@.root_kind == old.builder@.root_kind
    &&& new.all_text() == old.all_text()
    &&& new.tokens@.len() <= old.tokens@.len()
    &&& new.errors@.len() >= old.errors@.len()
}
