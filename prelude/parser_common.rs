// ---------------------------------------------------------------------------------------------
// prelude: parser_common.rs — specification vocabulary shared by the two rowan-based parsers
// (src/lossless.rs and debian-control/src/lossless/relations.rs): text conservation.
// Nothing here is trusted: spec functions and lemmas verified on every run. The unit provides
// `SyntaxKind` and the extracted `Parser { tokens, builder, errors, .. }`.
// ---------------------------------------------------------------------------------------------

pub type SyntaxNode = rowan::SyntaxNode;

/// text of the token stack in consumption order (the stack is reversed: its last element is next)
pub open spec fn stack_text(toks: Seq<(SyntaxKind, String)>) -> Seq<char>
    decreases toks.len()
{
    if toks.len() == 0 { Seq::empty() } else { toks.last().1@ + stack_text(toks.drop_last()) }
}

/// text of a token list in file order
pub open spec fn fwd_text(toks: Seq<(SyntaxKind, String)>) -> Seq<char>
    decreases toks.len()
{
    if toks.len() == 0 { Seq::empty() } else { fwd_text(toks.drop_last()) + toks.last().1@ }
}

pub open spec fn cur_kind(toks: Seq<(SyntaxKind, String)>) -> Option<SyntaxKind> {
    if toks.len() > 0 { Some(toks.last().0) } else { None }
}

pub proof fn lemma_stack_text_reverse(toks: Seq<(SyntaxKind, String)>)
    ensures stack_text(toks.reverse()) == fwd_text(toks)
    decreases toks.len()
{
    if toks.len() == 0 {
        assert(toks.reverse() =~= toks);
    } else {
        let r = toks.reverse();
        // r.last() == toks[0]; r.drop_last() == toks.skip(1).reverse()
        assert(r.last() == toks[0]);
        assert(r.drop_last() =~= toks.skip(1).reverse());
        lemma_stack_text_reverse(toks.skip(1));
        lemma_fwd_text_front(toks);
    }
}

pub proof fn lemma_fwd_text_front(toks: Seq<(SyntaxKind, String)>)
    requires toks.len() > 0
    ensures fwd_text(toks) == toks[0].1@ + fwd_text(toks.skip(1))
    decreases toks.len()
{
    if toks.len() == 1 {
        assert(toks.drop_last() =~= Seq::<(SyntaxKind, String)>::empty());
        assert(toks.skip(1) =~= Seq::<(SyntaxKind, String)>::empty());
        assert(fwd_text(toks) =~= toks[0].1@ + fwd_text(toks.skip(1)));
    } else {
        lemma_fwd_text_front(toks.drop_last());
        assert(toks.drop_last().skip(1) =~= toks.skip(1).drop_last());
        assert(toks.skip(1).last() == toks.last());
        assert(fwd_text(toks) =~= toks[0].1@ + fwd_text(toks.skip(1)));
    }
}

impl Parser {
    /// all text the parser is responsible for: what the builder already holds, then the stack
    pub open spec fn all_text(&self) -> Seq<char> {
        self.builder@.text + stack_text(self.tokens@)
    }
}

/// Frame of every parser method: the set of open nodes is restored, no character is lost, invented or
/// reordered, the stack only shrinks, recorded errors only grow.
pub open spec fn parser_step(old: Parser, new: Parser) -> bool {
    &&& new.builder@.depth == old.builder@.depth
    &&& new.builder@.tops == old.builder@.tops
    &&& new.builder@.root_kind == old.builder@.root_kind
    &&& new.all_text() == old.all_text()
    &&& new.tokens@.len() <= old.tokens@.len()
    &&& new.errors@.len() >= old.errors@.len()
}

/// like parser_step, but k more nodes are open than at entry
pub open spec fn parser_mid(old: Parser, new: Parser, k: nat) -> bool {
    &&& new.builder@.depth == old.builder@.depth + k
    &&& new.builder@.tops == old.builder@.tops
    &&& new.builder@.root_kind == old.builder@.root_kind
    &&& new.all_text() == old.all_text()
    &&& new.tokens@.len() <= old.tokens@.len()
    &&& new.errors@.len() >= old.errors@.len()
}
