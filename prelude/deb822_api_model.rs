// ---------------------------------------------------------------------------------------------
// ASSUMED prelude: deb822_api_model.rs — `deb822_lossless::Paragraph` as an ordered list of
// (name, value) pairs with the list-edit contract of property C04. C04 itself is NOT proved by this
// framework (rowan tree edited through &self); everything verified on top of this file is relative
// to that assumption, and comments / formatting of the paragraph are outside the model.
// ---------------------------------------------------------------------------------------------
/// what the strict lossless reader shows for a text: its paragraphs as field lists, or None when it rejects the text
pub uninterp spec fn lossless_view(text: Seq<char>) -> Option<Seq<Seq<(Seq<char>, Seq<char>)>>>;

pub mod deb822_lossless {
    use super::*;

    #[verifier::external_body]
    pub struct Paragraph { _p: () }

    impl Paragraph {
        /// fields in file order
        pub uninterp spec fn view(&self) -> Seq<(Seq<char>, Seq<char>)>;

        #[verifier::external_body]
        pub fn new() -> (r: Self)
            ensures r@ == Seq::<(Seq<char>, Seq<char>)>::empty()
        { unimplemented!() }

        /// value of the first field of that name
        #[verifier::external_body]
        pub fn get(&self, key: &str) -> (r: Option<String>)
            ensures match list_get(self@, key@) { Some(v) => r is Some && r->Some_0@ == v, None => r is None }
        { unimplemented!() }

        #[verifier::external_body]
        pub fn contains_key(&self, key: &str) -> (r: bool)
            ensures r == (first_idx(self@, key@) >= 0)
        { unimplemented!() }

        /// replaces the first field of that name in place, or appends
        #[verifier::external_body]
        pub fn set(&mut self, key: &str, value: &str)
            ensures final(self)@ == list_set(old(self)@, key@, value@)
        { unimplemented!() }

        /// always appends
        #[verifier::external_body]
        pub fn insert(&mut self, key: &str, value: &str)
            ensures final(self)@ == list_insert(old(self)@, key@, value@)
        { unimplemented!() }

        /// deletes every field of that name
        #[verifier::external_body]
        pub fn remove(&mut self, key: &str)
            ensures final(self)@ == list_remove(old(self)@, key@)
        { unimplemented!() }
    }

    /// stand-ins for the crate's error types (never inspected)
    pub struct ParseError;
    pub enum Error { ParseError(ParseError), IoError(VxOpaqueErr) }

    /// a lossless document as the list of its paragraphs (each a field list), in file order
    #[verifier::external_body]
    pub struct Deb822 { _p: () }

    impl Deb822 {
        pub uninterp spec fn view(&self) -> Seq<Seq<(Seq<char>, Seq<char>)>>;

        #[verifier::external_body]
        pub fn paragraphs(&self) -> (r: VxIter<Paragraph>)
            ensures r@.len() == self@.len(), forall|i: int| 0 <= i < r@.len() ==> (#[trigger] r@[i])@ == self@[i]
        { unimplemented!() }

        /// strict reader: a function of the text (C01/C03, unit deb822tree: the tree is parse_text(s), the views are
        /// functions of the tree). `lossless_view(text)` names what it shows: None when it rejects the text.
        #[verifier::external_body]
        pub fn from_str(s: &str) -> (r: Result<Deb822, ParseError>)
            ensures match r { Ok(d) => lossless_view(s@) == Some(d@), Err(_) => lossless_view(s@) is None }
        { unimplemented!() }

        #[verifier::external_body]
        pub fn from_str_relaxed(s: &str) -> (r: (Deb822, Vec<String>))
        { unimplemented!() }
    }
}
