// ---------------------------------------------------------------------------------------------
// ASSUMED prelude: deb822_api_model.rs — `deb822_lossless::Paragraph` as an ordered list of
// (name, value) pairs with the list-edit contract of property C04. C04 itself is NOT proved by this
// framework (rowan tree edited through &self); everything verified on top of this file is relative
// to that assumption, and comments / formatting of the paragraph are outside the model.
// ---------------------------------------------------------------------------------------------
pub mod deb822_lossless {
    use super::*;

    #[verifier::external_body]
    pub struct Paragraph { _p: () }

    impl Paragraph {
        /// fields in file order
        pub uninterp spec fn view(&self) -> Seq<(Seq<char>, Seq<char>)>;

        #[verifier::external_body]
        pub fn new() -> (r: Self)
            ensures r@ == Seq::<(Seq<char>, Seq<char>)>::empty()
        { unimplemented!() }

        /// value of the first field of that name
        #[verifier::external_body]
        pub fn get(&self, key: &str) -> (r: Option<String>)
            ensures match list_get(self@, key@) { Some(v) => r is Some && r->Some_0@ == v, None => r is None }
        { unimplemented!() }

        #[verifier::external_body]
        pub fn contains_key(&self, key: &str) -> (r: bool)
            ensures r == (first_idx(self@, key@) >= 0)
        { unimplemented!() }

        /// replaces the first field of that name in place, or appends
        #[verifier::external_body]
        pub fn set(&mut self, key: &str, value: &str)
            ensures final(self)@ == list_set(old(self)@, key@, value@)
        { unimplemented!() }

        /// always appends
        #[verifier::external_body]
        pub fn insert(&mut self, key: &str, value: &str)
            ensures final(self)@ == list_insert(old(self)@, key@, value@)
        { unimplemented!() }

        /// deletes every field of that name
        #[verifier::external_body]
        pub fn remove(&mut self, key: &str)
            ensures final(self)@ == list_remove(old(self)@, key@)
        { unimplemented!() }
    }
}
