// ---------------------------------------------------------------------------------------------
// TRUSTED prelude: strmap_model.rs - `std::collections::HashMap<String, V>` read through `get(&str)` (Borrow<str>), as
// a finite map from texts to values (R-type-map target).
// ---------------------------------------------------------------------------------------------
#[verifier::external_body]
#[verifier::reject_recursive_types(V)]
pub struct VxStrMap<V> { m: std::collections::HashMap<String, V> }
impl<V> VxStrMap<V> {
    pub uninterp spec fn view(&self) -> Map<Seq<char>, V>;
    /// HashMap::get with a &str key
    #[verifier::external_body]
    pub fn get(&self, k: &str) -> (r: Option<&V>)
        ensures match r { Some(v) => self@.dom().contains(k@) && *v == self@[k@], None => !self@.dom().contains(k@) }
    { unimplemented!() }
}
