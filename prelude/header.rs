#![allow(unused_imports, dead_code, unused_variables, unused_mut, non_camel_case_types, unused_assignments, unused_parens, unused_braces, non_snake_case, unreachable_code, non_upper_case_globals)]
use vstd::prelude::*;
use vstd::string::*;
use vstd::utf8::*;
use vstd::std_specs::iter::IteratorSpec;
