// ---------------------------------------------------------------------------------------------
// TRUSTED prelude: vec_model.rs — Vec/slice methods without a vstd specification.
// ---------------------------------------------------------------------------------------------

/// R-method-map: `v.reverse()` => `vx_vec_reverse(&mut v)` (slice::reverse through DerefMut)
#[verifier::external_body]
pub fn vx_vec_reverse<T>(v: &mut Vec<T>)
    ensures final(v)@ == old(v)@.reverse()
{ v.reverse() }
